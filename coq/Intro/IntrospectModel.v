(** * Intro/IntrospectModel.v — C10: schema definitions and the standard introspection result.

    Hand transcription of
      graphql/schema/schema.go:51-114          [New]: named-type registry + interface implementations
      graphql/schema/inspect.go                [Inspect]: the traversal that feeds the registry
      graphql/schema/introspection/introspection.go:22-566   the __Schema/__Type/__Field/
                                               __InputValue/__EnumValue/__Directive resolvers
      graphql/schema/introspection/query.go    the fixed document [introspection.Query]
    composed with the executor's value completion for that one document: the result of
    [graphql.Execute(S, F, introspection.Query)] as a tree.  (The executor itself is C01's
    subject; here only what it does on this document is transcribed: null for nil pointers /
    nil results, lists element by element, enum result coercion of __TypeKind and
    __DirectiveLocation, a failing nullable field becomes null plus one error.)

    No proofs in this file. *)
From Coq Require Import List NArith ZArith Bool String Ascii.
From ApiFu Require Import Base.Sexp.
Import ListNotations.

(** ** Schema definitions (DESIGN Appendix A, the part introspection looks at) *)

Definition name := bytes.            (* a GraphQL name as its bytes; a Go pointer to a named type *)
Definition text := bytes.            (* descriptions, deprecation reasons: UTF-8 bytes *)
Definition features := list name.    (* a FeatureSet *)

Inductive sty := StNamed (n : name) | StList (t : sty) | StNonNull (t : sty).

(** Go-level default values.  Strings are code-point lists; an invalid UTF-8 byte [b] of the Go
    string is the code point [0xDC00 + b] (never produced by decoding valid UTF-8).  A float
    carries its value [m * 2^e] and the decimal text strconv/encoding-json print for it
    (float formatting is not modelled; the text crosses as data and is checked by the oracle). *)
Inductive gval :=
| GNull                                  (* schema.Null *)
| GInt (z : Z)
| GFloat (m e : Z) (txt : bytes)
| GString (s : list N)
| GBool (b : bool)
| GList (vs : list gval)
| GMap (kvs : list (name * gval)).       (* what an input object's ResultCoercion returns, in Go's iteration order *)

Record input_def := { in_type : sty; in_default : option gval; in_desc : text }.
Record field_def := { f_type : sty; f_args : list (name * input_def); f_features : features;
                      f_deprecation : text; f_desc : text }.
Record enum_val := { ev_value : gval; ev_desc : text; ev_deprecation : text }.

Inductive named_type :=
| NScalar (builtin : bool) (accept_all : bool) (req : features) (desc : text)
    (* accept_all: the LiteralCoercion accepts every literal (or there is none) *)
| NEnum (vals : list (name * enum_val)) (req : features) (desc : text)
| NInput (fields : list (name * input_def)) (req : features) (has_result_coercion : bool) (desc : text)
| NObject (fields : list (name * field_def)) (ifaces : list name) (req : features) (desc : text)
| NInterface (fields : list (name * field_def)) (req : features) (desc : text)
| NUnion (members : list name) (req : features) (desc : text).

Record dir_def := { dd_args : list (name * input_def); dd_locs : list name; dd_desc : text }.

(** [types] is the heap of named types (association list, Go pointers are names); maps
    ([Fields], [Arguments], [Values], [Directives]) are association lists in one of Go's possible
    iteration orders.  [additional] is [AdditionalTypes]. *)
Record schema := { types : list (name * named_type);
                   query : name; mutation : option name; subscription : option name;
                   additional : list name;
                   directives : list (name * dir_def) }.

(** ** small helpers *)
Fixpoint lookup {A} (k : name) (l : list (name * A)) : option A :=
  match l with
  | [] => None
  | (k', v) :: r => if bytes_eqb k k' then Some v else lookup k r
  end.

Definition mem (n : name) (l : list name) : bool := existsb (bytes_eqb n) l.
Definition subset (a b : features) : bool := forallb (fun x => mem x b) a.   (* FeatureSet.IsSubsetOf *)

Fixpoint unwrap (t : sty) : name :=
  match t with StNamed n => n | StList u => unwrap u | StNonNull u => unwrap u end.

Definition nt_req (t : named_type) : features :=
  match t with
  | NScalar _ _ r _ | NEnum _ r _ | NInput _ r _ _ | NObject _ _ r _ | NInterface _ r _ | NUnion _ r _ => r
  end.
Definition nt_desc (t : named_type) : text :=
  match t with
  | NScalar _ _ _ d | NEnum _ _ d | NInput _ _ _ d | NObject _ _ _ d | NInterface _ _ d | NUnion _ _ d => d
  end.

(** ** The registry: schema.New + Inspect *)

(** named types one [Inspect] step away from a field definition / input value definition *)
Definition field_succs (f : field_def) : list name :=
  unwrap (f_type f) :: map (fun a => unwrap (in_type (snd a))) (f_args f).

(** children of a named type in Inspect's order (inspect.go:27-49); applied directives
    ([Directives []*Directive] of enums and scalars) are not part of this model *)
Definition succs (t : named_type) : list name :=
  match t with
  | NScalar _ _ _ _ => []
  | NEnum _ _ _ => []
  | NInput fs _ _ _ => map (fun a => unwrap (in_type (snd a))) fs
  | NObject fs ifs _ _ => flat_map (fun f => field_succs (snd f)) fs ++ ifs
  | NInterface fs _ _ => flat_map (fun f => field_succs (snd f)) fs
  | NUnion ms _ _ => ms
  end.

(** roots in Inspect's order for *SchemaDefinition (inspect.go:17-26) *)
Definition opt_list {A} (o : option A) : list A := match o with Some x => [x] | None => [] end.
Definition roots (S : schema) : list name :=
  flat_map (fun d => map (fun a => unwrap (in_type (snd a))) (dd_args (snd d))) (directives S)
  ++ [query S] ++ opt_list (mutation S) ++ opt_list (subscription S) ++ additional S.

(** depth-first traversal with the "already visited" test of schema.go:89-94.  [seen] is in
    reverse order of first visit.  [None] = out of fuel. *)
Fixpoint dfs (S : schema) (fuel : nat) (todo : list name) (seen : list name) : option (list name) :=
  match fuel with
  | O => None
  | Datatypes.S fuel' =>
      match todo with
      | [] => Some seen
      | n :: rest =>
          if mem n seen then dfs S fuel' rest seen
          else match lookup n (types S) with
               | None => dfs S fuel' rest seen                 (* dangling: cannot happen with pointers *)
               | Some t => dfs S fuel' (succs t ++ rest) (n :: seen)
               end
      end
  end.

(** enough fuel: every traversal step pops one entry; entries are the roots plus, once per
    type, its children *)
Definition dfs_fuel (S : schema) : nat :=
  Datatypes.S (List.length (roots S) + fold_right (fun t acc => List.length (succs (snd t)) + acc)%nat O (types S)).

(** namedTypes in order of first visit *)
Definition registry (S : schema) : option (list name) :=
  match dfs S (dfs_fuel S) (roots S) [] with
  | Some seen => Some (rev seen)
  | None => None
  end.

(** interfaceImplementations[iface]: schema.go:97-101 appends the object once per entry of its
    ImplementedInterfaces, when the object is first visited *)
Definition implementations (S : schema) (reg : list name) (iface : name) : list name :=
  flat_map (fun o => match lookup o (types S) with
                     | Some (NObject _ ifs _ _) => flat_map (fun i => if bytes_eqb i iface then [o] else []) ifs
                     | _ => []
                     end) reg.

(** ** The result tree of introspection.Query *)

Inductive kind := KScalar | KObject | KInterface | KUnion | KEnum | KInputObject | KList | KNonNull.

Definition kind_of_named (t : named_type) : kind :=
  match t with
  | NScalar _ _ _ _ => KScalar | NEnum _ _ _ => KEnum | NInput _ _ _ _ => KInputObject
  | NObject _ _ _ _ => KObject | NInterface _ _ _ => KInterface | NUnion _ _ _ => KUnion
  end.

(** fragment TypeRef: kind, name, ofType nested.  [tr_kind = None] only for a dangling name. *)
Inductive tref := TRef (k : option kind) (n : option name) (of_type : option tref).

(** the result is polymorphic in how a default value is presented: the implementation prints a
    text, the specification names the configured value *)
Section Tree.
  Variable D : Type.
  Record r_input := { ri_name : name; ri_desc : option text; ri_type : tref; ri_default : D }.
  Record r_field := { rf_name : name; rf_desc : option text; rf_args : list r_input; rf_type : tref;
                      rf_deprecated : bool; rf_reason : option text }.
  Record r_enum := { re_name : name; re_desc : option text; re_deprecated : bool; re_reason : option text }.
  Record r_type := { rt_kind : kind; rt_name : name; rt_desc : option text;
                     rt_fields : option (list r_field); rt_inputs : option (list r_input);
                     rt_ifaces : option (list tref); rt_enums : option (list r_enum);
                     rt_possible : option (list tref) }.
  Record r_directive := { rd_name : name; rd_desc : option text; rd_locs : list name; rd_args : list r_input }.
  Record r_schema := { rs_query : name; rs_mutation : option name; rs_subscription : option name;
                       rs_types : list r_type; rs_directives : list r_directive }.
End Tree.
Arguments ri_name {D}. Arguments ri_desc {D}. Arguments ri_type {D}. Arguments ri_default {D}.
Arguments rf_name {D}. Arguments rf_desc {D}. Arguments rf_args {D}. Arguments rf_type {D}.
Arguments rf_deprecated {D}. Arguments rf_reason {D}.
Arguments rt_kind {D}. Arguments rt_name {D}. Arguments rt_desc {D}. Arguments rt_fields {D}.
Arguments rt_inputs {D}. Arguments rt_ifaces {D}. Arguments rt_enums {D}. Arguments rt_possible {D}.
Arguments rd_name {D}. Arguments rd_desc {D}. Arguments rd_locs {D}. Arguments rd_args {D}.
Arguments rs_query {D}. Arguments rs_mutation {D}. Arguments rs_subscription {D}.
Arguments rs_types {D}. Arguments rs_directives {D}.

(** nullableString (introspection.go:42-47) *)
Definition nullable_string (s : text) : option text := match s with [] => None | _ => Some s end.

(** The query asks for [kind name] and seven nested [ofType { kind name }]: eight levels. *)
Definition query_depth : nat := 8.

(** resolver "kind"/"name"/"ofType" followed along fragment TypeRef to depth [d];
    [None] = the query does not select this level *)
Fixpoint type_ref (S : schema) (d : nat) (t : sty) : option tref :=
  match d with
  | O => None
  | Datatypes.S d' =>
      Some (match t with
            | StNamed n => TRef (option_map kind_of_named (lookup n (types S))) (Some n) None
            | StList u => TRef (Some KList) None (type_ref S d' u)
            | StNonNull u => TRef (Some KNonNull) None (type_ref S d' u)
            end)
  end.

(** a selected [type { ...TypeRef }] / list element: the first level always exists *)
Definition type_ref_top (S : schema) (t : sty) : tref :=
  match type_ref S query_depth t with Some r => r | None => TRef None None None end.

Definition named_ref (S : schema) (n : name) : tref := type_ref_top S (StNamed n).

(** defaultValue resolver (introspection.go:554-563) is a parameter here: [pr T d] is
    marshalValue; the tree is built for any printer *)
Section Resolvers.
  Variable D : Type.
  Variable pr : sty -> option gval -> D.
  Variable S : schema.
  Variable F : features.

  (** inputValues (introspection.go:49-58) + __InputValue resolvers *)
  Definition intro_input (a : name * input_def) : r_input D :=
    {| ri_name := fst a; ri_desc := nullable_string (in_desc (snd a));
       ri_type := type_ref_top S (in_type (snd a));
       ri_default := pr (in_type (snd a)) (in_default (snd a)) |}.

  (** __Field resolvers *)
  Definition intro_field (f : name * field_def) : r_field D :=
    {| rf_name := fst f; rf_desc := nullable_string (f_desc (snd f));
       rf_args := map intro_input (f_args (snd f));
       rf_type := type_ref_top S (f_type (snd f));
       rf_deprecated := negb (match f_deprecation (snd f) with [] => true | _ => false end);
       rf_reason := nullable_string (f_deprecation (snd f)) |}.

  (** "fields" resolver with includeDeprecated: true (introspection.go:239-260) *)
  Definition intro_fields (fs : list (name * field_def)) : list (r_field D) :=
    map intro_field (filter (fun f => subset (f_features (snd f)) F) fs).

  (** __EnumValue resolvers; "enumValues" with includeDeprecated: true *)
  Definition intro_enum (v : name * enum_val) : r_enum :=
    {| re_name := fst v; re_desc := nullable_string (ev_desc (snd v));
       re_deprecated := negb (match ev_deprecation (snd v) with [] => true | _ => false end);
       re_reason := nullable_string (ev_deprecation (snd v)) |}.

  (** [t.TypeRequiredFeatures().IsSubsetOf(ctx.Features)] on a type pointer *)
  Definition type_enabled (n : name) : bool :=
    match lookup n (types S) with Some t => subset (nt_req t) F | None => false end.

  (** fragment FullType on one registered type.  "interfaces" and "possibleTypes" list only the
      types whose required features are enabled (introspection.go, after the repair "introspection
      by-name lookup and membership listings ignored request features") *)
  Definition intro_type (reg : list name) (n : name) (t : named_type) : r_type D :=
    {| rt_kind := kind_of_named t; rt_name := n; rt_desc := nullable_string (nt_desc t);
       rt_fields := match t with
                    | NObject fs _ _ _ => Some (intro_fields fs)
                    | NInterface fs _ _ => Some (intro_fields fs)
                    | _ => None
                    end;
       rt_inputs := match t with NInput fs _ _ _ => Some (map intro_input fs) | _ => None end;
       rt_ifaces := match t with NObject _ ifs _ _ => Some (map (named_ref S) (filter type_enabled ifs)) | _ => None end;
       rt_enums := match t with NEnum vs _ _ => Some (map intro_enum vs) | _ => None end;
       rt_possible := match t with
                      | NInterface _ _ _ => Some (map (named_ref S) (filter type_enabled (implementations S reg n)))
                      | NUnion ms _ _ => Some (map (named_ref S) (filter type_enabled ms))
                      | _ => None
                      end |}.

  (** "types" resolver (introspection.go:71-80): registered types whose required features are
      enabled *)
  Definition intro_types (reg : list name) : list (r_type D) :=
    flat_map (fun n => match lookup n (types S) with
                       | Some t => if subset (nt_req t) F then [intro_type reg n t] else []
                       | None => []
                       end) reg.

  Definition intro_directive (d : name * dir_def) : r_directive D :=
    {| rd_name := fst d; rd_desc := nullable_string (dd_desc (snd d));
       rd_locs := dd_locs (snd d); rd_args := map intro_input (dd_args (snd d)) |}.
End Resolvers.

(** the eighteen values of __DirectiveLocation (introspection.go:339-397); their Go values are
    the same strings as their names *)
Definition s2b (s : string) : bytes := map (fun c => N_of_ascii c) (list_ascii_of_string s).
Definition n_Int : name := s2b "Int".
Definition n_Float : name := s2b "Float".
Definition n_String : name := s2b "String".
Definition n_Boolean : name := s2b "Boolean".
Definition n_ID : name := s2b "ID".
(** schema.BuiltInTypes, by name *)
Definition is_builtin_name (n : name) : bool :=
  bytes_eqb n n_Int || bytes_eqb n n_Float || bytes_eqb n n_String || bytes_eqb n n_Boolean || bytes_eqb n n_ID.
Definition known_locations : list name :=
  map s2b ["QUERY"; "MUTATION"; "SUBSCRIPTION"; "FIELD"; "FRAGMENT_DEFINITION"; "FRAGMENT_SPREAD";
           "INLINE_FRAGMENT"; "SCHEMA"; "SCALAR"; "OBJECT"; "FIELD_DEFINITION"; "ARGUMENT_DEFINITION";
           "INTERFACE"; "UNION"; "ENUM"; "ENUM_VALUE"; "INPUT_OBJECT"; "INPUT_FIELD_DEFINITION"]%string.

Inductive intro_result (D : Type) :=
| IntroOk (r : r_schema D)
| IntroNullData          (* an error below non-null positions only: "data": null *)
| IntroOutOfFuel.
Arguments IntroOk {D}. Arguments IntroNullData {D}. Arguments IntroOutOfFuel {D}.

(** Execute(S, F, introspection.Query).  A location outside the enum fails result coercion in a
    non-null position below __schema, which nulls the whole response. *)
Definition introspect {D} (pr : sty -> option gval -> D) (S : schema) (F : features) : intro_result D :=
  match registry S with
  | None => IntroOutOfFuel
  | Some reg =>
      if negb (forallb (fun d => forallb (fun l => mem l known_locations) (dd_locs (snd d))) (directives S))
      then IntroNullData
      else IntroOk {| rs_query := query S; rs_mutation := mutation S; rs_subscription := subscription S;
                      rs_types := intro_types D pr S F reg;
                      rs_directives := map (intro_directive D pr S) (directives S) |}
  end.

(** ** normalise: sort wherever the Go code ranges over a map (or, for the implementations of an
    interface, appends in map-driven traversal order).  Slices keep their order: union members,
    an object's interfaces, directive locations. *)

Fixpoint name_leb (a b : name) : bool :=
  match a, b with
  | [], _ => true
  | _ :: _, [] => false
  | x :: a', y :: b' => if N.ltb x y then true else if N.ltb y x then false else name_leb a' b'
  end.

Section Sort.
  Variable A : Type.
  Variable key : A -> name.
  Fixpoint insert (x : A) (l : list A) : list A :=
    match l with
    | [] => [x]
    | y :: r => if name_leb (key x) (key y) then x :: l else y :: insert x r
    end.
  Definition sort_by (l : list A) : list A := fold_right insert [] l.
End Sort.
Arguments insert {A}. Arguments sort_by {A}.

Definition tref_name (r : tref) : name := match r with TRef _ (Some n) _ => n | _ => [] end.

Section Normalise.
  Variable D : Type.
  Definition norm_inputs (l : list (r_input D)) := sort_by ri_name l.
  Definition norm_field (f : r_field D) : r_field D :=
    {| rf_name := rf_name f; rf_desc := rf_desc f; rf_args := norm_inputs (rf_args f); rf_type := rf_type f;
       rf_deprecated := rf_deprecated f; rf_reason := rf_reason f |}.
  Definition norm_type (t : r_type D) : r_type D :=
    {| rt_kind := rt_kind t; rt_name := rt_name t; rt_desc := rt_desc t;
       rt_fields := option_map (fun fs => sort_by rf_name (map norm_field fs)) (rt_fields t);
       rt_inputs := option_map norm_inputs (rt_inputs t);
       rt_ifaces := rt_ifaces t;
       rt_enums := option_map (sort_by re_name) (rt_enums t);
       rt_possible := match rt_kind t with
                      | KInterface => option_map (sort_by tref_name) (rt_possible t)
                      | _ => rt_possible t
                      end |}.
  Definition norm_directive (d : r_directive D) : r_directive D :=
    {| rd_name := rd_name d; rd_desc := rd_desc d; rd_locs := rd_locs d; rd_args := norm_inputs (rd_args d) |}.
  Definition normalise (r : r_schema D) : r_schema D :=
    {| rs_query := rs_query r; rs_mutation := rs_mutation r; rs_subscription := rs_subscription r;
       rs_types := sort_by rt_name (map norm_type (rs_types r));
       rs_directives := sort_by rd_name (map norm_directive (rs_directives r)) |}.
End Normalise.
Arguments normalise {D}.
