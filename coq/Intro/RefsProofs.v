(** * Intro/RefsProofs.v — every type reference of the description resolves to a listed type, and
    the listing has each type exactly once. *)
From Coq Require Import List NArith ZArith Bool Lia Permutation.
From ApiFu Require Import Base.Sexp Intro.IntrospectModel Intro.IntrospectSpec Intro.SortLemmas Intro.GraphProofs
     Intro.IntrospectProofs.
Import ListNotations.

Arguments mem : simpl never.

Lemma subset_spec a b : subset a b = true <-> forall x, In x a -> In x b.
Proof.
  unfold subset. rewrite forallb_forall. split; intros H x Hx; [apply mem_in | apply mem_in]; auto.
Qed.

Lemma subset_app_trans a b c F : subset a (b ++ c) = true -> subset b F = true -> subset c F = true -> subset a F = true.
Proof.
  rewrite !subset_spec. intros H1 H2 H3 x Hx. specialize (H1 x Hx). apply in_app_iff in H1. destruct H1; auto.
Qed.

Lemma subset_trans a b F : subset a b = true -> subset b F = true -> subset a F = true.
Proof. rewrite !subset_spec. auto. Qed.

Lemma ref_leaf_full S t : ref_leaf (full_ref S t) = Some (unwrap t).
Proof. induction t; simpl; auto. Qed.

Section Refs.
  Variable D : Type.
  Variable pr : sty -> option gval -> D.
  Variable S : schema.
  Variable F : features.

  Lemma listed_spec n : In n (listed S F) <-> belongs S n /\ visible_type S F n = true.
  Proof.
    unfold listed. rewrite in_sort, filter_In. destruct (members_spec S) as [_ [H _]]. rewrite H. tauto.
  Qed.

  Lemma listed_nodup : NoDup (listed S F).
  Proof.
    unfold listed. eapply Permutation_NoDup; [apply Permutation_sym, sort_perm|].
    apply NoDup_filter. apply members_spec.
  Qed.

  Lemma visible_defined n : visible_type S F n = true -> defined S n = true.
  Proof. unfold visible_type, defined. destruct (lookup n (types S)); auto. Qed.

  Lemma described_names : map rt_name (rs_types (describe pr S F)) = listed S F.
  Proof.
    unfold describe; simpl.
    assert (H : forall l, (forall n, In n l -> defined S n = true) ->
               map rt_name (flat_map (fun n => match lookup n (types S) with
                                               | Some t => [describe_type D pr S F n t]
                                               | None => []
                                               end) l) = l).
    { induction l as [|n l IH]; intro Hl; simpl; auto.
      pose proof (Hl n (or_introl eq_refl)) as Hd. unfold defined in Hd.
      destruct (lookup n (types S)); [|discriminate]. simpl. rewrite IH; auto. intros; apply Hl; right; auto. }
    apply H. intros n Hn. apply listed_spec in Hn. apply visible_defined. tauto.
  Qed.

  (** the types listing: each type that belongs to the definition and is visible, exactly once *)
  Theorem described_types_once :
    NoDup (map rt_name (rs_types (describe pr S F))) /\
    forall n, In n (map rt_name (rs_types (describe pr S F))) <-> belongs S n /\ visible_type S F n = true.
  Proof. rewrite described_names. split; [apply listed_nodup | apply listed_spec]. Qed.

  Hypothesis Hdef : refs_defined S = true.
  Hypothesis Hnest : gating_nested S = true.
  Hypothesis Hroots : roots_visible S F = true.

  Lemma mention_listed n t x :
    In n (listed S F) -> lookup n (types S) = Some t -> In x (mentions t) -> subset (req_of S x) F = true ->
    In x (listed S F).
  Proof.
    intros Hn Hl Hx Hv. apply listed_spec in Hn. destruct Hn as [Hb _].
    assert (Hd : defined S x = true).
    { unfold refs_defined in Hdef. apply andb_true_iff in Hdef as [H1 _]. rewrite forallb_forall in H1.
      specialize (H1 _ (lookup_in _ _ _ Hl)). rewrite forallb_forall in H1. auto. }
    apply listed_spec. split; [eapply belongs_mention; eauto|].
    unfold visible_type, req_of, defined in *. destruct (lookup x (types S)); [exact Hv | discriminate].
  Qed.

  Lemma nested_of n t : lookup n (types S) = Some t -> type_gating_ok S t = true.
  Proof.
    intro Hl. unfold gating_nested in Hnest. rewrite forallb_forall in Hnest. apply (Hnest _ (lookup_in _ _ _ Hl)).
  Qed.

  Definition resolves (r : tref) : Prop := exists x, ref_leaf r = Some x /\ In x (listed S F).

  Lemma input_resolves n t parent (a : name * input_def) :
    In n (listed S F) -> lookup n (types S) = Some t -> In (unwrap (in_type (snd a))) (mentions t) ->
    subset (req_of S (unwrap (in_type (snd a)))) parent = true -> subset parent F = true ->
    resolves (ri_type (describe_input D pr S a)).
  Proof.
    intros Hn Hl Hm Hs Hp. exists (unwrap (in_type (snd a))). split; [apply ref_leaf_full|].
    eapply mention_listed; eauto. eapply subset_trans; eauto.
  Qed.

  Lemma in_describe_inputs i l : In i (describe_inputs D pr S l) -> exists a, In a l /\ i = describe_input D pr S a.
  Proof.
    unfold describe_inputs. rewrite in_sort, in_map_iff. intros [a [E H]]. eauto.
  Qed.

  Lemma type_visible_req n t : In n (listed S F) -> lookup n (types S) = Some t -> subset (nt_req t) F = true.
  Proof.
    intros Hn Hl. apply listed_spec in Hn. destruct Hn as [_ Hv]. unfold visible_type in Hv. rewrite Hl in Hv. exact Hv.
  Qed.

  Lemma fields_resolve n t fs r0 :
    In n (listed S F) -> lookup n (types S) = Some t ->
    (forall f, In f fs -> forall x, In x (unwrap (f_type (snd f)) :: map (fun a => unwrap (in_type (snd a))) (f_args (snd f))) -> In x (mentions t)) ->
    forallb (field_gating_ok S r0) fs = true -> subset r0 F = true ->
    forall rf, In rf (describe_fields D pr S F fs) -> Forall resolves (field_refs D rf).
  Proof.
    intros Hn Hl Hm Hg Hr rf Hrf.
    unfold describe_fields in Hrf. apply in_sort in Hrf. apply in_map_iff in Hrf. destruct Hrf as [f [<- Hf]].
    apply filter_In in Hf. destruct Hf as [Hf Hvis].
    rewrite forallb_forall in Hg. specialize (Hg f Hf). unfold field_gating_ok in Hg. apply andb_true_iff in Hg as [G1 G2].
    unfold field_refs, describe_field; simpl. constructor.
    - exists (unwrap (f_type (snd f))). split; [apply ref_leaf_full|].
      eapply mention_listed; eauto; [apply (Hm f Hf); left; auto|].
      eapply subset_app_trans; eauto.
    - apply Forall_forall. intros x Hx. apply in_flat_map in Hx. destruct Hx as [i [Hi Hx]].
      destruct Hx as [<-|[]]. apply in_describe_inputs in Hi. destruct Hi as [a [Ha ->]].
      rewrite forallb_forall in G2. specialize (G2 a Ha).
      exists (unwrap (in_type (snd a))). split; [apply ref_leaf_full|].
      eapply mention_listed; eauto.
      + apply (Hm f Hf). right. apply in_map_iff. eauto.
      + eapply subset_app_trans; eauto.
  Qed.

  Lemma field_mentions_object fs ifs r d f x : In f fs ->
    In x (unwrap (f_type (snd f)) :: map (fun a => unwrap (in_type (snd a))) (f_args (snd f))) ->
    In x (mentions (NObject fs ifs r d)).
  Proof. intros Hf Hx. simpl. apply in_app_iff. right. apply in_flat_map. eauto. Qed.

  Lemma field_mentions_interface fs r d f x : In f fs ->
    In x (unwrap (f_type (snd f)) :: map (fun a => unwrap (in_type (snd a))) (f_args (snd f))) ->
    In x (mentions (NInterface fs r d)).
  Proof. intros Hf Hx. simpl. apply in_flat_map. eauto. Qed.

  Lemma named_resolves x : In x (listed S F) -> resolves (ref_to S x).
  Proof. intro H. exists x. split; auto. Qed.

  Lemma type_resolves n t : In n (listed S F) -> lookup n (types S) = Some t ->
    Forall resolves (type_refs D (describe_type D pr S F n t)).
  Proof.
    intros Hn Hl. pose proof (nested_of n t Hl) as Hg. pose proof (type_visible_req n t Hn Hl) as Hr.
    unfold type_refs, describe_type; simpl.
    destruct t as [b a r d | vs r d | fs r rc d | fs ifs r d | fs r d | ms r d]; simpl in *;
      repeat (apply Forall_app; split); try constructor.
    - (* input fields *)
      apply Forall_forall. intros x Hx. apply in_flat_map in Hx. destruct Hx as [i [Hi [<-|[]]]].
      apply in_describe_inputs in Hi. destruct Hi as [a [Ha ->]].
      rewrite forallb_forall in Hg.
      eapply input_resolves; eauto. simpl. apply in_map_iff. eauto.
    - (* object fields *)
      apply Forall_forall. intros x Hx. apply in_flat_map in Hx. destruct Hx as [rf [Hrf Hx]].
      pose proof (fields_resolve n _ fs r Hn Hl (fun f Hf x Hx => field_mentions_object fs ifs r d f x Hf Hx) Hg Hr rf Hrf) as H.
      rewrite Forall_forall in H. auto.
    - (* interfaces of an object *)
      apply Forall_forall. intros x Hx. apply in_map_iff in Hx. destruct Hx as [i [<- Hi]].
      apply filter_In in Hi. destruct Hi as [Hi Hv]. apply named_resolves.
      apply listed_spec. split; auto. apply listed_spec in Hn. destruct Hn as [Hb _].
      eapply belongs_mention; eauto; [simpl; apply in_app_iff; auto | apply visible_defined; auto].
    - (* interface fields *)
      apply Forall_forall. intros x Hx. apply in_flat_map in Hx. destruct Hx as [rf [Hrf Hx]].
      pose proof (fields_resolve n _ fs r Hn Hl (fun f Hf x Hx => field_mentions_interface fs r d f x Hf Hx) Hg Hr rf Hrf) as H.
      rewrite Forall_forall in H. auto.
    - (* possibleTypes of an interface *)
      apply Forall_forall. intros x Hx. apply in_map_iff in Hx. destruct Hx as [o [<- Ho]].
      apply named_resolves. unfold implementers in Ho. apply filter_In in Ho. tauto.
    - (* union members *)
      apply Forall_forall. intros x Hx. apply in_map_iff in Hx. destruct Hx as [m [<- Hm]].
      apply filter_In in Hm. destruct Hm as [Hm _].
      apply named_resolves. rewrite forallb_forall in Hg.
      eapply mention_listed; eauto. eapply subset_trans; eauto.
  Qed.

  Theorem describe_refs_resolve : refs_resolve (describe pr S F) = true.
  Proof.
    unfold refs_resolve. rewrite described_names.
    unfold roots_visible in Hroots. apply andb_true_iff in Hroots as [HR HR3]. apply andb_true_iff in HR as [HR1 HR2].
    assert (Hentry : forall x, In x (entry_points S) -> visible_type S F x = true -> In x (listed S F)).
    { intros x Hx Hv. apply listed_spec. split; auto. apply belongs_entry; auto. apply visible_defined; auto. }
    apply andb_true_iff. split.
    - apply forallb_forall. intros x Hx.
      assert (R : resolves x).
      { unfold all_refs in Hx. apply in_app_iff in Hx. destruct Hx as [Hx|Hx].
        - apply in_flat_map in Hx. destruct Hx as [rt [Hrt Hx]].
          unfold describe in Hrt; simpl in Hrt. apply in_flat_map in Hrt. destruct Hrt as [n [Hn Hrt]].
          destruct (lookup n (types S)) as [t|] eqn:El; [|destruct Hrt]. destruct Hrt as [<-|[]].
          pose proof (type_resolves n t Hn El) as H. rewrite Forall_forall in H. auto.
        - apply in_flat_map in Hx. destruct Hx as [rd [Hrd Hx]].
          unfold describe in Hrd; simpl in Hrd. apply in_sort in Hrd. apply in_map_iff in Hrd. destruct Hrd as [d [<- Hd]].
          simpl in Hx. apply in_flat_map in Hx. destruct Hx as [i [Hi [<-|[]]]].
          apply in_describe_inputs in Hi. destruct Hi as [a [Ha ->]].
          exists (unwrap (in_type (snd a))). split; [apply ref_leaf_full|].
          rewrite forallb_forall in HR3. specialize (HR3 d Hd). rewrite forallb_forall in HR3. specialize (HR3 a Ha).
          apply Hentry; auto. unfold entry_points. rewrite !in_app_iff. right. right. right. right.
          apply in_flat_map. exists d. split; auto. apply in_map_iff. eauto. }
      destruct R as [y [E Hy]]. rewrite E. apply mem_in. exact Hy.
    - apply forallb_forall. intros x Hx. apply mem_in. unfold root_names in Hx; simpl in Hx.
      rewrite forallb_forall in HR2.
      destruct Hx as [<-|Hx].
      + apply Hentry; auto. unfold entry_points. simpl. auto.
      + apply Hentry; [|apply HR2; exact Hx].
        unfold entry_points. simpl. right. rewrite !in_app_iff. apply in_app_iff in Hx. tauto.
  Qed.
End Refs.

(** the same about the implementation's (model's) own output *)
Theorem introspect_refs_resolve (D : Type) (pr : sty -> option gval -> D) S F r :
  depth_ok S = true -> interfaces_declared_once S = true -> locations_known S = true ->
  refs_defined S = true -> gating_nested S = true -> roots_visible S F = true ->
  introspect pr S F = IntroOk r -> refs_resolve (normalise r) = true.
Proof.
  intros H1 H3 H4 H5 H6 H7 Hr.
  destruct (introspect_describes D pr S F H3 H1 H4) as [r' [Hr' E]]. rewrite Hr in Hr'. inversion Hr'; subst r'.
  rewrite E. apply describe_refs_resolve; auto.
Qed.
