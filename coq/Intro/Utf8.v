(** * Intro/Utf8.v — UTF-8 encoding of one code point, and decimal digits.
    Shared, executable definitions (no proofs).  [utf8_encode] is what Go does when a rune is
    appended to a string ([string(r)], [utf8.AppendRune]); modelled, not verified. *)
From Coq Require Import List NArith ZArith Bool.
From ApiFu Require Import Base.Sexp.
Import ListNotations.
Open Scope N_scope.

Definition utf8_encode (c : N) : bytes :=
  if c <? 128 then [c]
  else if c <? 2048 then [192 + c / 64; 128 + c mod 64]
  else if c <? 65536 then [224 + c / 4096; 128 + (c / 64) mod 64; 128 + c mod 64]
  else [240 + c / 262144; 128 + (c / 4096) mod 64; 128 + (c / 64) mod 64; 128 + c mod 64].

(** a Go string as code points: an invalid byte [b] of the string is [0xDC00 + b] *)
Definition is_invalid_byte_mark (c : N) : bool := (56448 <=? c) && (c <=? 56575).   (* DC80..DCFF *)
Definition is_surrogate (c : N) : bool := (55296 <=? c) && (c <=? 57343).           (* D800..DFFF *)

(** ** decimal digits (strconv.Itoa / encoding/json's integer encoder) *)
Fixpoint N_digits (fuel : nat) (n : N) : bytes :=
  match fuel with
  | O => []
  | S f => if n <? 10 then [48 + n] else N_digits f (n / 10) ++ [48 + n mod 10]
  end.
(** a number has no more decimal digits than binary ones *)
Definition N_decimal (n : N) : bytes := N_digits (S (N.to_nat (N.size n))) n.
Definition Z_decimal (z : Z) : bytes :=
  match z with
  | Z0 => [48]
  | Zpos p => N_decimal (Npos p)
  | Zneg p => 45 :: N_decimal (Npos p)
  end.

Definition hex_digit (n : N) : N := if n <? 10 then 48 + n else 87 + n.   (* lower case, as encoding/json *)
