(** * Intro/CloneProofs.v — Clone(): the copy represents the same definition and shares no
    identity with the original except the built-in singletons. *)
From Coq Require Import List NArith ZArith Bool Lia Permutation.
From ApiFu Require Import Base.Sexp Intro.IntrospectModel Intro.IntrospectSpec Intro.RebuildSpec Intro.Clone
     Intro.SortLemmas Intro.GraphProofs.
Import ListNotations.
Open Scope N_scope.

Arguments mem : simpl never.

(** ** forgetting identities commutes with copying *)
Section Strip.
  Variable tbl : list (name * (id * kind)).

  Lemma strip_fix_type t : forall next, strip_ty (fst (fix_type tbl t next)) = strip_ty t.
  Proof.
    induction t as [n tg|s u IH|s u IH]; intro next; simpl.
    - destruct (is_builtin_name n); [reflexivity|]. destruct (lookup n tbl) as [[i k]|]; reflexivity.
    - specialize (IH next). destruct (fix_type tbl u next) as [u' n1]. simpl in *. rewrite IH. reflexivity.
    - specialize (IH next). destruct (fix_type tbl u next) as [u' n1]. simpl in *. rewrite IH. reflexivity.
  Qed.

  Lemma strip_copy_set s next : strip_set (fst (copy_set s next)) = strip_set s.
  Proof. destruct s as [[i l]|]; reflexivity. Qed.

  Lemma strip_copy_entries {A B} (f : A -> N -> A * N) (g : A -> B) :
    (forall v n, g (fst (f v n)) = g v) ->
    forall l next, map (fun kv => (fst kv, g (snd kv))) (fst (copy_entries f l next)) = map (fun kv => (fst kv, g (snd kv))) l.
  Proof.
    intros H l. induction l as [|[k v] r IH]; intro next; simpl; auto.
    pose proof (H v next) as Hv. destruct (f v next) as [v' n1]. specialize (IH n1).
    destruct (copy_entries f r n1) as [r' n2]. simpl in *. rewrite Hv, IH. reflexivity.
  Qed.

  Lemma strip_copy_map {A B} (f : A -> N -> A * N) (g : A -> B) :
    (forall v n, g (fst (f v n)) = g v) -> forall m next, strip_map g (fst (copy_map f m next)) = strip_map g m.
  Proof.
    intros H [[i l]|] next; simpl; auto.
    pose proof (strip_copy_entries f g H l (next + 1)) as E. destruct (copy_entries f l (next + 1)) as [l' n2]. exact E.
  Qed.

  Lemma strip_copy_input i next : strip_input (fst (copy_input tbl i next)) = strip_input i.
  Proof.
    unfold copy_input. simpl. pose proof (strip_fix_type (gi_type i) (next + 1)) as E.
    destruct (fix_type tbl (gi_type i) (next + 1)) as [t n2]. unfold strip_input; simpl in *. rewrite E. reflexivity.
  Qed.

  Lemma strip_copy_field f next : strip_field (fst (copy_field tbl f next)) = strip_field f.
  Proof.
    unfold copy_field. simpl.
    pose proof (strip_copy_set (gf_features f) (next + 1)) as E1. destruct (copy_set (gf_features f) (next + 1)) as [r n2].
    pose proof (strip_fix_type (gf_type f) n2) as E2. destruct (fix_type tbl (gf_type f) n2) as [t n3].
    pose proof (strip_copy_map (copy_input tbl) strip_input strip_copy_input (gf_args f) n3) as E3.
    destruct (copy_map (copy_input tbl) (gf_args f) n3) as [a n4].
    unfold strip_field; simpl in *. rewrite E1, E2, E3. reflexivity.
  Qed.

  Lemma strip_copy_enum_val v next : strip_enum_val (fst (copy_enum_val v next)) = strip_enum_val v.
  Proof. reflexivity. Qed.

  Lemma strip_copy_slice want s next : strip_slice (fst (copy_slice tbl want s next)) = strip_slice s.
  Proof.
    destruct s as [[i l]|]; simpl; auto.
    assert (E : map fst (map (fun e : name * id => match lookup (fst e) tbl with
                                        | Some (i0, k) => match want with
                                                          | Some w => if kind_is w k then (fst e, i0) else e
                                                          | None => (fst e, i0)
                                                          end
                                        | None => e
                                        end) l) = map fst l).
    { rewrite map_map. apply map_ext. intros e. destruct (lookup (fst e) tbl) as [[i0 k]|]; auto.
      destruct want as [w|]; auto. destruct (kind_is w k); auto. }
    destruct l as [|e r]; simpl in *; auto.
  Qed.

  Lemma strip_copy_named self' t next : strip_named (fst (copy_named tbl self' t next)) = strip_named t.
  Proof.
    destruct t as [s b a r d|s vs r d|s fs r rc d|s fs ifs r d|s fs r d|s ms r d]; simpl.
    - pose proof (strip_copy_set r next) as E. destruct (copy_set r next) as [r' n1]. simpl in *. rewrite E. reflexivity.
    - pose proof (strip_copy_set r next) as E. destruct (copy_set r next) as [r' n1].
      pose proof (strip_copy_map copy_enum_val strip_enum_val strip_copy_enum_val vs n1) as E2.
      destruct (copy_map copy_enum_val vs n1) as [vs' n2]. simpl in *. rewrite E, E2. reflexivity.
    - pose proof (strip_copy_set r next) as E. destruct (copy_set r next) as [r' n1].
      pose proof (strip_copy_map (copy_input tbl) strip_input strip_copy_input fs n1) as E2.
      destruct (copy_map (copy_input tbl) fs n1) as [fs' n2]. simpl in *. rewrite E, E2. reflexivity.
    - pose proof (strip_copy_set r next) as E. destruct (copy_set r next) as [r' n1].
      pose proof (strip_copy_map (copy_field tbl) strip_field strip_copy_field fs n1) as E2.
      destruct (copy_map (copy_field tbl) fs n1) as [fs' n2].
      pose proof (strip_copy_slice (Some KInterface) ifs n2) as E3.
      destruct (copy_slice tbl (Some KInterface) ifs n2) as [ifs' n3]. simpl in *. rewrite E, E2, E3. reflexivity.
    - pose proof (strip_copy_set r next) as E. destruct (copy_set r next) as [r' n1].
      pose proof (strip_copy_map (copy_field tbl) strip_field strip_copy_field fs n1) as E2.
      destruct (copy_map (copy_field tbl) fs n1) as [fs' n2]. simpl in *. rewrite E, E2. reflexivity.
    - pose proof (strip_copy_set r next) as E. destruct (copy_set r next) as [r' n1].
      pose proof (strip_copy_slice (Some KObject) ms n1) as E3.
      destruct (copy_slice tbl (Some KObject) ms n1) as [ms' n2]. simpl in *. rewrite E, E3. reflexivity.
  Qed.

  Lemma strip_copy_dir d next : strip_dir (fst (copy_dir tbl d next)) = strip_dir d.
  Proof.
    unfold copy_dir, alloc.
    destruct (gd_locs d) as [[i [|x ls]]|] eqn:El; cbv beta iota zeta;
      match goal with
      | |- context [copy_map (copy_input tbl) (gd_args d) ?n] =>
          pose proof (strip_copy_map (copy_input tbl) strip_input strip_copy_input (gd_args d) n) as E3;
          destruct (copy_map (copy_input tbl) (gd_args d) n) as [a n3]
      end;
      unfold strip_dir; cbn [fst snd gd_args gd_locs gd_desc gd_self] in *; rewrite E3, El; reflexivity.
  Qed.
End Strip.

Lemma filter_all_true {A} (p : A -> bool) l : (forall x, In x l -> p x = true) -> filter p l = l.
Proof. induction l as [|x r IH]; simpl; intro H; auto. rewrite H by (left; auto). rewrite IH; auto. Qed.

(** the definition restricted to a list of names, in that order *)
Definition restrict (reg : list name) (S : schema) : schema :=
  {| types := flat_map (fun n => match lookup n (types S) with Some t => [(n, t)] | None => [] end) reg;
     query := query S; mutation := mutation S; subscription := subscription S;
     additional := additional S; directives := directives S |}.

Lemma lookup_strip n l : lookup n (map (fun t : name * g_named => (fst t, strip_named (snd t))) l) = option_map strip_named (lookup n l).
Proof.
  induction l as [|[k v] r IH]; simpl; auto. destruct (bytes_eqb n k); auto.
Qed.

Lemma second_pass_strip G tbl : forall todo next,
  map (fun t => (fst t, strip_named (snd t))) (fst (second_pass G tbl todo next))
  = flat_map (fun e => match lookup (fst e) (types (strip G)) with Some t => [(fst e, t)] | None => [] end) todo.
Proof.
  induction todo as [|[n [i k]] r IH]; intro next; simpl; auto.
  rewrite lookup_strip. destruct (lookup n (g_types G)) as [t|] eqn:El; simpl; [|apply IH].
  assert (Hgen : forall t' n1, strip_named t' = strip_named t ->
            map (fun t0 => (fst t0, strip_named (snd t0))) (fst (let '(ts, n2) := second_pass G tbl r n1 in ((n, t') :: ts, n2)))
            = (n, strip_named t) :: flat_map (fun e => match lookup (fst e) (types (strip G)) with Some t0 => [(fst e, t0)] | None => [] end) r).
  { intros t' n1 Ht. specialize (IH n1). destruct (second_pass G tbl r n1) as [ts n2]. simpl in *. rewrite Ht, IH. reflexivity. }
  destruct t as [s [] a rq d|s vs rq d|s fs rq rc d|s fs ifs rq d|s fs rq d|s ms rq d];
    try (apply Hgen; reflexivity);
    match goal with
    | |- context [copy_named tbl i ?T next] =>
        pose proof (strip_copy_named tbl i T next) as E; destruct (copy_named tbl i T next) as [t' n1]; apply Hgen; exact E
    end.
Qed.

Lemma first_pass_names G : forall reg next,
  map fst (fst (first_pass G reg next)) = filter (fun n => match lookup n (g_types G) with Some _ => true | None => false end) reg.
Proof.
  induction reg as [|n r IH]; intro next; simpl; auto.
  destruct (lookup n (g_types G)) as [t|] eqn:El; [|apply IH].
  destruct t as [s [] a rq d|s vs rq d|s fs rq rc d|s fs ifs rq d|s fs rq d|s ms rq d]; simpl;
    try (specialize (IH (next + 1)); destruct (first_pass G r (next + 1)) as [tb n2]; simpl in *; rewrite IH; reflexivity).
  specialize (IH next). destruct (first_pass G r next) as [tb n1]. simpl in *. rewrite IH. reflexivity.
Qed.

(** Clone() represents the same definition: exactly the registered types, each unchanged *)
Theorem clone_same_definition G next G' next' reg :
  registry (strip G) = Some reg -> clone G next = Cloned G' next' -> strip G' = restrict reg (strip G).
Proof.
  intros Hreg Hc. unfold clone in Hc. rewrite Hreg in Hc.
  destruct (first_pass G reg next) as [tbl n1] eqn:E1.
  destruct (second_pass G tbl tbl n1) as [ts n2] eqn:E2.
  simpl in Hc.
  destruct (clone_root tbl (g_query G)) as [q|] eqn:Eq; [|discriminate].
  destruct (match g_mutation G with None => Some None | Some r => option_map Some (clone_root tbl r) end) as [mu|] eqn:Em; [|discriminate].
  destruct (match g_subscription G with None => Some None | Some r => option_map Some (clone_root tbl r) end) as [su|] eqn:Es; [|discriminate].
  destruct (copy_map (copy_dir tbl) (g_directives G) (n2 + 1)) as [dirs n4] eqn:Ed.
  destruct (copy_slice tbl None (g_additional G) n4) as [add n5] eqn:Ea.
  inversion Hc; subst G' next'; clear Hc.
  unfold strip, restrict; simpl. f_equal.
  - pose proof (second_pass_strip G tbl tbl n1) as H. rewrite E2 in H. simpl in H. rewrite H.
    pose proof (first_pass_names G reg next) as Hn. rewrite E1 in Hn. simpl in Hn.
    (* flat_map over the table = flat_map over the registry *)
    assert (Hreg_def : forall n, In n reg -> defined (strip G) n = true) by (destruct (registry_spec (strip G)) as [reg' [H' [_ [_ Hd]]]]; rewrite Hreg in H'; inversion H'; subst; exact Hd).
    assert (Hall : filter (fun n => match lookup n (g_types G) with Some _ => true | None => false end) reg = reg).
    { apply filter_all_true. intros n Hin. specialize (Hreg_def n Hin). unfold defined, strip in Hreg_def. simpl in Hreg_def.
      rewrite lookup_strip in Hreg_def. destruct (lookup n (g_types G)); auto. }
    rewrite Hall in Hn. rewrite <- Hn. clear. induction tbl as [|[n e] r IH]; simpl; auto. rewrite IH. reflexivity.
  - unfold clone_root in Eq. destruct (lookup (fst (g_query G)) tbl) as [[i []]|]; try discriminate. inversion Eq. reflexivity.
  - destruct (g_mutation G) as [r|]; [|inversion Em; reflexivity].
    unfold clone_root in Em. destruct (lookup (fst r) tbl) as [[i []]|]; try discriminate. inversion Em. reflexivity.
  - destruct (g_subscription G) as [r|]; [|inversion Es; reflexivity].
    unfold clone_root in Es. destruct (lookup (fst r) tbl) as [[i []]|]; try discriminate. inversion Es. reflexivity.
  - pose proof (strip_copy_slice tbl None (g_additional G) n4) as H. rewrite Ea in H. exact H.
  - pose proof (strip_copy_map (copy_dir tbl) strip_dir (strip_copy_dir tbl) (g_directives G) (n2 + 1)) as H. rewrite Ed in H. exact H.
Qed.

(** ** freshness *)
Definition tys_input (i : g_input) : list gsty := [gi_type i].
Definition vals {A} (m : gmap A) : list A := match m with Some (_, l) => map snd l | None => [] end.
Definition tys_field (f : g_field) : list gsty := gf_type f :: flat_map tys_input (vals (gf_args f)).
Definition tys_named (t : g_named) : list gsty :=
  match t with
  | GInput _ fs _ _ _ => flat_map tys_input (vals fs)
  | GObject _ fs _ _ _ | GInterface _ fs _ _ => flat_map tys_field (vals fs)
  | _ => []
  end.
Definition slices_named (t : g_named) : list (option kind * gslice) :=
  match t with
  | GObject _ _ ifs _ _ => [(Some KInterface, ifs)]
  | GUnion _ ms _ _ => [(Some KObject, ms)]
  | _ => []
  end.
Definition elems (s : gslice) : list (name * id) := match s with Some (_, l) => l | None => [] end.

Section Fresh.
  Variable next0 : N.
  Variable B : list id.                 (* the built-in identities *)
  Variable tbl : list (name * (id * kind)).

  Definition ok (i : id) : Prop := next0 <= i \/ In i B.

  Hypothesis Htbl : forall n i k, lookup n tbl = Some (i, k) -> ok i.

  Fixpoint leaf_ok (t : gsty) : Prop :=
    match t with
    | GtNamed n tg => (is_builtin_name n = true -> In tg B) /\ (is_builtin_name n = false -> exists e, lookup n tbl = Some e)
    | GtList _ u | GtNonNull _ u => leaf_ok u
    end.

  Definition slice_ok (ws : option kind * gslice) : Prop :=
    forall e, In e (elems (snd ws)) ->
      exists i k, lookup (fst e) tbl = Some (i, k) /\ match fst ws with Some w => kind_is w k = true | None => True end.

  Lemma fix_type_ok t : forall next, next0 <= next -> leaf_ok t ->
    next <= snd (fix_type tbl t next) /\ Forall ok (ids_ty (fst (fix_type tbl t next))).
  Proof.
    induction t as [n tg|s u IH|s u IH]; intros next Hn Hl; simpl in *.
    - destruct Hl as [H1 H2]. destruct (is_builtin_name n) eqn:Eb.
      + simpl. split; [lia|]. constructor; [right; auto|constructor].
      + destruct (H2 eq_refl) as [[i k] He]. rewrite He. simpl. split; [lia|]. constructor; [eapply Htbl; eauto|constructor].
    - destruct (IH next Hn Hl) as [I1 I2]. destruct (fix_type tbl u next) as [u' n1]. simpl in *.
      split; [lia|]. constructor; [left; lia | exact I2].
    - destruct (IH next Hn Hl) as [I1 I2]. destruct (fix_type tbl u next) as [u' n1]. simpl in *.
      split; [lia|]. constructor; [left; lia | exact I2].
  Qed.

  Lemma copy_set_ok s next : next0 <= next -> next <= snd (copy_set s next) /\ Forall ok (ids_set (fst (copy_set s next))).
  Proof.
    intro Hn. destruct s as [[i l]|]; simpl; split; try lia; repeat constructor. lia.
  Qed.

  Section Entries.
    Variable A : Type.
    Variable f : A -> N -> A * N.
    Variable idsf : A -> list id.
    Variable Pv : A -> Prop.
    Hypothesis Hf : forall v n, Pv v -> next0 <= n -> n <= snd (f v n) /\ Forall ok (idsf (fst (f v n))).

    Lemma copy_entries_ok l : forall next, next0 <= next -> Forall Pv (map snd l) ->
      next <= snd (copy_entries f l next) /\ Forall ok (flat_map (fun kv => idsf (snd kv)) (fst (copy_entries f l next))).
    Proof.
      induction l as [|[k v] r IH]; intros next Hn Hp; simpl; [split; [lia|constructor]|].
      inversion Hp as [|? ? Hv Hr]; subst.
      destruct (Hf v next Hv Hn) as [F1 F2]. destruct (f v next) as [v' n1]. simpl in *.
      destruct (IH n1 ltac:(lia) Hr) as [I1 I2]. destruct (copy_entries f r n1) as [r' n2]. simpl in *.
      split; [lia|]. apply Forall_app. split; auto.
    Qed.

    Lemma copy_map_ok m next : next0 <= next -> Forall Pv (vals m) ->
      next <= snd (copy_map f m next) /\ Forall ok (ids_map idsf (fst (copy_map f m next))).
    Proof.
      intros Hn Hp. destruct m as [[i l]|]; simpl; [|split; [lia|constructor]].
      destruct (copy_entries_ok l (next + 1) ltac:(lia) Hp) as [I1 I2].
      destruct (copy_entries f l (next + 1)) as [l' n2]. simpl in *.
      split; [lia|]. constructor; [left; lia | exact I2].
    Qed.
  End Entries.

  Lemma copy_input_ok i next : Forall leaf_ok (tys_input i) -> next0 <= next ->
    next <= snd (copy_input tbl i next) /\ Forall ok (ids_input (fst (copy_input tbl i next))).
  Proof.
    intros Hl Hn. inversion Hl as [|? ? H1 _]; subst. unfold copy_input, alloc.
    destruct (fix_type_ok (gi_type i) (next + 1) ltac:(lia) H1) as [F1 F2].
    destruct (fix_type tbl (gi_type i) (next + 1)) as [t n2]. simpl in *.
    split; [lia|]. unfold ids_input; simpl. constructor; [left; lia | exact F2].
  Qed.

  Lemma copy_field_ok f next : Forall leaf_ok (tys_field f) -> next0 <= next ->
    next <= snd (copy_field tbl f next) /\ Forall ok (ids_field (fst (copy_field tbl f next))).
  Proof.
    intros Hl Hn. unfold tys_field in Hl. inversion Hl as [|? ? H1 H2]; subst.
    unfold copy_field, alloc.
    destruct (copy_set_ok (gf_features f) (next + 1) ltac:(lia)) as [S1 S2].
    destruct (copy_set (gf_features f) (next + 1)) as [r n2]. simpl in S1, S2.
    destruct (fix_type_ok (gf_type f) n2 ltac:(lia) H1) as [T1 T2].
    destruct (fix_type tbl (gf_type f) n2) as [t n3]. simpl in T1, T2.
    assert (Hargs : Forall (fun i => Forall leaf_ok (tys_input i)) (vals (gf_args f))).
    { apply Forall_forall. intros i Hi. apply Forall_forall. intros x Hx. rewrite Forall_forall in H2. apply H2.
      apply in_flat_map. eauto. }
    destruct (copy_map_ok _ (copy_input tbl) ids_input (fun i => Forall leaf_ok (tys_input i))
                (fun v n Hv Hn' => copy_input_ok v n Hv Hn') (gf_args f) n3 ltac:(lia) Hargs) as [A1 A2].
    destruct (copy_map (copy_input tbl) (gf_args f) n3) as [a n4]. simpl in *.
    split; [lia|]. unfold ids_field; simpl. constructor; [left; lia|].
    apply Forall_app. split; auto. apply Forall_app. split; auto.
  Qed.

  Lemma copy_enum_val_ok v next : True -> next0 <= next ->
    next <= snd (copy_enum_val v next) /\ Forall ok ((fun v => [gv_self v]) (fst (copy_enum_val v next))).
  Proof. intros _ Hn. simpl. split; [lia|]. constructor; [left; lia|constructor]. Qed.

  Lemma copy_slice_ok want s next : slice_ok (want, s) -> next0 <= next ->
    next <= snd (copy_slice tbl want s next) /\ Forall ok (ids_slice (fst (copy_slice tbl want s next))).
  Proof.
    intros Hs Hn. destruct s as [[i l]|]; simpl; [|split; [lia|constructor]].
    assert (Hmap : Forall ok (map snd (map (fun e : name * id => match lookup (fst e) tbl with
                                        | Some (i0, k) => match want with
                                                          | Some w => if kind_is w k then (fst e, i0) else e
                                                          | None => (fst e, i0)
                                                          end
                                        | None => e
                                        end) l))).
    { apply Forall_forall. intros x Hx. rewrite map_map in Hx. apply in_map_iff in Hx. destruct Hx as [e [<- He]].
      destruct (Hs e He) as [i0 [k [Hl Hk]]]. simpl in Hk. rewrite Hl.
      destruct want as [w|]; [rewrite Hk|]; simpl; eapply Htbl; eauto. }
    destruct l as [|e r].
    - simpl. split; [lia|constructor].
    - simpl. split; [lia|]. unfold ids_slice, nz. simpl in *.
      assert (next =? 0 = false \/ next =? 0 = true) as [->| ->] by (destruct (next =? 0); auto); simpl; auto.
      constructor; [left; lia | exact Hmap].
  Qed.

  Lemma copy_named_ok self' t next : ok self' -> Forall leaf_ok (tys_named t) -> Forall slice_ok (slices_named t) -> next0 <= next ->
    next <= snd (copy_named tbl self' t next) /\ Forall ok (ids_named (fst (copy_named tbl self' t next))).
  Proof.
    intros Hself Hl Hs Hn.
    assert (Hin : forall fs, Forall leaf_ok (flat_map tys_input (vals fs)) -> Forall (fun i => Forall leaf_ok (tys_input i)) (vals fs)).
    { intros fs H. apply Forall_forall. intros i Hi. apply Forall_forall. intros x Hx. rewrite Forall_forall in H. apply H. apply in_flat_map. eauto. }
    assert (Hfd : forall fs, Forall leaf_ok (flat_map tys_field (vals fs)) -> Forall (fun f => Forall leaf_ok (tys_field f)) (vals fs)).
    { intros fs H. apply Forall_forall. intros i Hi. apply Forall_forall. intros x Hx. rewrite Forall_forall in H. apply H. apply in_flat_map. eauto. }
    destruct t as [s b a r d|s vs r d|s fs r rc d|s fs ifs r d|s fs r d|s ms r d]; simpl in *;
      destruct (copy_set_ok r next Hn) as [S1 S2]; destruct (copy_set r next) as [r' n1]; simpl in S1, S2.
    - simpl. split; [lia|]. constructor; auto.
    - destruct (copy_map_ok _ copy_enum_val (fun v => [gv_self v]) (fun _ => True) copy_enum_val_ok vs n1 ltac:(lia)) as [A1 A2];
        [apply Forall_forall; auto|].
      destruct (copy_map copy_enum_val vs n1) as [vs' n2]. simpl in *. split; [lia|]. constructor; auto. apply Forall_app; auto.
    - destruct (copy_map_ok _ (copy_input tbl) ids_input _ (fun v n Hv Hn' => copy_input_ok v n Hv Hn') fs n1 ltac:(lia) (Hin fs Hl)) as [A1 A2].
      destruct (copy_map (copy_input tbl) fs n1) as [fs' n2]. simpl in *. split; [lia|]. constructor; auto. apply Forall_app; auto.
    - destruct (copy_map_ok _ (copy_field tbl) ids_field _ (fun v n Hv Hn' => copy_field_ok v n Hv Hn') fs n1 ltac:(lia) (Hfd fs Hl)) as [A1 A2].
      destruct (copy_map (copy_field tbl) fs n1) as [fs' n2]. simpl in A1, A2.
      inversion Hs as [|? ? Hs1 _]; subst.
      destruct (copy_slice_ok (Some KInterface) ifs n2 Hs1 ltac:(lia)) as [C1 C2].
      destruct (copy_slice tbl (Some KInterface) ifs n2) as [ifs' n3]. simpl in *. split; [lia|]. constructor; auto.
      apply Forall_app; split; auto. apply Forall_app; auto.
    - destruct (copy_map_ok _ (copy_field tbl) ids_field _ (fun v n Hv Hn' => copy_field_ok v n Hv Hn') fs n1 ltac:(lia) (Hfd fs Hl)) as [A1 A2].
      destruct (copy_map (copy_field tbl) fs n1) as [fs' n2]. simpl in *. split; [lia|]. constructor; auto. apply Forall_app; auto.
    - inversion Hs as [|? ? Hs1 _]; subst.
      destruct (copy_slice_ok (Some KObject) ms n1 Hs1 ltac:(lia)) as [C1 C2].
      destruct (copy_slice tbl (Some KObject) ms n1) as [ms' n2]. simpl in *. split; [lia|]. constructor; auto. apply Forall_app; auto.
  Qed.

  Lemma copy_dir_ok d next : Forall leaf_ok (flat_map tys_input (vals (gd_args d))) -> next0 <= next ->
    next <= snd (copy_dir tbl d next) /\ Forall ok (ids_dir (fst (copy_dir tbl d next))).
  Proof.
    intros Hl Hn.
    assert (Hargs : Forall (fun i => Forall leaf_ok (tys_input i)) (vals (gd_args d))).
    { apply Forall_forall. intros i Hi. apply Forall_forall. intros x Hx. rewrite Forall_forall in Hl. apply Hl. apply in_flat_map. eauto. }
    unfold copy_dir, alloc.
    destruct (gd_locs d) as [[i [|x ls]]|] eqn:El; cbv beta iota zeta;
      match goal with
      | |- context [copy_map (copy_input tbl) (gd_args d) ?n] =>
          destruct (copy_map_ok _ (copy_input tbl) ids_input _ (fun v n' Hv Hn' => copy_input_ok v n' Hv Hn') (gd_args d) n ltac:(lia) Hargs) as [A1 A2];
          destruct (copy_map (copy_input tbl) (gd_args d) n) as [a n3]
      end; simpl in *; (split; [lia|]); unfold ids_dir; simpl; constructor; try (left; lia);
      apply Forall_app; split; auto.
    all: unfold nz; try (change (0 =? 0) with true; cbv iota; constructor).
    all: destruct (next + 1 =? 0) eqn:E; [constructor|]; constructor; [left; lia|constructor].
  Qed.
End Fresh.

(** ** the theorem *)
Fixpoint leaf_name (t : gsty) : name := match t with GtNamed n _ => n | GtList _ u | GtNonNull _ u => leaf_name u end.
Fixpoint leaf_target (t : gsty) : id := match t with GtNamed _ tg => tg | GtList _ u | GtNonNull _ u => leaf_target u end.

Definition all_tys (G : g_schema) : list gsty :=
  flat_map (fun t => tys_named (snd t)) (g_types G)
  ++ flat_map (fun d => flat_map tys_input (vals (gd_args d))) (vals (g_directives G)).

(** a reference named like a built-in scalar points at the built-in singleton *)
Definition builtin_targets_ok (G : g_schema) : Prop :=
  forall t, In t (all_tys G) -> is_builtin_name (leaf_name t) = true -> In (leaf_target t) (builtin_ids G).

Lemma leaf_name_strip t : leaf_name t = unwrap (strip_ty t).
Proof. induction t; simpl; auto. Qed.

Lemma vals_strip {A B} (g : A -> B) (m : gmap A) : map snd (strip_map g m) = map g (vals m).
Proof. destruct m as [[i l]|]; simpl; auto. rewrite !map_map. reflexivity. Qed.

Lemma tys_named_succs t ty : In ty (tys_named t) -> In (leaf_name ty) (succs (strip_named t)).
Proof.
  rewrite leaf_name_strip.
  assert (Hin : forall fs, In ty (flat_map tys_input (vals fs)) ->
            In (unwrap (strip_ty ty)) (map (fun a : name * input_def => unwrap (in_type (snd a))) (strip_map strip_input fs))).
  { intros fs H. apply in_flat_map in H. destruct H as [i [Hi Hty]]. simpl in Hty. destruct Hty as [<-|[]].
    destruct fs as [[j l]|]; simpl in *; [|contradiction].
    apply in_map_iff in Hi. destruct Hi as [[k v] [<- Hv]]. rewrite map_map. apply in_map_iff. exists (k, v). split; auto. }
  assert (Hfd : forall fs, In ty (flat_map tys_field (vals fs)) ->
            In (unwrap (strip_ty ty)) (flat_map (fun f : name * field_def => field_succs (snd f)) (strip_map strip_field fs))).
  { intros fs H. apply in_flat_map in H. destruct H as [f [Hf Hty]].
    destruct fs as [[j l]|]; simpl in *; [|contradiction].
    apply in_map_iff in Hf. destruct Hf as [[k v] [<- Hv]]. apply in_flat_map. exists (k, strip_field v).
    split; [apply in_map_iff; exists (k, v); auto|]. unfold field_succs; simpl. unfold tys_field in Hty. simpl in Hty.
    destruct Hty as [<-|Hty]; [left; reflexivity|right]. apply (Hin (gf_args v) Hty). }
  destruct t as [s b a r d|s vs r d|s fs r rc d|s fs ifs r d|s fs r d|s ms r d]; simpl; intro H; try contradiction; auto.
  apply in_app_iff. left. auto.
Qed.

Lemma slices_named_succs t ws e : In ws (slices_named t) -> In e (elems (snd ws)) -> In (fst e) (succs (strip_named t)).
Proof.
  destruct t as [s b a r d|s vs r d|s fs r rc d|s fs ifs r d|s fs r d|s ms r d]; simpl; intros H He; try contradiction;
    destruct H as [<-|[]]; simpl in *.
  - apply in_app_iff. right. destruct ifs as [[j l]|]; simpl in *; [|contradiction]. apply in_map. exact He.
  - destruct ms as [[j l]|]; simpl in *; [|contradiction]. apply in_map. exact He.
Qed.

Section Main.
  Variable G : g_schema.
  Variable next0 : N.
  Hypothesis Hnext : forall i, In i (ids G) -> i < next0.
  Hypothesis Hdef : refs_defined (strip G) = true.
  Hypothesis Hkinds : kinds_ok (strip G) = true.
  Hypothesis Hbt : builtin_targets_ok G.

  Notation B := (builtin_ids G).
  Notation okk := (ok next0 B).

  Variable reg : list name.
  Hypothesis Hreg : registry (strip G) = Some reg.

  Lemma reg_spec : NoDup reg /\ (forall n, In n reg <-> belongs (strip G) n) /\ (forall n, In n reg -> defined (strip G) n = true).
  Proof.
    destruct (registry_spec (strip G)) as [reg' [H' [Hnd [Hin Hd]]]]. rewrite Hreg in H'. inversion H'; subst. auto.
  Qed.

  Lemma defined_g n : defined (strip G) n = true <-> exists t, lookup n (g_types G) = Some t.
  Proof.
    unfold defined, strip; simpl. rewrite lookup_strip. destruct (lookup n (g_types G)); simpl; split; intro H; eauto; try discriminate.
    destruct H as [t H]. discriminate.
  Qed.

  Lemma builtin_in n s r a d : lookup n (g_types G) = Some (GScalar s true a r d) -> incl (s :: ids_set r) B.
  Proof.
    intros Hl x Hx. unfold builtin_ids. apply in_flat_map. exists (n, GScalar s true a r d). split; [apply lookup_in; exact Hl | exact Hx].
  Qed.

  Lemma first_pass_ok : forall l next, next0 <= next -> incl l reg ->
    next <= snd (first_pass G l next) /\
    forall n i k, In (n, (i, k)) (fst (first_pass G l next)) ->
      okk i /\ exists t, lookup n (g_types G) = Some t /\ k = kind_of_named (strip_named t).
  Proof.
    induction l as [|n r IH]; intros next Hn Hl; simpl; [split; [lia|intros ? ? ? []]|].
    assert (Hr : incl r reg) by (intros x Hx; apply Hl; right; auto).
    destruct (lookup n (g_types G)) as [t|] eqn:El; [|apply IH; auto].
    assert (Hfresh : forall next1, next <= next1 ->
               next <= snd (let '(tb, n2) := first_pass G r next1 in ((n, (next, kind_of_named (strip_named t))) :: tb, n2)) \/ True) by auto.
    destruct t as [s [] a rq d|s vs rq d|s fs rq rc d|s fs ifs rq d|s fs rq d|s ms rq d]; simpl;
      try (destruct (IH (next + 1) ltac:(lia) Hr) as [I1 I2]; destruct (first_pass G r (next + 1)) as [tb n2]; simpl in *;
           split; [lia|]; intros m i k [H|H];
           [inversion H; subst; split; [left; lia | eexists; split; [exact El | reflexivity]] | apply I2; auto]).
    destruct (IH next Hn Hr) as [I1 I2]. destruct (first_pass G r next) as [tb n1]. simpl in *.
    split; [lia|]. intros m i k [H|H]; [|apply I2; auto].
    inversion H; subst. split; [right; eapply builtin_in; eauto; left; auto | eexists; split; [exact El | reflexivity]].
  Qed.

  Variable tbl : list (name * (id * kind)).
  Variable n1 : N.
  Hypothesis Htbl1 : first_pass G reg next0 = (tbl, n1).

  Lemma tbl_spec n i k : lookup n tbl = Some (i, k) ->
    okk i /\ exists t, lookup n (g_types G) = Some t /\ k = kind_of_named (strip_named t).
  Proof.
    intro H. destruct (first_pass_ok reg next0 ltac:(lia) (incl_refl _)) as [_ I2]. rewrite Htbl1 in I2. simpl in I2.
    apply I2. apply lookup_in. exact H.
  Qed.

  Lemma tbl_has n : In n reg -> exists e, lookup n tbl = Some e.
  Proof.
    intro Hn. pose proof (first_pass_names G reg next0) as Hnames. rewrite Htbl1 in Hnames. simpl in Hnames.
    assert (Hall : filter (fun n => match lookup n (g_types G) with Some _ => true | None => false end) reg = reg).
    { apply filter_all_true. intros x Hx. destruct reg_spec as [_ [_ Hd]]. apply Hd, defined_g in Hx. destruct Hx as [t ->]. reflexivity. }
    rewrite Hall in Hnames.
    destruct (lookup n tbl) eqn:E; eauto. apply lookup_none in E. rewrite Hnames in E. contradiction.
  Qed.

  Lemma n1_ge : next0 <= n1.
  Proof. destruct (first_pass_ok reg next0 ltac:(lia) (incl_refl _)) as [I1 _]. rewrite Htbl1 in I1. exact I1. Qed.

  Lemma Htbl_ok : forall n i k, lookup n tbl = Some (i, k) -> okk i.
  Proof. intros n i k H. apply (tbl_spec n i k H). Qed.

  (** closure: what a registered type mentions, if defined, is registered *)
  Lemma succ_registered n t x : In n reg -> lookup n (g_types G) = Some t -> In x (succs (strip_named t)) -> In x reg.
  Proof.
    intros Hn Hl Hx. destruct reg_spec as [_ [Hin _]].
    assert (Hls : lookup n (types (strip G)) = Some (strip_named t)) by (unfold strip; simpl; rewrite lookup_strip, Hl; reflexivity).
    assert (Hd : defined (strip G) x = true).
    { unfold refs_defined in Hdef. apply andb_true_iff in Hdef as [H1 _]. rewrite forallb_forall in H1.
      specialize (H1 _ (lookup_in _ _ _ Hls)). rewrite forallb_forall in H1. apply H1. apply succs_mentions. exact Hx. }
    apply Hin. eapply belongs_mention; eauto; [apply Hin; exact Hn | apply succs_mentions; exact Hx].
  Qed.

  Lemma entry_registered x : In x (entry_points (strip G)) -> In x reg.
  Proof.
    intro Hx. destruct reg_spec as [_ [Hin _]]. apply Hin. apply belongs_entry; auto.
    unfold refs_defined in Hdef. apply andb_true_iff in Hdef as [_ H2]. rewrite forallb_forall in H2. auto.
  Qed.

  Lemma leaf_ok_of ty : In ty (all_tys G) -> In (leaf_name ty) reg -> leaf_ok B tbl ty.
  Proof.
    intros Hall Hr.
    assert (H : (is_builtin_name (leaf_name ty) = true -> In (leaf_target ty) B) /\
                (is_builtin_name (leaf_name ty) = false -> exists e, lookup (leaf_name ty) tbl = Some e)).
    { split; [apply Hbt; exact Hall | intros _; apply tbl_has; exact Hr]. }
    clear Hall Hr. induction ty; simpl in *; auto.
  Qed.

  Lemma named_conditions n t : In n reg -> lookup n (g_types G) = Some t ->
    Forall (leaf_ok B tbl) (tys_named t) /\ Forall (slice_ok tbl) (slices_named t).
  Proof.
    intros Hn Hl. split.
    - apply Forall_forall. intros ty Hty. apply leaf_ok_of.
      + unfold all_tys. apply in_app_iff. left. apply in_flat_map. exists (n, t). split; [apply lookup_in; auto | exact Hty].
      + eapply succ_registered; eauto. apply tys_named_succs. exact Hty.
    - apply Forall_forall. intros ws Hws e He.
      assert (Hx : In (fst e) reg) by (eapply succ_registered; eauto; eapply slices_named_succs; eauto).
      destruct (tbl_has _ Hx) as [[i k] Hk]. exists i, k. split; auto.
      destruct (tbl_spec _ _ _ Hk) as [_ [t' [Hl' ->]]].
      (* the kind: Go's static types *)
      assert (Hls : lookup n (types (strip G)) = Some (strip_named t)) by (unfold strip; simpl; rewrite lookup_strip, Hl; reflexivity).
      unfold kinds_ok in Hkinds. apply andb_true_iff in Hkinds as [_ HK]. rewrite forallb_forall in HK.
      specialize (HK _ (lookup_in _ _ _ Hls)). simpl in HK.
      assert (Hls' : lookup (fst e) (types (strip G)) = Some (strip_named t')) by (unfold strip; simpl; rewrite lookup_strip, Hl'; reflexivity).
      destruct t as [s b a r d|s vs r d|s fs r rc d|s fs ifs r d|s fs r d|s ms r d]; simpl in Hws; try contradiction;
        destruct Hws as [<-|[]]; cbn [strip_named snd fst] in HK, He |- *; rewrite forallb_forall in HK.
      + assert (Hin : In (fst e) (strip_slice ifs)) by (destruct ifs as [[j l]|]; simpl in He |- *; [apply in_map; auto|contradiction]).
        specialize (HK _ Hin). unfold is_kind in HK. rewrite Hls' in HK. destruct (strip_named t'); try discriminate. reflexivity.
      + assert (Hin : In (fst e) (strip_slice ms)) by (destruct ms as [[j l]|]; simpl in He |- *; [apply in_map; auto|contradiction]).
        specialize (HK _ Hin). unfold is_kind in HK. rewrite Hls' in HK. destruct (strip_named t'); try discriminate. reflexivity.
  Qed.

  Lemma second_pass_ok : forall todo next, next0 <= next -> incl todo tbl -> incl (map fst todo) reg ->
    next <= snd (second_pass G tbl todo next) /\
    Forall okk (flat_map (fun t => ids_named (snd t)) (fst (second_pass G tbl todo next))).
  Proof.
    induction todo as [|[n [i k]] r IH]; intros next Hn Hin Hreg'; simpl; [split; [lia|constructor]|].
    assert (Hr : incl r tbl) by (intros x Hx; apply Hin; right; auto).
    assert (Hr' : incl (map fst r) reg) by (intros x Hx; apply Hreg'; right; auto).
    assert (Hnreg : In n reg) by (apply Hreg'; left; auto).
    destruct (lookup n (g_types G)) as [t|] eqn:El; [|apply IH; auto].
    assert (Hi : okk i).
    { destruct (first_pass_ok reg next0 ltac:(lia) (incl_refl _)) as [_ I2]. rewrite Htbl1 in I2. simpl in I2.
      apply (I2 n i k). apply Hin. left; auto. }
    destruct (named_conditions n t Hnreg El) as [C1 C2].
    assert (Hcopy : forall T, T = t ->
              next <= snd (let '(t', n1) := copy_named tbl i T next in let '(ts, n2) := second_pass G tbl r n1 in ((n, t') :: ts, n2)) /\
              Forall okk (flat_map (fun t0 => ids_named (snd t0))
                            (fst (let '(t', n1) := copy_named tbl i T next in let '(ts, n2) := second_pass G tbl r n1 in ((n, t') :: ts, n2))))).
    { intros T ->. destruct (copy_named_ok next0 B tbl Htbl_ok i t next Hi C1 C2 Hn) as [K1 K2].
      destruct (copy_named tbl i t next) as [t' n2]. simpl in K1, K2.
      destruct (IH n2 ltac:(lia) Hr Hr') as [I1 I2]. destruct (second_pass G tbl r n2) as [ts n3]. simpl in *.
      split; [lia|]. apply Forall_app. split; auto. }
    destruct t as [s [] a rq d|s vs rq d|s fs rq rc d|s fs ifs rq d|s fs rq d|s ms rq d]; try (apply Hcopy; reflexivity).
    (* a built-in scalar: kept *)
    destruct (IH next Hn Hr Hr') as [I1 I2]. destruct (second_pass G tbl r next) as [ts n2]. simpl in *.
    split; [lia|].
    constructor; [right; apply (builtin_in n s rq a d El); left; reflexivity|].
    apply Forall_app. split; auto.
    apply Forall_forall. intros x Hx. right. apply (builtin_in n s rq a d El). right. exact Hx.
  Qed.
End Main.

Lemma dir_arg_names v iv : In iv (vals (gd_args v)) ->
  In (leaf_name (gi_type iv)) (map (fun a : name * input_def => unwrap (in_type (snd a))) (dd_args (strip_dir v))).
Proof.
  intro H. unfold strip_dir; simpl. destruct (gd_args v) as [[j l]|]; simpl in *; [|contradiction].
  apply in_map_iff in H. destruct H as [[k' v'] [<- Hv']]. rewrite map_map. apply in_map_iff. exists (k', v').
  split; auto. simpl. rewrite leaf_name_strip. reflexivity.
Qed.

(** Clone() shares no identity with the original except the built-in singletons *)
Theorem clone_fresh G next G' next' :
  (forall i, In i (ids G) -> i < next) ->
  refs_defined (strip G) = true -> kinds_ok (strip G) = true -> builtin_targets_ok G ->
  clone G next = Cloned G' next' ->
  forall i, In i (ids G') -> In i (ids G) -> In i (builtin_ids G).
Proof.
  intros Hnext Hdef Hkinds Hbt Hc.
  assert (Hall : Forall (ok next (builtin_ids G)) (ids G')).
  { unfold clone in Hc. destruct (registry (strip G)) as [reg|] eqn:Hreg; [|discriminate].
    destruct (first_pass G reg next) as [tbl n1] eqn:E1.
    pose proof (n1_ge G next reg tbl n1 E1) as Hn1.
    pose proof (Htbl_ok G next reg tbl n1 E1) as Htbl.
    pose proof (first_pass_names G reg next) as Hnames. rewrite E1 in Hnames. simpl in Hnames.
    assert (Hregall : filter (fun n => match lookup n (g_types G) with Some _ => true | None => false end) reg = reg).
    { apply filter_all_true. intros x Hx. destruct (reg_spec G reg Hreg) as [_ [_ Hd]]. apply Hd in Hx.
      apply (defined_g G) in Hx. destruct Hx as [t ->]. reflexivity. }
    rewrite Hregall in Hnames.
    destruct (second_pass_ok G next Hdef Hkinds Hbt reg Hreg tbl n1 E1 tbl n1 Hn1 (incl_refl _) ltac:(rewrite Hnames; apply incl_refl)) as [S1 S2].
    destruct (second_pass G tbl tbl n1) as [ts n2]. simpl in S1, S2. simpl in Hc.
    destruct (clone_root tbl (g_query G)) as [q|] eqn:Eq; [|discriminate].
    destruct (match g_mutation G with None => Some None | Some r => option_map Some (clone_root tbl r) end) as [mu|] eqn:Em; [|discriminate].
    destruct (match g_subscription G with None => Some None | Some r => option_map Some (clone_root tbl r) end) as [su|] eqn:Es; [|discriminate].
    (* directives *)
    assert (Hdirs : Forall (fun d => Forall (leaf_ok (builtin_ids G) tbl) (flat_map tys_input (vals (gd_args d)))) (vals (g_directives G))).
    { apply Forall_forall. intros d Hd. apply Forall_forall. intros ty Hty.
      apply (leaf_ok_of G next Hbt reg Hreg tbl n1 E1).
      - unfold all_tys. apply in_app_iff. right. apply in_flat_map. eauto.
      - apply (entry_registered G Hdef reg Hreg). unfold entry_points, strip; simpl. rewrite !in_app_iff. right. right. right. right.
        apply in_flat_map. apply in_flat_map in Hty. destruct Hty as [iv [Hiv Hty]]. simpl in Hty. destruct Hty as [<-|[]].
        destruct (g_directives G) as [[j l]|]; simpl in *; [|contradiction].
        apply in_map_iff in Hd. destruct Hd as [[k v] [<- Hv]].
        exists (k, strip_dir v). split; [apply in_map_iff; exists (k, v); auto|].
        apply dir_arg_names. exact Hiv. }
    destruct (copy_map_ok next (builtin_ids G) _ (copy_dir tbl) ids_dir _
                (fun v n Hv Hn => copy_dir_ok next (builtin_ids G) tbl Htbl v n Hv Hn) (g_directives G) (n2 + 1) ltac:(lia) Hdirs) as [D1 D2].
    destruct (copy_map (copy_dir tbl) (g_directives G) (n2 + 1)) as [dirs n4]. simpl in D1, D2.
    (* AdditionalTypes *)
    assert (Hadd : slice_ok tbl (None, g_additional G)).
    { intros e He. simpl in He.
      assert (Hx : In (fst e) reg).
      { apply (entry_registered G Hdef reg Hreg). unfold entry_points, strip; simpl. rewrite !in_app_iff. right. right. right. left.
        destruct (g_additional G) as [[j l]|]; simpl in *; [apply in_map; auto|contradiction]. }
      destruct (tbl_has G next reg Hreg tbl n1 E1 _ Hx) as [[i k] Hk]. exists i, k. split; auto. simpl. auto. }
    destruct (copy_slice_ok next (builtin_ids G) tbl Htbl None (g_additional G) n4 Hadd ltac:(lia)) as [A1 A2].
    destruct (copy_slice tbl None (g_additional G) n4) as [add n5]. simpl in A1, A2.
    inversion Hc; subst G' next'; clear Hc.
    unfold ids; simpl.
    assert (Hroot : forall r q', clone_root tbl r = Some q' -> ok next (builtin_ids G) (snd q')).
    { intros r q' H. unfold clone_root in H. destruct (lookup (fst r) tbl) as [[i k]|] eqn:El; [|discriminate].
      destruct k; try discriminate. inversion H; subst. simpl. eapply Htbl; eauto. }
    constructor; [left; unfold alloc; simpl; lia|].
    apply Forall_app; split; [exact S2|].
    cbn [app]. constructor; [eapply Hroot; eauto|].
    apply Forall_app; split.
    { destruct (g_mutation G) as [r|]; [|inversion Em; constructor].
      destruct (clone_root tbl r) as [q'|] eqn:E; [|discriminate]. inversion Em; subst. constructor; [eapply Hroot; eauto|constructor]. }
    apply Forall_app; split.
    { destruct (g_subscription G) as [r|]; [|inversion Es; constructor].
      destruct (clone_root tbl r) as [q'|] eqn:E; [|discriminate]. inversion Es; subst. constructor; [eapply Hroot; eauto|constructor]. }
    apply Forall_app; split; [exact A2 | exact D2]. }
  intros i Hi Hold. rewrite Forall_forall in Hall. destruct (Hall i Hi) as [H|H]; auto.
  specialize (Hnext i Hold). lia.
Qed.

(** ** the clone introspects like the original: introspection only looks at registered types *)
Lemma restrict_lookup_none S x : lookup x (types S) = None -> forall r,
  lookup x (flat_map (fun n => match lookup n (types S) with Some t => [(n, t)] | None => [] end) r) = None.
Proof.
  intros Hx r. induction r as [|m r IH]; simpl; auto.
  destruct (lookup m (types S)) as [t|] eqn:Em; simpl; auto.
  destruct (bytes_eqb x m) eqn:E; auto. apply bytes_eqb_eq in E. subst. congruence.
Qed.

Lemma restrict_lookup_in_gen S x : forall r, In x r -> lookup x (types (restrict r S)) = lookup x (types S).
Proof.
  unfold restrict; simpl. induction r as [|n r IH]; simpl; [tauto|]. intro Hin.
  destruct (bytes_eqb x n) eqn:Exn.
  - apply bytes_eqb_eq in Exn. subst n.
    destruct (lookup x (types S)) as [t|] eqn:E; simpl.
    + rewrite bytes_eqb_refl. reflexivity.
    + apply restrict_lookup_none. exact E.
  - assert (Hr : In x r).
    { destruct Hin as [->|H]; auto. rewrite bytes_eqb_refl in Exn. discriminate. }
    destruct (lookup n (types S)) as [t|] eqn:E; simpl; [rewrite Exn|]; apply IH; exact Hr.
Qed.

Lemma restrict_lookup_notin_gen S x : forall r, ~ In x r -> lookup x (types (restrict r S)) = None.
Proof.
  unfold restrict; simpl. induction r as [|n r IH]; simpl; auto. intro H.
  destruct (lookup n (types S)) as [t|]; simpl; [|apply IH; tauto].
  destruct (bytes_eqb x n) eqn:E; [apply bytes_eqb_eq in E; subst; exfalso; apply H; auto | apply IH; tauto].
Qed.

Arguments restrict : simpl never.

Lemma flat_map_ext_in_local {A B} (f g : A -> list B) l : (forall x, In x l -> f x = g x) -> flat_map f l = flat_map g l.
Proof. induction l as [|x r IH]; simpl; intro H; auto. rewrite H, IH; auto. Qed.

Section Restrict.
  Variable S : schema.
  Variable reg : list name.
  Hypothesis Hreg : registry S = Some reg.

  Notation S' := (restrict reg S).

  Lemma restrict_lookup_in x : In x reg -> lookup x (types S') = lookup x (types S).
  Proof. apply restrict_lookup_in_gen. Qed.

  Lemma restrict_lookup_notin x : ~ In x reg -> lookup x (types S') = None.
  Proof. apply restrict_lookup_notin_gen. Qed.

  Definition agree (x : name) : Prop := lookup x (types S') = lookup x (types S).

  Lemma reg_props : NoDup reg /\ (forall n, In n reg <-> belongs S n) /\ (forall n, In n reg -> defined S n = true).
  Proof. destruct (registry_spec S) as [reg' [H' [Hnd [Hin Hd]]]]. rewrite Hreg in H'. inversion H'; subst. auto. Qed.

  Lemma agree_undefined x : defined S x = false -> agree x.
  Proof.
    intro H. unfold agree. assert (Hn : ~ In x reg) by (intro Hc; apply reg_props in Hc; congruence).
    rewrite restrict_lookup_notin by exact Hn. unfold defined in H. destruct (lookup x (types S)); [discriminate|reflexivity].
  Qed.

  Lemma agree_succ n t y : In n reg -> lookup n (types S) = Some t -> In y (succs t) -> agree y.
  Proof.
    intros Hn Hl Hy. destruct (defined S y) eqn:Ed; [|apply agree_undefined; exact Ed].
    apply restrict_lookup_in. apply reg_props. eapply belongs_mention; eauto; [apply reg_props; exact Hn | apply succs_mentions; exact Hy].
  Qed.

  Lemma agree_root y : In y (roots S) -> agree y.
  Proof.
    intro Hy. destruct (defined S y) eqn:Ed; [|apply agree_undefined; exact Ed].
    apply restrict_lookup_in. apply reg_props. apply belongs_entry; auto. apply roots_entry. exact Hy.
  Qed.

  Lemma in_reg_of_restrict x t : lookup x (types S') = Some t -> In x reg.
  Proof.
    intro H. destruct (mem x reg) eqn:E; [apply mem_in; exact E|].
    apply mem_false in E. rewrite restrict_lookup_notin in H by exact E. discriminate.
  Qed.

  Lemma roots_restrict : roots S' = roots S.
  Proof. reflexivity. Qed.

  Lemma dfs_restrict fuel : forall todo seen, (forall x, In x todo -> agree x) ->
    dfs S' fuel todo seen = dfs S fuel todo seen.
  Proof.
    induction fuel as [|fuel IH]; intros todo seen Ha; simpl; auto.
    destruct todo as [|n rest]; auto.
    destruct (mem n seen); [apply IH; intros; apply Ha; right; auto|].
    assert (An : agree n) by (apply Ha; left; auto). unfold agree in An.
    change (flat_map (fun n0 : name => match lookup n0 (types S) with
                                      | Some t => [(n0, t)]
                                      | None => []
                                      end) reg) with (types S').
    rewrite An.
    destruct (lookup n (types S)) as [t|] eqn:El; [|apply IH; intros; apply Ha; right; auto].
    apply IH. intros x Hx. apply in_app_iff in Hx. destruct Hx as [Hx|Hx]; [|apply Ha; right; auto].
    eapply agree_succ; eauto. eapply in_reg_of_restrict. rewrite An. reflexivity.
  Qed.

  Lemma dfs_more_fuel (T : schema) fuel : forall todo seen out k,
    dfs T fuel todo seen = Some out -> dfs T (fuel + k) todo seen = Some out.
  Proof.
    induction fuel as [|fuel IH]; intros todo seen out k H; simpl in *; [discriminate|].
    destruct todo as [|n rest]; auto.
    destruct (mem n seen); auto. destruct (lookup n (types T)); auto.
  Qed.

  Lemma registry_restrict : registry S' = Some reg.
  Proof.
    destruct (registry_spec S') as [reg' [H' _]].
    pose proof Hreg as Hr. unfold registry in Hr, H' |- *.
    destruct (dfs S (dfs_fuel S) (roots S) []) as [seen|] eqn:E; [|discriminate].
    destruct (dfs S' (dfs_fuel S') (roots S') []) as [seen'|] eqn:E'; [|discriminate].
    rewrite <- (dfs_restrict (dfs_fuel S) (roots S) []) in E by (intros; apply agree_root; auto).
    rewrite roots_restrict in E'.
    pose proof (dfs_more_fuel S' _ _ _ _ (dfs_fuel S') E) as H1.
    pose proof (dfs_more_fuel S' _ _ _ _ (dfs_fuel S) E') as H2.
    rewrite Nat.add_comm in H2. rewrite H1 in H2. inversion H2; subst seen'. exact Hr.
  Qed.

  (** type references *)
  Lemma type_ref_agree t : agree (unwrap t) -> forall d, type_ref S' d t = type_ref S d t.
  Proof.
    intro Ha. induction t as [n|u IH|u IH]; intros [|d]; cbn [type_ref unwrap] in *; auto.
    - unfold agree in Ha. rewrite Ha. reflexivity.
    - rewrite IH by exact Ha. reflexivity.
    - rewrite IH by exact Ha. reflexivity.
  Qed.

  Lemma type_ref_top_agree t : agree (unwrap t) -> type_ref_top S' t = type_ref_top S t.
  Proof. intro Ha. unfold type_ref_top. rewrite type_ref_agree by exact Ha. reflexivity. Qed.

  Section Tree.
    Variable D : Type.
    Variable pr : sty -> option gval -> D.
    Variable F : features.

    Lemma input_agree a : agree (unwrap (in_type (snd a))) -> intro_input D pr S' a = intro_input D pr S a.
    Proof. intro H. unfold intro_input. rewrite type_ref_top_agree by exact H. reflexivity. Qed.

    Lemma inputs_agree l : (forall a, In a l -> agree (unwrap (in_type (snd a)))) ->
      map (intro_input D pr S') l = map (intro_input D pr S) l.
    Proof. intro H. apply map_ext_in. intros a Ha. apply input_agree. auto. Qed.

    Lemma field_agree f : (forall y, In y (field_succs (snd f)) -> agree y) -> intro_field D pr S' f = intro_field D pr S f.
    Proof.
      intro H. unfold intro_field. rewrite type_ref_top_agree by (apply H; left; reflexivity).
      rewrite inputs_agree; [reflexivity|]. intros a Ha. apply H. right. apply in_map_iff. eauto.
    Qed.

    Lemma fields_agree fs : (forall y, In y (flat_map (fun f => field_succs (snd f)) fs) -> agree y) ->
      intro_fields D pr S' F fs = intro_fields D pr S F fs.
    Proof.
      intro H. unfold intro_fields. apply map_ext_in. intros f Hf. apply field_agree.
      intros y Hy. apply H. apply in_flat_map. exists f. split; auto. apply filter_In in Hf. tauto.
    Qed.

    Lemma named_refs_agree l : (forall y, In y l -> agree y) -> map (named_ref S') l = map (named_ref S) l.
    Proof. intro H. apply map_ext_in. intros y Hy. unfold named_ref. apply type_ref_top_agree. simpl. auto. Qed.

    Lemma filter_ext_in_local {A} (p q : A -> bool) l : (forall x, In x l -> p x = q x) -> filter p l = filter q l.
    Proof. induction l as [|x r IH]; simpl; intro H; auto. rewrite H by auto. rewrite IH by auto. reflexivity. Qed.

    Lemma enabled_refs_agree l : (forall y, In y l -> agree y) ->
      map (named_ref S') (filter (type_enabled S' F) l) = map (named_ref S) (filter (type_enabled S F) l).
    Proof.
      intro H.
      rewrite (filter_ext_in_local (type_enabled S' F) (type_enabled S F) l).
      - apply named_refs_agree. intros y Hy. apply H. apply filter_In in Hy. tauto.
      - intros y Hy. unfold type_enabled. rewrite (H y Hy). reflexivity.
    Qed.

    Lemma implementations_agree i : implementations S' reg i = implementations S reg i.
    Proof.
      unfold implementations. apply flat_map_ext_in_local. intros o Ho. rewrite restrict_lookup_in by exact Ho. reflexivity.
    Qed.

    Lemma type_agree n t : In n reg -> lookup n (types S) = Some t ->
      intro_type D pr S' F reg n t = intro_type D pr S F reg n t.
    Proof.
      intros Hn Hl.
      assert (Hs : forall y, In y (succs t) -> agree y) by (intros; eapply agree_succ; eauto).
      unfold intro_type. f_equal.
      - destruct t; auto; simpl in Hs; f_equal; apply fields_agree; intros y Hy; apply Hs; auto. apply in_app_iff; auto.
      - destruct t; auto. f_equal. apply inputs_agree. intros a Ha. apply Hs. simpl. apply in_map_iff. eauto.
      - destruct t; auto. f_equal. apply enabled_refs_agree. intros y Hy. apply Hs. simpl. apply in_app_iff. auto.
      - destruct t; auto.
        + f_equal. rewrite implementations_agree. apply enabled_refs_agree. intros y Hy.
          apply restrict_lookup_in. unfold implementations in Hy. apply in_flat_map in Hy. destruct Hy as [o [Ho Hy]].
          destruct (lookup o (types S)) as [[| | |fs' ifs' r' d'| |]|]; try contradiction.
          apply in_flat_map in Hy. destruct Hy as [j [_ Hy]]. destruct (bytes_eqb j n); [destruct Hy as [<-|[]]; exact Ho|contradiction].
        + f_equal. apply enabled_refs_agree. intros y Hy. apply Hs. exact Hy.
    Qed.

    Theorem introspect_restrict : introspect pr S' F = introspect pr S F.
    Proof.
      unfold introspect. rewrite registry_restrict, Hreg.
      change (directives S') with (directives S).
      destruct (negb (forallb (fun d => forallb (fun l => mem l known_locations) (dd_locs (snd d))) (directives S))); auto.
      f_equal. f_equal.
      - unfold intro_types. apply flat_map_ext_in_local. intros n Hn. rewrite restrict_lookup_in by exact Hn.
        destruct (lookup n (types S)) as [t|] eqn:El; auto. destruct (subset (nt_req t) F); auto.
        rewrite type_agree by auto. reflexivity.
      - apply map_ext_in. intros d Hd. unfold intro_directive. f_equal. apply inputs_agree.
        intros a Ha. apply agree_root. unfold roots. apply in_app_iff. left. apply in_flat_map. exists d. split; auto.
        apply in_map_iff. eauto.
    Qed.
  End Tree.
End Restrict.

(** a clone introspects exactly like the definition it was made from *)
Theorem clone_introspects_same G next G' next' D (pr : sty -> option gval -> D) F :
  clone G next = Cloned G' next' -> introspect pr (strip G') F = introspect pr (strip G) F.
Proof.
  intro Hc. destruct (registry_spec (strip G)) as [reg [Hreg _]].
  rewrite (clone_same_definition G next G' next' reg Hreg Hc).
  apply introspect_restrict. exact Hreg.
Qed.

(** an executable form of [builtin_targets_ok] *)
Definition builtin_targets_ok_b (G : g_schema) : bool :=
  forallb (fun t => negb (is_builtin_name (leaf_name t)) || existsb (N.eqb (leaf_target t)) (builtin_ids G)) (all_tys G).

Lemma builtin_targets_ok_b_spec G : builtin_targets_ok_b G = true -> builtin_targets_ok G.
Proof.
  intros H t Ht Hb. unfold builtin_targets_ok_b in H. rewrite forallb_forall in H. specialize (H t Ht).
  rewrite Hb in H. simpl in H. apply existsb_exists in H. destruct H as [x [Hx E]]. apply N.eqb_eq in E. subst. exact Hx.
Qed.
