(** * Intro/IntrospectCheck.v — C10 correspondence: decode a case, run the model and the Spec
    oracle, compare with what the implementation did.  Executable only. *)
From Coq Require Import List NArith ZArith Bool String.
From ApiFu Require Import Base.Sexp Intro.Utf8 Intro.IntrospectModel Intro.MarshalValue
     Intro.LiteralSpec Intro.IntrospectSpec Intro.Rebuild Intro.RebuildSpec Intro.Clone.
Import ListNotations.
Open Scope string_scope.

(** ** option plumbing *)
Definition bind {A B} (o : option A) (f : A -> option B) : option B :=
  match o with Some x => f x | None => None end.
Notation "'do' x <- a ; b" := (bind a (fun x => b)) (at level 200, x pattern, a at level 100, b at level 200).

(** ** decoding the schema definition *)
Fixpoint dec_sty (fuel : nat) (s : sexp) : option sty :=
  match fuel with
  | O => None
  | S f =>
      match s with
      | SStr n => Some (StNamed n)
      | SL [SSym t; x] =>
          if String.eqb t "list" then option_map StList (dec_sty f x)
          else if String.eqb t "nn" then option_map StNonNull (dec_sty f x)
          else None
      | _ => None
      end
  end.
Definition sty_fuel : nat := 64.

Fixpoint dec_gval (fuel : nat) (s : sexp) : option gval :=
  match fuel with
  | O => None
  | S f =>
      match s with
      | SL (SSym t :: args) =>
          if String.eqb t "null" then Some GNull
          else if String.eqb t "int" then match args with [SZ z] => Some (GInt z) | _ => None end
          else if String.eqb t "float" then match args with [SZ m; SZ e; SStr txt] => Some (GFloat m e txt) | _ => None end
          else if String.eqb t "str" then option_map GString (map_opt as_N args)
          else if String.eqb t "bool" then match args with [b] => option_map GBool (as_bool b) | _ => None end
          else if String.eqb t "list" then option_map GList (map_opt (dec_gval f) args)
          else if String.eqb t "map" then
            option_map GMap (map_opt (fun kv => match kv with
                                                | SL [SStr k; v] => option_map (fun x => (k, x)) (dec_gval f v)
                                                | _ => None
                                                end) args)
          else None
      | _ => None
      end
  end.
Definition gval_fuel : nat := 64.

Definition dec_names (s : sexp) : option (list name) := as_list_of as_bytes s.

(** (iv "name" STY desc DEFAULT E2E) ; E2E = status symbol of the end-to-end reparse *)
Definition dec_iv (s : sexp) : option (name * input_def * string) :=
  match tagged "iv" s with
  | Some [SStr n; t; SStr desc; d; SSym e2e] =>
      do ty <- dec_sty sty_fuel t;
      do dv <- as_option (dec_gval gval_fuel) d;
      Some (n, {| in_type := ty; in_default := dv; in_desc := desc |}, e2e)
  | _ => None
  end.
Definition dec_ivs (l : list sexp) : option (list (name * input_def * string)) := map_opt dec_iv l.
Definition strip_e2e (l : list (name * input_def * string)) : list (name * input_def) := map fst l.

(** (fd "name" STY desc depr (req...) (args IV...)) *)
Definition dec_fd (s : sexp) : option (name * field_def * list (name * input_def * string)) :=
  match tagged "fd" s with
  | Some [SStr n; t; SStr desc; SStr depr; req; SL (SSym a :: args)] =>
      if negb (String.eqb a "args") then None else
      do ty <- dec_sty sty_fuel t;
      do rq <- dec_names req;
      do ivs <- dec_ivs args;
      Some (n, {| f_type := ty; f_args := strip_e2e ivs; f_features := rq; f_deprecation := depr; f_desc := desc |}, ivs)
  | _ => None
  end.

(** every input value of the definition with the path it sits at and its e2e status *)
Record dsite := { ds_path : list name; ds_def : input_def; ds_e2e : string }.
Definition sites_of (pfx : list name) (ivs : list (name * input_def * string)) : list dsite :=
  map (fun x => {| ds_path := (pfx ++ [fst (fst x)])%list; ds_def := snd (fst x); ds_e2e := snd x |}) ivs.

Definition dec_type (s : sexp) : option (name * named_type * list dsite) :=
  match untag s with
  | Some (t, SStr n :: rest) =>
      if String.eqb t "scalar" then
        match rest with
        | [b; aa; req; SStr desc] => do bi <- as_bool b; do ac <- as_bool aa; do rq <- dec_names req; Some (n, NScalar bi ac rq desc, [])
        | _ => None
        end
      else if String.eqb t "enum" then
        match rest with
        | [req; SStr desc; SL (SSym v :: vals)] =>
            do rq <- dec_names req;
            do vs <- map_opt (fun x => match tagged "val" x with
                                       | Some [SStr vn; g; SStr vd; SStr dep] =>
                                           do gv <- dec_gval gval_fuel g;
                                           Some (vn, {| ev_value := gv; ev_desc := vd; ev_deprecation := dep |})
                                       | _ => None
                                       end) vals;
            Some (n, NEnum vs rq desc, [])
        | _ => None
        end
      else if String.eqb t "input" then
        match rest with
        | [req; rc; SStr desc; SL (SSym f :: fields)] =>
            do rq <- dec_names req; do r <- as_bool rc; do ivs <- dec_ivs fields;
            Some (n, NInput (strip_e2e ivs) rq r desc, sites_of [n] ivs)
        | _ => None
        end
      else if String.eqb t "object" then
        match rest with
        | [req; SStr desc; SL (SSym i :: ifs); SL (SSym f :: fields)] =>
            do rq <- dec_names req; do is <- map_opt as_bytes ifs; do fds <- map_opt dec_fd fields;
            Some (n, NObject (map fst fds) is rq desc,
                  flat_map (fun x => sites_of [n; fst (fst x)] (snd x)) fds)
        | _ => None
        end
      else if String.eqb t "interface" then
        match rest with
        | [req; SStr desc; SL (SSym f :: fields)] =>
            do rq <- dec_names req; do fds <- map_opt dec_fd fields;
            Some (n, NInterface (map fst fds) rq desc,
                  flat_map (fun x => sites_of [n; fst (fst x)] (snd x)) fds)
        | _ => None
        end
      else if String.eqb t "union" then
        match rest with
        | [req; SStr desc; SL (SSym m :: ms)] =>
            do rq <- dec_names req; do mm <- map_opt as_bytes ms;
            Some (n, NUnion mm rq desc, [])
        | _ => None
        end
      else None
  | _ => None
  end.

Definition dec_dir (s : sexp) : option (name * dir_def * list dsite) :=
  match tagged "dir" s with
  | Some [SStr n; SStr desc; SL (SSym l :: locs); SL (SSym a :: args)] =>
      do ls <- map_opt as_bytes locs; do ivs <- dec_ivs args;
      Some (n, {| dd_args := strip_e2e ivs; dd_locs := ls; dd_desc := desc |}, sites_of [[64]; n] ivs)
  | _ => None
  end.

Definition dec_schema (s : sexp) : option (schema * list dsite) :=
  match tagged "schema" s with
  | Some l =>
      match field "types" l, field1 "query" l, field1 "mutation" l, field1 "subscription" l,
            field1 "additional" l, field "directives" l with
      | Some ts, Some (SStr q), Some m, Some sub, Some add, Some ds =>
          do tys <- map_opt dec_type ts;
          do mu <- as_option as_bytes m;
          do su <- as_option as_bytes sub;
          do ad <- dec_names add;
          do dirs <- map_opt dec_dir ds;
          Some ({| types := map fst tys; query := q; mutation := mu; subscription := su; additional := ad;
                   directives := map fst dirs |},
                (flat_map snd tys ++ flat_map snd dirs)%list)
      | _, _, _, _, _, _ => None
      end
  | None => None
  end.

(** ** decoding the observed response (generic JSON: null true false "str" (arr ..) (obj ("k" v)..)) *)
Definition jfield (k : string) (o : sexp) : option sexp :=
  match tagged "obj" o with
  | Some kvs =>
      (fix go (l : list sexp) : option sexp :=
         match l with
         | SL [SStr k'; v] :: r => if bytes_eqb k' (s2b k) then Some v else go r
         | _ :: r => go r
         | [] => None
         end) kvs
  | None => None
  end.
Definition jnull (s : sexp) : bool := is_sym "null" s.
Definition jstr (s : sexp) : option bytes := as_bytes s.
Definition jstr_opt (s : sexp) : option (option bytes) :=
  if jnull s then Some None else option_map Some (as_bytes s).
Definition jarr (s : sexp) : option (list sexp) := tagged "arr" s.
Definition jarr_opt {A} (f : sexp -> option A) (s : sexp) : option (option (list A)) :=
  if jnull s then Some None else do l <- jarr s; do xs <- map_opt f l; Some (Some xs).

Definition dec_kind (s : sexp) : option kind :=
  do b <- jstr s;
  if bytes_eqb b (s2b "SCALAR") then Some KScalar else if bytes_eqb b (s2b "OBJECT") then Some KObject
  else if bytes_eqb b (s2b "INTERFACE") then Some KInterface else if bytes_eqb b (s2b "UNION") then Some KUnion
  else if bytes_eqb b (s2b "ENUM") then Some KEnum else if bytes_eqb b (s2b "INPUT_OBJECT") then Some KInputObject
  else if bytes_eqb b (s2b "LIST") then Some KList else if bytes_eqb b (s2b "NON_NULL") then Some KNonNull
  else None.

(** fragment TypeRef; an absent (not selected) ofType and a null one both decode to [None] *)
Fixpoint dec_tref (fuel : nat) (s : sexp) : option tref :=
  match fuel with
  | O => None
  | S f =>
      do k <- bind (jfield "kind" s) dec_kind;
      do n <- bind (jfield "name" s) jstr_opt;
      match jfield "ofType" s with
      | None => Some (TRef (Some k) n None)
      | Some o => if jnull o then Some (TRef (Some k) n None)
                  else do r <- dec_tref f o; Some (TRef (Some k) n (Some r))
      end
  end.

Definition dec_rinput (s : sexp) : option (r_input (option bytes)) :=
  do n <- bind (jfield "name" s) jstr;
  do d <- bind (jfield "description" s) jstr_opt;
  do t <- bind (jfield "type" s) (dec_tref 32);
  do dv <- bind (jfield "defaultValue" s) jstr_opt;
  Some {| ri_name := n; ri_desc := d; ri_type := t; ri_default := dv |}.

Definition jbool (s : sexp) : option bool := as_bool s.

Definition dec_rfield (s : sexp) : option (r_field (option bytes)) :=
  do n <- bind (jfield "name" s) jstr;
  do d <- bind (jfield "description" s) jstr_opt;
  do args <- bind (bind (jfield "args" s) jarr) (map_opt dec_rinput);
  do t <- bind (jfield "type" s) (dec_tref 32);
  do dep <- bind (jfield "isDeprecated" s) jbool;
  do rs <- bind (jfield "deprecationReason" s) jstr_opt;
  Some {| rf_name := n; rf_desc := d; rf_args := args; rf_type := t; rf_deprecated := dep; rf_reason := rs |}.

Definition dec_renum (s : sexp) : option r_enum :=
  do n <- bind (jfield "name" s) jstr;
  do d <- bind (jfield "description" s) jstr_opt;
  do dep <- bind (jfield "isDeprecated" s) jbool;
  do rs <- bind (jfield "deprecationReason" s) jstr_opt;
  Some {| re_name := n; re_desc := d; re_deprecated := dep; re_reason := rs |}.

Definition dec_rtype (s : sexp) : option (r_type (option bytes)) :=
  do k <- bind (jfield "kind" s) dec_kind;
  do n <- bind (jfield "name" s) jstr;
  do d <- bind (jfield "description" s) jstr_opt;
  do fs <- bind (jfield "fields" s) (jarr_opt dec_rfield);
  do ins <- bind (jfield "inputFields" s) (jarr_opt dec_rinput);
  do ifs <- bind (jfield "interfaces" s) (jarr_opt (dec_tref 32));
  do evs <- bind (jfield "enumValues" s) (jarr_opt dec_renum);
  do ps <- bind (jfield "possibleTypes" s) (jarr_opt (dec_tref 32));
  Some {| rt_kind := k; rt_name := n; rt_desc := d; rt_fields := fs; rt_inputs := ins; rt_ifaces := ifs;
          rt_enums := evs; rt_possible := ps |}.

Definition dec_rdirective (s : sexp) : option (r_directive (option bytes)) :=
  do n <- bind (jfield "name" s) jstr;
  do d <- bind (jfield "description" s) jstr_opt;
  do ls <- bind (bind (jfield "locations" s) jarr) (map_opt jstr);
  do args <- bind (bind (jfield "args" s) jarr) (map_opt dec_rinput);
  Some {| rd_name := n; rd_desc := d; rd_locs := ls; rd_args := args |}.

Definition dec_named_opt (s : sexp) : option (option name) :=
  if jnull s then Some None else do n <- bind (jfield "name" s) jstr; Some (Some n).

(** "data" of the response: null, or { "__schema": {...} } *)
Definition dec_data (s : sexp) : option (option (r_schema (option bytes))) :=
  if jnull s then Some None else
  do sc <- jfield "__schema" s;
  do q <- bind (bind (jfield "queryType" sc) (jfield "name")) jstr;
  do m <- bind (jfield "mutationType" sc) dec_named_opt;
  do su <- bind (jfield "subscriptionType" sc) dec_named_opt;
  do ts <- bind (bind (jfield "types" sc) jarr) (map_opt dec_rtype);
  do ds <- bind (bind (jfield "directives" sc) jarr) (map_opt dec_rdirective);
  Some (Some {| rs_query := q; rs_mutation := m; rs_subscription := su; rs_types := ts; rs_directives := ds |}).

(** ** comparing two result trees; the answer names the first place where they differ *)
Definition opt_eqb {A} (f : A -> A -> bool) (a b : option A) : bool :=
  match a, b with Some x, Some y => f x y | None, None => true | _, _ => false end.
Definition kind_eqb (a b : kind) : bool :=
  match a, b with
  | KScalar, KScalar | KObject, KObject | KInterface, KInterface | KUnion, KUnion | KEnum, KEnum
  | KInputObject, KInputObject | KList, KList | KNonNull, KNonNull => true
  | _, _ => false
  end.
Fixpoint tref_eqb (a b : tref) : bool :=
  match a, b with
  | TRef k n o, TRef k' n' o' =>
      opt_eqb kind_eqb k k' && opt_eqb bytes_eqb n n' &&
      match o, o' with
      | Some x, Some y => tref_eqb x y
      | None, None => true
      | _, _ => false
      end
  end.

Fixpoint first_diff {A B} (f : A -> B -> option string) (a : list A) (b : list B) : option string :=
  match a, b with
  | [], [] => None
  | x :: a', y :: b' => match f x y with Some d => Some d | None => first_diff f a' b' end
  | _, _ => Some "count"
  end.
Definition olist_diff {A B} (what : string) (f : A -> B -> option string) (a : option (list A)) (b : option (list B)) : option string :=
  match a, b with
  | None, None => None
  | Some x, Some y => match first_diff f x y with Some d => Some (what ++ "-" ++ d) | None => None end
  | _, _ => Some (what ++ "-null")
  end.
Definition chk (ok : bool) (what : string) : option string := if ok then None else Some what.
Definition orelse (a b : option string) : option string := match a with Some _ => a | None => b end.
Infix "<|>" := orelse (at level 60, right associativity).

Section TreeDiff.
  Variables D1 D2 : Type.
  Variable cmpd : D1 -> D2 -> bool.
  Definition input_diff (a : r_input D1) (b : r_input D2) : option string :=
    chk (bytes_eqb (ri_name a) (ri_name b)) "name" <|>
    chk (opt_eqb bytes_eqb (ri_desc a) (ri_desc b)) "description" <|>
    chk (tref_eqb (ri_type a) (ri_type b)) "typeref" <|>
    chk (cmpd (ri_default a) (ri_default b)) "default".
  Definition inputs_diff (what : string) (a : list (r_input D1)) (b : list (r_input D2)) : option string :=
    match first_diff input_diff a b with Some d => Some (what ++ "-" ++ d) | None => None end.
  Definition field_diff (a : r_field D1) (b : r_field D2) : option string :=
    chk (bytes_eqb (rf_name a) (rf_name b)) "name" <|>
    chk (opt_eqb bytes_eqb (rf_desc a) (rf_desc b)) "description" <|>
    inputs_diff "args" (rf_args a) (rf_args b) <|>
    chk (tref_eqb (rf_type a) (rf_type b)) "typeref" <|>
    chk (Bool.eqb (rf_deprecated a) (rf_deprecated b)) "isDeprecated" <|>
    chk (opt_eqb bytes_eqb (rf_reason a) (rf_reason b)) "deprecationReason".
  Definition enum_diff (a b : r_enum) : option string :=
    chk (bytes_eqb (re_name a) (re_name b)) "name" <|>
    chk (opt_eqb bytes_eqb (re_desc a) (re_desc b)) "description" <|>
    chk (Bool.eqb (re_deprecated a) (re_deprecated b)) "isDeprecated" <|>
    chk (opt_eqb bytes_eqb (re_reason a) (re_reason b)) "deprecationReason".
  Definition tref_diff (a b : tref) : option string := chk (tref_eqb a b) "ref".
  Definition type_diff (a : r_type D1) (b : r_type D2) : option string :=
    chk (bytes_eqb (rt_name a) (rt_name b)) "types-name" <|>
    chk (kind_eqb (rt_kind a) (rt_kind b)) "kind" <|>
    chk (opt_eqb bytes_eqb (rt_desc a) (rt_desc b)) "type-description" <|>
    olist_diff "fields" field_diff (rt_fields a) (rt_fields b) <|>
    olist_diff "inputFields" input_diff (rt_inputs a) (rt_inputs b) <|>
    olist_diff "interfaces" tref_diff (rt_ifaces a) (rt_ifaces b) <|>
    olist_diff "enumValues" enum_diff (rt_enums a) (rt_enums b) <|>
    olist_diff "possibleTypes" tref_diff (rt_possible a) (rt_possible b).
  Definition directive_diff (a : r_directive D1) (b : r_directive D2) : option string :=
    chk (bytes_eqb (rd_name a) (rd_name b)) "directive-name" <|>
    chk (opt_eqb bytes_eqb (rd_desc a) (rd_desc b)) "directive-description" <|>
    chk (match first_diff (fun x y => chk (bytes_eqb x y) "x") (rd_locs a) (rd_locs b) with None => true | _ => false end) "directive-locations" <|>
    inputs_diff "directive-args" (rd_args a) (rd_args b).
  Definition schema_diff (a : r_schema D1) (b : r_schema D2) : option string :=
    chk (bytes_eqb (rs_query a) (rs_query b)) "queryType" <|>
    chk (opt_eqb bytes_eqb (rs_mutation a) (rs_mutation b)) "mutationType" <|>
    chk (opt_eqb bytes_eqb (rs_subscription a) (rs_subscription b)) "subscriptionType" <|>
    match first_diff type_diff (rs_types a) (rs_types b) with
    | Some d => Some (if String.eqb d "count" then "types-count" else d)
    | None => None
    end <|>
    match first_diff directive_diff (rs_directives a) (rs_directives b) with
    | Some d => Some (if String.eqb d "count" then "directives-count" else d)
    | None => None
    end.
End TreeDiff.
Arguments schema_diff {D1 D2}.

(** ** printed defaults *)

(** model text vs observed text: the same literal up to ignored tokens and object field order
    (the property speaks about what the text denotes, not about its layout); texts that are not
    literals must be byte-identical *)
(** A text with a character above U+FFFF is not a literal of the dialect (known class
    default-string-astral), yet the fields of an input object inside it still come in Go's map
    order.  For this comparison only, every byte >= 240 and the (up to three) continuation bytes
    after it are replaced by private-use characters the reader accepts: [pu k] is U+E000 + k,
    lead byte b -> U+E000 + (b - 240), continuation byte c -> U+E020 + (c - 128); a U+E000..U+E07F
    already in the text is prefixed with the escape U+E060, so the replacement is injective and
    touches nothing but string characters. *)
Definition pu (k : N) : bytes :=
  if N.ltb k 64 then [238; 128; 128 + k]%N else [238; 129; 128 + (k - 64)]%N.
Fixpoint deastral (pending : nat) (bs : bytes) : bytes :=
  match bs with
  | [] => []
  | b :: r =>
      if (match pending with O => false | _ => true end) && N.leb 128 b && N.leb b 191 then
        (pu (32 + (b - 128)) ++ deastral (Nat.pred pending) r)%list
      else if N.leb 240 b then (pu (b - 240) ++ deastral 3 r)%list
      else if N.eqb b 238 && (match r with c :: _ => N.eqb c 128 || N.eqb c 129 | [] => false end) then
        (pu 96 ++ b :: deastral 0 r)%list
      else b :: deastral 0 r
  end.

Definition default_agrees (obs : option bytes) (m : dflt) : bool :=
  match obs, m with
  | None, DNone | None, DError => true
  | Some a, DText b =>
      bytes_eqb a b ||
      match parse_literal a, parse_literal b with
      | Some x, Some y => lit_eqv x y
      | _, _ =>
          match parse_literal (deastral 0 a), parse_literal (deastral 0 b) with
          | Some x, Some y => lit_eqv x y
          | _, _ => false
          end
      end
  | _, _ => false
  end.

(** does a configured default conform to its type (a value input coercion can produce)? *)
Definition cp_printable (c : N) : bool := negb (is_surrogate c) && N.ltb c 65536.
Fixpoint has_astral (v : gval) : bool :=
  match v with
  | GString s => existsb (fun c => N.leb 65536 c) s
  | GList vs => existsb has_astral vs
  | GMap kvs => existsb (fun kv => has_astral (snd kv)) kvs
  | _ => false
  end.
Fixpoint has_invalid_utf8 (v : gval) : bool :=
  match v with
  | GString s => existsb is_surrogate s
  | GList vs => existsb has_invalid_utf8 vs
  | GMap kvs => existsb (fun kv => has_invalid_utf8 (snd kv)) kvs
  | _ => false
  end.
Fixpoint has_ufffd (v : gval) : bool :=
  match v with
  | GString s => existsb (N.eqb 65533) s
  | GList vs => existsb has_ufffd vs
  | GMap kvs => existsb (fun kv => has_ufffd (snd kv)) kvs
  | _ => false
  end.

(** the oracle's comparison of an observed default text with the configured default *)
Definition default_denotes (S : schema) (obs : option bytes) (cfg : sty * option gval) : bool :=
  match obs, snd cfg with
  | None, None => true
  | Some txt, Some d => literal_denotes S (fst cfg) txt d
  | _, _ => false
  end.

(** a configured default the round-trip clause applies to: well-typed, and a Unicode string *)
Definition default_in_scope (S : schema) (t : sty) (v : gval) : bool :=
  default_conforms S v t && negb (has_invalid_utf8 v).

(** presence: a default is printed iff one is configured (ill-typed defaults, which may fail to
    print, are outside the description) *)
Definition default_present (S : schema) (obs : option bytes) (cfg : sty * option gval) : bool :=
  match obs, snd cfg with
  | None, None | Some _, Some _ => true
  | None, Some v => negb (default_in_scope S (fst cfg) v)
  | Some _, None => false
  end.

Definition count_errors (r : r_schema dflt) : nat :=
  let ci (l : list (r_input dflt)) := List.length (filter (fun i => match ri_default i with DError => true | _ => false end) l) in
  fold_right (fun t acc =>
                (fold_right (fun f a => ci (rf_args f) + a) 0 (olist (rt_fields t)) + ci (olist (rt_inputs t)) + acc)%nat)
             0%nat (rs_types r)
  + fold_right (fun d acc => (ci (rd_args d) + acc)%nat) 0%nat (rs_directives r).

Definition has_unmodelled (r : r_schema dflt) : bool :=
  let ci (l : list (r_input dflt)) := existsb (fun i => match ri_default i with DUnmodelled => true | _ => false end) l in
  existsb (fun t => existsb (fun f => ci (rf_args f)) (olist (rt_fields t)) || ci (olist (rt_inputs t))) (rs_types r)
  || existsb (fun d => ci (rd_args d)) (rs_directives r).

(** ** the defaults of a tree, in a fixed order (for pairing an observed tree with a description
    of the same shape) *)
Section Collect.
  Variable D : Type.
  Definition inputs_defaults (l : list (r_input D)) : list D := map ri_default l.
  Definition collect_defaults (r : r_schema D) : list D :=
    (flat_map (fun t => flat_map (fun f => inputs_defaults (rf_args f)) (olist (rt_fields t))
                        ++ inputs_defaults (olist (rt_inputs t))) (rs_types r)
     ++ flat_map (fun d => inputs_defaults (rd_args d)) (rs_directives r))%list.
End Collect.
Arguments collect_defaults {D}.

Definition spec_pr (t : sty) (d : option gval) : sty * option gval := (t, d).

(** first failing default of the parallel lists, with its key *)
Fixpoint defaults_oracle (S : schema) (obs : list (option bytes)) (cfg : list (sty * option gval)) : option string :=
  match obs, cfg with
  | o :: obs', (t, d) :: cfg' =>
      match d with
      | Some v =>
          if default_in_scope S t v && negb (default_denotes S o (t, d)) then
            Some (if has_astral v then "default-string-astral" else "default-does-not-denote")
          else defaults_oracle S obs' cfg'
      | None => defaults_oracle S obs' cfg'
      end
  | _, _ => None
  end.

(** the end-to-end clause: the harness ran the real parser.ParseValue + schema.CoerceLiteral on
    every printed default and compared with the configured Go value *)
Fixpoint e2e_oracle (S : schema) (sites : list dsite) : option string :=
  match sites with
  | [] => None
  | s :: r =>
      match in_default (ds_def s) with
      | Some v =>
          if default_in_scope S (in_type (ds_def s)) v
             && negb (String.eqb (ds_e2e s) "ok" || String.eqb (ds_e2e s) "hidden") then
            Some (if has_astral v then "default-string-astral"
                  else "default-e2e-" ++ ds_e2e s)
          else e2e_oracle S r
      | None => e2e_oracle S r
      end
  end.

Definition all_defaults (S : schema) (sites : list dsite) : list (sty * gval) :=
  flat_map (fun s => match in_default (ds_def s) with Some v => [(in_type (ds_def s), v)] | None => [] end) sites.

Fixpoint gval_has (p : gval -> bool) (v : gval) : bool :=
  p v || match v with
         | GList vs => existsb (gval_has p) vs
         | GMap kvs => existsb (fun kv => gval_has p (snd kv)) kvs
         | _ => false
         end.
Definition needs_escape (c : N) : bool :=
  N.ltb c 32 || N.eqb c 34 || N.eqb c 92 || N.eqb c 60 || N.eqb c 62 || N.eqb c 38 || N.eqb c 8232 || N.eqb c 8233.

Definition max_levels (S : schema) : nat :=
  let iv (a : name * input_def) := sty_levels (in_type (snd a)) in
  let fd (f : name * field_def) := fold_right Nat.max (sty_levels (f_type (snd f))) (map iv (f_args (snd f))) in
  fold_right Nat.max 0%nat
    (map (fun t => match snd t with
                   | NObject fs _ _ _ | NInterface fs _ _ => fold_right Nat.max 0%nat (map fd fs)
                   | NInput fs _ _ _ => fold_right Nat.max 0%nat (map iv fs)
                   | _ => 0%nat
                   end) (types S)).

Definition intro_classes (S : schema) (F : features) (sites : list dsite) (r : r_schema dflt) : list string :=
  let ds := all_defaults S sites in
  let anyv (p : gval -> bool) := existsb (fun d => gval_has p (snd d)) ds in
  let has_kind (p : named_type -> bool) := existsb (fun t => p (snd t)) (types S) in
  let gated := existsb (fun t => negb (subset (nt_req (snd t)) F)) (types S) in
  let depr := existsb (fun t => match snd t with
                                | NObject fs _ _ _ | NInterface fs _ _ =>
                                    existsb (fun f => is_deprecated (f_deprecation (snd f))) fs
                                | NEnum vs _ _ => existsb (fun v => is_deprecated (ev_deprecation (snd v))) vs
                                | _ => false
                                end) (types S) in
  let unlisted := negb (Nat.eqb (List.length (types S)) (List.length (rs_types r))) in
  (if anyv (fun v => match v with GString s => existsb needs_escape s | _ => false end) then ["default-escapes"] else []) ++
  (if anyv (fun v => match v with GString s => existsb (fun c => N.leb 128 c) s | _ => false end) then ["default-non-ascii"] else []) ++
  (if anyv (fun v => match v with GMap _ => true | _ => false end) then ["default-input-object"] else []) ++
  (if anyv (fun v => match v with GList _ => true | _ => false end) then ["default-list"] else []) ++
  (if anyv (fun v => match v with GFloat _ _ _ => true | _ => false end) then ["default-float"] else []) ++
  (if anyv (fun v => match v with GNull => true | _ => false end) then ["default-null"] else []) ++
  (if existsb (fun d => negb (default_in_scope S (fst d) (snd d))) ds then ["default-out-of-scope"] else []) ++
  (if has_kind (fun t => match t with NInterface _ _ _ => true | _ => false end) then ["interface"] else []) ++
  (if has_kind (fun t => match t with NUnion _ _ _ => true | _ => false end) then ["union"] else []) ++
  (if gated then ["gated-type"] else []) ++
  (if depr then ["deprecated"] else []) ++
  (if unlisted then ["unlisted-types"] else []) ++
  (if Nat.leb 5 (max_levels S) then ["deep-wrappers"] else []) ++
  (if negb (depth_ok S) then ["beyond-query-depth"] else []) ++
  (match directives S with [] => [] | _ => ["directives"] end) ++
  (if Nat.leb 1 (List.length ds) && Nat.leb 4 (List.length (types S)) then ["nontrivial"] else []).

Definition bytes_sexp (b : bytes) : sexp := SStr b.

(** a response in which some wrapper chain ends before its named type: the definition has a chain
    deeper than introspection.Query nests [ofType] (known finding chain-beyond-query-depth) *)
Definition was_cut {D} (r : r_schema D) : bool :=
  existsb (fun x => match ref_leaf x with None => true | Some _ => false end) (all_refs r).

Definition check_intro_one (l : list sexp) : sexp :=
  match field1 "schema" l, field1 "features" l, field1 "data" l, field1 "errors" l with
  | Some sc, Some fs, Some data, Some errs =>
      match dec_schema sc, dec_names fs, dec_data data, as_nat errs with
      | Some (Sc, sites), Some F, Some obs, Some nerr =>
          let S := Sc in
          match introspect (print_default S) S F with
          | IntroOutOfFuel => v_mismatch "model-out-of-fuel" []
          | IntroNullData =>
              match obs with None => v_ok ["null-data"] | Some _ => v_mismatch "model-says-null-data" [] end
          | IntroOk r =>
              match obs with
              | None => v_mismatch "implementation-null-data" []
              | Some o =>
                  if has_unmodelled r then v_bad "unmodelled-default" else
                  let on := normalise o in
                  let hyps := depth_ok S in
                  (* 1. the Spec oracle on the implementation's output: the description, with the
                        wrapper chains cut where the query stops looking (nothing is cut when
                        [depth_ok]); references resolve when no chain was cut *)
                  let d := truncate query_depth (describe spec_pr S F) in
                  let oracle :=
                    match schema_diff (default_present S) on d with
                    | Some w => Some ("describe-" ++ w)
                    | None =>
                        if hyps && negb (refs_resolve on) then Some "reference-unresolved"
                        else defaults_oracle S (collect_defaults on) (collect_defaults d)
                    end in
                  match oracle <|> e2e_oracle S sites with
                  | Some key => v_oracle_fail key []
                  | None =>
                      (* 2. model vs implementation *)
                      match schema_diff default_agrees on (normalise r) with
                      | Some w => v_mismatch w []
                      | None =>
                          if negb (Nat.eqb nerr (count_errors r)) then v_mismatch "error-count" [of_nat (count_errors r)]
                          else if was_cut on then
                            (* everything else is right (oracle against the cut description, defaults,
                               model = implementation), but the response is not the complete description *)
                            v_oracle_fail "chain-beyond-query-depth" []
                          else v_ok (intro_classes S F sites r ++ (if gating_coherent S F then [] else ["incoherent-gating"]))%list
                      end
                  end
              end
          end
      | None, _, _, _ => v_bad "decode-schema"
      | _, None, _, _ => v_bad "decode-features"
      | _, _, None, _ => v_bad "decode-data"
      | _, _, _, None => v_bad "decode-errors"
      end
  | _, _, _, _ => v_bad "fields"
  end.

(** ** histories: several introspection requests on ONE schema value

    A case may carry further requests [(then (features F) (data D) (errors n))] made, in this
    order, on the same *schema.Schema after the first one.  The model of a response is a function
    of the definition and the request's features alone, so every step is judged exactly like a
    first request: anything the implementation remembers from an earlier request (a cache keyed
    without the features, say) shows as an ordinary oracle failure of a later step. *)
Fixpoint thens (l : list sexp) : list (list sexp) :=
  match l with
  | [] => []
  | x :: r => match tagged "then" x with Some a => a :: thens r | None => thens r end
  end.

Fixpoint same_names (a b : list name) : bool :=
  match a, b with
  | [], [] => true
  | x :: a', y :: b' => bytes_eqb x y && same_names a' b'
  | _, _ => false
  end.

Definition benign (v : sexp) : bool :=
  match v with
  | SL (SSym t :: rest) =>
      String.eqb t "ok" ||
      (String.eqb t "oracle-fail" && match rest with SSym k :: _ => String.eqb k "chain-beyond-query-depth" | _ => false end)
  | _ => false
  end.

Definition add_classes (cs : list string) (v : sexp) : sexp :=
  match v with
  | SL (SSym t :: rest) => if String.eqb t "ok" then SL (SSym t :: rest ++ map SSym cs) else v
  | _ => v
  end.

Definition check_intro (l : list sexp) : sexp :=
  let first := check_intro_one l in
  match field "schema" l, thens l with
  | Some sc, (_ :: _) as steps =>
      let later := map (fun t => check_intro_one (SL (SSym "schema" :: sc) :: t)) steps in
      match find (fun v => negb (benign v)) (first :: later) with
      | Some v => v
      | None =>
          (* did the requests differ in which types they may see? *)
          let differ :=
            match field1 "schema" l, field1 "features" l with
            | Some s0, Some f0 =>
                match dec_schema s0, dec_names f0 with
                | Some (Sc, _), Some F0 =>
                    existsb (fun t => match field1 "features" t with
                                      | Some f => match dec_names f with
                                                  | Some F => negb (same_names (listed Sc F) (listed Sc F0))
                                                  | None => false
                                                  end
                                      | None => false
                                      end) steps
                | _, _ => false
                end
            | _, _ => false
            end in
          add_classes ("history" :: (if differ then ["history-types-differ"] else [])) first
      end
  | _, _ => first
  end.

(** ** definitions compared structurally; the answer names the first difference *)
Fixpoint gval_deep_eqb (a b : gval) {struct a} : bool :=
  match a, b with
  | GNull, GNull => true
  | GInt x, GInt y => Z.eqb x y
  | GFloat m e _, GFloat m' e' _ => Z.eqb m m' && Z.eqb e e'
  | GString s, GString t => bytes_eqb s t
  | GBool x, GBool y => Bool.eqb x y
  | GList xs, GList ys =>
      (fix all2 (xs ys : list gval) : bool :=
         match xs, ys with
         | [], [] => true
         | x :: xs', y :: ys' => gval_deep_eqb x y && all2 xs' ys'
         | _, _ => false
         end) xs ys
  | GMap xs, GMap ys =>
      (fix all2 (xs ys : list (name * gval)) : bool :=
         match xs, ys with
         | [], [] => true
         | (k, x) :: xs', (k', y) :: ys' => bytes_eqb k k' && gval_deep_eqb x y && all2 xs' ys'
         | _, _ => false
         end) xs ys
  | _, _ => false
  end.

Fixpoint sty_eqb (a b : sty) : bool :=
  match a, b with
  | StNamed x, StNamed y => bytes_eqb x y
  | StList x, StList y => sty_eqb x y
  | StNonNull x, StNonNull y => sty_eqb x y
  | _, _ => false
  end.

Definition names_eqb (a b : list name) : bool :=
  match first_diff (fun x y => chk (bytes_eqb x y) "x") a b with None => true | Some _ => false end.

Definition idef_diff (a b : name * input_def) : option string :=
  chk (bytes_eqb (fst a) (fst b)) "name" <|>
  chk (sty_eqb (in_type (snd a)) (in_type (snd b))) "type" <|>
  chk (opt_eqb gval_deep_eqb (in_default (snd a)) (in_default (snd b))) "default" <|>
  chk (bytes_eqb (in_desc (snd a)) (in_desc (snd b))) "description".
Definition idefs_diff (what : string) (a b : list (name * input_def)) : option string :=
  match first_diff idef_diff a b with Some d => Some (what ++ "-" ++ d) | None => None end.
Definition fdef_diff (a b : name * field_def) : option string :=
  chk (bytes_eqb (fst a) (fst b)) "name" <|>
  chk (sty_eqb (f_type (snd a)) (f_type (snd b))) "type" <|>
  idefs_diff "args" (f_args (snd a)) (f_args (snd b)) <|>
  chk (names_eqb (f_features (snd a)) (f_features (snd b))) "features" <|>
  chk (bytes_eqb (f_deprecation (snd a)) (f_deprecation (snd b))) "deprecation" <|>
  chk (bytes_eqb (f_desc (snd a)) (f_desc (snd b))) "description".
Definition fdefs_diff (a b : list (name * field_def)) : option string :=
  match first_diff fdef_diff a b with Some d => Some ("fields-" ++ d) | None => None end.
Definition eval_diff (a b : name * enum_val) : option string :=
  chk (bytes_eqb (fst a) (fst b)) "name" <|>
  chk (gval_deep_eqb (ev_value (snd a)) (ev_value (snd b))) "value" <|>
  chk (bytes_eqb (ev_desc (snd a)) (ev_desc (snd b))) "description" <|>
  chk (bytes_eqb (ev_deprecation (snd a)) (ev_deprecation (snd b))) "deprecation".

Definition ntype_diff (a b : name * named_type) : option string :=
  chk (bytes_eqb (fst a) (fst b)) "type-name" <|>
  chk (names_eqb (nt_req (snd a)) (nt_req (snd b))) "type-features" <|>
  chk (bytes_eqb (nt_desc (snd a)) (nt_desc (snd b))) "type-description" <|>
  match snd a, snd b with
  | NScalar b1 a1 _ _, NScalar b2 a2 _ _ => chk (Bool.eqb b1 b2) "scalar-builtin" <|> chk (Bool.eqb a1 a2) "scalar-accepts-all"
  | NEnum v1 _ _, NEnum v2 _ _ => match first_diff eval_diff v1 v2 with Some d => Some ("enumValues-" ++ d) | None => None end
  | NInput f1 _ r1 _, NInput f2 _ r2 _ => idefs_diff "inputFields" f1 f2 <|> chk (Bool.eqb r1 r2) "result-coercion"
  | NObject f1 i1 _ _, NObject f2 i2 _ _ => fdefs_diff f1 f2 <|> chk (names_eqb i1 i2) "interfaces"
  | NInterface f1 _ _, NInterface f2 _ _ => fdefs_diff f1 f2
  | NUnion m1 _ _, NUnion m2 _ _ => chk (names_eqb m1 m2) "members"
  | _, _ => Some "kind"
  end.

Definition ddef_diff (a b : name * dir_def) : option string :=
  chk (bytes_eqb (fst a) (fst b)) "directive-name" <|>
  idefs_diff "directive-args" (dd_args (snd a)) (dd_args (snd b)) <|>
  chk (names_eqb (dd_locs (snd a)) (dd_locs (snd b))) "directive-locations" <|>
  chk (bytes_eqb (dd_desc (snd a)) (dd_desc (snd b))) "directive-description".

Definition def_diff (a b : schema) : option string :=
  chk (bytes_eqb (query a) (query b)) "query" <|>
  chk (opt_eqb bytes_eqb (mutation a) (mutation b)) "mutation" <|>
  chk (opt_eqb bytes_eqb (subscription a) (subscription b)) "subscription" <|>
  match first_diff ntype_diff (types a) (types b) with
  | Some d => Some (if String.eqb d "count" then "types-count" else d)
  | None => None
  end <|>
  chk (names_eqb (additional a) (additional b)) "additional" <|>
  match first_diff ddef_diff (directives a) (directives b) with
  | Some d => Some (if String.eqb d "count" then "directives-count" else d)
  | None => None
  end.

(** ** rebuild cases *)
Inductive rebuilt_obs := RError | RRejected | ROk (R : schema) (dups : list name).

Definition dec_rebuilt (s : sexp) : option rebuilt_obs :=
  match untag s with
  | Some (t, args) =>
      if String.eqb t "error" then Some RError
      else if String.eqb t "rejected" then Some RRejected
      else if String.eqb t "ok" then
        match args with
        | [sc; d] => do r <- dec_schema sc; do ds <- dec_names d; Some (ROk (fst r) ds)
        | _ => None
        end
      else None
  | None => None
  end.

Record doc_obs := { d_text : bytes; d_orig : string; d_rebuilt : string; d_picky : bool }.
Definition dec_doc (s : sexp) : option doc_obs :=
  match tagged "doc" s with
  | Some [SStr t; SSym a; SSym b; p] => do pk <- as_bool p; Some {| d_text := t; d_orig := a; d_rebuilt := b; d_picky := pk |}
  | _ => None
  end.

Fixpoint docs_oracle (ds : list doc_obs) : option string :=
  match ds with
  | [] => None
  | d :: r =>
      if String.eqb (d_orig d) "panic" || String.eqb (d_rebuilt d) "panic" then docs_oracle r
      else if String.eqb (d_orig d) (d_rebuilt d) then docs_oracle r
      else Some (if d_picky d then "rebuilt-scalar-accepts-any-literal" else "verdict-differs")
  end.

Definition count_docs (p : doc_obs -> bool) (ds : list doc_obs) : nat := List.length (filter p ds).

Definition check_rebuild (l : list sexp) : sexp :=
  match field1 "schema" l, field1 "features" l, field1 "data" l, field1 "rebuilt" l, field "docs" l with
  | Some sc, Some fs, Some data, Some rb, Some dl =>
      match dec_schema sc, dec_names fs, dec_data data, dec_rebuilt rb, map_opt dec_doc dl with
      | Some (Sc, _), Some F, Some (Some o), Some robs, Some docs =>
          let S := Sc in
          let hyps := depth_ok S in
          let model := rebuild o in
          (* 1. oracle: the rebuilt definition is the visible part of the original, and verdicts agree *)
          let oracle :=
            if hyps then
              match robs with
              | RError => Some "rebuild-fails"
              | RRejected => Some "rebuilt-definition-rejected-by-schema-New"
              | ROk R dups =>
                  match dups with _ :: _ => Some "rebuilt-duplicate-type-objects" | [] =>
                  let keep := fun n => mem n (map fst (types R)) in
                  match def_diff (force_accept (canon R)) (force_accept (canon_on keep (erase S F))) with
                  | Some w => Some ("rebuilt-differs-" ++ w)
                  | None =>
                      if negb (names_eqb (map fst (types R)) (sort_by (fun n => n) (members (anchored_schema S F))))
                      then Some "rebuilt-reachable-types"
                      else docs_oracle docs
                  end end
              end
            else None in
          (* the rebuilt schema value asked again, under other feature sets: nothing in it is gated
             and nothing may be remembered, so every response is the first one *)
          let rhist :=
            match field "rebuilt-history" l with
            | Some (d0 :: ds) =>
                match dec_data d0 with
                | Some (Some r0) =>
                    if forallb (fun d => match dec_data d with
                                         | Some (Some r1) =>
                                             match schema_diff (fun a b => opt_eqb bytes_eqb a b) (normalise r0) (normalise r1) with
                                             | None => true | Some _ => false end
                                         | _ => false
                                         end) ds
                    then None else Some "rebuilt-history-differs"
                | _ => Some "rebuilt-history-differs"
                end
            | _ => None
            end in
          match oracle <|> rhist with
          | Some key => v_oracle_fail key []
          | None =>
              (* 2. model of GetSchemaDefinition on the observed JSON vs the real one *)
              match model, robs with
              | None, RError =>
                  if negb hyps && was_cut o then v_oracle_fail "chain-beyond-query-depth" []   (* not re-buildable either *)
                  else v_ok ["rebuild-error"; (if hyps then "nontrivial" else "outside-hypotheses")]
              | None, _ => v_mismatch "model-says-rebuild-fails" []
              | Some _, RError => v_mismatch "implementation-rebuild-fails" []
              | Some M, RRejected => v_ok ["rebuilt-rejected"]
              | Some M, ROk R _ =>
                  let keep := fun n => mem n (map fst (types R)) in
                  match def_diff (canon R) (canon_on keep M) with
                  | Some w => v_mismatch ("rebuilt-" ++ w) []
                  | None =>
                      if negb (names_eqb (additional R) (additional M)) then v_mismatch "rebuilt-additional" []
                      else if negb (names_eqb (map fst (types R)) (sort_by (fun n => n) (members M)))
                      then v_mismatch "rebuilt-reachable" []
                      else
                        let acc := count_docs (fun d => String.eqb (d_orig d) "accepted") docs in
                        let rej := count_docs (fun d => String.eqb (d_orig d) "rejected") docs in
                        v_ok (["rebuild"] ++
                              (if Nat.leb 3 acc && Nat.leb 3 rej then ["nontrivial"] else []) ++
                              (if existsb (fun d => String.eqb (d_orig d) "panic" || String.eqb (d_rebuilt d) "panic") docs then ["validator-panic"] else []) ++
                              (if negb (scalars_accept_all S) then ["picky-scalar"] else []) ++
                              (if negb (Nat.eqb (List.length (types R)) (List.length (listed S F))) then ["orphans-dropped"] else []) ++
                              (if gating_coherent S F then [] else ["incoherent-gating"]) ++
                              (if hyps then [] else ["outside-hypotheses"]))%list
                  end
              end
          end
      | _, _, _, _, _ => v_bad "decode"
      end
  | _, _, _, _, _ => v_bad "fields"
  end.

(** ** clone cases: pointer graphs *)
Fixpoint dec_gsty (fuel : nat) (s : sexp) : option gsty :=
  match fuel with
  | O => None
  | S f =>
      match s with
      | SL [SSym t; SStr n; i] => if String.eqb t "ref" then do x <- as_N i; Some (GtNamed n x) else None
      | SL [SSym t; i; u] =>
          if String.eqb t "list" then do x <- as_N i; do v <- dec_gsty f u; Some (GtList x v)
          else if String.eqb t "nn" then do x <- as_N i; do v <- dec_gsty f u; Some (GtNonNull x v)
          else None
      | _ => None
      end
  end.

Definition dec_gset (s : sexp) : option gset :=
  if is_sym "nil" s then Some None
  else match tagged "set" s with
       | Some (i :: fs) => do x <- as_N i; do l <- map_opt as_bytes fs; Some (Some (x, l))
       | _ => None
       end.

Definition dec_gmap {A} (f : sexp -> option (name * A)) (s : sexp) : option (gmap A) :=
  if is_sym "nil" s then Some None
  else match tagged "map" s with
       | Some (i :: es) => do x <- as_N i; do l <- map_opt f es; Some (Some (x, l))
       | _ => None
       end.

Definition dec_ref (s : sexp) : option (name * id) :=
  match tagged "ref" s with
  | Some [SStr n; i] => do x <- as_N i; Some (n, x)
  | _ => None
  end.

Definition dec_gslice (s : sexp) : option gslice :=
  if is_sym "nil" s then Some None
  else match tagged "slice" s with
       | Some (i :: es) => do x <- as_N i; do l <- map_opt dec_ref es; Some (Some (x, l))
       | _ => None
       end.

Definition dec_giv (s : sexp) : option (name * g_input) :=
  match tagged "iv" s with
  | Some [SStr n; i; t; SStr desc; d] =>
      do x <- as_N i; do ty <- dec_gsty sty_fuel t; do dv <- as_option (dec_gval gval_fuel) d;
      Some (n, {| gi_self := x; gi_type := ty; gi_default := dv; gi_desc := desc |})
  | _ => None
  end.

Definition dec_gfd (s : sexp) : option (name * g_field) :=
  match tagged "fd" s with
  | Some [SStr n; i; t; SStr desc; SStr depr; req; SL [SSym a; args]] =>
      if negb (String.eqb a "args") then None else
      do x <- as_N i; do ty <- dec_gsty sty_fuel t; do rq <- dec_gset req; do am <- dec_gmap dec_giv args;
      Some (n, {| gf_self := x; gf_type := ty; gf_args := am; gf_features := rq; gf_deprecation := depr; gf_desc := desc |})
  | _ => None
  end.

Definition dec_gval_entry (s : sexp) : option (name * g_enum_val) :=
  match tagged "val" s with
  | Some [SStr n; i; g; SStr d; SStr dep] =>
      do x <- as_N i; do gv <- dec_gval gval_fuel g;
      Some (n, {| gv_self := x; gv_value := gv; gv_desc := d; gv_deprecation := dep |})
  | _ => None
  end.

Definition dec_gnamed (s : sexp) : option (name * g_named) :=
  match untag s with
  | Some (t, i :: SStr n :: rest) =>
      do self <- as_N i;
      if String.eqb t "scalar" then
        match rest with
        | [b; aa; req; SStr desc] => do bi <- as_bool b; do ac <- as_bool aa; do rq <- dec_gset req; Some (n, GScalar self bi ac rq desc)
        | _ => None
        end
      else if String.eqb t "enum" then
        match rest with
        | [req; SStr desc; SL [SSym v; vals]] => do rq <- dec_gset req; do vs <- dec_gmap dec_gval_entry vals; Some (n, GEnum self vs rq desc)
        | _ => None
        end
      else if String.eqb t "input" then
        match rest with
        | [req; rc; SStr desc; SL [SSym f; fields]] =>
            do rq <- dec_gset req; do r <- as_bool rc; do fs <- dec_gmap dec_giv fields; Some (n, GInput self fs rq r desc)
        | _ => None
        end
      else if String.eqb t "object" then
        match rest with
        | [req; SStr desc; SL [SSym i'; ifs]; SL [SSym f; fields]] =>
            do rq <- dec_gset req; do is <- dec_gslice ifs; do fs <- dec_gmap dec_gfd fields; Some (n, GObject self fs is rq desc)
        | _ => None
        end
      else if String.eqb t "interface" then
        match rest with
        | [req; SStr desc; SL [SSym f; fields]] => do rq <- dec_gset req; do fs <- dec_gmap dec_gfd fields; Some (n, GInterface self fs rq desc)
        | _ => None
        end
      else if String.eqb t "union" then
        match rest with
        | [req; SStr desc; SL [SSym m; ms]] => do rq <- dec_gset req; do mm <- dec_gslice ms; Some (n, GUnion self mm rq desc)
        | _ => None
        end
      else None
  | _ => None
  end.

Definition dec_glocs (s : sexp) : option glocs :=
  if is_sym "nil" s then Some None
  else match tagged "slice" s with
       | Some (i :: ls) => do x <- as_N i; do l <- map_opt as_bytes ls; Some (Some (x, l))
       | _ => None
       end.

Definition dec_gdir (s : sexp) : option (name * g_dir) :=
  match tagged "dir" s with
  | Some [SStr n; i; SStr desc; SL [SSym l; locs]; SL [SSym a; args]] =>
      do x <- as_N i; do ls <- dec_glocs locs; do am <- dec_gmap dec_giv args;
      Some (n, {| gd_self := x; gd_args := am; gd_locs := ls; gd_desc := desc |})
  | _ => None
  end.

Definition dec_gschema (s : sexp) : option g_schema :=
  match tagged "gschema" s with
  | Some l =>
      match field1 "self" l, field "types" l, field1 "query" l, field1 "mutation" l, field1 "subscription" l,
            field1 "additional" l, field1 "directives" l with
      | Some i, Some ts, Some q, Some m, Some su, Some add, Some ds =>
          do self <- as_N i;
          do tys <- map_opt dec_gnamed ts;
          do qq <- as_option dec_ref q;
          do mu <- as_option dec_ref m;
          do sb <- as_option dec_ref su;
          do ad <- dec_gslice add;
          do dirs <- dec_gmap dec_gdir ds;
          match qq with
          | Some qr => Some {| g_self := self; g_types := tys; g_query := qr; g_mutation := mu; g_subscription := sb;
                               g_additional := ad; g_directives := dirs |}
          | None => None
          end
      | _, _, _, _, _, _, _ => None
      end
  | None => None
  end.

(** every identity of a graph in a fixed traversal order, nil containers as -1 (so that two graphs
    of the same definition can be compared position by position) *)
Definition zid (i : id) : Z := Z.of_N i.
Fixpoint sig_ty (t : gsty) : list Z :=
  match t with GtNamed _ tg => [zid tg] | GtList s u => zid s :: sig_ty u | GtNonNull s u => zid s :: sig_ty u end.
Definition sig_set (s : gset) : list Z := match s with Some (i, _) => [zid i] | None => [(-1)%Z] end.
Definition sig_map {A} (f : A -> list Z) (m : gmap A) : list Z :=
  match m with Some (i, l) => (zid i :: flat_map (fun kv => f (snd kv)) l)%list | None => [(-1)%Z] end.
Definition sig_slice (s : gslice) : list Z :=
  match s with Some (i, l) => (zid i :: map (fun e => zid (snd e)) l)%list | None => [(-1)%Z] end.
Definition sig_input (i : g_input) : list Z := (zid (gi_self i) :: sig_ty (gi_type i))%list.
Definition sig_field (f : g_field) : list Z :=
  (zid (gf_self f) :: sig_ty (gf_type f) ++ sig_map sig_input (gf_args f) ++ sig_set (gf_features f))%list.
Definition sig_named (t : g_named) : list Z :=
  match t with
  | GScalar s _ _ r _ => (zid s :: sig_set r)%list
  | GEnum s vs r _ => (zid s :: sig_map (fun v => [zid (gv_self v)]) vs ++ sig_set r)%list
  | GInput s fs r _ _ => (zid s :: sig_map sig_input fs ++ sig_set r)%list
  | GObject s fs ifs r _ => (zid s :: sig_map sig_field fs ++ sig_slice ifs ++ sig_set r)%list
  | GInterface s fs r _ => (zid s :: sig_map sig_field fs ++ sig_set r)%list
  | GUnion s ms r _ => (zid s :: sig_slice ms ++ sig_set r)%list
  end.
Definition sig_dir (d : g_dir) : list Z :=
  (zid (gd_self d) :: sig_map sig_input (gd_args d) ++ match gd_locs d with Some (i, _) => [zid i] | None => [(-1)%Z] end)%list.
Definition signature (G : g_schema) : list Z :=
  (zid (g_self G) :: flat_map (fun t => sig_named (snd t)) (g_types G)
   ++ [zid (snd (g_query G))] ++ match g_mutation G with Some r => [zid (snd r)] | None => [(-1)%Z] end
   ++ match g_subscription G with Some r => [zid (snd r)] | None => [(-1)%Z] end
   ++ sig_slice (g_additional G) ++ sig_map sig_dir (g_directives G))%list.

(** observed clone vs model clone: the same identities where they are old ones, and a bijection
    between the fresh ones *)
Definition zmem (x : Z) (l : list Z) : bool := existsb (Z.eqb x) l.
Fixpoint iso_ids (old : list Z) (next : Z) (pairs : list (Z * Z)) (obs model : list Z) : bool :=
  match obs, model with
  | [], [] => true
  | o :: obs', m :: model' =>
      if Z.leb o 0 || Z.leb m 0 then Z.eqb o m && iso_ids old next pairs obs' model'
      else if zmem o old then Z.eqb o m && iso_ids old next pairs obs' model'
      else if Z.ltb m next then false                       (* the model says: an old object *)
      else match find (fun p => Z.eqb (fst p) o) pairs, find (fun p => Z.eqb (snd p) m) pairs with
           | Some p, _ => Z.eqb (snd p) m && iso_ids old next pairs obs' model'
           | None, Some _ => false
           | None, None => iso_ids old next ((o, m) :: pairs) obs' model'
           end
  | _, _ => false
  end.

Definition sort_gtypes (G : g_schema) : g_schema :=
  {| g_self := g_self G; g_types := sort_by fst (g_types G); g_query := g_query G; g_mutation := g_mutation G;
     g_subscription := g_subscription G; g_additional := g_additional G; g_directives := g_directives G |}.

Definition max_id (G : g_schema) : N := fold_right N.max 0%N (ids G).

Definition check_clone (l : list sexp) : sexp :=
  match field1 "orig" l, field1 "clone" l, field1 "orig-after" l, field1 "shared" l, field1 "clone-new" l with
  | Some g0, Some g1, Some g2, Some (SL sh), Some (SSym cn) =>
      match dec_gschema g0, dec_gschema g1, (if is_sym "broken" g2 || match tagged "broken" g2 with Some _ => true | None => false end
                                           then dec_gschema g0 else dec_gschema g2) with
      | Some G0, Some G1, Some G2 =>
          let broken := is_sym "broken" g2 || match tagged "broken" g2 with Some _ => true | None => false end in
          let old := map zid (ids G0) in
          let builtins := map zid (builtin_ids G0) in
          (* 1. oracle *)
          let shared_ids := filter (fun i => zmem i old && negb (zmem i builtins)) (map zid (ids G1)) in
          let oracle :=
            match def_diff (strip G1) (strip G0) with
            | Some w => Some ("clone-differs-" ++ w)
            | None =>
                match sh with
                | SSym w :: _ => Some ("clone-shares-" ++ w)
                | _ =>
                    match shared_ids with
                    | _ :: _ => Some "clone-shares-structure"
                    | [] =>
                        if broken then Some "original-damaged-by-mutating-clone" else
                        match def_diff (strip G2) (strip G0) with
                        | Some w => Some ("original-changed-by-mutating-clone-" ++ w)
                        | None => if String.eqb cn "ok" then None else Some "clone-rejected-by-schema-New"
                        end
                    end
                end
            end in
          match oracle with
          | Some key => v_oracle_fail key []
          | None =>
              (* 2. the model of deepCopySchemaDefinition on the same graph *)
              let next := N.succ (max_id G0) in
              match clone G0 next with
              | CloneOutOfFuel => v_mismatch "clone-model-out-of-fuel" []
              | ClonePanic => v_mismatch "clone-model-panics" []
              | Cloned M _ =>
                  let M := sort_gtypes M in
                  match def_diff (strip G1) (strip M) with
                  | Some w => v_mismatch ("clone-model-" ++ w) []
                  | None =>
                      if negb (iso_ids old (Z.of_N next) [] (signature G1) (signature M)) then v_mismatch "clone-identities" []
                      else
                        (* 3. the clone introspects like the definition it was made from *)
                        match check_intro l with
                        | SL (SSym t :: cls) =>
                            if String.eqb t "ok" then SL (SSym "ok" :: SSym "clone" :: cls) else SL (SSym t :: cls)
                        | x => x
                        end
                  end
              end
          end
      | _, _, _ => v_bad "decode-graph"
      end
  | _, _, _, _, _ => v_bad "fields"
  end.

Definition check (c : sexp) : sexp :=
  match tagged "case" c with
  | Some (SSym k :: l) =>
      if String.eqb k "intro" then check_intro l
      else if String.eqb k "rebuild" then check_rebuild l
      else if String.eqb k "clone" then check_clone l
      else v_bad "kind"
  | _ => v_bad "shape"
  end.
