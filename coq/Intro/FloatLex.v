(** * Intro/FloatLex.v — C10 meets C07: the text Go prints for a float is a number token of the
    lexer specification (coq/Lex/LexSpec.v, written from the GraphQL grammar for property C07).

    [go_float_text] (Intro/MarshalProofs.v) followed by a delimiter is matched in full by C07's
    [match_float] when it has a fraction or an exponent, and by [match_int] (and not by
    [match_float]) when it has neither. *)
From Coq Require Import List NArith ZArith Bool Lia.
From ApiFu Require Import Base.Sexp Intro.IntrospectModel Intro.LiteralSpec Intro.MarshalProofs.
From ApiFu Require Lex.LexSpec.
Import ListNotations.
Module LS := ApiFu.Lex.LexSpec.
Open Scope N_scope.

Lemma digit_is_digit c : LS.digit c = is_digit c.
Proof. reflexivity. Qed.

Lemma span_digits ds tl :
  all_digits ds -> match tl with [] => True | b :: _ => is_digit b = false end ->
  LS.span LS.digit (ds ++ tl) = length ds.
Proof.
  induction 1 as [|d r Hd Hr IH]; intro Ht; simpl.
  - destruct tl as [|b t]; simpl; auto. rewrite digit_is_digit, Ht. reflexivity.
  - rewrite digit_is_digit, Hd. f_equal. apply IH. exact Ht.
Qed.

Lemma skipn_app_length {X} (a b : list X) : skipn (length a) (a ++ b) = b.
Proof. induction a; simpl; auto. Qed.

Definition stops (tl : bytes) : Prop := match tl with [] => True | b :: _ => is_digit b = false end.

Lemma follow_stops rest : follow_ok rest -> stops rest.
Proof. destruct rest as [|b r]; simpl; auto. intros [->|[->|[->| ->]]]; reflexivity. Qed.

Lemma frac_stops fp tl : stops (frac_text fp ++ tl) \/ fp = [] .
Proof. destruct fp; [right; reflexivity | left; reflexivity]. Qed.

Section Go.
  Variables (neg : bool) (ip fp : bytes) (ex : option (option bool * bytes)) (rest : bytes).
  Hypothesis Hok : go_float_ok ip fp ex.
  Hypothesis Hf : follow_ok rest.

  Let sg : bytes := if neg then [45] else [].
  Let tail : bytes := frac_text fp ++ exp_text ex ++ rest.

  Lemma text_shape : go_float_text neg ip fp ex ++ rest = sg ++ ip ++ tail.
  Proof. unfold go_float_text, sg, tail. rewrite <- !app_assoc. reflexivity. Qed.

  Lemma exp_rest_head : match exp_text ex ++ rest with
                        | [] => True
                        | b :: _ => is_digit b = false /\ b =? 46 = false
                        end.
  Proof.
    destruct ex as [[s ed]|]; simpl.
    - split; reflexivity.
    - destruct rest as [|b r]; simpl; auto. destruct Hf as [->|[->|[->| ->]]]; split; reflexivity.
  Qed.

  Lemma tail_stops : stops tail.
  Proof.
    pose proof exp_rest_head as H. unfold tail. destruct fp as [|d r]; simpl.
    - destruct (exp_text ex ++ rest); simpl; auto. tauto.
    - reflexivity.
  Qed.

  Lemma integer_part : LS.match_integer_part (sg ++ ip ++ tail) = Some (length (sg ++ ip)).
  Proof.
    pose proof tail_stops as Hts. destruct Hok as [Hip [Hiok _]]. unfold LS.match_integer_part. cbv zeta. unfold LS.cp in *.
    destruct ip as [|c l'] eqn:Eip; [discriminate|]. inversion Hip as [|? ? Hc Hl']; subst.
    assert (Hc45 : c =? 45 = false) by (apply is_digit_spec in Hc; lia).
    assert (Hhead : LS.head_is (sg ++ (c :: l') ++ tail) 45 = neg).
    { unfold sg. destruct neg; simpl; auto. }
    rewrite Hhead.
    assert (Hskip : skipn (if neg then 1%nat else 0%nat) (sg ++ (c :: l') ++ tail) = c :: l' ++ tail).
    { unfold sg. destruct neg; reflexivity. }
    rewrite Hskip.
    destruct (c =? 48) eqn:E48.
    - assert (l' = []) as ->.
      { destruct l' as [|x y]; auto. simpl in Hiok. rewrite E48 in Hiok. discriminate. }
      unfold sg. destruct neg; reflexivity.
    - rewrite digit_is_digit, Hc. rewrite span_digits by auto.
      rewrite app_length. unfold sg. destruct neg; simpl; f_equal; lia.
  Qed.

  Lemma fractional_part :
    LS.match_fractional_part tail = match fp with [] => None | _ => Some (length (frac_text fp)) end.
  Proof.
    pose proof exp_rest_head as H.
    destruct Hok as [_ [_ [Hfp _]]]. unfold tail. destruct fp as [|d r].
    - simpl. destruct (exp_text ex ++ rest) as [|b t]; simpl; auto.
      destruct H as [_ H]. rewrite H. reflexivity.
    - cbn [frac_text app]. unfold LS.match_fractional_part. change (46 =? 46) with true. cbn [andb].
      assert (Hs : stops (exp_text ex ++ rest)).
      { destruct (exp_text ex ++ rest); simpl; auto. tauto. }
      pose proof (span_digits (d :: r) (exp_text ex ++ rest) Hfp Hs) as E. cbn [app] in E. unfold LS.cp in *. rewrite E. simpl. reflexivity.
  Qed.

  Lemma exponent_part :
    LS.match_exponent_part (exp_text ex ++ rest) = match ex with None => None | Some _ => Some (length (exp_text ex)) end.
  Proof.
    destruct Hok as [_ [_ [_ Hex]]]. destruct ex as [[s ed]|].
    - destruct Hex as [Hd Hne]. cbn [exp_text app]. unfold LS.match_exponent_part.
      change (LS.exponent_indicator 101) with true. cbv iota zeta. unfold LS.cp in *.
      destruct ed as [|d r] eqn:Eed; [contradiction|]. inversion Hd as [|? ? Hdd Hr]; subst.
      assert (Hsign : (LS.head_is ((exp_sign_text s ++ d :: r) ++ rest) 43 || LS.head_is ((exp_sign_text s ++ d :: r) ++ rest) 45)
                      = match s with Some _ => true | None => false end).
      { destruct s as [[|]|]; simpl; auto. apply is_digit_spec in Hdd.
        assert (d =? 43 = false) as -> by lia. assert (d =? 45 = false) as -> by lia. reflexivity. }
      rewrite Hsign.
      assert (Hskip : skipn (if match s with Some _ => true | None => false end then 1%nat else 0%nat)
                            ((exp_sign_text s ++ d :: r) ++ rest) = (d :: r) ++ rest).
      { destruct s as [[|]|]; reflexivity. }
      rewrite Hskip. rewrite (span_digits (d :: r) rest Hd (follow_stops rest Hf)).
      simpl. rewrite app_length. destruct s as [[|]|]; simpl; f_equal; lia.
    - cbn [exp_text app]. destruct rest as [|b r]; simpl; auto.
      destruct Hf as [->|[->|[->| ->]]]; reflexivity.
  Qed.

End Go.

(** C07's FloatValue / IntValue on the text *)
Theorem go_float_text_is_token neg ip fp ex rest :
  go_float_ok ip fp ex -> follow_ok rest ->
  let txt := go_float_text neg ip fp ex in
  LS.match_int (txt ++ rest) = Some (length ((if neg then [45] else []) ++ ip)) /\
  LS.match_float (txt ++ rest) = match fp, ex with [], None => None | _, _ => Some (length txt) end.
Proof.
  intros Hok Hf.
  pose proof (integer_part neg ip fp ex rest Hok Hf) as HI. pose proof (fractional_part ip fp ex rest Hok Hf) as HF.
  pose proof (exponent_part ip fp ex rest Hok Hf) as HE. pose proof (text_shape neg ip fp ex rest) as HT.
  cbv zeta in *. rewrite HT. split; [exact HI|].
  unfold go_float_text in *. unfold bytes, LS.cp in *. remember (if neg then [45] else []) as sg eqn:Esg.
  unfold LS.match_float. unfold LS.cp in *. rewrite HI.
  assert (S1 : forall tl : list N, skipn (length (sg ++ ip)) (sg ++ ip ++ tl) = tl).
  { intro tl. rewrite app_assoc. apply skipn_app_length. }
  rewrite S1. rewrite HF.
  assert (Hlen : length (sg ++ ip ++ frac_text fp ++ exp_text ex) = (length (sg ++ ip) + length (frac_text fp) + length (exp_text ex))%nat).
  { rewrite !app_length. rewrite !Nat.add_assoc. reflexivity. }
  destruct fp as [|d r].
  - cbn [frac_text app] in *. rewrite HE.
    destruct ex as [[s ed]|]; auto. f_equal. rewrite Hlen. simpl. rewrite Nat.add_0_r. reflexivity.
  - assert (S2 : skipn (length (sg ++ ip) + length (frac_text (d :: r))) (sg ++ ip ++ frac_text (d :: r) ++ exp_text ex ++ rest) = exp_text ex ++ rest).
    { rewrite <- app_length. rewrite !app_assoc. rewrite <- (app_assoc _ (exp_text ex) rest). apply skipn_app_length. }
    rewrite S2. rewrite HE. destruct ex as [[s ed]|]; f_equal; rewrite Hlen; simpl; rewrite ?Nat.add_0_r; reflexivity.
Qed.
