(** * Intro/RebuildSpec.v — C10 reference for "re-buildably": what a definition rebuilt from the
    introspection result must be.

    [erase S F] is the part of [S] a request with feature set [F] can see, with the gating
    annotations removed: the listed types; of objects and interfaces the visible fields; of
    objects the visible interfaces.

    [canon] is the equivalence under which two definitions are "the same for validation": Go maps
    have no order (everything keyed by name is sorted); of a default value only its presence and
    whether it is null matter; the Go value of an enum value, the ResultCoercion of an input
    object, resolvers and IsTypeOf do not matter; AdditionalTypes is only a way to make types
    reachable.  Everything else is kept: names, kinds, descriptions, deprecation reasons, field
    and argument types, interfaces and union members (in order), enum value names, directive
    locations and arguments, the root operation types, and whether a custom scalar accepts every
    literal.

    Executable (it is the oracle of the rebuild cases); no proofs in this file. *)
From Coq Require Import List NArith ZArith Bool.
From ApiFu Require Import Base.Sexp Intro.IntrospectModel Intro.IntrospectSpec.
Import ListNotations.

(** ** the visible part *)
Definition erase_field (f : name * field_def) : name * field_def :=
  (fst f, {| f_type := f_type (snd f); f_args := f_args (snd f); f_features := [];
             f_deprecation := f_deprecation (snd f); f_desc := f_desc (snd f) |}).
Definition visible_fields (F : features) (fs : list (name * field_def)) : list (name * field_def) :=
  map erase_field (filter (fun f => subset (f_features (snd f)) F) fs).

Definition erase_type (S : schema) (F : features) (t : named_type) : named_type :=
  match t with
  | NScalar b a _ d => NScalar b a [] d
  | NEnum vs _ d => NEnum vs [] d
  | NInput fs _ rc d => NInput fs [] rc d
  | NObject fs ifs _ d => NObject (visible_fields F fs) (filter (visible_type S F) ifs) [] d
  | NInterface fs _ d => NInterface (visible_fields F fs) [] d
  | NUnion ms _ d => NUnion (filter (visible_type S F) ms) [] d
  end.

Definition erase (S : schema) (F : features) : schema :=
  {| types := flat_map (fun n => match lookup n (types S) with
                                 | Some t => [(n, erase_type S F t)]
                                 | None => []
                                 end) (listed S F);
     query := query S; mutation := mutation S; subscription := subscription S;
     additional := filter (visible_type S F) (additional S);
     directives := directives S |}.

(** ** the same for validation *)
Definition canon_default (d : option gval) : option gval :=
  match d with
  | None => None
  | Some GNull => Some GNull
  | Some _ => Some (GBool true)
  end.
Definition canon_input (a : name * input_def) : name * input_def :=
  (fst a, {| in_type := in_type (snd a); in_default := canon_default (in_default (snd a)); in_desc := in_desc (snd a) |}).
Definition canon_inputs (l : list (name * input_def)) : list (name * input_def) :=
  sort_by fst (map canon_input l).
Definition canon_field (f : name * field_def) : name * field_def :=
  (fst f, {| f_type := f_type (snd f); f_args := canon_inputs (f_args (snd f)); f_features := f_features (snd f);
             f_deprecation := f_deprecation (snd f); f_desc := f_desc (snd f) |}).
Definition canon_enum_value (v : name * enum_val) : name * enum_val :=
  (fst v, {| ev_value := GNull; ev_desc := ev_desc (snd v); ev_deprecation := ev_deprecation (snd v) |}).

Definition canon_type (t : named_type) : named_type :=
  match t with
  | NScalar b a r d => NScalar b (if b then false else a) r d
  | NEnum vs r d => NEnum (sort_by fst (map canon_enum_value vs)) r d
  | NInput fs r _ d => NInput (canon_inputs fs) r true d
  | NObject fs ifs r d => NObject (sort_by fst (map canon_field fs)) ifs r d
  | NInterface fs r d => NInterface (sort_by fst (map canon_field fs)) r d
  | NUnion ms r d => NUnion ms r d
  end.

Definition canon_directive (d : name * dir_def) : name * dir_def :=
  (fst d, {| dd_args := canon_inputs (dd_args (snd d)); dd_locs := dd_locs (snd d); dd_desc := dd_desc (snd d) |}).

(** [keep]: the types compared (a rebuilt definition only contains what it can reach) *)
Definition canon_on (keep : name -> bool) (S : schema) : schema :=
  {| types := sort_by fst (map (fun t => (fst t, canon_type (snd t))) (filter (fun t => keep (fst t)) (types S)));
     query := query S; mutation := mutation S; subscription := subscription S;
     additional := [];
     directives := sort_by fst (map canon_directive (directives S)) |}.

Definition canon (S : schema) : schema := canon_on (fun _ => true) S.

(** ** hypotheses of the rebuild clause that are limits of introspection itself *)

(** a rebuilt scalar has no literal coercion: it cannot reject what the original rejects *)
Definition scalars_accept_all (S : schema) : bool :=
  forallb (fun t => match snd t with NScalar false a _ _ => a | _ => true end) (types S).

(** the types a rebuilt definition can reach: everything mentioned from the root types, the
    directive arguments, the objects that declare interfaces, and the unions *)
Definition anchored_schema (S : schema) (F : features) : schema :=
  let E := erase S F in
  {| types := types E; query := query E; mutation := mutation E; subscription := subscription E;
     additional := map fst (filter (fun t => match snd t with
                                             | NObject _ (_ :: _) _ _ => true
                                             | NUnion _ _ _ => true
                                             | _ => false
                                             end) (types E));
     directives := directives E |}.

(** the same, with every custom scalar made one that accepts every literal (how the rebuild
    clause is compared when the original has scalars that reject literals) *)
Definition force_accept (S : schema) : schema :=
  {| types := map (fun t => (fst t, match snd t with NScalar false _ r d => NScalar false true r d | x => x end)) (types S);
     query := query S; mutation := mutation S; subscription := subscription S; additional := additional S;
     directives := directives S |}.

(** ** well-formedness the rebuild clause relies on (all of it enforced by schema.New or by Go's
    type system) *)

(** a type is named like a built-in scalar exactly when it is that built-in (schema.go:85-86), and
    built-ins have no description and no required features *)
Definition builtins_consistent (S : schema) : bool :=
  forallb (fun t => match snd t with
                    | NScalar true _ r d => is_builtin_name (fst t) && match r, d with [], [] => true | _, _ => false end
                    | _ => negb (is_builtin_name (fst t))
                    end) (types S).

(** Go's static types: the root operation types and union members are objects, declared
    interfaces are interfaces *)
Definition is_kind (S : schema) (k : kind) (n : name) : bool :=
  match lookup n (types S), k with
  | Some (NObject _ _ _ _), KObject => true
  | Some (NInterface _ _ _), KInterface => true
  | _, _ => false
  end.
Definition kinds_ok (S : schema) : bool :=
  is_kind S KObject (query S)
  && forallb (is_kind S KObject) (opt_list (mutation S) ++ opt_list (subscription S))
  && forallb (fun t => match snd t with
                       | NObject _ ifs _ _ => forallb (is_kind S KInterface) ifs
                       | NUnion ms _ _ => forallb (is_kind S KObject) ms
                       | _ => true
                       end) (types S).
