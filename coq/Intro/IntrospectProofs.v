(** * Intro/IntrospectProofs.v — the model of introspection.Query meets the description. *)
From Coq Require Import List NArith ZArith Bool Lia Permutation Sorted.
From ApiFu Require Import Base.Sexp Intro.IntrospectModel Intro.IntrospectSpec Intro.SortLemmas Intro.GraphProofs.
Import ListNotations.

Arguments mem : simpl never.

(** ** small list facts *)
Lemma filter_all {A} (p : A -> bool) l : forallb p l = true -> filter p l = l.
Proof.
  induction l as [|x r IH]; simpl; auto. intro H. apply andb_true_iff in H as [H1 H2]. rewrite H1, IH; auto.
Qed.

Lemma flat_map_filter {A B} (p : A -> bool) (f : A -> B) l :
  flat_map (fun x => if p x then [f x] else []) l = map f (filter p l).
Proof. induction l as [|x r IH]; simpl; auto. destruct (p x); simpl; rewrite IH; auto. Qed.

Lemma flat_map_ext_in {A B} (f g : A -> list B) l : (forall x, In x l -> f x = g x) -> flat_map f l = flat_map g l.
Proof. induction l as [|x r IH]; simpl; intro H; auto. rewrite H, IH; auto. Qed.

Lemma perm_filter {A} (p : A -> bool) l l' : Permutation l l' -> Permutation (filter p l) (filter p l').
Proof.
  induction 1; simpl; auto.
  - destruct (p x); auto.
  - destruct (p x), (p y); auto. apply perm_swap.
  - eapply perm_trans; eauto.
Qed.

Lemma nodup_filter {A} (p : A -> bool) l : NoDup l -> NoDup (filter p l).
Proof. apply NoDup_filter. Qed.

Lemma nodup_b_spec l : nodup_b l = true -> NoDup l.
Proof.
  induction l as [|x r IH]; simpl; [constructor|]. intro H. apply andb_true_iff in H as [H1 H2].
  constructor; auto. apply mem_false. destruct (mem x r); auto; discriminate.
Qed.

(** filtering commutes with sorting *)
Lemma filter_sort (p : name -> bool) l : NoDup l -> filter p (sort_by (fun n => n) l) = sort_by (fun n => n) (filter p l).
Proof.
  intro Hnd. apply sorted_perm_eq with (key := fun n => n).
  - apply filter_sorted, sort_sorted.
  - apply sort_sorted.
  - rewrite map_id. apply nodup_filter. eapply Permutation_NoDup; [apply Permutation_sym, sort_perm | exact Hnd].
  - eapply perm_trans; [apply perm_filter, sort_perm | apply Permutation_sym, sort_perm].
Qed.

(** ** type references *)
Lemma type_ref_cut S t : forall d, type_ref S d t = cut_ref d (full_ref S t).
Proof.
  induction t as [n|u IH|u IH]; intros [|d]; simpl; auto; rewrite IH; reflexivity.
Qed.

Lemma cut_full_id S t : forall d, (sty_levels t <= d)%nat -> cut_ref d (full_ref S t) = Some (full_ref S t).
Proof.
  induction t as [n|u IH|u IH]; intros d Hd; (destruct d as [|d]; [simpl in Hd; lia|]); simpl in *.
  - reflexivity.
  - rewrite IH by lia. reflexivity.
  - rewrite IH by lia. reflexivity.
Qed.

(** the resolvers themselves serve a chain of any length: a query nesting [ofType] deep enough
    sees all of it *)
Lemma type_ref_full S t : forall d, (sty_levels t <= d)%nat -> type_ref S d t = Some (full_ref S t).
Proof. intros d Hd. rewrite type_ref_cut. apply cut_full_id. exact Hd. Qed.

Lemma type_ref_top_cut S t : type_ref_top S t = cut_top query_depth (full_ref S t).
Proof. unfold type_ref_top, cut_top. rewrite type_ref_cut. reflexivity. Qed.

Lemma cut_top_full_id S t d : (sty_levels t <= d)%nat -> cut_top d (full_ref S t) = full_ref S t.
Proof. intro H. unfold cut_top. rewrite cut_full_id by exact H. reflexivity. Qed.

Lemma type_ref_top_full S t : (sty_levels t <= query_depth)%nat -> type_ref_top S t = full_ref S t.
Proof. intro H. rewrite type_ref_top_cut. apply cut_top_full_id. exact H. Qed.

Lemma named_ref_eq S n : named_ref S n = full_ref S (StNamed n).
Proof. reflexivity. Qed.

Lemma tref_name_full S n : tref_name (full_ref S (StNamed n)) = n.
Proof. reflexivity. Qed.

Lemma map_id_in {A} (f : A -> A) l : (forall x, In x l -> f x = x) -> map f l = l.
Proof. induction l as [|x r IH]; simpl; intro H; auto. rewrite H, IH; auto. Qed.

(** ** members of the result *)
Lemma nullable_opt s : nullable_string s = opt_text s.
Proof. reflexivity. Qed.

Lemma deprecated_eq s : negb (match s with [] => true | _ => false end) = is_deprecated s.
Proof. destruct s; reflexivity. Qed.

Section Members.
  Variable D : Type.
  Variable pr : sty -> option gval -> D.
  Variable S : schema.
  Variable F : features.
  Let qd := query_depth.

  Lemma input_eq a : intro_input D pr S a = trunc_input D qd (describe_input D pr S a).
  Proof. unfold intro_input, describe_input, trunc_input; simpl. rewrite type_ref_top_cut. reflexivity. Qed.

  Lemma inputs_eq l :
    norm_inputs D (map (intro_input D pr S) l) = map (trunc_input D qd) (describe_inputs D pr S l).
  Proof.
    unfold norm_inputs, describe_inputs.
    rewrite (map_ext _ _ input_eq). rewrite <- map_map.
    rewrite (sort_map ri_name (trunc_input D qd)). reflexivity.
  Qed.

  Lemma field_eq f : norm_field D (intro_field D pr S f) = trunc_field D qd (describe_field D pr S f).
  Proof.
    unfold norm_field, intro_field, describe_field, trunc_field; simpl.
    rewrite inputs_eq. rewrite type_ref_top_cut. rewrite deprecated_eq. reflexivity.
  Qed.

  Lemma fields_eq fs :
    sort_by rf_name (map (norm_field D) (intro_fields D pr S F fs)) = map (trunc_field D qd) (describe_fields D pr S F fs).
  Proof.
    unfold intro_fields, describe_fields. rewrite map_map. rewrite (map_ext _ _ field_eq). rewrite <- map_map.
    rewrite (sort_map rf_name (trunc_field D qd)). reflexivity.
  Qed.

  Lemma enum_eq v : intro_enum v = describe_enum_value v.
  Proof. unfold intro_enum, describe_enum_value. rewrite deprecated_eq. reflexivity. Qed.

  Lemma directive_eq d :
    norm_directive D (intro_directive D pr S d) = trunc_directive D qd (describe_directive D pr S d).
  Proof.
    unfold norm_directive, intro_directive, describe_directive, trunc_directive; simpl. rewrite inputs_eq. reflexivity.
  Qed.

  (** within the query's depth nothing is cut *)
  Lemma trunc_input_id a : depth_ok_input a = true -> trunc_input D qd (describe_input D pr S a) = describe_input D pr S a.
  Proof.
    intro H. unfold trunc_input, describe_input; simpl. rewrite cut_top_full_id; auto. apply Nat.leb_le. exact H.
  Qed.

  Lemma trunc_inputs_id l : forallb depth_ok_input l = true ->
    map (trunc_input D qd) (describe_inputs D pr S l) = describe_inputs D pr S l.
  Proof.
    intro H. apply map_id_in. intros x Hx. unfold describe_inputs in Hx. apply in_sort in Hx.
    apply in_map_iff in Hx as [a [<- Ha]]. apply trunc_input_id. rewrite forallb_forall in H. auto.
  Qed.

  Lemma trunc_field_id f : depth_ok_field f = true -> trunc_field D qd (describe_field D pr S f) = describe_field D pr S f.
  Proof.
    intro H. apply andb_true_iff in H as [H1 H2]. unfold trunc_field, describe_field; simpl.
    rewrite trunc_inputs_id by exact H2. rewrite cut_top_full_id by (apply Nat.leb_le; exact H1). reflexivity.
  Qed.

  Lemma trunc_fields_id fs : forallb depth_ok_field fs = true ->
    map (trunc_field D qd) (describe_fields D pr S F fs) = describe_fields D pr S F fs.
  Proof.
    intro H. apply map_id_in. intros x Hx. unfold describe_fields in Hx. apply in_sort in Hx.
    apply in_map_iff in Hx as [f [<- Hf]]. apply trunc_field_id. rewrite forallb_forall in H. apply H.
    apply filter_In in Hf. tauto.
  Qed.

  Lemma trunc_type_id n t : depth_ok_type t = true -> trunc_type D qd (describe_type D pr S F n t) = describe_type D pr S F n t.
  Proof.
    intro H. unfold trunc_type, describe_type.
    destruct t as [b a r d | vs r d | fs r rc d | fs ifs r d | fs r d | ms r d]; simpl in *; try reflexivity.
    - rewrite trunc_inputs_id by exact H. reflexivity.
    - rewrite trunc_fields_id by exact H. reflexivity.
    - rewrite trunc_fields_id by exact H. reflexivity.
  Qed.

  Lemma trunc_directive_id d : forallb depth_ok_input (dd_args (snd d)) = true ->
    trunc_directive D qd (describe_directive D pr S d) = describe_directive D pr S d.
  Proof. intro H. unfold trunc_directive, describe_directive; simpl. rewrite trunc_inputs_id by exact H. reflexivity. Qed.

  Theorem truncate_describe_id : depth_ok S = true -> truncate qd (describe pr S F) = describe pr S F.
  Proof.
    intro Hd. unfold depth_ok in Hd. apply andb_true_iff in Hd as [H1 H2].
    rewrite forallb_forall in H1. rewrite forallb_forall in H2.
    unfold truncate, describe; simpl. f_equal.
    - apply map_id_in. intros x Hx. apply in_flat_map in Hx as [n [_ Hx]].
      destruct (lookup n (types S)) as [t|] eqn:E; [|destruct Hx].
      destruct Hx as [<-|[]]. apply trunc_type_id. apply (H1 _ (lookup_in _ _ _ E)).
    - apply map_id_in. intros x Hx. apply in_sort in Hx. apply in_map_iff in Hx as [d [<- Hd]].
      apply trunc_directive_id. apply H2. exact Hd.
  Qed.
End Members.

Lemma depth_of_type S : depth_ok S = true -> forall n t, lookup n (types S) = Some t -> depth_ok_type t = true.
Proof.
  intros Hdepth n t H. unfold depth_ok in Hdepth. apply andb_true_iff in Hdepth as [H1 _].
  rewrite forallb_forall in H1. apply (H1 _ (lookup_in _ _ _ H)).
Qed.

(** ** the implementations of an interface *)
Definition implements (S : schema) (i o : name) : bool :=
  match lookup o (types S) with Some (NObject _ ifs _ _) => mem i ifs | _ => false end.

Lemma once_flat_map i (o : name) ifs : NoDup ifs ->
  flat_map (fun j => if bytes_eqb j i then [o] else []) ifs = if mem i ifs then [o] else [].
Proof.
  induction ifs as [|j r IH]; intro Hnd; simpl; auto.
  inversion Hnd as [|? ? Hni Hnd']; subst.
  unfold mem in *; simpl. destruct (bytes_eqb j i) eqn:E.
  - apply bytes_eqb_eq in E. subst j. rewrite bytes_eqb_refl. simpl.
    rewrite IH by auto. fold (mem i r). assert (mem i r = false) as -> by (apply mem_false; auto). reflexivity.
  - assert (bytes_eqb i j = false) as ->.
    { destruct (bytes_eqb i j) eqn:E'; auto. apply bytes_eqb_eq in E'. subst. rewrite bytes_eqb_refl in E. discriminate. }
    simpl. apply IH. auto.
Qed.

Lemma implementations_filter S reg i :
  interfaces_declared_once S = true ->
  implementations S reg i = filter (implements S i) reg.
Proof.
  intro H. unfold implementations.
  transitivity (flat_map (fun o => if implements S i o then [o] else []) reg);
    [|rewrite (flat_map_filter (implements S i) (fun o => o)); apply map_id].
  apply flat_map_ext_in. intros o _. unfold implements.
  destruct (lookup o (types S)) as [t|] eqn:E; auto.
  destruct t; auto.
  apply once_flat_map. apply nodup_b_spec.
  unfold interfaces_declared_once in H. rewrite forallb_forall in H.
  specialize (H _ (lookup_in _ _ _ E)). exact H.
Qed.

(** ** the main theorem *)
Section Main.
  Variable D : Type.
  Variable pr : sty -> option gval -> D.
  Variable S : schema.
  Variable F : features.
  Hypothesis Honce : interfaces_declared_once S = true.

  (** one listed type *)
  Lemma type_eq reg n t :
    Permutation reg (members S) -> NoDup reg ->
    norm_type D (intro_type D pr S F reg n t) = trunc_type D query_depth (describe_type D pr S F n t).
  Proof.
    intros Hperm Hnd.
    unfold norm_type, intro_type, describe_type, trunc_type; simpl.
    destruct t as [b a r d | vs r d | fs r rc d | fs ifs r d | fs r d | ms r d]; simpl in *.
    - reflexivity.
    - f_equal. f_equal. f_equal. apply map_ext. intro v. apply enum_eq.
    - rewrite inputs_eq. reflexivity.
    - rewrite fields_eq. reflexivity.
    - rewrite fields_eq. f_equal. f_equal.
      (* possibleTypes of an interface *)
      rewrite implementations_filter by exact Honce.
      rewrite (sort_map tref_name (named_ref S)).
      rewrite (sort_by_ext _ (fun o => o)) by (intros; reflexivity).
      unfold implementers, listed. unfold ref_to.
      change (fun o : name => match lookup o (types S) with
                              | Some (NObject _ ifs _ _) => mem n ifs
                              | _ => false
                              end) with (implements S n).
      change (type_enabled S F) with (visible_type S F).
      assert (E : sort_by (fun o => o) (filter (visible_type S F) (filter (implements S n) reg))
                  = filter (implements S n) (sort_by (fun o => o) (filter (visible_type S F) (members S)))).
      { rewrite filter_sort by (apply nodup_filter; apply members_spec).
        apply sort_perm_eq.
        - rewrite map_id. apply nodup_filter, nodup_filter. exact Hnd.
        - apply NoDup_Permutation.
          + apply nodup_filter, nodup_filter. exact Hnd.
          + apply nodup_filter, nodup_filter. apply members_spec.
          + intro o. rewrite !filter_In. split.
            * intros [[Ho Hi] Hv]. split; [split; auto|exact Hi]. eapply Permutation_in; eauto.
            * intros [[Ho Hv] Hi]. split; [split; auto|exact Hv]. eapply Permutation_in; [apply Permutation_sym; eauto | exact Ho]. }
      rewrite E. apply map_ext. intro o. reflexivity.
    - reflexivity.
  Qed.

  Definition tof (n : name) : named_type :=
    match lookup n (types S) with Some t => t | None => NScalar false false [] [] end.

  Lemma visible_tof n : defined S n = true -> visible_type S F n = subset (nt_req (tof n)) F.
  Proof. unfold visible_type, tof, defined. destruct (lookup n (types S)); auto; discriminate. Qed.

  (** for EVERY definition: the response is the description as far as the query looks — every
      wrapper chain cut after [query_depth] levels, everything else exact *)
  Theorem introspect_describes_upto_depth :
    locations_known S = true ->
    exists r, introspect pr S F = IntroOk r /\ normalise r = truncate query_depth (describe pr S F).
  Proof.
    intro Hlocs.
    destruct (registry_spec S) as [reg [Hreg [Hnd [Hin Hdef]]]].
    pose proof (registry_members S reg Hreg) as Hperm.
    destruct (members_spec S) as [Hndm [Hinm Hdefm]].
    unfold introspect. rewrite Hreg. unfold locations_known in Hlocs. rewrite Hlocs. simpl.
    eexists. split; [reflexivity|].
    unfold normalise, describe, truncate; simpl. f_equal.
    - (* types *)
      assert (E1 : intro_types D pr S F reg
                   = map (fun n => intro_type D pr S F reg n (tof n)) (filter (visible_type S F) reg)).
      { unfold intro_types. rewrite <- flat_map_filter. apply flat_map_ext_in. intros n Hn.
        specialize (Hdef n Hn). unfold visible_type, tof. unfold defined in Hdef.
        destruct (lookup n (types S)); [reflexivity | discriminate]. }
      assert (E2 : forall l, (forall n, In n l -> defined S n = true) ->
                   flat_map (fun n => match lookup n (types S) with
                                      | Some t => [describe_type D pr S F n t]
                                      | None => []
                                      end) l
                   = map (fun n => describe_type D pr S F n (tof n)) l).
      { induction l as [|n l IH]; intro Hl; simpl; auto.
        rewrite IH by (intros; apply Hl; right; auto).
        specialize (Hl n (or_introl eq_refl)). unfold tof, defined in *. destruct (lookup n (types S)); [reflexivity|discriminate]. }
      rewrite E1, E2.
      2:{ intros n Hn. unfold listed in Hn. apply in_sort in Hn. apply filter_In in Hn. apply Hdefm. tauto. }
      rewrite !map_map.
      rewrite (sort_map rt_name (fun n => norm_type D (intro_type D pr S F reg n (tof n)))).
      rewrite (sort_by_ext _ (fun n => n)) by (intros; reflexivity).
      assert (E3 : sort_by (fun n => n) (filter (visible_type S F) reg) = listed S F).
      { unfold listed. apply sort_perm_eq.
        - rewrite map_id. apply nodup_filter. exact Hnd.
        - apply perm_filter. exact Hperm. }
      rewrite E3. apply map_ext. intros n. apply type_eq; auto.
    - (* directives *)
      rewrite <- (sort_map rd_name (trunc_directive D query_depth)).
      f_equal. rewrite !map_map. apply map_ext. intros d. apply directive_eq.
  Qed.

  (** chains within the query's depth: the response IS the description *)
  Theorem introspect_describes :
    depth_ok S = true -> locations_known S = true ->
    exists r, introspect pr S F = IntroOk r /\ normalise r = describe pr S F.
  Proof.
    intros Hdepth Hlocs. destruct (introspect_describes_upto_depth Hlocs) as [r [H1 H2]].
    exists r. split; [exact H1|]. rewrite H2. apply truncate_describe_id. exact Hdepth.
  Qed.
End Main.

(** ** histories: the response depends on the definition and the request's features only *)
Definition serve {D} (pr : sty -> option gval -> D) (S : schema) (reqs : list features) : list (intro_result D) :=
  map (introspect pr S) reqs.

Theorem introspect_history_independent (D : Type) (pr : sty -> option gval -> D) S reqs :
  interfaces_declared_once S = true -> locations_known S = true ->
  Forall2 (fun F a => exists r, a = IntroOk r /\ normalise r = truncate query_depth (describe pr S F)) reqs (serve pr S reqs).
Proof.
  intros H1 H2. unfold serve. induction reqs as [|F rest IH]; simpl; constructor; auto.
  destruct (introspect_describes_upto_depth D pr S F H1 H2) as [r [E1 E2]]. exists r. auto.
Qed.
