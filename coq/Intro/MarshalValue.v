(** * Intro/MarshalValue.v — C10: marshalValue, default value -> GraphQL literal text.

    Transcription of graphql/schema/introspection/marshal_value.go:13-60 together with the parts
    of encoding/json it calls for scalars (encode.go appendString with escapeHTML = true, the
    integer and boolean encoders) and EnumType.CoerceResult (enum_type.go:83-90).
    Float formatting (strconv.AppendFloat) is NOT modelled: a float value carries the text Go
    prints for it.  No proofs in this file. *)
From Coq Require Import List NArith ZArith Bool.
From ApiFu Require Import Base.Sexp Intro.Utf8 Intro.IntrospectModel.
Import ListNotations.
Open Scope N_scope.

(** encoding/json appendString, one code point at a time.  ASCII: htmlSafeSet = 0x20..0x7f except
    double quote, backslash, <, >, &. *)
Definition json_escape_char (c : N) : bytes :=
  if c <? 128 then
    if (c =? 34) || (c =? 92) then [92; c]                      (* quote, backslash *)
    else if c =? 8 then [92; 98]                                
    else if c =? 12 then [92; 102]                              
    else if c =? 10 then [92; 110]                              
    else if c =? 13 then [92; 114]                              
    else if c =? 9 then [92; 116]                               
    else if (c <? 32) || (c =? 60) || (c =? 62) || (c =? 38)    (* controls, < > & *)
         then [92; 117; 48; 48; hex_digit (c / 16); hex_digit (c mod 16)]
    else [c]
  else if is_invalid_byte_mark c then [92; 117; 102; 102; 102; 100]        (* u+fffd *)
  else if (c =? 8232) || (c =? 8233) then [92; 117; 50; 48; 50; hex_digit (c mod 16)]   (* u+2028 u+2029 *)
  else utf8_encode c.

Definition json_string (s : list N) : bytes := 34 :: flat_map json_escape_char s ++ [34].

Definition b_null : bytes := [110; 117; 108; 108].
Definition b_true : bytes := [116; 114; 117; 101].
Definition b_false : bytes := [102; 97; 108; 115; 101].

Fixpoint join (sep : bytes) (parts : list bytes) : bytes :=
  match parts with
  | [] => []
  | [p] => p
  | p :: r => p ++ sep ++ join sep r
  end.

Inductive mres := MOk (b : bytes) | MErr | MUnmodelled.

(** json.Marshal(v) for the Go values a scalar default can have here *)
Definition marshal_scalar (v : gval) : mres :=
  match v with
  | GInt z => MOk (Z_decimal z)
  | GFloat _ _ txt => MOk txt
  | GString s => MOk (json_string s)
  | GBool b => MOk (if b then b_true else b_false)
  | GNull => MOk b_null                    (* unreachable: tested before *)
  | GList _ | GMap _ => MUnmodelled        (* JSON arrays / objects: not generated *)
  end.

Definition gval_eqb (a b : gval) : bool :=
  match a, b with
  | GNull, GNull => true
  | GInt x, GInt y => Z.eqb x y
  | GFloat m e _, GFloat m' e' _ => Z.eqb m m' && Z.eqb e e'
  | GString s, GString t => bytes_eqb s t
  | GBool x, GBool y => Bool.eqb x y
  | _, _ => false                          (* enum values are scalars *)
  end.

(** EnumType.CoerceResult: the first name (in map order) whose Value == result *)
Definition enum_coerce_result (vals : list (name * enum_val)) (v : gval) : mres :=
  match find (fun p => gval_eqb (ev_value (snd p)) v) vals with
  | Some p => MOk (fst p)
  | None => MErr
  end.

Fixpoint mres_all (l : list mres) : option (option (list bytes)) :=   (* None = unmodelled, Some None = error *)
  match l with
  | [] => Some (Some [])
  | MUnmodelled :: _ => None
  | MErr :: _ => Some None
  | MOk b :: r => match mres_all r with
                  | Some (Some bs) => Some (Some (b :: bs))
                  | x => x
                  end
  end.

Fixpoint strip_nn (t : sty) : sty := match t with StNonNull u => strip_nn u | _ => t end.

Section Marshal.
  Variable S : schema.

  (** the cases of marshalValue that do not recurse into the value ([v] is not null, [t] has no
      non-null wrapper left) *)
  Definition marshal_leaf (t : sty) (v : gval) : mres :=
    match t with
    | StNonNull _ => MUnmodelled                                      (* not reached: stripped *)
    | StList _ => MErr                                                (* line 24: not a slice *)
    | StNamed n =>
        match lookup n (types S) with
        | Some (NScalar _ _ _ _) => marshal_scalar v                    (* line 19-21 *)
        | Some (NEnum vals _ _) => enum_coerce_result vals v          (* line 52-53 *)
        | Some (NInput _ _ _ _) => MErr                               (* line 37-43: no / failing ResultCoercion *)
        | _ => MErr                                                   (* line 56-58 *)
        end
    end.

  (** marshalValue.  Structural on the value; NonNull wrappers are skipped (line 54-55). *)
  Fixpoint marshal (v : gval) (t : sty) {struct v} : mres :=
    match v with
    | GNull => MOk b_null                                             (* line 14-16 *)
    | GList vs =>
        match strip_nn t with
        | StList u =>                                                 (* line 22-35 *)
            match mres_all (map (fun x => marshal x u) vs) with
            | None => MUnmodelled
            | Some None => MErr
            | Some (Some parts) => MOk (91 :: join [44; 32] parts ++ [93])
            end
        | u => marshal_leaf u v
        end
    | GMap kvs =>
        match strip_nn t with
        | StNamed n =>
            match lookup n (types S) with
            | Some (NInput fs _ rc _) =>                              (* line 36-51 *)
                if negb rc then MErr
                else match mres_all (map (fun kv => match kv with
                                                    | (k, x) =>
                                                        match lookup k fs with
                                                        | Some d => match marshal x (in_type d) with
                                                                    | MOk b => MOk (k ++ [58; 32] ++ b)
                                                                    | r => r
                                                                    end
                                                        | None => MUnmodelled   (* nil dereference in Go *)
                                                        end
                                                    end) kvs) with
                     | None => MUnmodelled
                     | Some None => MErr
                     | Some (Some parts) => MOk (123 :: join [44; 32] parts ++ [125])
                     end
            | _ => marshal_leaf (StNamed n) v
            end
        | u => marshal_leaf u v
        end
    | _ => marshal_leaf (strip_nn t) v
    end.
End Marshal.

(** the defaultValue resolver (introspection.go:554-563): nil default -> null *)
Inductive dflt := DNone | DText (b : bytes) | DError | DUnmodelled.
Definition print_default (S : schema) (t : sty) (d : option gval) : dflt :=
  match d with
  | None => DNone
  | Some v => match marshal S v t with MOk b => DText b | MErr => DError | MUnmodelled => DUnmodelled end
  end.
