(** * Intro/MarshalProofs.v — what marshalValue prints is a literal that denotes the value. *)
From Coq Require Import List NArith ZArith Bool Lia ZifyBool ZifyN ZifyNat.
From ApiFu Require Import Base.Sexp Intro.Utf8 Intro.IntrospectModel Intro.MarshalValue Intro.LiteralSpec Intro.SortLemmas.
Import ListNotations.
Open Scope N_scope.

Ltac Zify.zify_post_hook ::= Z.div_mod_to_equations.

Arguments N.mul : simpl never.
Arguments N.add : simpl never.
Arguments N.div : simpl never.
Arguments N.modulo : simpl never.
Arguments N.sub : simpl never.
Arguments N.ltb : simpl never.
Arguments N.leb : simpl never.
Arguments N.eqb : simpl never.
Arguments N.pow : simpl never.

(** ** decimal digits *)
Lemma digits_value_app l : forall acc d, digits_value acc (l ++ [d]) = 10 * digits_value acc l + (d - 48).
Proof. induction l as [|x r IH]; intros acc d; simpl; auto. Qed.

Lemma is_digit_spec b : is_digit b = true <-> 48 <= b <= 57.
Proof. unfold is_digit. lia. Qed.

Lemma N_digits_digits fuel : forall n, Forall (fun b => is_digit b = true) (N_digits fuel n).
Proof.
  induction fuel as [|f IH]; intro n; simpl; [constructor|].
  destruct (n <? 10) eqn:E.
  - constructor; [|constructor]. apply is_digit_spec. lia.
  - apply Forall_app. split; [apply IH|]. constructor; [|constructor]. apply is_digit_spec.
    assert (n mod 10 < 10) by (apply N.mod_lt; lia). lia.
Qed.

Lemma N_digits_value fuel : forall n, n < 2 ^ N.of_nat fuel -> (1 <= fuel)%nat ->
  digits_value 0 (N_digits fuel n) = n /\ N_digits fuel n <> [].
Proof.
  induction fuel as [|f IH]; intros n Hn Hf; [lia|]. simpl.
  destruct (n <? 10) eqn:E.
  - simpl. split; [lia | discriminate].
  - assert (Hf' : (1 <= f)%nat).
    { destruct f; [|lia]. exfalso. change (2 ^ N.of_nat 1) with 2 in Hn. lia. }
    assert (Hd : n / 10 < 2 ^ N.of_nat f).
    { rewrite Nat2N.inj_succ, N.pow_succ_r' in Hn. lia. }
    destruct (IH (n / 10) Hd Hf') as [I1 I2].
    split.
    + rewrite digits_value_app, I1. assert (n mod 10 < 10) by (apply N.mod_lt; lia). lia.
    + intro H. apply app_eq_nil in H. destruct H; discriminate.
Qed.

Definition head_nonzero (ds : bytes) : Prop := match ds with d :: _ => d <> 48 | [] => False end.

Lemma N_digits_head fuel : forall n, 1 <= n -> n < 2 ^ N.of_nat fuel -> (1 <= fuel)%nat -> head_nonzero (N_digits fuel n).
Proof.
  induction fuel as [|f IH]; intros n H1 Hn Hf; [lia|]. simpl.
  destruct (n <? 10) eqn:E.
  - simpl. lia.
  - assert (Hf' : (1 <= f)%nat).
    { destruct f; [|lia]. exfalso. change (2 ^ N.of_nat 1) with 2 in Hn. lia. }
    assert (Hd : n / 10 < 2 ^ N.of_nat f).
    { rewrite Nat2N.inj_succ, N.pow_succ_r' in Hn. lia. }
    assert (H1' : 1 <= n / 10) by lia.
    specialize (IH (n / 10) H1' Hd Hf').
    destruct (N_digits f (n / 10)); simpl in *; auto.
Qed.

Lemma integer_part_ok_digits ds : ds <> [] -> (head_nonzero ds \/ length ds = 1%nat) -> integer_part_ok ds = true.
Proof.
  destruct ds as [|d [|d' r]]; simpl; intros H [H1|H1]; auto; try congruence; try discriminate.
  destruct (d =? 48) eqn:E; auto. lia.
Qed.

Lemma size_bound n : n < 2 ^ N.of_nat (S (N.to_nat (N.size n))).
Proof.
  rewrite Nat2N.inj_succ, N2Nat.id, N.pow_succ_r'.
  destruct n as [|p]; [reflexivity|].
  pose proof (N.size_gt (Npos p)). lia.
Qed.

Lemma N_decimal_spec n :
  Forall (fun b => is_digit b = true) (N_decimal n) /\ digits_value 0 (N_decimal n) = n /\ integer_part_ok (N_decimal n) = true.
Proof.
  unfold N_decimal. set (fuel := S (N.to_nat (N.size n))).
  assert (Hb : n < 2 ^ N.of_nat fuel) by apply size_bound.
  assert (Hf : (1 <= fuel)%nat) by (unfold fuel; lia).
  destruct (N_digits_value fuel n Hb Hf) as [I1 I2].
  split; [apply N_digits_digits|]. split; [exact I1|].
  apply integer_part_ok_digits; auto.
  destruct (N.eq_dec n 0) as [->|Hz].
  - right. unfold fuel. simpl. reflexivity.
  - left. apply N_digits_head; auto. lia.
Qed.

(** ** numbers *)
(** what may follow a printed value: nothing, or one of , ] } and space *)
Definition follow_ok (rest : bytes) : Prop :=
  match rest with [] => True | b :: _ => b = 44 \/ b = 93 \/ b = 125 \/ b = 32 end.

Lemma follow_delimited rest : follow_ok rest -> delimited rest = true.
Proof.
  destruct rest as [|b r]; simpl; auto. intros [->|[->|[->| ->]]]; reflexivity.
Qed.

Lemma take_while_digits ds rest :
  Forall (fun b => is_digit b = true) ds -> follow_ok rest -> take_while is_digit (ds ++ rest) = (ds, rest).
Proof.
  induction 1 as [|d r Hd Hr IH]; intro Hf; simpl.
  - destruct rest as [|b r]; simpl; auto. destruct Hf as [->|[->|[->| ->]]]; reflexivity.
  - rewrite Hd, IH by auto. reflexivity.
Qed.

Lemma lex_number_tail ds rest (sign : Z -> Z) :
  integer_part_ok ds = true -> follow_ok rest ->
  (let '(ip, r1) := (ds, rest) in
   if negb (integer_part_ok ip) then None else
   let frac := match r1 with
               | b :: r => if b =? 46 then
                             let '(fp, r2) := take_while is_digit r in
                             match fp with [] => None | _ => Some (Some fp, r2) end
                           else Some (None, r1)
               | [] => Some (None, r1)
               end in
   match frac with
   | None => None
   | Some (fp, r2) =>
       let expo := match r2 with
                   | c :: r =>
                       if (c =? 101) || (c =? 69) then
                         let '(eneg, r') := match r with
                                            | s :: r' => if s =? 45 then (true, r') else if s =? 43 then (false, r') else (false, r)
                                            | [] => (false, r)
                                            end in
                         let '(ed, r3) := take_while is_digit r' in
                         match ed with
                         | [] => None
                         | _ => Some (Some (if eneg then Z.opp (Z.of_N (digits_value 0 ed)) else Z.of_N (digits_value 0 ed)), r3)
                         end
                       else Some (None, r2)
                   | [] => Some (None, r2)
                   end in
       match expo with
       | None => None
       | Some (ex, r3) =>
           if negb (delimited r3) then None else
           match fp, ex with
           | None, None => Some (LInt (sign (Z.of_N (digits_value 0 ip))), r3)
           | _, _ =>
               let fpd := match fp with Some d => d | None => [] end in
               let e := match ex with Some e => e | None => 0%Z end in
               Some (LFloat (sign (Z.of_N (digits_value 0 (ip ++ fpd)))) (e - Z.of_nat (List.length fpd))%Z, r3)
           end
       end
   end) = Some (LInt (sign (Z.of_N (digits_value 0 ds))), rest).
Proof.
  intros Hok Hf. cbv beta iota zeta. rewrite Hok. cbn [negb].
  destruct rest as [|b r]; [reflexivity|].
  assert (Hb : b = 44 \/ b = 93 \/ b = 125 \/ b = 32) by exact Hf.
  destruct Hb as [->|[->|[->| ->]]]; reflexivity.
Qed.

Lemma lex_number_digits (neg : bool) ds rest :
  Forall (fun b => is_digit b = true) ds -> integer_part_ok ds = true -> follow_ok rest ->
  lex_number ((if neg then [45] else []) ++ ds ++ rest)
  = Some (LInt (if neg then Z.opp (Z.of_N (digits_value 0 ds)) else Z.of_N (digits_value 0 ds)), rest).
Proof.
  intros Hd Hok Hf. unfold lex_number.
  destruct neg.
  - cbn [app]. change (45 =? 45) with true. cbv iota.
    rewrite take_while_digits by auto.
    apply (lex_number_tail ds rest (fun z => Z.opp z) Hok Hf).
  - cbn [app].
    destruct ds as [|d r]; [discriminate|]. cbn [app].
    inversion Hd as [|? ? Hd1 Hd2]; subst.
    assert (d =? 45 = false) as -> by (apply is_digit_spec in Hd1; lia).
    change (d :: r ++ rest) with ((d :: r) ++ rest).
    rewrite take_while_digits by auto.
    apply (lex_number_tail (d :: r) rest (fun z => z) Hok Hf).
Qed.

Lemma lex_number_Z z rest : follow_ok rest -> lex_number (Z_decimal z ++ rest) = Some (LInt z, rest).
Proof.
  intro Hf. destruct z as [|p|p].
  - assert (H1 : Forall (fun b => is_digit b = true) [48]) by (repeat constructor).
    pose proof (lex_number_digits false [48] rest H1 eq_refl Hf) as E. exact E.
  - unfold Z_decimal. destruct (N_decimal_spec (Npos p)) as [H1 [H2 H3]].
    pose proof (lex_number_digits false _ rest H1 H3 Hf) as E. cbn [app] in E. rewrite E, H2. reflexivity.
  - unfold Z_decimal. destruct (N_decimal_spec (Npos p)) as [H1 [H2 H3]].
    pose proof (lex_number_digits true _ rest H1 H3 Hf) as E. cbn [app] in E. cbn [app]. rewrite E, H2. reflexivity.
Qed.

(** ** every text in Go's float format is a number literal

    encoding/json prints a finite float64 with strconv's 'f' or 'e' format (shortest digits that
    round-trip) and cleans the exponent up: an optional '-', the digits of the integer part (no
    superfluous leading zero), optionally '.' and fraction digits, optionally 'e', a sign and
    exponent digits ("1.5", "1e+21", "1e-7", "123456789.125", "-0").  Which digits are chosen is
    not modelled; the lemma is about every text of that shape. *)
Definition all_digits (ds : bytes) : Prop := Forall (fun b => is_digit b = true) ds.
Definition exp_sign_text (sg : option bool) : bytes :=
  match sg with Some true => [45] | Some false => [43] | None => [] end.
Definition exp_text (ex : option (option bool * bytes)) : bytes :=
  match ex with None => [] | Some (sg, ed) => 101 :: exp_sign_text sg ++ ed end.
Definition frac_text (fp : bytes) : bytes := match fp with [] => [] | _ => 46 :: fp end.
Definition go_float_text (neg : bool) (ip fp : bytes) (ex : option (option bool * bytes)) : bytes :=
  (if neg then [45] else []) ++ ip ++ frac_text fp ++ exp_text ex.
Definition exp_value (ex : option (option bool * bytes)) : Z :=
  match ex with
  | None => 0%Z
  | Some (sg, ed) => match sg with
                     | Some true => Z.opp (Z.of_N (digits_value 0 ed))
                     | _ => Z.of_N (digits_value 0 ed)
                     end
  end.
Definition go_float_lit (neg : bool) (ip fp : bytes) (ex : option (option bool * bytes)) : lit :=
  let sign (z : Z) : Z := if neg then Z.opp z else z in
  match fp, ex with
  | [], None => LInt (sign (Z.of_N (digits_value 0 ip)))
  | _, _ => LFloat (sign (Z.of_N (digits_value 0 (ip ++ fp)))) (exp_value ex - Z.of_nat (List.length fp))%Z
  end.
Definition go_float_ok (ip fp : bytes) (ex : option (option bool * bytes)) : Prop :=
  all_digits ip /\ integer_part_ok ip = true /\ all_digits fp /\
  match ex with None => True | Some (_, ed) => all_digits ed /\ ed <> [] end.

Lemma take_while_digits_stop ds c rest :
  all_digits ds -> is_digit c = false -> take_while is_digit (ds ++ c :: rest) = (ds, c :: rest).
Proof.
  induction 1 as [|d r Hd Hr IH]; intro Hc; simpl.
  - rewrite Hc. reflexivity.
  - rewrite Hd, IH by auto. reflexivity.
Qed.

(** the three parts of [lex_number] after the sign, as functions of the remaining text *)
Definition frac_part (r1 : bytes) : option (option bytes * bytes) :=
  match r1 with
  | b :: r => if b =? 46 then
                let '(fp, r2) := take_while is_digit r in
                match fp with [] => None | _ => Some (Some fp, r2) end
              else Some (None, r1)
  | [] => Some (None, r1)
  end.
Definition expo_part (r2 : bytes) : option (option Z * bytes) :=
  match r2 with
  | c :: r =>
      if (c =? 101) || (c =? 69) then
        let '(eneg, r') := match r with
                           | s :: r' => if s =? 45 then (true, r') else if s =? 43 then (false, r') else (false, r)
                           | [] => (false, r)
                           end in
        let '(ed, r3) := take_while is_digit r' in
        match ed with
        | [] => None
        | _ => Some (Some (if eneg then Z.opp (Z.of_N (digits_value 0 ed)) else Z.of_N (digits_value 0 ed)), r3)
        end
      else Some (None, r2)
  | [] => Some (None, r2)
  end.
Definition number_tail (sign : Z -> Z) (ip r1 : bytes) : option (lit * bytes) :=
  if negb (integer_part_ok ip) then None else
  match frac_part r1 with
  | None => None
  | Some (fp, r2) =>
      match expo_part r2 with
      | None => None
      | Some (ex, r3) =>
          if negb (delimited r3) then None else
          match fp, ex with
          | None, None => Some (LInt (sign (Z.of_N (digits_value 0 ip))), r3)
          | _, _ =>
              let fpd := match fp with Some d => d | None => [] end in
              let e := match ex with Some e => e | None => 0%Z end in
              Some (LFloat (sign (Z.of_N (digits_value 0 (ip ++ fpd)))) (e - Z.of_nat (List.length fpd))%Z, r3)
          end
      end
  end.

Lemma lex_number_unfold bs :
  lex_number bs =
  let '(neg, bs1) := match bs with
                     | b :: r => if b =? 45 then (true, r) else (false, bs)
                     | [] => (false, bs)
                     end in
  let '(ip, r1) := take_while is_digit bs1 in
  number_tail (fun z => if neg then Z.opp z else z) ip r1.
Proof. reflexivity. Qed.

Lemma follow_head_facts rest : follow_ok rest ->
  match rest with [] => True | b :: _ => is_digit b = false /\ b =? 46 = false /\ (b =? 101) || (b =? 69) = false end.
Proof. destruct rest as [|b r]; auto. intros [->|[->|[->| ->]]]; repeat split; reflexivity. Qed.

Lemma expo_go ex rest :
  match ex with None => True | Some (_, ed) => all_digits ed /\ ed <> [] end -> follow_ok rest ->
  expo_part (exp_text ex ++ rest) = Some (match ex with None => None | Some _ => Some (exp_value ex) end, rest).
Proof.
  intros Hex Hf. destruct ex as [[sg ed]|].
  - destruct Hex as [Hd Hne]. unfold exp_text. cbn [app expo_part].
    change ((101 =? 101) || (101 =? 69)) with true. cbv iota.
    assert (Hed : exists d r, ed = d :: r /\ is_digit d = true).
    { destruct ed as [|d r]; [contradiction|]. inversion Hd; subst. eauto. }
    destruct Hed as [d [r [Eed Hdd]]].
    assert (Hsplit : (match exp_sign_text sg ++ ed ++ rest with
                      | s :: r' => if s =? 45 then (true, r') else if s =? 43 then (false, r') else (false, exp_sign_text sg ++ ed ++ rest)
                      | [] => (false, exp_sign_text sg ++ ed ++ rest)
                      end) = (match sg with Some true => true | _ => false end, ed ++ rest)).
    { destruct sg as [[|]|]; cbn [exp_sign_text app]; try reflexivity.
      rewrite Eed. cbn [app]. apply is_digit_spec in Hdd.
      assert (d =? 45 = false) as -> by lia. assert (d =? 43 = false) as -> by lia. reflexivity. }
    rewrite <- app_assoc. rewrite Hsplit. rewrite take_while_digits by auto.
    rewrite Eed. rewrite <- Eed. destruct ed as [|d' r']; [contradiction|].
    destruct sg as [[|]|]; reflexivity.
  - cbn [exp_text app]. pose proof (follow_head_facts rest Hf) as H. destruct rest as [|b r]; [reflexivity|].
    destruct H as [_ [_ H]]. cbn [expo_part]. rewrite H. reflexivity.
Qed.

Lemma number_tail_go (sign : Z -> Z) ip fp ex rest :
  go_float_ok ip fp ex -> follow_ok rest ->
  number_tail sign ip (frac_text fp ++ exp_text ex ++ rest) =
  Some (match fp, ex with
        | [], None => LInt (sign (Z.of_N (digits_value 0 ip)))
        | _, _ => LFloat (sign (Z.of_N (digits_value 0 (ip ++ fp)))) (exp_value ex - Z.of_nat (List.length fp))%Z
        end, rest).
Proof.
  intros [Hip [Hok [Hfp Hex]]] Hf. unfold number_tail. rewrite Hok. cbn [negb].
  (* the fraction *)
  assert (Hfrac : frac_part (frac_text fp ++ exp_text ex ++ rest)
                  = Some (match fp with [] => None | _ => Some fp end, exp_text ex ++ rest)).
  { destruct fp as [|d r].
    - cbn [frac_text app]. destruct ex as [[sg ed]|].
      + reflexivity.
      + cbn [exp_text app]. pose proof (follow_head_facts rest Hf) as H. destruct rest as [|b r]; [reflexivity|].
        destruct H as [_ [H _]]. cbn [frac_part]. rewrite H. reflexivity.
    - cbn [frac_text app frac_part]. change (46 =? 46) with true. cbv iota.
      change (d :: r ++ exp_text ex ++ rest) with ((d :: r) ++ exp_text ex ++ rest).
      destruct ex as [[sg ed]|].
      + change ((d :: r) ++ exp_text (Some (sg, ed)) ++ rest) with ((d :: r) ++ 101 :: ((exp_sign_text sg ++ ed) ++ rest)).
        rewrite take_while_digits_stop by (auto; reflexivity). reflexivity.
      + change ((d :: r) ++ exp_text None ++ rest) with ((d :: r) ++ rest). rewrite take_while_digits by auto. reflexivity. }
  rewrite Hfrac. rewrite (expo_go ex rest Hex Hf). rewrite (follow_delimited rest Hf). cbn [negb].
  destruct fp as [|d r], ex as [[sg ed]|]; reflexivity.
Qed.

Theorem lex_number_go neg ip fp ex rest :
  go_float_ok ip fp ex -> follow_ok rest ->
  lex_number (go_float_text neg ip fp ex ++ rest) = Some (go_float_lit neg ip fp ex, rest).
Proof.
  intros Hok Hf. rewrite lex_number_unfold. unfold go_float_text, go_float_lit.
  destruct Hok as [Hip [Hiok [Hfp Hex]]].
  assert (Hhead : exists d r, ip = d :: r /\ is_digit d = true).
  { destruct ip as [|d r]; [discriminate|]. inversion Hip; subst. eauto. }
  destruct Hhead as [d [r [Eip Hd]]].
  assert (Htw : take_while is_digit (ip ++ frac_text fp ++ exp_text ex ++ rest) = (ip, frac_text fp ++ exp_text ex ++ rest)).
  { destruct fp as [|f fr].
    - cbn [frac_text app]. destruct ex as [[sg ed]|].
      + cbn [exp_text app]. apply take_while_digits_stop; auto.
      + cbn [exp_text app]. apply take_while_digits; auto.
    - cbn [frac_text app]. apply take_while_digits_stop; auto. }
  destruct neg.
  - rewrite <- !app_assoc. cbn [app]. change (45 =? 45) with true. cbv iota.
    rewrite Htw. apply (number_tail_go (fun z => Z.opp z)); unfold go_float_ok; auto.
  - rewrite <- !app_assoc. subst ip. cbn [app] in *.
    apply is_digit_spec in Hd. assert (d =? 45 = false) as -> by lia.
    rewrite Htw. apply (number_tail_go (fun z => z)); unfold go_float_ok; auto.
Qed.

(** ** strings: the hard lemma *)
Definition cp_ok (c : N) : Prop := c < 65536 /\ is_surrogate c = false.

Definition cont (c : N) (o : option (list N * bytes)) : option (list N * bytes) :=
  match o with Some (s, t) => Some (c :: s, t) | None => None end.

Lemma lsb_ascii c tail : c < 128 -> lex_string_body (json_escape_char c ++ tail) = cont c (lex_string_body tail).
Proof.
  intro Hc. destruct c as [|p]; [reflexivity|].
  do 7 (try destruct p as [p|p|]); try lia; reflexivity.
Qed.

Lemma lsb_two b b2 r : 194 <= b <= 223 -> 128 <= b2 <= 191 ->
  lex_string_body (b :: b2 :: r) = cont ((b - 192) * 64 + (b2 - 128)) (lex_string_body r).
Proof.
  intros H1 H2. cbn [lex_string_body].
  assert (b =? 34 = false) as -> by lia. assert (b =? 92 = false) as -> by lia.
  assert (b <? 128 = false) as -> by lia.
  assert ((194 <=? b) && (b <=? 223) = true) as -> by lia.
  assert ((128 <=? b2) && (b2 <=? 191) = true) as -> by lia.
  reflexivity.
Qed.

Lemma lsb_three b b2 b3 r : 224 <= b <= 239 -> 128 <= b2 <= 191 -> 128 <= b3 <= 191 ->
  2048 <= (b - 224) * 4096 + (b2 - 128) * 64 + (b3 - 128) ->
  is_surrogate ((b - 224) * 4096 + (b2 - 128) * 64 + (b3 - 128)) = false ->
  lex_string_body (b :: b2 :: b3 :: r) = cont ((b - 224) * 4096 + (b2 - 128) * 64 + (b3 - 128)) (lex_string_body r).
Proof.
  intros H1 H2 H3 H4 H5. cbn [lex_string_body].
  assert (b =? 34 = false) as -> by lia. assert (b =? 92 = false) as -> by lia.
  assert (b <? 128 = false) as -> by lia.
  assert ((194 <=? b) && (b <=? 223) = false) as -> by lia.
  assert ((224 <=? b) && (b <=? 239) = true) as -> by lia.
  cbv zeta. rewrite H5.
  assert ((128 <=? b2) && (b2 <=? 191) && (128 <=? b3) && (b3 <=? 191)
          && (2048 <=? (b - 224) * 4096 + (b2 - 128) * 64 + (b3 - 128)) && negb false = true) as -> by lia.
  reflexivity.
Qed.

Lemma is_surrogate_spec c : is_surrogate c = false <-> c < 55296 \/ 57343 < c.
Proof. unfold is_surrogate. lia. Qed.

Lemma escape_two c : 128 <= c < 2048 -> json_escape_char c = [192 + c / 64; 128 + c mod 64].
Proof.
  intro H. unfold json_escape_char, utf8_encode, is_invalid_byte_mark.
  assert (c <? 128 = false) as -> by lia.
  assert ((56448 <=? c) && (c <=? 56575) = false) as -> by lia.
  assert ((c =? 8232) || (c =? 8233) = false) as -> by lia.
  assert (c <? 2048 = true) as -> by lia. reflexivity.
Qed.

Lemma escape_three c : 2048 <= c < 65536 -> is_surrogate c = false -> c <> 8232 -> c <> 8233 ->
  json_escape_char c = [224 + c / 4096; 128 + (c / 64) mod 64; 128 + c mod 64].
Proof.
  intros H Hs H1 H2. apply is_surrogate_spec in Hs. unfold json_escape_char, utf8_encode, is_invalid_byte_mark.
  assert (c <? 128 = false) as -> by lia.
  assert ((56448 <=? c) && (c <=? 56575) = false) as -> by lia.
  assert ((c =? 8232) || (c =? 8233) = false) as -> by lia.
  assert (c <? 2048 = false) as -> by lia. assert (c <? 65536 = true) as -> by lia. reflexivity.
Qed.

Lemma string_step c tail : cp_ok c -> lex_string_body (json_escape_char c ++ tail) = cont c (lex_string_body tail).
Proof.
  intros [Hc Hs].
  destruct (N.ltb_spec c 128) as [H1|H1]; [apply lsb_ascii; exact H1|].
  destruct (N.ltb_spec c 2048) as [H2|H2].
  - rewrite escape_two by lia. cbn [app].
    assert (c mod 64 < 64) by (apply N.mod_lt; lia).
    rewrite lsb_two by lia. f_equal. lia.
  - destruct (N.eq_dec c 8232) as [->|N1]; [reflexivity|].
    destruct (N.eq_dec c 8233) as [->|N2]; [reflexivity|].
    rewrite escape_three by (auto; lia). cbn [app].
    assert (c mod 64 < 64) by (apply N.mod_lt; lia).
    assert ((c / 64) mod 64 < 64) by (apply N.mod_lt; lia).
    assert (E : (224 + c / 4096 - 224) * 4096 + (128 + (c / 64) mod 64 - 128) * 64 + (128 + c mod 64 - 128) = c) by lia.
    rewrite lsb_three; rewrite ?E; auto; try lia.
Qed.

Lemma string_body_roundtrip s rest :
  Forall cp_ok s -> lex_string_body (flat_map json_escape_char s ++ 34 :: rest) = Some (s, rest).
Proof.
  induction 1 as [|c r Hc Hr IH]; [reflexivity|].
  cbn [flat_map]. rewrite <- app_assoc. rewrite string_step by exact Hc. rewrite IH. reflexivity.
Qed.

Lemma escape_head c : exists b r, json_escape_char c = b :: r /\ b <> 34.
Proof.
  destruct (N.ltb_spec c 128) as [H1|H1].
  - destruct c as [|p]; [eexists; eexists; split; [reflexivity|lia]|].
    do 7 (try destruct p as [p|p|]); try lia; (eexists; eexists; split; [reflexivity|lia]).
  - unfold json_escape_char. assert (c <? 128 = false) as -> by lia.
    destruct (is_invalid_byte_mark c); [eexists; eexists; split; [reflexivity|lia]|].
    destruct ((c =? 8232) || (c =? 8233)); [eexists; eexists; split; [reflexivity|lia]|].
    unfold utf8_encode. assert (c <? 128 = false) as -> by lia.
    destruct (c <? 2048); [eexists; eexists; split; [reflexivity|lia]|].
    destruct (c <? 65536); eexists; eexists; (split; [reflexivity|lia]).
Qed.

(** ** values *)
Lemma strip_nn_eq t : strip_nn t = strip_nn' t.
Proof. induction t; simpl; auto. Qed.

(** the literal a value is expected to be read back as *)
Section Roundtrip.
  Variable S : schema.

  (** enum value names are GraphQL names other than true / false / null, and distinct (what
      EnumType.shallowValidate and Go maps guarantee) *)
  Definition name_ok (n : name) : Prop :=
    match n with
    | [] => False
    | b :: r => is_name_start b = true /\ Forall (fun c => is_name_char c = true) r
    end /\ n <> kw_true /\ n <> kw_false /\ n <> kw_null.
  Definition enums_ok : Prop :=
    forall n vals r d, lookup n (types S) = Some (NEnum vals r d) ->
      NoDup (map fst vals) /\ Forall (fun p => name_ok (fst p)) vals.

  (** what the theorem covers: strings of code points up to U+FFFF other than surrogates (and
      other than the marks of invalid UTF-8 bytes); floats with an integral value, which print as
      integers; no input object values (see [default_roundtrip_partial]) *)
  (** the value part of a float default — does the decimal Go printed round to the float64? — is
      not proved (strconv's digit generation is not modelled); the check evaluates it on every
      generated default *)
  Definition float_lit_rounds (l : lit) (m e : Z) : bool :=
    match l with LInt z => rounds_to z 0 m e | LFloat n e10 => rounds_to n e10 m e | _ => false end.

  Fixpoint printable (v : gval) : Prop :=
    match v with
    | GString s => Forall cp_ok s
    | GFloat m e txt =>
        (exists z, txt = Z_decimal z /\ rounds_to z 0 m e = true) \/
        (exists neg ip fp ex, go_float_ok ip fp ex /\ txt = go_float_text neg ip fp ex /\
                              float_lit_rounds (go_float_lit neg ip fp ex) m e = true)
    | GList vs => (fix all (l : list gval) : Prop := match l with [] => True | x :: r => printable x /\ all r end) vs
    | GMap kvs => (fix all (l : list (name * gval)) : Prop := match l with [] => True | kv :: r => printable (snd kv) /\ all r end) kvs
    | _ => True
    end.

  (** input field names are GraphQL names (InputObjectType.shallowValidate: isName) *)
  Definition field_name_ok (k : name) : Prop :=
    match k with [] => False | b :: r => is_name_start b = true /\ Forall (fun c => is_name_char c = true) r end.
  Definition inputs_ok : Prop :=
    forall n defs r rc d, lookup n (types S) = Some (NInput defs r rc d) -> Forall (fun p => field_name_ok (fst p)) defs.

  Fixpoint need (v : gval) : nat :=
    match v with
    | GList vs =>
        Datatypes.S (Datatypes.S (Nat.add (length vs)
          ((fix sum (l : list gval) : nat := match l with [] => O | x :: r => Nat.add (need x) (sum r) end) vs)))
    | GMap kvs =>
        Datatypes.S (Datatypes.S (Nat.add (length kvs)
          ((fix sum (l : list (name * gval)) : nat := match l with [] => O | kv :: r => Nat.add (need (snd kv)) (sum r) end) kvs)))
    | _ => Datatypes.S O
    end.

  (** leaves: neither null, list nor object *)
  Definition is_leaf (l : lit) : Prop := match l with LNull | LList _ | LObject _ => False | _ => True end.

  Lemma coerce_leaf_at l : is_leaf l -> forall t inl tn, strip_nn' t = StNamed tn -> coerce S l t inl = coerce_leaf S l tn.
  Proof.
    intros Hl t. destruct l; try contradiction;
      (induction t as [m|u IH|u IH]; intros inl tn Hs; simpl in *; [inversion Hs; reflexivity | discriminate | apply IH; exact Hs]).
  Qed.

  Lemma coerce_null t inl : match t with StNonNull _ => False | _ => True end -> coerce S LNull t inl = Some CNull.
  Proof. destruct t; simpl; tauto. Qed.

  Lemma coerce_list_at ls : forall t inl u, strip_nn' t = StList u ->
    coerce S (LList ls) t inl = match map_opt' (fun x => coerce S x u true) ls with Some cs => Some (CList cs) | None => None end.
  Proof.
    induction t as [m|w IH|w IH]; intros inl u Hs; simpl in *; [discriminate | inversion Hs; reflexivity | apply IH; exact Hs].
  Qed.

  (** parsing one token *)
  Lemma skip_ignored_id b r : is_ignored b = false -> skip_ignored (b :: r) = b :: r.
  Proof. intro H. simpl. rewrite H. reflexivity. Qed.

  Lemma pvalue_number z rest fuel : follow_ok rest -> pvalue (Datatypes.S fuel) (Z_decimal z ++ rest) = Some (LInt z, rest).
  Proof.
    intro Hf.
    assert (Hh : exists b r, Z_decimal z = b :: r /\ (is_digit b = true \/ b = 45)).
    { destruct z as [|p|p]; unfold Z_decimal.
      - eexists; eexists; split; [reflexivity|left; reflexivity].
      - destruct (N_decimal_spec (Npos p)) as [H1 [H2 H3]].
        destruct (N_decimal (N.pos p)) as [|b r]; [discriminate|]. inversion H1; subst. eauto.
      - eexists; eexists; split; [reflexivity|right; reflexivity]. }
    destruct Hh as [b [r [E Hb]]].
    pose proof (lex_number_Z z rest Hf) as L. rewrite E in *. cbn [app] in *.
    cbn [pvalue].
    assert (Hi : is_ignored b = false) by (destruct Hb as [Hb| ->]; [apply is_digit_spec in Hb; unfold is_ignored; lia | reflexivity]).
    rewrite skip_ignored_id by exact Hi.
    assert (b =? 91 = false) as -> by (destruct Hb as [Hb| ->]; [apply is_digit_spec in Hb; lia | reflexivity]).
    assert (b =? 123 = false) as -> by (destruct Hb as [Hb| ->]; [apply is_digit_spec in Hb; lia | reflexivity]).
    assert (b =? 34 = false) as -> by (destruct Hb as [Hb| ->]; [apply is_digit_spec in Hb; lia | reflexivity]).
    assert (is_name_start b = false) as -> by (destruct Hb as [Hb| ->]; [apply is_digit_spec in Hb; unfold is_name_start; lia | reflexivity]).
    assert (is_digit b || (b =? 45) = true) as -> by (destruct Hb as [Hb| ->]; [rewrite Hb; reflexivity | reflexivity]).
    exact L.
  Qed.

  Lemma pvalue_string s rest fuel : Forall cp_ok s -> follow_ok rest ->
    pvalue (Datatypes.S fuel) (json_string s ++ rest) = Some (LString s, rest).
  Proof.
    intros Hs Hf. unfold json_string. cbn [app pvalue].
    rewrite skip_ignored_id by reflexivity.
    change (34 =? 91) with false. change (34 =? 123) with false. change (34 =? 34) with true. cbv iota.
    rewrite <- app_assoc. cbn [app].
    pose proof (string_body_roundtrip s rest Hs) as R.
    destruct s as [|c s'].
    - cbn [flat_map app] in *.
      destruct rest as [|q2 rest']; [rewrite R; reflexivity|].
      assert (Hq : q2 = 44 \/ q2 = 93 \/ q2 = 125 \/ q2 = 32) by exact Hf.
      assert ((34 =? 34) && (q2 =? 34) = false) as -> by (destruct Hq as [->|[->|[->| ->]]]; reflexivity).
      rewrite R. reflexivity.
    - cbn [flat_map] in *. destruct (escape_head c) as [b [r [E Hb]]]. rewrite E in *.
      rewrite <- ?app_assoc in *. cbn [app] in *.
      remember (r ++ flat_map json_escape_char s' ++ 34 :: rest) as TL eqn:Et.
      assert (Hb' : b =? 34 = false) by lia.
      destruct TL as [|q2 tl]; [rewrite R; reflexivity|].
      rewrite Hb'. cbn [andb]. rewrite R. reflexivity.
  Qed.

  Lemma take_while_name nm rest :
    Forall (fun c => is_name_char c = true) nm -> follow_ok rest -> take_while is_name_char (nm ++ rest) = (nm, rest).
  Proof.
    induction 1 as [|c r Hc Hr IH]; intro Hf; simpl.
    - destruct rest as [|b r]; simpl; auto. destruct Hf as [->|[->|[->| ->]]]; reflexivity.
    - rewrite Hc, IH by auto. reflexivity.
  Qed.

  Lemma b_eq_false a b : a <> b -> b_eq a b = false.
  Proof. intro H. unfold b_eq. destruct (bytes_eqb a b) eqn:E; auto. apply bytes_eqb_eq in E. contradiction. Qed.

  Lemma name_start_facts b : is_name_start b = true ->
    is_ignored b = false /\ b =? 91 = false /\ b =? 123 = false /\ b =? 34 = false /\ is_name_char b = true.
  Proof. unfold is_name_start, is_ignored, is_name_char, is_name_start. lia. Qed.

  Lemma pvalue_name nm rest fuel : name_ok nm -> follow_ok rest ->
    pvalue (Datatypes.S fuel) (nm ++ rest) = Some (LEnum nm, rest).
  Proof.
    intros [Hn [N1 [N2 N3]]] Hf. destruct nm as [|b r]; [contradiction|]. destruct Hn as [Hb Hr].
    destruct (name_start_facts b Hb) as [F1 [F2 [F3 [F4 F5]]]].
    cbn [app pvalue]. rewrite skip_ignored_id by exact F1. rewrite F2, F3, F4, Hb.
    change (b :: r ++ rest) with ((b :: r) ++ rest).
    rewrite take_while_name by (auto; constructor; auto).
    rewrite !b_eq_false by auto. reflexivity.
  Qed.

  Lemma pvalue_keyword (kw : bytes) (l : lit) rest fuel :
    (kw = kw_true /\ l = LBool true) \/ (kw = kw_false /\ l = LBool false) \/ (kw = kw_null /\ l = LNull) ->
    follow_ok rest -> pvalue (Datatypes.S fuel) (kw ++ rest) = Some (l, rest).
  Proof.
    intros H Hf.
    assert (T : forall k, Forall (fun c => is_name_char c = true) k -> take_while is_name_char (k ++ rest) = (k, rest))
      by (intros; apply take_while_name; auto).
    destruct H as [[-> ->]|[[-> ->]|[-> ->]]]; cbn [app pvalue kw_true kw_false kw_null];
      (rewrite skip_ignored_id by reflexivity); cbv beta iota.
    - change (116 =? 91) with false. change (116 =? 123) with false. change (116 =? 34) with false.
      change (is_name_start 116) with true. cbv iota.
      change (116 :: 114 :: 117 :: 101 :: rest) with (kw_true ++ rest). rewrite T by (repeat constructor). reflexivity.
    - change (102 =? 91) with false. change (102 =? 123) with false. change (102 =? 34) with false.
      change (is_name_start 102) with true. cbv iota.
      change (102 :: 97 :: 108 :: 115 :: 101 :: rest) with (kw_false ++ rest). rewrite T by (repeat constructor). reflexivity.
    - change (110 =? 91) with false. change (110 =? 123) with false. change (110 =? 34) with false.
      change (is_name_start 110) with true. cbv iota.
      change (110 :: 117 :: 108 :: 108 :: rest) with (kw_null ++ rest). rewrite T by (repeat constructor). reflexivity.
  Qed.

  (** what a printed value starts with: not an ignored byte, not a closing bracket *)
  Definition head_ok (txt : bytes) : Prop :=
    match txt with [] => False | b :: _ => is_ignored b = false /\ b <> 93 /\ b <> 125 end.

  Definition good_result (v : gval) (t : sty) (txt : bytes) (l : lit) : Prop :=
    marshal S v t = MOk txt /\ head_ok txt /\ (need v <= 2 * length txt)%nat /\
    (forall fuel rest, follow_ok rest -> (need v <= fuel)%nat -> pvalue fuel (txt ++ rest) = Some (l, rest)) /\
    (forall inl, exists c, coerce S l t inl = Some c /\ cval_matches c v = true).

  Definition P (x : gval) : Prop :=
    forall t, default_conforms S x t = true -> printable x -> exists txt l, good_result x t txt l.

  Lemma Z_decimal_head z : head_ok (Z_decimal z) /\ (1 <= length (Z_decimal z))%nat.
  Proof.
    destruct z as [|p|p]; unfold Z_decimal.
    - split; [repeat split; try reflexivity; lia | simpl; lia].
    - destruct (N_decimal_spec (Npos p)) as [H1 [H2 H3]].
      destruct (N_decimal (N.pos p)) as [|b r]; [discriminate|]. inversion H1; subst.
      split; [|simpl; lia]. assert (48 <= b <= 57) by (apply is_digit_spec; auto). unfold head_ok, is_ignored. lia.
    - split; [repeat split; try reflexivity; lia | simpl; lia].
  Qed.

  Lemma fuel_S fuel : (1 <= fuel)%nat -> exists f, fuel = Datatypes.S f.
  Proof. destruct fuel; [lia | eauto]. Qed.

  (** scalars and enum values *)
  Lemma gval_eqb_scalar a v : match v with GInt _ | GString _ | GBool _ => True | _ => False end ->
    gval_eqb a v = gval_scalar_eqb a v.
  Proof. destruct v; try contradiction; destruct a; reflexivity. Qed.

  Lemma filter_one_find {A} (f : A -> bool) l : length (filter f l) = 1%nat -> exists x, find f l = Some x /\ In x l /\ f x = true.
  Proof.
    induction l as [|y r IH]; simpl; [discriminate|].
    destruct (f y) eqn:E; [intros _; exists y; auto|].
    intro H. destruct (IH H) as [x [H1 [H2 H3]]]. exists x. auto.
  Qed.

  Lemma find_ext {A} (f g : A -> bool) l : (forall x, f x = g x) -> find f l = find g l.
  Proof. intro H. induction l as [|y r IH]; simpl; auto. rewrite H, IH. reflexivity. Qed.

  Lemma matches_go g v : match v with GInt _ | GString _ | GBool _ => True | _ => False end ->
    gval_scalar_eqb g v = true -> cval_matches (CGo g) v = true.
  Proof.
    destruct v; try contradiction; destruct g; simpl; intros _ H; try discriminate; exact H.
  Qed.

  Hypothesis Henums : enums_ok.
  Hypothesis Hinputs : inputs_ok.

  Lemma enum_roundtrip v t tn vals r d :
    match v with GInt _ | GString _ | GBool _ => True | _ => False end ->
    strip_nn' t = StNamed tn -> lookup tn (types S) = Some (NEnum vals r d) ->
    Nat.eqb (length (filter (fun p => gval_scalar_eqb (ev_value (snd p)) v) vals)) 1 = true ->
    need v = 1%nat -> marshal S v t = marshal_leaf S (strip_nn t) v ->
    exists txt l, good_result v t txt l.
  Proof.
    intros Hv Hs Hl Hone Hneed Hm.
    apply Nat.eqb_eq in Hone. destruct (filter_one_find _ _ Hone) as [p [Hfind [Hin Hp]]].
    destruct (Henums _ _ _ _ Hl) as [Hnd Hnames].
    rewrite Forall_forall in Hnames. specialize (Hnames p Hin).
    exists (fst p), (LEnum (fst p)). unfold good_result.
    split.
    { rewrite Hm, strip_nn_eq, Hs. unfold marshal_leaf. rewrite Hl. unfold enum_coerce_result.
      rewrite (find_ext _ (fun q => gval_scalar_eqb (ev_value (snd q)) v)) by (intro; apply gval_eqb_scalar; exact Hv).
      rewrite Hfind. reflexivity. }
    split.
    { destruct Hnames as [Hn _]. destruct (fst p) as [|b r']; [contradiction|]. destruct Hn as [Hb _].
      destruct (name_start_facts b Hb) as [F1 _]. unfold head_ok. split; auto. unfold is_name_start in Hb. lia. }
    split.
    { rewrite Hneed. destruct Hnames as [Hn _]. destruct (fst p); [contradiction|]. simpl. lia. }
    split.
    { intros fuel rest Hf Hfu. rewrite Hneed in Hfu. destruct (fuel_S fuel Hfu) as [f ->]. apply pvalue_name; auto. }
    intro inl. exists (CGo (ev_value (snd p))). split.
    - rewrite (coerce_leaf_at (LEnum (fst p)) I t inl tn Hs). unfold coerce_leaf. rewrite Hl.
      rewrite (in_lookup (fst p) vals (snd p) Hnd); [reflexivity|]. destruct p; exact Hin.
    - apply matches_go; auto.
  Qed.

  Lemma leaf_marshal v t : match v with GInt _ | GFloat _ _ _ | GString _ | GBool _ => True | _ => False end ->
    marshal S v t = marshal_leaf S (strip_nn t) v.
  Proof. destruct v; try contradiction; reflexivity. Qed.

  Lemma conforms_leaf v t : match v with GInt _ | GFloat _ _ _ | GString _ | GBool _ => True | _ => False end ->
    default_conforms S v t = true ->
    exists tn, strip_nn' t = StNamed tn /\
      ((exists b a r d, lookup tn (types S) = Some (NScalar b a r d) /\ scalar_conforms tn b v = true) \/
       (exists vals r d, lookup tn (types S) = Some (NEnum vals r d) /\
          Nat.eqb (length (filter (fun p => gval_scalar_eqb (ev_value (snd p)) v) vals)) 1 = true)).
  Proof.
    intros Hv Hc.
    assert (E : default_conforms S v t =
                match strip_nn' t with
                | StNamed n =>
                    match lookup n (types S) with
                    | Some (NScalar b _ _ _) => scalar_conforms n b v
                    | Some (NEnum vals _ _) =>
                        Nat.eqb (List.length (filter (fun p => gval_scalar_eqb (ev_value (snd p)) v) vals)) 1
                    | _ => false
                    end
                | _ => false
                end) by (destruct v; try contradiction; reflexivity).
    rewrite E in Hc. destruct (strip_nn' t) as [tn| |]; try discriminate.
    exists tn. split; auto.
    destruct (lookup tn (types S)) as [[b a r d|vals r d| | | |]|]; try discriminate.
    - left. eauto 10.
    - right. eauto 10.
  Qed.

  Lemma scalar_kind_cases (k : N) : k = 1 \/ k = 2 \/ k = 3 \/ k = 4 \/ k = 5 \/ k = 0 \/ 6 <= k.
  Proof. lia. Qed.

  Lemma leaf_roundtrip v : match v with GInt _ | GFloat _ _ _ | GString _ | GBool _ => True | _ => False end -> P v.
  Proof.
    intros Hv t Hc Hp.
    destruct (conforms_leaf v t Hv Hc) as [tn [Hs [[b [a [r [d [Hl Hsc]]]]]|[vals [r [d [Hl Hone]]]]]]].
    2:{ destruct v; try contradiction.
        - eapply enum_roundtrip; eauto; simpl; auto.
        - (* a float is not an enum value *)
          exfalso. apply Nat.eqb_eq in Hone. destruct (filter_one_find _ _ Hone) as [p [_ [_ Hp']]].
          destruct (ev_value (snd p)); discriminate.
        - eapply enum_roundtrip; eauto; simpl; auto.
        - eapply enum_roundtrip; eauto; simpl; auto. }
    assert (Hm : marshal S v t = marshal_scalar v).
    { rewrite leaf_marshal by exact Hv. rewrite strip_nn_eq, Hs. unfold marshal_leaf. rewrite Hl. reflexivity. }
    unfold scalar_conforms in Hsc.
    destruct v as [|z|m e txt|s|bb| |]; try contradiction.
    - (* Int *)
      destruct (Z_decimal_head z) as [Hh Hlen].
      exists (Z_decimal z), (LInt z). unfold good_result. split; [exact Hm|]. split; [exact Hh|].
      split; [simpl; lia|]. split.
      + intros fuel rest Hf Hfu. simpl in Hfu. destruct (fuel_S fuel Hfu) as [f ->]. apply pvalue_number; auto.
      + intro inl. rewrite (coerce_leaf_at (LInt z) I t inl tn Hs). unfold coerce_leaf. rewrite Hl. unfold coerce_scalar.
        set (k := if b then scalar_kind_of tn else 0) in *.
        destruct (k =? 1) eqn:E1.
        * rewrite Hsc. exists (CInt z). split; auto. simpl. apply Z.eqb_refl.
        * destruct (k =? 2) eqn:E2; [exfalso; lia|]. rewrite Hsc. exists (CInt z). split; auto. simpl. apply Z.eqb_refl.
    - (* Float: any text of Go's format *)
      destruct Hp as [Hp|[neg [ip [fp [ex [Hok [-> Hr]]]]]]].
      2:{ set (txt := go_float_text neg ip fp ex). set (l := go_float_lit neg ip fp ex) in *.
          assert (Hhd : exists b0 r0, txt = b0 :: r0 /\ (is_digit b0 = true \/ b0 = 45)).
          { unfold txt, go_float_text. destruct Hok as [Hip [Hiok _]]. destruct neg.
            - eexists; eexists; split; [reflexivity|right; reflexivity].
            - destruct ip as [|d0 r1]; [discriminate|]. inversion Hip; subst. cbn [app]. eexists; eexists; split; [reflexivity|left; auto]. }
          destruct Hhd as [b0 [r0 [Etxt Hb0]]].
          assert (Hleaf : is_leaf l) by (unfold l, go_float_lit; destruct fp, ex; exact I).
          exists txt, l. unfold good_result. split; [exact Hm|].
          split.
          { rewrite Etxt. unfold head_ok. destruct Hb0 as [Hb0| ->]; [apply is_digit_spec in Hb0; unfold is_ignored; repeat split; lia | repeat split; try reflexivity; lia]. }
          split; [rewrite Etxt; simpl; lia|]. split.
          + intros fuel rest Hf Hfu. simpl in Hfu. destruct (fuel_S fuel Hfu) as [f ->].
            pose proof (lex_number_go neg ip fp ex rest Hok Hf) as L. fold txt in L. fold l in L.
            rewrite Etxt in *. cbn [app] in *. cbn [pvalue].
            assert (Hi : is_ignored b0 = false) by (destruct Hb0 as [Hb0| ->]; [apply is_digit_spec in Hb0; unfold is_ignored; lia | reflexivity]).
            rewrite skip_ignored_id by exact Hi.
            assert (b0 =? 91 = false) as -> by (destruct Hb0 as [Hb0| ->]; [apply is_digit_spec in Hb0; lia | reflexivity]).
            assert (b0 =? 123 = false) as -> by (destruct Hb0 as [Hb0| ->]; [apply is_digit_spec in Hb0; lia | reflexivity]).
            assert (b0 =? 34 = false) as -> by (destruct Hb0 as [Hb0| ->]; [apply is_digit_spec in Hb0; lia | reflexivity]).
            assert (is_name_start b0 = false) as -> by (destruct Hb0 as [Hb0| ->]; [apply is_digit_spec in Hb0; unfold is_name_start; lia | reflexivity]).
            assert (is_digit b0 || (b0 =? 45) = true) as -> by (destruct Hb0 as [Hb0| ->]; [rewrite Hb0; reflexivity | reflexivity]).
            exact L.
          + intro inl. rewrite (coerce_leaf_at l Hleaf t inl tn Hs). unfold coerce_leaf. rewrite Hl. unfold coerce_scalar.
            set (k := if b then scalar_kind_of tn else 0) in *.
            unfold float_lit_rounds in Hr.
            destruct l as [z|n0 e0| | | | | |]; try discriminate.
            * assert (k =? 1 = false) as -> by lia. rewrite Hsc. exists (CDec z 0). split; auto.
            * rewrite Hsc. exists (CDec n0 e0). split; auto. }
      destruct Hp as [z [-> Hr]].
      destruct (Z_decimal_head z) as [Hh Hlen].
      exists (Z_decimal z), (LInt z). unfold good_result. split; [exact Hm|]. split; [exact Hh|].
      split; [simpl; lia|]. split.
      + intros fuel rest Hf Hfu. simpl in Hfu. destruct (fuel_S fuel Hfu) as [f ->]. apply pvalue_number; auto.
      + intro inl. rewrite (coerce_leaf_at (LInt z) I t inl tn Hs). unfold coerce_leaf. rewrite Hl. unfold coerce_scalar.
        set (k := if b then scalar_kind_of tn else 0) in *.
        assert (k =? 1 = false) as -> by lia. rewrite Hsc.
        exists (CDec z 0). split; auto.
    - (* String *)
      exists (json_string s), (LString s). unfold good_result. split; [exact Hm|].
      split; [unfold json_string, head_ok; repeat split; try reflexivity; lia|].
      split; [unfold json_string; simpl; lia|]. split.
      + intros fuel rest Hf Hfu. simpl in Hfu. destruct (fuel_S fuel Hfu) as [f ->]. apply pvalue_string; auto.
      + intro inl. rewrite (coerce_leaf_at (LString s) I t inl tn Hs). unfold coerce_leaf. rewrite Hl. unfold coerce_scalar.
        set (k := if b then scalar_kind_of tn else 0) in *. rewrite Hsc.
        exists (CString s). split; auto. simpl. apply bytes_eqb_refl.
    - (* Boolean *)
      exists (if bb then b_true else b_false), (LBool bb). unfold good_result. split; [exact Hm|].
      split; [destruct bb; unfold head_ok; repeat split; try reflexivity; lia|].
      split; [destruct bb; simpl; lia|]. split.
      + intros fuel rest Hf Hfu. simpl in Hfu. destruct (fuel_S fuel Hfu) as [f ->].
        destruct bb; apply pvalue_keyword; auto.
      + intro inl. rewrite (coerce_leaf_at (LBool bb) I t inl tn Hs). unfold coerce_leaf. rewrite Hl. unfold coerce_scalar.
        set (k := if b then scalar_kind_of tn else 0) in *. rewrite Hsc.
        exists (CBool bb). split; auto. simpl. destruct bb; reflexivity.
  Qed.

  (** lists *)
  Lemma skip_ignored_sep bs : skip_ignored (44 :: 32 :: bs) = skip_ignored bs.
  Proof. reflexivity. Qed.

  Lemma plist_sep fuel bs : plist fuel (44 :: 32 :: bs) = plist fuel bs.
  Proof. destruct fuel; [reflexivity|]. cbn [plist]. rewrite skip_ignored_sep. reflexivity. Qed.

  Lemma skip_head_ok txt rest : head_ok txt -> exists b r, txt ++ rest = b :: r /\ skip_ignored (txt ++ rest) = b :: r /\ b <> 93.
  Proof.
    destruct txt as [|b r]; [contradiction|]. intros [H1 [H2 H3]]. exists b, (r ++ rest).
    split; [reflexivity|]. split; [apply skip_ignored_id; exact H1 | exact H2].
  Qed.

  (** items: printed text, literal, fuel needed *)
  Definition item_ok (it : bytes * lit * nat) : Prop :=
    head_ok (fst (fst it)) /\
    forall fuel rest, follow_ok rest -> (snd it <= fuel)%nat -> pvalue fuel (fst (fst it) ++ rest) = Some (snd (fst it), rest).

  Fixpoint sum_need (items : list (bytes * lit * nat)) : nat :=
    match items with [] => O | it :: r => Nat.add (snd it) (sum_need r) end.

  Lemma plist_items items : Forall item_ok items -> forall fuel rest,
    (Datatypes.S (Nat.add (length items) (sum_need items)) <= fuel)%nat ->
    plist fuel (join [44; 32] (map (fun it => fst (fst it)) items) ++ 93 :: rest) = Some (map (fun it => snd (fst it)) items, rest).
  Proof.
    induction 1 as [|it r Hit Hr IH]; intros fuel rest Hfu.
    - destruct (fuel_S fuel) as [f ->]; [simpl in Hfu; lia|]. reflexivity.
    - destruct it as [[txt l] nd]. destruct Hit as [Hh Hp]. cbn [fst snd] in *.
      destruct (fuel_S fuel) as [f ->]; [simpl in Hfu; lia|].
      cbn [map fst snd sum_need length] in *.
      destruct r as [|it2 r'].
      + (* last item *)
        cbn [join map]. cbn [plist].
        destruct (skip_head_ok txt (93 :: rest) Hh) as [b [tl [E1 [E2 E3]]]]. rewrite E2.
        assert (b =? 93 = false) as -> by lia. rewrite <- E1.
        rewrite (Hp f (93 :: rest)); [|simpl; auto|simpl in Hfu; lia].
        pose proof (IH f rest) as IH'. cbn [map join app] in IH'. rewrite IH'; [reflexivity|simpl in *; lia].
      + set (F := fun it : bytes * lit * nat => fst (fst it)) in *.
        set (J := join [44; 32] (map F (it2 :: r'))) in *.
        assert (EJ : join [44; 32] (txt :: map F (it2 :: r')) = txt ++ [44; 32] ++ J) by reflexivity.
        rewrite EJ. rewrite <- !app_assoc. cbn [app]. cbn [plist].
        destruct (skip_head_ok txt (44 :: 32 :: J ++ 93 :: rest) Hh) as [b [tl [E1 [E2 E3]]]]. rewrite E2.
        assert (b =? 93 = false) as -> by lia. rewrite <- E1.
        rewrite (Hp f); [|simpl; auto|simpl in Hfu; lia].
        rewrite plist_sep. rewrite (IH f rest); [reflexivity|simpl in *; lia].
  Qed.

  Lemma join_length_items items :
    Forall (fun it : bytes * lit * nat => (1 <= length (fst (fst it)))%nat /\ (snd it <= 2 * length (fst (fst it)))%nat) items ->
    (length items + sum_need items <= 2 * length (join (44%N :: 32%N :: nil) (map (fun it => fst (fst it)) items)) + 1)%nat.
  Proof.
    induction 1 as [|it r [H1 H2] Hr IH]; [simpl; lia|].
    cbn [map sum_need length]. destruct (map (fun it => fst (fst it)) r) as [|p ps] eqn:E.
    - destruct r; [|discriminate]. cbn [join sum_need length] in *. lia.
    - cbn [join] in *. rewrite !app_length. cbn [length] in *. lia.
  Qed.

  Lemma list_case vs : Forall P vs -> P (GList vs).
  Proof.
    intros Hall t Hc Hp.
    assert (Hc' : exists u, strip_nn' t = StList u /\ forallb (fun x => default_conforms S x u) vs = true).
    { simpl in Hc. destruct (strip_nn' t) as [| u |]; try discriminate. eauto. }
    destruct Hc' as [u [Hs Hcs]].
    (* every element *)
    assert (Hitems : exists items : list (bytes * lit * nat),
               map (fun x => marshal S x u) vs = map (fun it => MOk (fst (fst it))) items /\
               map snd items = map need vs /\
               Forall item_ok items /\
               Forall (fun it : bytes * lit * nat => (1 <= length (fst (fst it)))%nat /\ (snd it <= 2 * length (fst (fst it)))%nat) items /\
               Forall2 (fun it x => forall inl, exists c, coerce S (snd (fst it)) u inl = Some c /\ cval_matches c x = true) items vs).
    { clear Hc. revert Hcs Hp. induction Hall as [|x r Hx Hr IH]; intros Hcs Hp.
      - exists []. repeat split; constructor.
      - simpl in Hcs. apply andb_true_iff in Hcs as [Hc1 Hc2]. destruct Hp as [Hp1 Hp2].
        destruct (IH Hc2 Hp2) as [items [I1 [I2 [I3 [I4 I5]]]]].
        destruct (Hx u Hc1 Hp1) as [txt [l [G1 [G2 [G3 [G4 G5]]]]]].
        exists ((txt, l, need x) :: items). cbn [map fst snd]. rewrite G1, I1, I2.
        split; [reflexivity|]. split; [reflexivity|].
        split; [constructor; auto; split; auto|].
        split; [constructor; auto; cbn [fst snd]; split; auto; destruct txt; [contradiction|simpl; lia]|].
        constructor; auto. }
    destruct Hitems as [items [I1 [I2 [I3 [I4 I5]]]]].
    set (parts := map (fun it : bytes * lit * nat => fst (fst it)) items).
    assert (Hall' : mres_all (map (fun x => marshal S x u) vs) = Some (Some parts)).
    { rewrite I1. unfold parts. clear. induction items as [|it r IH]; simpl; auto. rewrite IH. reflexivity. }
    assert (Hneed : need (GList vs) = Datatypes.S (Datatypes.S (Nat.add (length items) (sum_need items)))).
    { cbn [need]. f_equal. f_equal.
      assert (length vs = length items) as -> by (rewrite <- (map_length need vs), <- I2, map_length; reflexivity).
      f_equal. clear - I2. revert vs I2. induction items as [|it r IH]; intros [|x vs] I2; simpl in *; try discriminate; auto.
      inversion I2. rewrite (IH vs) by assumption. congruence. }
    exists (91 :: join [44; 32] parts ++ [93]), (LList (map (fun it => snd (fst it)) items)).
    unfold good_result. split.
    { simpl. rewrite strip_nn_eq, Hs, Hall'. reflexivity. }
    split; [unfold head_ok; repeat split; try reflexivity; lia|].
    split.
    { rewrite Hneed. pose proof (join_length_items items I4). fold parts in H. cbn [length]. rewrite app_length. simpl. lia. }
    split.
    { intros fuel rest Hf Hfu. rewrite Hneed in Hfu. destruct (fuel_S fuel) as [f ->]; [lia|].
      cbn [app pvalue]. rewrite skip_ignored_id by reflexivity.
      change (91 =? 91) with true. cbv iota.
      rewrite <- app_assoc. cbn [app].
      unfold parts. rewrite (plist_items items I3 f rest) by lia. reflexivity. }
    intro inl. rewrite (coerce_list_at _ t inl u Hs).
    assert (Hc2 : exists cs, map_opt' (fun x => coerce S x u true) (map (fun it => snd (fst it)) items) = Some cs /\
                            cval_matches (CList cs) (GList vs) = true).
    { clear - I5. induction I5 as [|it x items vs H1 H2 IH].
      - exists []. split; reflexivity.
      - destruct IH as [cs [E1 E2]]. destruct (H1 true) as [c [E3 E4]].
        exists (c :: cs). split.
        + cbn [map map_opt']. rewrite E3, E1. reflexivity.
        + simpl. rewrite E4. simpl in E2. exact E2. }
    destruct Hc2 as [cs [E1 E2]]. rewrite E1. eauto.
  Qed.


  (** input objects *)
  Lemma take_while_stop nm c rest :
    Forall (fun x => is_name_char x = true) nm -> is_name_char c = false ->
    take_while is_name_char (nm ++ c :: rest) = (nm, c :: rest).
  Proof.
    induction 1 as [|x r Hx Hr IH]; intro Hc; simpl.
    - rewrite Hc. reflexivity.
    - rewrite Hx, IH by auto. reflexivity.
  Qed.

  Lemma pobject_sep fuel bs : pobject fuel (44 :: 32 :: bs) = pobject fuel bs.
  Proof. destruct fuel; [reflexivity|]. cbn [pobject]. rewrite skip_ignored_sep. reflexivity. Qed.

  Lemma pvalue_sp fuel bs : pvalue fuel (32 :: bs) = pvalue fuel bs.
  Proof. destruct fuel; reflexivity. Qed.

  (** entries: key, printed value, literal, fuel needed *)
  Definition entry_ok (it : name * bytes * lit * nat) : Prop :=
    match it with
    | (k, txt, l, nd) =>
        field_name_ok k /\ head_ok txt /\
        forall fuel rest, follow_ok rest -> (nd <= fuel)%nat -> pvalue fuel (txt ++ rest) = Some (l, rest)
    end.
  Definition entry_text (it : name * bytes * lit * nat) : bytes :=
    match it with (k, txt, _, _) => k ++ [58; 32] ++ txt end.
  Definition entry_lit (it : name * bytes * lit * nat) : name * lit :=
    match it with (k, _, l, _) => (k, l) end.
  Definition entry_need (it : name * bytes * lit * nat) : nat := match it with (_, _, _, nd) => nd end.
  Fixpoint sum_need_e (items : list (name * bytes * lit * nat)) : nat :=
    match items with [] => O | it :: r => Nat.add (entry_need it) (sum_need_e r) end.

  Lemma pobject_entry k txt l nd fuel rest' :
    entry_ok (k, txt, l, nd) -> follow_ok rest' -> (nd <= fuel)%nat ->
    forall tail, pobject fuel rest' = Some tail ->
    pobject (Datatypes.S fuel) (entry_text (k, txt, l, nd) ++ rest') = Some ((k, l) :: fst tail, snd tail).
  Proof.
    intros [Hk [Hh Hp]] Hf Hfu tail Ht. unfold entry_text.
    destruct k as [|b r]; [contradiction|]. destruct Hk as [Hb Hr].
    destruct (name_start_facts b Hb) as [F1 [F2 [F3 [F4 F5]]]].
    rewrite <- app_assoc. cbn [app pobject]. rewrite skip_ignored_id by exact F1.
    assert (b =? 125 = false) as -> by (unfold is_name_start in Hb; lia).
    rewrite Hb.
    change (b :: r ++ 58 :: 32 :: txt ++ rest') with ((b :: r) ++ 58 :: (32 :: txt ++ rest')).
    rewrite take_while_stop by (auto; constructor; auto).
    rewrite skip_ignored_id by reflexivity. change (58 =? 58) with true. cbv iota.
    rewrite pvalue_sp. rewrite (Hp fuel rest' Hf Hfu). rewrite Ht. destruct tail; reflexivity.
  Qed.

  Lemma pobject_items items : Forall entry_ok items -> forall fuel rest,
    (Datatypes.S (Nat.add (length items) (sum_need_e items)) <= fuel)%nat ->
    pobject fuel (join [44; 32] (map entry_text items) ++ 125 :: rest) = Some (map entry_lit items, rest).
  Proof.
    induction 1 as [|it r Hit Hr IH]; intros fuel rest Hfu.
    - destruct (fuel_S fuel) as [f ->]; [simpl in Hfu; lia|]. reflexivity.
    - destruct it as [[[k txt] l] nd].
      destruct (fuel_S fuel) as [f ->]; [simpl in Hfu; lia|].
      cbn [map sum_need_e entry_need length] in *.
      destruct r as [|it2 r'].
      + cbn [join map].
        rewrite (pobject_entry k txt l nd f (125 :: rest) Hit) with (tail := ([], rest)).
        * reflexivity.
        * simpl; auto.
        * simpl in Hfu; lia.
        * pose proof (IH f rest) as IH'. cbn [map join app] in IH'. apply IH'. simpl in *; lia.
      + set (J := join [44; 32] (map entry_text (it2 :: r'))) in *.
        assert (EJ : join [44; 32] (entry_text (k, txt, l, nd) :: map entry_text (it2 :: r'))
                     = entry_text (k, txt, l, nd) ++ [44; 32] ++ J) by reflexivity.
        rewrite EJ. rewrite <- !app_assoc. cbn [app].
        rewrite (pobject_entry k txt l nd f (44 :: 32 :: J ++ 125 :: rest) Hit) with (tail := (map entry_lit (it2 :: r'), rest)).
        * reflexivity.
        * simpl; auto.
        * simpl in Hfu; lia.
        * rewrite pobject_sep. apply IH. simpl in *; lia.
  Qed.

  Lemma join_length_entries items :
    Forall (fun it : name * bytes * lit * nat =>
              match it with (_, txt, _, nd) => (1 <= length txt)%nat /\ (nd <= 2 * length txt)%nat end) items ->
    (length items + sum_need_e items <= 2 * length (join (44%N :: 32%N :: nil) (map entry_text items)) + 1)%nat.
  Proof.
    induction 1 as [|it r Hit Hr IH]; [simpl; lia|]. destruct it as [[[k txt] l] nd]. destruct Hit as [H1 H2].
    cbn [map sum_need_e entry_need length]. destruct (map entry_text r) as [|p ps] eqn:E.
    - destruct r; [|discriminate]. cbn [join sum_need_e length] in *. unfold entry_text. rewrite ?app_length. cbn [length]. lia.
    - cbn [join] in *. unfold entry_text at 1. rewrite ?app_length in *. cbn [length] in *. rewrite ?app_length in *. cbn [length] in *. lia.
  Qed.

  Lemma coerce_object_at fs : forall t inl n, strip_nn' t = StNamed n ->
    coerce S (LObject fs) t inl = coerce S (LObject fs) (StNamed n) inl.
  Proof.
    induction t as [m|w IH|w IH]; intros inl n Hs; simpl in Hs.
    - inversion Hs. reflexivity.
    - discriminate.
    - simpl. apply IH. exact Hs.
  Qed.

  Lemma b_eq_sym a b : b_eq a b = b_eq b a.
  Proof.
    unfold b_eq. destruct (bytes_eqb a b) eqn:E1, (bytes_eqb b a) eqn:E2; auto.
    - apply bytes_eqb_eq in E1. subst. rewrite bytes_eqb_refl in E2. discriminate.
    - apply bytes_eqb_eq in E2. subst. rewrite bytes_eqb_refl in E1. discriminate.
  Qed.

  Lemma provided_mem {A B} (k : name) (fs : list (name * A)) (g : name * A -> name * B) :
    (forall p, fst (g p) = fst p) ->
    existsb (fun p => b_eq (fst p) k) (map g fs) = mem k (map fst fs).
  Proof.
    intro Hg. unfold mem. induction fs as [|p r IH]; simpl; auto.
    rewrite Hg, IH. rewrite b_eq_sym. reflexivity.
  Qed.

  Lemma has_dup_key_false (fs : list (name * lit)) : nodup_names (map fst fs) = true -> has_dup_key fs = false.
  Proof.
    unfold has_dup_key. induction fs as [|[k x] r IH]; simpl; auto. intro H. apply andb_true_iff in H as [H1 H2].
    rewrite IH by exact H2. rewrite orb_false_r.
    rewrite <- (map_id r) at 1. rewrite (provided_mem k r (fun p => p)) by reflexivity.
    destruct (mem k (map fst r)); [discriminate|reflexivity].
  Qed.

  Lemma lookup_nodup {A} k (x : A) l : nodup_names (map fst l) = true -> In (k, x) l -> lookup k l = Some x.
  Proof.
    induction l as [|[k' x'] r IH]; simpl; [tauto|]. intros H [E|Hin].
    - inversion E; subst. rewrite bytes_eqb_refl. reflexivity.
    - apply andb_true_iff in H as [H1 H2]. destruct (bytes_eqb k k') eqn:E.
      + apply bytes_eqb_eq in E. subst k'. exfalso.
        assert (mem k (map fst r) = true) by (apply mem_in; apply in_map_iff; exists (k, x); auto).
        rewrite H in H1. discriminate.
      + apply IH; auto.
  Qed.

  Lemma map_case kvs : Forall (fun kv => P (snd kv)) kvs -> P (GMap kvs).
  Proof.
    intros Hall t Hc Hp.
    assert (Hc' : exists n defs r d, strip_nn' t = StNamed n /\ lookup n (types S) = Some (NInput defs r true d) /\
                    nodup_names (map fst kvs) = true /\
                    forallb (fun kv => match kv with
                                       | (k, x) => match lookup k defs with
                                                   | Some dd => default_conforms S x (in_type dd)
                                                   | None => false
                                                   end
                                       end) kvs = true /\
                    forallb (fun d => mem (fst d) (map fst kvs) ||
                                      match in_default (snd d), in_type (snd d) with
                                      | None, StNonNull _ => false
                                      | None, _ => true
                                      | Some _, _ => false
                                      end) defs = true).
    { simpl in Hc. destruct (strip_nn' t) as [n| |]; try discriminate.
      destruct (lookup n (types S)) as [[| |defs r rc d| | |]|] eqn:El; try discriminate.
      destruct rc; [|discriminate]. simpl in Hc.
      apply andb_true_iff in Hc as [Hc H3]. apply andb_true_iff in Hc as [H1 H2].
      exists n, defs, r, d. repeat split; auto. }
    destruct Hc' as [n [defs [r [d [Hs [Hl [Hnd [Hcs Hmiss]]]]]]]].
    pose proof (Hinputs n defs r true d Hl) as Hnames.
    (* every entry *)
    assert (Hitems : exists items : list (name * bytes * lit * nat),
               map (fun kv : name * gval => match kv with
                             | (k, x) => match lookup k defs with
                                         | Some dd => match marshal S x (in_type dd) with
                                                      | MOk b => MOk (k ++ [58; 32] ++ b)
                                                      | r => r
                                                      end
                                         | None => MUnmodelled
                                         end
                             end) kvs = map (fun it => MOk (entry_text it)) items /\
               map entry_need items = map (fun kv => need (snd kv)) kvs /\
               map (fun it => fst (entry_lit it)) items = map fst kvs /\
               Forall entry_ok items /\
               Forall (fun it : name * bytes * lit * nat =>
                         match it with (_, txt, _, nd) => (1 <= length txt)%nat /\ (nd <= 2 * length txt)%nat end) items /\
               Forall2 (fun it kv => exists dd, lookup (fst kv) defs = Some dd /\ fst (entry_lit it) = fst kv /\
                                       forall inl, exists c, coerce S (snd (entry_lit it)) (in_type dd) inl = Some c /\
                                                             cval_matches c (snd kv) = true) items kvs).
    { clear Hc Hnd Hmiss. revert Hcs Hp. induction Hall as [|[k x] rr Hx Hr IH]; intros Hcs Hp.
      - exists []. repeat split; constructor.
      - simpl in Hcs. apply andb_true_iff in Hcs as [Hc1 Hc2]. destruct Hp as [Hp1 Hp2]. cbn [snd] in Hx, Hp1.
        destruct (IH Hc2 Hp2) as [items [I1 [I2 [I2' [I3 [I4 I5]]]]]].
        destruct (lookup k defs) as [dd|] eqn:Ek; [|discriminate].
        destruct (Hx (in_type dd) Hc1 Hp1) as [txt [l [G1 [G2 [G3 [G4 G5]]]]]].
        exists ((k, txt, l, need x) :: items). cbn [map fst snd entry_text entry_need entry_lit]. rewrite Ek, G1, I1, I2, I2'.
        split; [reflexivity|]. split; [reflexivity|]. split; [reflexivity|].
        split.
        { constructor; auto. split; [|split; auto].
          rewrite Forall_forall in Hnames. exact (Hnames _ (lookup_in _ _ _ Ek)). }
        split; [constructor; auto; split; auto; destruct txt; [contradiction|simpl; lia]|].
        constructor; auto. exists dd. cbn [fst snd entry_lit]. auto. }
    destruct Hitems as [items [I1 [I2 [I2' [I3 [I4 I5]]]]]].
    set (parts := map entry_text items).
    assert (Hall' : mres_all (map (fun it : name * bytes * lit * nat => MOk (entry_text it)) items) = Some (Some parts)).
    { unfold parts. clear. induction items as [|it rr IH]; simpl; auto. rewrite IH. reflexivity. }
    assert (Hneed : need (GMap kvs) = Datatypes.S (Datatypes.S (Nat.add (length items) (sum_need_e items)))).
    { cbn [need]. f_equal. f_equal.
      assert (length kvs = length items) as -> by (rewrite <- (map_length (fun kv => need (snd kv)) kvs), <- I2, map_length; reflexivity).
      f_equal. clear - I2. revert kvs I2. induction items as [|it rr IH]; intros [|x kvs] I2; simpl in *; try discriminate; auto.
      inversion I2. rewrite (IH kvs) by assumption. congruence. }
    exists (123 :: join [44; 32] parts ++ [125]), (LObject (map entry_lit items)).
    unfold good_result. split.
    { cbn [marshal]. rewrite strip_nn_eq, Hs, Hl. cbn [negb]. rewrite I1, Hall'. reflexivity. }
    split; [unfold head_ok; repeat split; try reflexivity; lia|].
    split.
    { rewrite Hneed. pose proof (join_length_entries items I4) as H. fold parts in H. cbn [length]. rewrite app_length. simpl. lia. }
    split.
    { intros fuel rest Hf Hfu. rewrite Hneed in Hfu. destruct (fuel_S fuel) as [f ->]; [lia|].
      cbn [app pvalue]. rewrite skip_ignored_id by reflexivity.
      change (123 =? 91) with false. change (123 =? 123) with true. cbv iota.
      rewrite <- app_assoc. cbn [app].
      unfold parts. rewrite (pobject_items items I3 f rest) by lia. reflexivity. }
    intro inl. rewrite (coerce_object_at _ t inl n Hs). cbn [coerce]. rewrite Hl.
    rewrite has_dup_key_false by (rewrite map_map; rewrite I2'; exact Hnd).
    (* the provided fields *)
    assert (Hps : exists ps, map_opt' (fun p : name * lit => match p with
                                             | (k, x) => match lookup k defs with
                                                         | Some d0 => match coerce S x (in_type d0) false with
                                                                     | Some c => Some (k, c)
                                                                     | None => None
                                                                     end
                                                         | None => None
                                                         end
                                             end) (map entry_lit items) = Some ps /\
                         map fst ps = map fst kvs /\
                         Forall2 (fun p kv => fst p = fst kv /\ cval_matches (snd p) (snd kv) = true) ps kvs).
    { clear - I5. induction I5 as [|it kv items kvs H1 H2 IH].
      - exists []. repeat split; constructor.
      - destruct IH as [ps [E1 [E2 E3]]]. destruct H1 as [dd [Ek [Ef Hco]]]. destruct (Hco false) as [c [E4 E5]].
        destruct (entry_lit it) as [k l] eqn:El. cbn [fst snd] in *. subst k.
        exists ((fst kv, c) :: ps). split; [|split].
        + cbn [map map_opt']. rewrite El. rewrite Ek, E4, E1. reflexivity.
        + cbn [map fst]. rewrite E2. reflexivity.
        + constructor; auto. }
    destruct Hps as [ps [E1 [E2 E3]]]. rewrite E1.
    (* nothing is missing that would add or forbid anything *)
    match goal with |- context [filter ?f defs] => set (missing := filter f defs) end.
    assert (Hm1 : forall d0, In d0 missing -> in_default (snd d0) = None /\ match in_type (snd d0) with StNonNull _ => False | _ => True end).
    { intros d0 Hd0. unfold missing in Hd0. apply filter_In in Hd0 as [Hin Hnot]. unfold name in *.
      rewrite forallb_forall in Hmiss. specialize (Hmiss d0 Hin).
      assert (Hx : existsb (fun p : name * lit => b_eq (fst p) (fst d0)) (map entry_lit items) = mem (fst d0) (map fst kvs)).
      { rewrite <- I2'. clear. unfold mem. induction items as [|it rr IH]; simpl; auto. rewrite IH, b_eq_sym. reflexivity. }
      apply negb_true_iff in Hnot.
      assert (Hmem : mem (fst d0) (map fst kvs) = false) by exact (eq_trans (eq_sym Hx) Hnot).
      apply orb_true_iff in Hmiss. destruct Hmiss as [Hm|Hmiss]; [exfalso; exact (eq_true_false_abs _ Hm Hmem)|].
      revert Hmiss.
      destruct (in_default (snd d0)); [discriminate|]. destruct (in_type (snd d0)); try discriminate; auto. }
    assert (Hm2 : forallb (fun d0 : name * input_def => match in_default (snd d0), in_type (snd d0) with
                                     | None, StNonNull _ => false
                                     | _, _ => true
                                     end) missing = true).
    { apply forallb_forall. intros d0 Hd0. destruct (Hm1 d0 Hd0) as [E H]. unfold name in *. rewrite E. destruct (in_type (snd d0)); auto; contradiction. }
    unfold name in *. rewrite Hm2. cbn [negb].
    assert (Hm3 : flat_map (fun d0 : name * input_def => match in_default (snd d0) with
                                         | Some v => [(fst d0, cval_of_gval v)]
                                         | None => []
                                         end) missing = []).
    { clear - Hm1. induction missing as [|d0 rr IH]; simpl; auto.
      destruct (Hm1 d0 (or_introl eq_refl)) as [E _]. unfold name in *. rewrite E. simpl. apply IH. intros; apply Hm1; right; auto. }
    unfold name in *. rewrite Hm3, app_nil_r.
    exists (CMap ps). split; [reflexivity|].
    cbn [cval_matches].
    apply andb_true_iff. split.
    { apply Nat.eqb_eq.
      exact (eq_trans (eq_sym (map_length fst ps)) (eq_trans (f_equal (@length _) E2) (map_length fst kvs))). }
    assert (Hin : forall p, In p ps -> exists x, In (fst p, x) kvs /\ cval_matches (snd p) x = true).
    { clear - E3. induction E3 as [|p kv ps kvs [H1 H2] H3 IH]; [intros ? []|].
      intros q [<-|Hq].
      - exists (snd kv). split; [left; destruct kv; simpl in *; subst; reflexivity|exact H2].
      - destruct (IH q Hq) as [x [Hx1 Hx2]]. exists x. split; [right; exact Hx1|exact Hx2]. }
    clear - Hin Hnd. induction ps as [|[k c] rr IH]; [reflexivity|].
    destruct (Hin (k, c) (or_introl eq_refl)) as [x [Hx1 Hx2]]. cbn [fst snd] in *.
    rewrite (lookup_nodup k x kvs Hnd Hx1). rewrite Hx2. cbn [andb]. apply IH. intros; apply Hin; right; auto.
  Qed.

  (** every conforming, printable value *)
  Theorem roundtrip_values : forall v, P v.
  Proof.
    fix IH 1. intro v. destruct v as [|z|m e txt|s|b|vs|kvs].
    - (* null *)
      intros t Hc _. exists b_null, LNull. unfold good_result.
      split; [reflexivity|]. split; [unfold head_ok; repeat split; try reflexivity; lia|].
      split; [simpl; lia|]. split.
      + intros fuel rest Hf Hfu. simpl in Hfu. destruct (fuel_S fuel Hfu) as [f ->].
        apply (pvalue_keyword kw_null LNull); auto.
      + intro inl. exists CNull. split; [|reflexivity]. apply coerce_null. simpl in Hc. destruct t; auto; discriminate.
    - apply leaf_roundtrip; exact I.
    - apply leaf_roundtrip; exact I.
    - apply leaf_roundtrip; exact I.
    - apply leaf_roundtrip; exact I.
    - apply list_case.
      exact ((fix aux (l : list gval) : Forall P l :=
                match l with [] => Forall_nil _ | x :: r => Forall_cons x (IH x) (aux r) end) vs).
    - apply map_case.
      exact ((fix aux (l : list (name * gval)) : Forall (fun kv => P (snd kv)) l :=
                match l with [] => Forall_nil _ | kv :: r => Forall_cons kv (IH (snd kv)) (aux r) end) kvs).
  Qed.

  (** the clause of the property, for scalars, enums, lists and null *)
  Theorem default_roundtrip_values v t :
    default_conforms S v t = true -> printable v ->
    exists txt, marshal S v t = MOk txt /\ literal_denotes S t txt v = true.
  Proof.
    intros Hc Hp. destruct (roundtrip_values v t Hc Hp) as [txt [l [G1 [G2 [G3 [G4 G5]]]]]].
    exists txt. split; auto. unfold literal_denotes, parse_literal.
    pose proof (G4 (Datatypes.S (2 * length txt)) [] I) as Hpv. rewrite app_nil_r in Hpv.
    rewrite Hpv by lia. simpl skip_ignored. cbv iota.
    destruct (G5 false) as [c [E1 E2]]. rewrite E1. exact E2.
  Qed.
End Roundtrip.

(** ** executable forms of the hypotheses (for examples and for the check) *)
Definition name_ok_b (n : name) : bool :=
  match n with
  | [] => false
  | b :: r => is_name_start b && forallb is_name_char r
  end && negb (bytes_eqb n kw_true) && negb (bytes_eqb n kw_false) && negb (bytes_eqb n kw_null).

Definition enums_ok_b (S : schema) : bool :=
  forallb (fun t => match snd t with
                    | NEnum vals _ _ => nodup_names (map fst vals) && forallb (fun p => name_ok_b (fst p)) vals
                    | _ => true
                    end) (types S).

Lemma nodup_names_spec l : nodup_names l = true -> NoDup l.
Proof.
  induction l as [|x r IH]; simpl; [constructor|]. intro H. apply andb_true_iff in H as [H1 H2].
  constructor; auto. intro Hin. apply mem_in in Hin. rewrite Hin in H1. discriminate.
Qed.

Lemma name_ok_b_spec n : name_ok_b n = true -> name_ok n.
Proof.
  unfold name_ok_b, name_ok. intro H. repeat (apply andb_true_iff in H as [H ?]).
  assert (forall k, negb (bytes_eqb n k) = true -> n <> k).
  { intros k Hk Heq. subst. rewrite bytes_eqb_refl in Hk. discriminate. }
  repeat split; auto.
  destruct n as [|b r]; [discriminate|]. apply andb_true_iff in H as [Hb Hr]. split; auto.
  apply Forall_forall. rewrite forallb_forall in Hr. exact Hr.
Qed.

Lemma enums_ok_b_spec S : enums_ok_b S = true -> enums_ok S.
Proof.
  intros H n vals r d Hl. unfold enums_ok_b in H. rewrite forallb_forall in H.
  specialize (H _ (lookup_in _ _ _ Hl)). simpl in H. apply andb_true_iff in H as [H1 H2].
  split; [apply nodup_names_spec; exact H1|].
  apply Forall_forall. intros p Hp. rewrite forallb_forall in H2. apply name_ok_b_spec. auto.
Qed.

Definition field_name_ok_b (k : name) : bool :=
  match k with [] => false | b :: r => is_name_start b && forallb is_name_char r end.
Definition inputs_ok_b (S : schema) : bool :=
  forallb (fun t => match snd t with
                    | NInput defs _ _ _ => forallb (fun p => field_name_ok_b (fst p)) defs
                    | _ => true
                    end) (types S).
Lemma inputs_ok_b_spec S : inputs_ok_b S = true -> inputs_ok S.
Proof.
  intros H n defs r rc d Hl. unfold inputs_ok_b in H. rewrite forallb_forall in H.
  specialize (H _ (lookup_in _ _ _ Hl)). simpl in H. rewrite forallb_forall in H.
  apply Forall_forall. intros p Hp. specialize (H p Hp). unfold field_name_ok_b in H. unfold field_name_ok.
  destruct (fst p) as [|b rr]; [discriminate|]. apply andb_true_iff in H as [H1 H2]. split; auto.
  apply Forall_forall. rewrite forallb_forall in H2. exact H2.
Qed.
