(** * Intro/GraphProofs.v — which named types belong to a definition: the traversal of
    schema.New / Inspect ([registry]) and the saturation of the Spec ([members]) both compute
    exactly the declarative set [belongs]. *)
From Coq Require Import List NArith ZArith Bool Lia Permutation.
From ApiFu Require Import Base.Sexp Intro.IntrospectModel Intro.IntrospectSpec Intro.SortLemmas.
Import ListNotations.

Arguments mem : simpl never.

Lemma nodup_snoc {A} (l : list A) y : NoDup l -> ~ In y l -> NoDup (l ++ [y]).
Proof.
  intros Hnd Hn. eapply Permutation_NoDup; [apply Permutation_cons_append|]. constructor; auto.
Qed.

(** ** the model's [succs] / [roots] and the Spec's [mentions] / [entry_points] have the same elements *)
Lemma succs_mentions t b : In b (succs t) <-> In b (mentions t).
Proof.
  destruct t; simpl; try tauto.
  - rewrite !in_app_iff. unfold field_succs. tauto.
Qed.

Lemma roots_entry S n : In n (roots S) <-> In n (entry_points S).
Proof.
  unfold roots, entry_points. rewrite !in_app_iff. simpl. tauto.
Qed.

Lemma defined_lookup S n : defined S n = true <-> exists t, lookup n (types S) = Some t.
Proof.
  unfold defined. destruct (lookup n (types S)); split; intro H; eauto; try discriminate.
  destruct H as [t H]. discriminate.
Qed.

(** ** the depth-first traversal *)
Section Dfs.
  Variable S : schema.

  Lemma dfs_sound fuel : forall todo seen out,
    (forall n, In n seen -> belongs S n) ->
    (forall n, In n todo -> defined S n = true -> belongs S n) ->
    dfs S fuel todo seen = Some out -> forall n, In n out -> belongs S n.
  Proof.
    induction fuel as [|fuel IH]; intros todo seen out Hseen Htodo H; simpl in H; [discriminate|].
    destruct todo as [|n rest].
    - inversion H; subst. exact Hseen.
    - destruct (mem n seen) eqn:Em.
      + eapply IH; [exact Hseen | | exact H]. intros; apply Htodo; simpl; auto.
      + destruct (lookup n (types S)) as [t|] eqn:El.
        * assert (Bn : belongs S n).
          { apply Htodo; [left; auto|]. apply defined_lookup. eauto. }
          eapply IH; [| | exact H].
          -- intros m [<-|Hm]; auto.
          -- intros m Hm Hd. apply in_app_iff in Hm. destruct Hm as [Hm|Hm].
             ++ eapply belongs_mention; eauto. apply succs_mentions. exact Hm.
             ++ apply Htodo; simpl; auto.
        * eapply IH; [exact Hseen | | exact H]. intros; apply Htodo; simpl; auto.
  Qed.

  (** what the result is closed under *)
  Lemma dfs_closed fuel : forall todo seen out,
    dfs S fuel todo seen = Some out ->
    incl seen out /\
    (forall n, In n todo -> defined S n = true -> In n out) /\
    (forall a, In a out -> ~ In a seen ->
       forall t, lookup a (types S) = Some t -> forall b, In b (succs t) -> defined S b = true -> In b out).
  Proof.
    induction fuel as [|fuel IH]; intros todo seen out H; simpl in H; [discriminate|].
    destruct todo as [|n rest].
    - inversion H; subst. split; [apply incl_refl|]. split; [intros ? []|]. intros a Ha Hna. contradiction.
    - destruct (mem n seen) eqn:Em.
      + destruct (IH _ _ _ H) as [I1 [I2 I3]]. split; auto. split; auto.
        intros m [<-|Hm] Hd; auto. apply I1. apply mem_in. exact Em.
      + destruct (lookup n (types S)) as [t|] eqn:El.
        * destruct (IH _ _ _ H) as [I1 [I2 I3]].
          split; [intros x Hx; apply I1; right; exact Hx|].
          split.
          -- intros m [<-|Hm] Hd; [apply I1; left; auto|]. apply I2; auto. apply in_app_iff; auto.
          -- intros a Ha Hna t' El' b Hb Hd.
             destruct (bytes_eqb a n) eqn:Ean.
             ++ apply bytes_eqb_eq in Ean. subst a. rewrite El in El'. inversion El'; subst t'.
                apply I2; auto. apply in_app_iff; auto.
             ++ eapply I3; eauto. intros [<-|Hc]; [rewrite bytes_eqb_refl in Ean; discriminate | contradiction].
        * destruct (IH _ _ _ H) as [I1 [I2 I3]]. split; auto. split; auto.
          intros m [<-|Hm] Hd; auto. apply defined_lookup in Hd. destruct Hd as [t Ht]. congruence.
  Qed.

  Lemma dfs_nodup fuel : forall todo seen out,
    NoDup seen -> dfs S fuel todo seen = Some out -> NoDup out.
  Proof.
    induction fuel as [|fuel IH]; intros todo seen out Hnd H; simpl in H; [discriminate|].
    destruct todo as [|n rest]; [inversion H; subst; auto|].
    destruct (mem n seen) eqn:Em; [eauto|].
    destruct (lookup n (types S)); [|eauto].
    eapply IH; [|exact H]. constructor; auto. apply mem_false. exact Em.
  Qed.

  Lemma dfs_defined fuel : forall todo seen out,
    (forall n, In n seen -> defined S n = true) ->
    dfs S fuel todo seen = Some out -> forall n, In n out -> defined S n = true.
  Proof.
    induction fuel as [|fuel IH]; intros todo seen out Hd H; simpl in H; [discriminate|].
    destruct todo as [|n rest]; [inversion H; subst; auto|].
    destruct (mem n seen) eqn:Em; [eauto|].
    destruct (lookup n (types S)) eqn:El; [|eauto].
    eapply IH; [|exact H]. intros m [<-|Hm]; auto. apply defined_lookup; eauto.
  Qed.

  (** fuel *)
  Definition weight (seen : list name) (l : list (name * named_type)) : nat :=
    fold_right (fun kt acc => ((if mem (fst kt) seen then 0 else length (succs (snd kt))) + acc)%nat) 0%nat l.

  Lemma mem_cons k n seen : mem k (n :: seen) = bytes_eqb k n || mem k seen.
  Proof. reflexivity. Qed.

  Lemma weight_mono n seen l : (weight (n :: seen) l <= weight seen l)%nat.
  Proof.
    induction l as [|[k t] r IH]; simpl; [lia|].
    rewrite mem_cons. destruct (bytes_eqb k n); simpl; destruct (mem k seen); lia.
  Qed.

  Lemma weight_add n t seen l :
    lookup n l = Some t -> mem n seen = false -> (weight (n :: seen) l + length (succs t) <= weight seen l)%nat.
  Proof.
    induction l as [|[k t'] r IH]; simpl; [discriminate|].
    intros Hl Hm. rewrite mem_cons.
    destruct (bytes_eqb n k) eqn:E.
    - inversion Hl; subst t'. apply bytes_eqb_eq in E. subst k. rewrite bytes_eqb_refl. simpl. rewrite Hm.
      pose proof (weight_mono n seen r). lia.
    - assert (bytes_eqb k n = false) as ->.
      { destruct (bytes_eqb k n) eqn:E'; auto. apply bytes_eqb_eq in E'. subst. rewrite bytes_eqb_refl in E. discriminate. }
      simpl. specialize (IH Hl Hm). destruct (mem k seen); lia.
  Qed.

  Lemma dfs_fuel_enough fuel : forall todo seen,
    (fuel > length todo + weight seen (types S))%nat -> dfs S fuel todo seen <> None.
  Proof.
    induction fuel as [|fuel IH]; intros todo seen Hf; [lia|]. simpl.
    destruct todo as [|n rest]; [discriminate|]. simpl in Hf.
    destruct (mem n seen) eqn:Em; [apply IH; lia|].
    destruct (lookup n (types S)) as [t|] eqn:El; [|apply IH; lia].
    apply IH. rewrite app_length. pose proof (weight_add n t seen (types S) El Em). lia.
  Qed.

  Lemma weight_nil l : weight [] l = fold_right (fun t acc => length (succs (snd t)) + acc)%nat 0%nat l.
  Proof. induction l as [|[k t] r IH]; simpl; auto. Qed.

  (** the registry is the declarative set, without repetition; the fuel of the model suffices *)
  Theorem registry_spec :
    exists reg, registry S = Some reg /\ NoDup reg /\ (forall n, In n reg <-> belongs S n)
                /\ (forall n, In n reg -> defined S n = true).
  Proof.
    unfold registry.
    destruct (dfs S (dfs_fuel S) (roots S) []) as [seen|] eqn:E.
    - exists (rev seen). split; [reflexivity|].
      split; [apply NoDup_rev; eapply dfs_nodup; [constructor | exact E]|].
      split.
      + intro n. rewrite <- in_rev. split.
        * eapply dfs_sound; [ | | exact E].
          -- intros ? [].
          -- intros m Hm Hd. apply belongs_entry; auto. apply roots_entry. exact Hm.
        * destruct (dfs_closed _ _ _ _ E) as [_ [I2 I3]].
          induction 1 as [m Hm Hd | a t b Ha IHa Hl Hb Hd].
          -- apply I2; auto. apply roots_entry. exact Hm.
          -- eapply I3; eauto. apply succs_mentions. exact Hb.
      + intros n Hn. apply in_rev in Hn. eapply dfs_defined; [| exact E | exact Hn]. intros ? [].
    - exfalso. eapply dfs_fuel_enough; [|exact E].
      unfold dfs_fuel. rewrite weight_nil. lia.
  Qed.
End Dfs.

(** ** the Spec's saturation *)
Section Saturate.
  Variable S : schema.

  Lemma add_new_spec xs : forall acc,
    (forall x, In x (add_new acc xs) <-> In x acc \/ In x xs) /\
    (NoDup acc -> NoDup (add_new acc xs)) /\
    (length acc <= length (add_new acc xs))%nat /\
    ((forall x, In x xs -> In x acc) -> add_new acc xs = acc) /\
    ((exists x, In x xs /\ ~ In x acc) -> (length acc < length (add_new acc xs))%nat).
  Proof.
    unfold add_new. induction xs as [|y r IH]; intro acc; simpl.
    - repeat split; auto; try tauto; try lia. intros [x [[] _]].
    - destruct (mem y acc) eqn:Em.
      + destruct (IH acc) as [I1 [I2 [I3 [I4 I5]]]].
        apply mem_in in Em.
        split; [intro x; rewrite I1; intuition (subst; auto)|].
        split; auto. split; auto.
        split; [intro H; apply I4; intros; apply H; auto|].
        intros [x [[<-|Hx] Hn]]; [contradiction|]. apply I5; eauto.
      + destruct (IH (acc ++ [y])) as [I1 [I2 [I3 [I4 I5]]]].
        apply mem_false in Em.
        split; [intro x; rewrite I1, in_app_iff; simpl; intuition (subst; auto)|].
        split.
        { intro Hnd. apply I2. apply nodup_snoc; auto. }
        rewrite app_length in I3. simpl in I3.
        split; [lia|].
        split; [intro H; exfalso; apply Em; apply H; auto|].
        intros _. lia.
  Qed.

  Definition step_items (R : list name) : list name :=
    filter (defined S) (flat_map (fun a => match lookup a (types S) with Some t => mentions t | None => [] end) R).

  Lemma expand_eq R : expand S R = add_new R (step_items R).
  Proof. reflexivity. Qed.

  Lemma step_items_in b R :
    In b (step_items R) <->
    defined S b = true /\ exists a t, In a R /\ lookup a (types S) = Some t /\ In b (mentions t).
  Proof.
    unfold step_items. rewrite filter_In, in_flat_map. split.
    - intros [[a [Ha Hb]] Hd]. split; auto. destruct (lookup a (types S)) as [t|] eqn:E; [|destruct Hb]. eauto.
    - intros [Hd [a [t [Ha [El Hb]]]]]. split; auto. exists a. rewrite El. auto.
  Qed.

  Definition closed (R : list name) : Prop := forall x, In x (step_items R) -> In x R.

  Lemma forallb_false {A} (f : A -> bool) l : forallb f l = false -> exists x, In x l /\ f x = false.
  Proof.
    induction l as [|y r IH]; simpl; [discriminate|].
    destruct (f y) eqn:E; simpl; intro H.
    - destruct (IH H) as [x [Hx Hf]]. eauto.
    - eauto.
  Qed.

  Lemma closed_dec R : closed R \/ exists x, In x (step_items R) /\ ~ In x R.
  Proof.
    destruct (forallb (fun x => mem x R) (step_items R)) eqn:E.
    - left. intros x Hx. rewrite forallb_forall in E. apply mem_in. auto.
    - right. destruct (forallb_false _ _ E) as [x [Hx Hm]]. exists x. split; auto. apply mem_false. exact Hm.
  Qed.

  Lemma expand_closed R : closed R -> expand S R = R.
  Proof. intro H. rewrite expand_eq. apply add_new_spec. exact H. Qed.

  Lemma saturate_closed k : forall R, closed R -> saturate S k R = R.
  Proof.
    induction k as [|k IH]; intros R H; simpl; auto. rewrite expand_closed by auto. auto.
  Qed.

  Lemma expand_incl R : incl R (expand S R).
  Proof. intros x Hx. rewrite expand_eq. apply add_new_spec. auto. Qed.

  Lemma saturate_incl k : forall R, incl R (saturate S k R).
  Proof.
    induction k as [|k IH]; intros R; simpl; [apply incl_refl|].
    eapply incl_tran; [apply expand_incl | apply IH].
  Qed.

  Record good (R : list name) : Prop :=
    { g_nodup : NoDup R; g_defined : forall n, In n R -> defined S n = true; g_belongs : forall n, In n R -> belongs S n }.

  Lemma expand_good R : good R -> good (expand S R).
  Proof.
    intros [H1 H2 H3]. rewrite expand_eq. destruct (add_new_spec (step_items R) R) as [I1 [I2 _]].
    constructor; auto.
    - intros n Hn. apply I1 in Hn. destruct Hn as [Hn|Hn]; auto. apply step_items_in in Hn. tauto.
    - intros n Hn. apply I1 in Hn. destruct Hn as [Hn|Hn]; auto. apply step_items_in in Hn.
      destruct Hn as [Hd [a [t [Ha [El Hb]]]]]. eapply belongs_mention; eauto.
  Qed.

  Lemma saturate_good k : forall R, good R -> good (saturate S k R).
  Proof. induction k as [|k IH]; intros R H; simpl; auto. apply IH, expand_good, H. Qed.

  Lemma good_bound R : good R -> (length R <= length (types S))%nat.
  Proof.
    intros [H1 H2 _]. rewrite <- (map_length fst (types S)). apply NoDup_incl_length; auto.
    intros n Hn. apply H2, defined_lookup in Hn. destruct Hn as [t Ht]. apply lookup_in in Ht.
    change n with (fst (n, t)). apply in_map. exact Ht.
  Qed.

  Lemma saturate_progress k : forall R,
    closed (saturate S k R) \/ (length R + k <= length (saturate S k R))%nat.
  Proof.
    induction k as [|k IH]; intros R; simpl; [right; lia|].
    destruct (closed_dec R) as [Hc|Hx].
    - left. rewrite expand_closed by auto. rewrite saturate_closed by auto. exact Hc.
    - destruct (IH (expand S R)) as [Hc|Hl]; [left; exact Hc|]. right.
      assert (length R < length (expand S R))%nat.
      { rewrite expand_eq. apply add_new_spec. exact Hx. }
      lia.
  Qed.

  Definition start : list name := add_new [] (filter (defined S) (entry_points S)).

  Lemma start_good : good start.
  Proof.
    unfold start. destruct (add_new_spec (filter (defined S) (entry_points S)) []) as [I1 [I2 _]].
    constructor.
    - apply I2. constructor.
    - intros n Hn. apply I1 in Hn. destruct Hn as [[]|Hn]. apply filter_In in Hn. tauto.
    - intros n Hn. apply I1 in Hn. destruct Hn as [[]|Hn]. apply filter_In in Hn. apply belongs_entry; tauto.
  Qed.

  (** the saturation is the declarative set, without repetition *)
  Theorem members_spec : NoDup (members S) /\ (forall n, In n (members S) <-> belongs S n)
                         /\ (forall n, In n (members S) -> defined S n = true).
  Proof.
    unfold members. fold start.
    pose proof (saturate_good (Datatypes.S (length (types S))) start start_good) as G.
    split; [apply G|]. split; [|apply G].
    intro n. split; [apply G|].
    assert (C : closed (saturate S (Datatypes.S (length (types S))) start)).
    { destruct (saturate_progress (Datatypes.S (length (types S))) start) as [C|L]; auto.
      pose proof (good_bound _ G). lia. }
    induction 1 as [m Hm Hd | a t b Ha IHa Hl Hb Hd].
    - apply saturate_incl. unfold start. apply add_new_spec. right. apply filter_In. auto.
    - apply C. apply step_items_in. split; auto. eauto.
  Qed.
End Saturate.

(** the two computations agree up to order *)
Lemma registry_members S reg : registry S = Some reg -> Permutation reg (members S).
Proof.
  intro H. destruct (registry_spec S) as [reg' [H' [Hnd [Hin _]]]]. rewrite H in H'. inversion H'; subst reg'.
  destruct (members_spec S) as [Hnd' [Hin' _]].
  apply NoDup_Permutation; auto. intro n. rewrite Hin, Hin'. tauto.
Qed.
