(** * Intro/LiteralSpec.v — C10 reference semantics of a printed default value.

    Written from the GraphQL specification (June 2018): section 2.9 Input Values (lexical grammar
    of Int, Float, String, Boolean, Null, Enum, List and Object values, ignored tokens) and
    section 3 (input coercion of each kind of type).  Independent of the marshalValue model.

    [literal_denotes S T text d]: [text] is a GraphQL value literal whose input coercion at type
    [T] yields the configured default [d].

    The parser is deliberately a *sub*-recogniser of the grammar: it accepts quoted strings (not
    block strings), no comments, and requires a number to be followed by a delimiter; whatever it
    accepts is a valid GraphQL const value.  Executable; no proofs in this file. *)
From Coq Require Import List NArith ZArith Bool.
From ApiFu Require Import Base.Sexp Intro.Utf8 Intro.IntrospectModel.
Import ListNotations.
Open Scope N_scope.

(** ** literals *)
Inductive lit :=
| LInt (z : Z)
| LFloat (n : Z) (e10 : Z)            (* the decimal n * 10^e10, exactly *)
| LString (s : list N)                (* code points *)
| LBool (b : bool)
| LNull
| LEnum (n : name)
| LList (vs : list lit)
| LObject (fs : list (name * lit)).

(** ** lexical layer *)
Definition is_digit (b : N) : bool := (48 <=? b) && (b <=? 57).
Definition is_name_start (b : N) : bool := (b =? 95) || ((65 <=? b) && (b <=? 90)) || ((97 <=? b) && (b <=? 122)).
Definition is_name_char (b : N) : bool := is_name_start b || is_digit b.
(** ignored between tokens: tab, space, line terminators, comma (2.1.1 - 2.1.5, 2.1.7) *)
Definition is_ignored (b : N) : bool := (b =? 9) || (b =? 32) || (b =? 10) || (b =? 13) || (b =? 44).

Fixpoint skip_ignored (bs : bytes) : bytes :=
  match bs with
  | b :: r => if is_ignored b then skip_ignored r else bs
  | [] => []
  end.

Fixpoint take_while (p : N -> bool) (bs : bytes) : bytes * bytes :=
  match bs with
  | b :: r => if p b then let '(x, y) := take_while p r in (b :: x, y) else ([], bs)
  | [] => ([], [])
  end.

(** a number or name must not run into a following name character, digit or dot *)
Definition delimited (rest : bytes) : bool :=
  match rest with
  | [] => true
  | b :: _ => negb (is_name_char b || (b =? 46))
  end.

Fixpoint digits_value (acc : N) (ds : bytes) : N :=
  match ds with
  | [] => acc
  | d :: r => digits_value (10 * acc + (d - 48)) r
  end.

(** IntegerPart: -? ( 0 | NonZeroDigit Digit* ) *)
Definition integer_part_ok (ds : bytes) : bool :=
  match ds with
  | [] => false
  | [_] => true
  | d :: _ => negb (d =? 48)
  end.

(** Int or Float token: IntegerPart [. Digit+] [(e|E) [+|-] Digit+] *)
Definition lex_number (bs : bytes) : option (lit * bytes) :=
  let '(neg, bs1) := match bs with
                     | b :: r => if b =? 45 then (true, r) else (false, bs)
                     | [] => (false, bs)
                     end in
  let '(ip, r1) := take_while is_digit bs1 in
  if negb (integer_part_ok ip) then None else
  let sign (z : Z) : Z := if neg then Z.opp z else z in
  (* fractional part *)
  let frac := match r1 with
              | b :: r => if b =? 46 then
                            let '(fp, r2) := take_while is_digit r in
                            match fp with [] => None | _ => Some (Some fp, r2) end
                          else Some (None, r1)
              | [] => Some (None, r1)
              end in
  match frac with
  | None => None
  | Some (fp, r2) =>
      let expo := match r2 with
                  | c :: r =>
                      if (c =? 101) || (c =? 69) then
                        let '(eneg, r') := match r with
                                           | s :: r' => if s =? 45 then (true, r') else if s =? 43 then (false, r') else (false, r)
                                           | [] => (false, r)
                                           end in
                        let '(ed, r3) := take_while is_digit r' in
                        match ed with
                        | [] => None
                        | _ => Some (Some (if eneg then Z.opp (Z.of_N (digits_value 0 ed)) else Z.of_N (digits_value 0 ed)), r3)
                        end
                      else Some (None, r2)
                  | [] => Some (None, r2)
                  end in
      match expo with
      | None => None
      | Some (ex, r3) =>
          if negb (delimited r3) then None else
          match fp, ex with
          | None, None => Some (LInt (sign (Z.of_N (digits_value 0 ip))), r3)
          | _, _ =>
              let fpd := match fp with Some d => d | None => [] end in
              let e := match ex with Some e => e | None => 0%Z end in
              Some (LFloat (sign (Z.of_N (digits_value 0 (ip ++ fpd)))) (e - Z.of_nat (List.length fpd))%Z, r3)
          end
      end
  end.

Definition hex_value (b : N) : option N :=
  if is_digit b then Some (b - 48)
  else if (97 <=? b) && (b <=? 102) then Some (b - 87)
  else if (65 <=? b) && (b <=? 70) then Some (b - 55)
  else None.

(** the characters of a quoted string up to the closing quote (2.9.4).  Source text is UTF-8;
    SourceCharacter is U+0009, U+000A, U+000D, U+0020..U+FFFF, and a string character is a
    SourceCharacter other than quote, backslash and line terminators.  Escapes: the eight single
    characters and \uXXXX (a code unit; surrogates are not characters and are rejected). *)
Fixpoint lex_string_body (bs : bytes) : option (list N * bytes) :=
  match bs with
  | [] => None                                            (* unterminated *)
  | b :: r =>
      if b =? 34 then Some ([], r)
      else if b =? 92 then
        match r with
        | e :: r' =>
            if e =? 117 then
              match r' with
              | h1 :: h2 :: h3 :: h4 :: r'' =>
                  match hex_value h1, hex_value h2, hex_value h3, hex_value h4 with
                  | Some a, Some b', Some c, Some d =>
                      let cp := 4096 * a + 256 * b' + 16 * c + d in
                      if is_surrogate cp then None else
                      match lex_string_body r'' with Some (s, t) => Some (cp :: s, t) | None => None end
                  | _, _, _, _ => None
                  end
              | _ => None
              end
            else
              let simple (c : N) := match lex_string_body r' with Some (s, t) => Some (c :: s, t) | None => None end in
              if (e =? 34) || (e =? 92) || (e =? 47) then simple e
              else if e =? 98 then simple 8
              else if e =? 102 then simple 12
              else if e =? 110 then simple 10
              else if e =? 114 then simple 13
              else if e =? 116 then simple 9
              else None
        | [] => None
        end
      else if b <? 128 then
        if (32 <=? b) || (b =? 9) then
          match lex_string_body r with Some (s, t) => Some (b :: s, t) | None => None end
        else None                                         (* line terminator or control character *)
      else if (194 <=? b) && (b <=? 223) then             (* two-byte sequence *)
        match r with
        | b2 :: r' =>
            if (128 <=? b2) && (b2 <=? 191) then
              match lex_string_body r' with Some (s, t) => Some ((b - 192) * 64 + (b2 - 128) :: s, t) | None => None end
            else None
        | _ => None
        end
      else if (224 <=? b) && (b <=? 239) then             (* three-byte sequence *)
        match r with
        | b2 :: b3 :: r' =>
            let cp := (b - 224) * 4096 + (b2 - 128) * 64 + (b3 - 128) in
            if (128 <=? b2) && (b2 <=? 191) && (128 <=? b3) && (b3 <=? 191) && (2048 <=? cp) && negb (is_surrogate cp) then
              match lex_string_body r' with Some (s, t) => Some (cp :: s, t) | None => None end
            else None
        | _ => None
        end
      else None                                           (* malformed UTF-8, or beyond U+FFFF: not a SourceCharacter *)
  end.

Definition b_eq (a b : bytes) : bool := bytes_eqb a b.
Definition kw_true : bytes := [116; 114; 117; 101].
Definition kw_false : bytes := [102; 97; 108; 115; 101].
Definition kw_null : bytes := [110; 117; 108; 108].

(** ** Value[Const] (2.9).  Fuel: one unit per nesting step or list/object entry. *)
Fixpoint pvalue (fuel : nat) (bs : bytes) : option (lit * bytes) :=
  match fuel with
  | O => None
  | S f =>
      match skip_ignored bs with
      | [] => None
      | b :: r =>
          if b =? 91 then                                 (* [ *)
            match plist f r with Some (vs, t) => Some (LList vs, t) | None => None end
          else if b =? 123 then                           (* { *)
            match pobject f r with Some (fs, t) => Some (LObject fs, t) | None => None end
          else if b =? 34 then                            (* string; block strings are not accepted *)
            match r with
            | q1 :: q2 :: _ =>
                if (q1 =? 34) && (q2 =? 34) then None
                else match lex_string_body r with Some (s, t) => Some (LString s, t) | None => None end
            | _ => match lex_string_body r with Some (s, t) => Some (LString s, t) | None => None end
            end
          else if is_name_start b then
            let '(nm, t) := take_while is_name_char (b :: r) in
            if b_eq nm kw_true then Some (LBool true, t)
            else if b_eq nm kw_false then Some (LBool false, t)
            else if b_eq nm kw_null then Some (LNull, t)
            else Some (LEnum nm, t)
          else if is_digit b || (b =? 45) then lex_number (b :: r)
          else None
      end
  end
with plist (fuel : nat) (bs : bytes) : option (list lit * bytes) :=
  match fuel with
  | O => None
  | S f =>
      match skip_ignored bs with
      | [] => None
      | b :: r =>
          if b =? 93 then Some ([], r)
          else match pvalue f (b :: r) with
               | Some (v, t) => match plist f t with Some (vs, t') => Some (v :: vs, t') | None => None end
               | None => None
               end
      end
  end
with pobject (fuel : nat) (bs : bytes) : option (list (name * lit) * bytes) :=
  match fuel with
  | O => None
  | S f =>
      match skip_ignored bs with
      | [] => None
      | b :: r =>
          if b =? 125 then Some ([], r)
          else if is_name_start b then
            let '(nm, t) := take_while is_name_char (b :: r) in
            match skip_ignored t with
            | c :: t1 =>
                if c =? 58 then
                  match pvalue f t1 with
                  | Some (v, t2) => match pobject f t2 with Some (fs, t3) => Some ((nm, v) :: fs, t3) | None => None end
                  | None => None
                  end
                else None
            | [] => None
            end
          else None
      end
  end.

(** the whole text is one value *)
Definition parse_literal (text : bytes) : option lit :=
  match pvalue (S (2 * List.length text)) text with
  | Some (v, rest) => match skip_ignored rest with [] => Some v | _ => None end
  | None => None
  end.

(** ** input coercion (spec section 3.5.x Input Coercion, 3.9, 3.10, 3.11, 3.12) *)

(** the result of coercion: a Go-level value, except that a Float keeps its exact decimal *)
Inductive cval :=
| CNull | CInt (z : Z) | CDec (n e10 : Z) | CString (s : list N) | CBool (b : bool)
| CGo (v : gval)                          (* the Go value configured for an enum value *)
| CList (vs : list cval) | CMap (kvs : list (name * cval)).

Definition int32_ok (z : Z) : bool := (Z.leb (-2147483648) z && Z.leb z 2147483647)%Z.

Definition scalar_kind_of (n : name) : N :=   (* 1 Int 2 Float 3 String 4 Boolean 5 ID 0 custom *)
  if b_eq n n_Int then 1 else if b_eq n n_Float then 2 else if b_eq n n_String then 3
  else if b_eq n n_Boolean then 4 else if b_eq n n_ID then 5 else 0.

Definition coerce_scalar (n : name) (builtin : bool) (l : lit) : option cval :=
  let k := if builtin then scalar_kind_of n else 0 in
  match l with
  | LInt z => if k =? 1 then (if int32_ok z then Some (CInt z) else None)
              else if k =? 2 then Some (CDec z 0)
              else if (k =? 5) || (k =? 0) then Some (CInt z)
              else None
  | LFloat m e => if (k =? 2) || (k =? 0) then Some (CDec m e) else None
  | LString s => if (k =? 3) || (k =? 5) || (k =? 0) then Some (CString s) else None
  | LBool b => if (k =? 4) || (k =? 0) then Some (CBool b) else None
  | _ => None
  end.

Section MapOpt.
  Variables A B : Type.
  Variable f : A -> option B.
  Fixpoint map_opt' (l : list A) : option (list B) :=
    match l with
    | [] => Some []
    | x :: r => match f x, map_opt' r with Some y, Some ys => Some (y :: ys) | _, _ => None end
    end.
End MapOpt.
Arguments map_opt' {A B}.

Fixpoint cval_of_gval (v : gval) : cval :=
  match v with
  | GNull => CNull | GInt z => CInt z | GFloat m e t => CGo (GFloat m e t) | GString s => CString s | GBool b => CBool b
  | GList vs => CList (map cval_of_gval vs)
  | GMap kvs => CMap (map (fun kv => (fst kv, cval_of_gval (snd kv))) kvs)
  end.

Section Coerce.
  Variable S : schema.

  Definition has_dup_key (fs : list (name * lit)) : bool :=
    (fix go (l : list (name * lit)) : bool :=
       match l with [] => false | (k, _) :: r => existsb (fun p => b_eq (fst p) k) r || go r end) fs.

  Definition single (c : cval) : cval := CList [c].

  (** a literal that is neither null, a list nor an object, at a named type *)
  Definition coerce_leaf (l : lit) (n : name) : option cval :=
    match lookup n (types S) with
    | Some (NScalar b _ _ _) => coerce_scalar n b l
    | Some (NEnum vals _ _) =>
        match l with
        | LEnum e => match lookup e vals with Some v => Some (CGo (ev_value v)) | None => None end
        | _ => None
        end
    | _ => None
    end.

  (** [in_list]: the literal is an item of a list literal.  3.11: a non-list value given for a
      list type is coerced to a list of size one (recursively for nested lists); this does not
      apply to the items of a list literal ("[1, 2, 3]" is an error for [[Int]]). *)
  Fixpoint coerce (l : lit) : sty -> bool -> option cval :=
    match l with
    | LNull => fun t _ => match t with StNonNull _ => None | _ => Some CNull end
    | LList vs =>
        fix at_t (t : sty) (in_list : bool) : option cval :=
          match t with
          | StNonNull u => at_t u in_list
          | StList u => match map_opt' (fun x => coerce x u true) vs with Some cs => Some (CList cs) | None => None end
          | StNamed _ => None
          end
    | LObject fs =>
        fix at_t (t : sty) (in_list : bool) : option cval :=
          match t with
          | StNonNull u => at_t u in_list
          | StList u => if in_list then None else option_map single (at_t u false)
          | StNamed n =>
              match lookup n (types S) with
              | Some (NInput defs _ _ _) =>
                  if has_dup_key fs then None
                  else
                    (* every provided field is declared and coerces at its type *)
                    match map_opt' (fun p => match p with
                                             | (k, x) => match lookup k defs with
                                                         | Some d => match coerce x (in_type d) false with
                                                                     | Some c => Some (k, c)
                                                                     | None => None
                                                                     end
                                                         | None => None
                                                         end
                                             end) fs with
                    | None => None
                    | Some ps =>
                        (* every other declared field: its default, else absent unless non-null *)
                        let missing := filter (fun d => negb (existsb (fun p => b_eq (fst p) (fst d)) fs)) defs in
                        if negb (forallb (fun d => match in_default (snd d), in_type (snd d) with
                                                   | None, StNonNull _ => false
                                                   | _, _ => true
                                                   end) missing) then None
                        else Some (CMap (ps ++ flat_map (fun d => match in_default (snd d) with
                                                                  | Some v => [(fst d, cval_of_gval v)]
                                                                  | None => []
                                                                  end) missing))
                    end
              | _ => None
              end
          end
    | _ =>
        fix at_t (t : sty) (in_list : bool) : option cval :=
          match t with
          | StNonNull u => at_t u in_list
          | StList u => if in_list then None else option_map single (at_t u false)
          | StNamed n => coerce_leaf l n
          end
    end.
End Coerce.

(** ** does a coerced value equal a configured Go value? *)

(** [q = n * 10^e10] rounds (to nearest, ties to even) to the double [m * 2^e], where
    [2^52 <= |m| < 2^53] or ([e = -1074] and [|m| < 2^52]).  Exact rational comparison. *)
Definition pow_pos_part (b : Z) (e : Z) : Z := if Z.leb 0 e then Z.pow b e else 1%Z.
Definition pow_neg_part (b : Z) (e : Z) : Z := if Z.leb 0 e then 1%Z else Z.pow b (Z.opp e).
(** compare n * 10^e10 with k * 2^j *)
Definition cmp_dec_bin (n e10 k j : Z) : comparison :=
  Z.compare (n * pow_pos_part 10 e10 * pow_neg_part 2 j)%Z (k * pow_pos_part 2 j * pow_neg_part 10 e10)%Z.

Definition rounds_to (n e10 m e : Z) : bool :=
  let '(n, m) := if Z.ltb m 0 then (Z.opp n, Z.opp m) else (n, m) in
  let even := Z.even m in
  let hi := cmp_dec_bin n e10 (2 * m + 1) (e - 1) in
  let lo := if Z.eqb m 4503599627370496 && Z.ltb (-1074) e
            then cmp_dec_bin n e10 (4 * m - 1) (e - 2)
            else cmp_dec_bin n e10 (2 * m - 1) (e - 1) in
  (match hi with Lt => true | Eq => even | Gt => false end) &&
  (match lo with Gt => true | Eq => even | Lt => false end).

(** same dyadic value *)
Definition dyadic_eqb (m e m' e' : Z) : bool :=
  let d := Z.min e e' in Z.eqb (m * Z.pow 2 (e - d)) (m' * Z.pow 2 (e' - d)).

Fixpoint cval_matches (c : cval) (v : gval) {struct c} : bool :=
  match c, v with
  | CNull, GNull => true
  | CInt z, GInt z' => Z.eqb z z'
  | CInt z, GFloat m e _ => false
  | CDec n e10, GFloat m e _ => rounds_to n e10 m e
  | CString s, GString s' => bytes_eqb s s'
  | CBool b, GBool b' => Bool.eqb b b'
  | CGo (GFloat m e _), GFloat m' e' _ => dyadic_eqb m e m' e'
  | CGo g, _ => match g, v with
                | GInt z, GInt z' => Z.eqb z z'
                | GString s, GString s' => bytes_eqb s s'
                | GBool b, GBool b' => Bool.eqb b b'
                | GNull, GNull => true
                | _, _ => false
                end
  | CList cs, GList vs =>
      (fix all2 (cs : list cval) (vs : list gval) : bool :=
         match cs, vs with
         | [], [] => true
         | c :: cs', v :: vs' => cval_matches c v && all2 cs' vs'
         | _, _ => false
         end) cs vs
  | CMap ckvs, GMap kvs =>
      (* the same keys (maps: no duplicates), each with a matching value *)
      Nat.eqb (List.length ckvs) (List.length kvs) &&
      (fix all (l : list (name * cval)) : bool :=
         match l with
         | [] => true
         | (k, c) :: r => match lookup k kvs with Some v => cval_matches c v | None => false end && all r
         end) ckvs
  | _, _ => false
  end.

(** ** the clause of the property *)
Definition literal_denotes (S : schema) (t : sty) (text : bytes) (d : gval) : bool :=
  match parse_literal text with
  | Some l => match coerce S l t false with
              | Some c => cval_matches c d
              | None => false
              end
  | None => false
  end.

(** two literal texts are the same literal up to the order of object fields (and ignored
    tokens) — the equivalence under which printed defaults are compared *)
Fixpoint lit_eqv (a b : lit) {struct a} : bool :=
  match a, b with
  | LInt x, LInt y => Z.eqb x y
  | LFloat n e, LFloat n' e' => Z.eqb n n' && Z.eqb e e'
  | LString s, LString t => bytes_eqb s t
  | LBool x, LBool y => Bool.eqb x y
  | LNull, LNull => true
  | LEnum x, LEnum y => bytes_eqb x y
  | LList xs, LList ys =>
      (fix all2 (xs ys : list lit) : bool :=
         match xs, ys with
         | [], [] => true
         | x :: xs', y :: ys' => lit_eqv x y && all2 xs' ys'
         | _, _ => false
         end) xs ys
  | LObject fs, LObject gs =>
      Nat.eqb (List.length fs) (List.length gs) &&
      (fix all (l : list (name * lit)) : bool :=
         match l with
         | [] => true
         | (k, x) :: r => match lookup k gs with Some y => lit_eqv x y | None => false end && all r
         end) fs
  | _, _ => false
  end.

(** ** which configured defaults the clause speaks about *)
Fixpoint strip_nn' (t : sty) : sty := match t with StNonNull u => strip_nn' u | _ => t end.


(** [d] is a value of type [t] in the form input coercion produces: the right kind of Go value
    for the scalar, one of the enum's values, a list of conforming items, a map with exactly the
    entries coercion would leave (every declared field that has a default or is non-null is
    present).  A configuration whose default is not of this form is ill-typed (the resolver would
    see a value no request could produce). *)
Definition scalar_conforms (n : name) (builtin : bool) (v : gval) : bool :=
  let k := if builtin then scalar_kind_of n else 0 in
  match v with
  | GInt z => if k =? 1 then int32_ok z else (k =? 5) || (k =? 0)
  | GFloat _ _ _ => k =? 2
  | GString _ => (k =? 3) || (k =? 5) || (k =? 0)
  | GBool _ => (k =? 4) || (k =? 0)
  | _ => false
  end.

Definition gval_scalar_eqb (a b : gval) : bool :=
  match a, b with
  | GInt x, GInt y => Z.eqb x y
  | GString s, GString t => bytes_eqb s t
  | GBool x, GBool y => Bool.eqb x y
  | _, _ => false
  end.

Fixpoint nodup_names (l : list name) : bool :=
  match l with [] => true | x :: r => negb (mem x r) && nodup_names r end.

Section Conforms.
  Variable S : schema.
  Fixpoint default_conforms (v : gval) (t : sty) {struct v} : bool :=
    match v with
    | GNull => match t with StNonNull _ => false | _ => true end
    | GList vs =>
        match strip_nn' t with
        | StList u => forallb (fun x => default_conforms x u) vs
        | _ => false
        end
    | GMap kvs =>
        match strip_nn' t with
        | StNamed n =>
            match lookup n (types S) with
            | Some (NInput defs _ rc _) =>
                rc && nodup_names (map fst kvs) &&
                forallb (fun kv => match kv with
                                   | (k, x) => match lookup k defs with
                                               | Some d => default_conforms x (in_type d)
                                               | None => false
                                               end
                                   end) kvs &&
                forallb (fun d => mem (fst d) (map fst kvs) ||
                                  match in_default (snd d), in_type (snd d) with
                                  | None, StNonNull _ => false
                                  | None, _ => true
                                  | Some _, _ => false
                                  end) defs
            | _ => false
            end
        | _ => false
        end
    | _ =>
        match strip_nn' t with
        | StNamed n =>
            match lookup n (types S) with
            | Some (NScalar b _ _ _) => scalar_conforms n b v
            | Some (NEnum vals _ _) =>
                (* exactly one enum value has this Go value *)
                Nat.eqb (List.length (filter (fun p => gval_scalar_eqb (ev_value (snd p)) v) vals)) 1
            | _ => false
            end
        | _ => false
        end
    end.
End Conforms.
