(** * Intro/ViewBridge.v — C10 meets C13: the rebuilt definition answers every schema lookup like
    the original does for the request.

    C13 (coq/Feat) models a schema more coarsely than C10 (no descriptions, defaults,
    deprecation reasons; an argument is a name and a type) and describes every place where
    validator, executor and introspection look something up in a schema as [ask fx S F q].
    - [to_feat]: the abstraction function from C10's definitions to C13's schemas;
    - [ans_eq]: answers up to what Go does not determine or the rebuild cannot keep — the order of
      anything that comes out of a map (lists are compared as finite maps / sets), the feature
      annotations of a field, the resolver tag;
    - [fsim]: two C13 schemas that are the same up to that;
    - [ask_sim]: such schemas answer every lookup of the validator's view the same (up to
      [ans_eq]) for requests that can see everything in them.
    No axioms; proofs only (the definitions are not extracted). *)
From Coq Require Import List NArith ZArith Bool Lia Permutation Sorted.
From ApiFu Require Import Base.Sexp Intro.IntrospectModel Intro.IntrospectSpec Intro.SortLemmas.
From ApiFu Require Feat.FeaturesModel Feat.FeaturesSpec.
Import ListNotations.
Module FM := ApiFu.Feat.FeaturesModel.
Module FS := ApiFu.Feat.FeaturesSpec.

Arguments mem : simpl never.

(** ** the abstraction function *)
Fixpoint c_sty (t : sty) : FM.sty :=
  match t with
  | StNamed n => FM.StNamed n
  | StList u => FM.StList (c_sty u)
  | StNonNull u => FM.StNonNull (c_sty u)
  end.
Definition c_args (l : list (name * input_def)) : list (FM.name * FM.sty) :=
  map (fun a => (fst a, c_sty (in_type (snd a)))) l.
Definition c_field (f : field_def) : FM.field_def :=
  {| FM.f_type := c_sty (f_type f); FM.f_args := c_args (f_args f); FM.f_req := f_features f;
     FM.f_dep := is_deprecated (f_deprecation f); FM.f_ret := [] |}.
Definition c_fields (fs : list (name * field_def)) : list (FM.name * FM.field_def) :=
  map (fun f => (fst f, c_field (snd f))) fs.
Definition c_type (t : named_type) : FM.named_type :=
  match t with
  | NScalar _ _ r _ => FM.NScalar r
  | NEnum vs r _ => FM.NEnum (map (fun v => (fst v, is_deprecated (ev_deprecation (snd v)))) vs) r
  | NInput fs r _ _ => FM.NInput (c_args fs) r
  | NObject fs ifs r _ => FM.NObject (c_fields fs) ifs r
  | NInterface fs r _ => FM.NInterface (c_fields fs) r
  | NUnion ms r _ => FM.NUnion ms r
  end.
Definition c_types (l : list (name * named_type)) : list (FM.name * FM.named_type) :=
  map (fun t => (fst t, c_type (snd t))) l.
Definition to_feat (X : schema) : FM.schema :=
  {| FM.types := c_types (types X);
     FM.query := query X; FM.mutation := mutation X; FM.subscription := subscription X;
     FM.directives := map (fun d => (fst d, c_args (dd_args (snd d)))) (directives X);
     FM.additional := additional X |}.

(** ** association lists as finite maps *)
Lemma assoc_lookup {X} k (l : list (name * X)) : FM.assoc k l = lookup k l.
Proof. induction l as [|[k' v] r IH]; simpl; auto; try (rewrite IH; reflexivity). Qed.

(** insertion sort is stable: the first entry of a key stays the first *)
Lemma lookup_insert {X} (x : name * X) l k :
  lookup k (insert fst x l) = if bytes_eqb k (fst x) then Some (snd x) else lookup k l.
Proof.
  induction l as [|y r IH]; simpl.
  - destruct x as [kx vx]; simpl. reflexivity.
  - destruct (name_leb (fst x) (fst y)) eqn:E.
    + destruct x as [kx vx]; simpl. reflexivity.
    + destruct y as [ky vy]. simpl in *. rewrite IH.
      destruct (bytes_eqb k ky) eqn:E1; auto.
      destruct (bytes_eqb k (fst x)) eqn:E2; auto.
      apply bytes_eqb_eq in E1. apply bytes_eqb_eq in E2. rewrite <- E1 in E. rewrite E2 in E. rewrite name_leb_refl in E. discriminate.
Qed.

Lemma lookup_sort {X} (l : list (name * X)) k : lookup k (sort_by fst l) = lookup k l.
Proof.
  induction l as [|[k' v] r IH]; simpl; auto.
  rewrite lookup_insert. simpl. rewrite IH. reflexivity.
Qed.

Definition mapv {X Y} (f : X -> Y) (l : list (name * X)) : list (name * Y) := map (fun p => (fst p, f (snd p))) l.

Lemma lookup_mapv {X Y} (f : X -> Y) (l : list (name * X)) k : lookup k (mapv f l) = option_map f (lookup k l).
Proof. unfold mapv. induction l as [|[k' v] r IH]; simpl; auto. destruct (bytes_eqb k k'); auto. Qed.

Lemma in_mapv {X Y} (f : X -> Y) (l : list (name * X)) k y : In (k, y) (mapv f l) <-> exists x, In (k, x) l /\ y = f x.
Proof.
  unfold mapv. rewrite in_map_iff. split.
  - intros [[k' x] [E H]]. simpl in E. inversion E; subst. eauto.
  - intros [x [H ->]]. exists (k, x). auto.
Qed.

Lemma mapv_mapv {X Y Z} (f : X -> Y) (g : Y -> Z) l : mapv g (mapv f l) = mapv (fun x => g (f x)) l.
Proof. unfold mapv. rewrite map_map. reflexivity. Qed.

(** the same finite map, and the same set of entries *)
Definition alist_eq {X} (a b : list (name * X)) : Prop :=
  (forall k, lookup k a = lookup k b) /\ (forall p, In p a <-> In p b).

Lemma alist_eq_refl {X} (a : list (name * X)) : alist_eq a a.
Proof. split; intros; tauto. Qed.
Lemma alist_eq_of_eq {X} (a b : list (name * X)) : a = b -> alist_eq a b.
Proof. intros ->. apply alist_eq_refl. Qed.
Lemma alist_eq_sym {X} (a b : list (name * X)) : alist_eq a b -> alist_eq b a.
Proof. intros [H1 H2]. split; intros; [symmetry; auto | symmetry; auto]. Qed.
Lemma alist_eq_trans {X} (a b c : list (name * X)) : alist_eq a b -> alist_eq b c -> alist_eq a c.
Proof. intros [H1 H2] [H3 H4]. split; intros; [rewrite H1; auto | rewrite H2; auto]. Qed.

Lemma alist_eq_sorted {X} (a b : list (name * X)) : sort_by fst a = sort_by fst b -> alist_eq a b.
Proof.
  intro H. split.
  - intro k. rewrite <- (lookup_sort a), <- (lookup_sort b), H. reflexivity.
  - intro p. rewrite <- (in_sort _ fst p a), <- (in_sort _ fst p b), H. tauto.
Qed.

Lemma alist_eq_sort {X} (a : list (name * X)) : alist_eq (sort_by fst a) a.
Proof. split; [intro; apply lookup_sort | intro; apply in_sort]. Qed.

Lemma alist_eq_mapv {X Y} (f : X -> Y) (a b : list (name * X)) : alist_eq a b -> alist_eq (mapv f a) (mapv f b).
Proof.
  intros [H1 H2]. split.
  - intro k. rewrite !lookup_mapv, H1. reflexivity.
  - intros [k y]. rewrite !in_mapv. split; intros [x [Hx ->]]; exists x; split; auto; apply H2; auto.
Qed.

(** ** answers up to map order and to what a rebuilt definition cannot carry *)
Definition nfd (fd : FM.field_def) : FM.field_def :=
  {| FM.f_type := FM.f_type fd; FM.f_args := sort_by fst (FM.f_args fd); FM.f_req := [];
     FM.f_dep := FM.f_dep fd; FM.f_ret := [] |}.
Definition dirs_eq (a b : list (FM.name * list (FM.name * FM.sty))) : Prop :=
  alist_eq (mapv (sort_by fst) a) (mapv (sort_by fst) b).

Definition ans_eq (a b : FM.answer) : Prop :=
  match a, b with
  | FM.AField x, FM.AField y => option_map nfd x = option_map nfd y
  | FM.ANames (Some x), FM.ANames (Some y) => forall n, In n x <-> In n y
  | FM.AInputs (Some x), FM.AInputs (Some y) => alist_eq x y
  | FM.AFields (Some x), FM.AFields (Some y) => forall p, In p (mapv nfd x) <-> In p (mapv nfd y)
  | FM.ADirs x, FM.ADirs y => dirs_eq x y
  | _, _ => a = b
  end.

Lemma ans_eq_refl a : ans_eq a a.
Proof.
  destruct a as [h| |k|f|[l|]|[l|]|[l|]|b|l]; simpl; auto; try tauto.
  - apply alist_eq_refl.
  - apply alist_eq_refl.
Qed.

(** a named type up to the same *)
Definition type_eq (ta tb : FM.named_type) : Prop :=
  match ta, tb with
  | FM.NScalar _, FM.NScalar _ => True
  | FM.NEnum v1 _, FM.NEnum v2 _ => forall p, In p v1 <-> In p v2
  | FM.NInput f1 _, FM.NInput f2 _ => alist_eq f1 f2
  | FM.NObject f1 i1 _, FM.NObject f2 i2 _ => alist_eq (mapv nfd f1) (mapv nfd f2) /\ i1 = i2
  | FM.NInterface f1 _, FM.NInterface f2 _ => alist_eq (mapv nfd f1) (mapv nfd f2)
  | FM.NUnion m1 _, FM.NUnion m2 _ => m1 = m2
  | _, _ => False
  end.
Definition otype_eq (x y : option FM.named_type) : Prop :=
  match x, y with Some a, Some b => type_eq a b | None, None => True | _, _ => False end.

Lemma type_eq_sym a b : type_eq a b -> type_eq b a.
Proof.
  destruct a, b; simpl; auto.
  - intros H p. symmetry. auto.
  - apply alist_eq_sym.
  - intros [H1 H2]. split; [apply alist_eq_sym; auto | auto].
  - apply alist_eq_sym.
Qed.
Lemma type_eq_trans a b c : type_eq a b -> type_eq b c -> type_eq a c.
Proof.
  destruct a, b; simpl; try contradiction; destruct c; simpl; try contradiction; auto.
  - intros H1 H2 p. rewrite H1. auto.
  - apply alist_eq_trans.
  - intros [H1 H2] [H3 H4]. split; [eapply alist_eq_trans; eauto | congruence].
  - apply alist_eq_trans.
  - congruence.
Qed.
Lemma otype_eq_sym x y : otype_eq x y -> otype_eq y x.
Proof. destruct x, y; simpl; auto. apply type_eq_sym. Qed.
Lemma otype_eq_trans x y z : otype_eq x y -> otype_eq y z -> otype_eq x z.
Proof. destruct x, y; simpl; try contradiction; destruct z; simpl; try contradiction; auto. apply type_eq_trans. Qed.

(** everything in the schema is within the request's features *)
Definition all_visible (A : FM.schema) (G : FM.features) : Prop :=
  forall n t, In (n, t) (FM.types A) ->
    FM.subset (FM.type_req t) G = true /\
    forall nf, In nf (FM.fields_of t) -> FM.subset (FM.f_req (snd nf)) G = true.

Record fsim (A B : FM.schema) : Prop := {
  fs_nodup_a : NoDup (map fst (FM.types A));
  fs_nodup_b : NoDup (map fst (FM.types B));
  fs_lookup : forall n, otype_eq (FM.lookup A n) (FM.lookup B n);
  fs_q : FM.query A = FM.query B;
  fs_m : FM.mutation A = FM.mutation B;
  fs_s : FM.subscription A = FM.subscription B;
  fs_dirs : dirs_eq (FM.directives A) (FM.directives B) }.

Lemma fsim_sym A B : fsim A B -> fsim B A.
Proof.
  intros [H1 H2 H3 H4 H5 H6 H7]. constructor; auto.
  - intro n. apply otype_eq_sym. auto.
  - apply alist_eq_sym. exact H7.
Qed.
Lemma fsim_trans A B C : fsim A B -> fsim B C -> fsim A C.
Proof.
  intros [H1 H2 H3 H4 H5 H6 H7] [K1 K2 K3 K4 K5 K6 K7]. constructor; auto; try congruence.
  - intro n. eapply otype_eq_trans; eauto.
  - eapply alist_eq_trans; eauto.
Qed.

(** ** such schemas answer alike *)
Lemma kind_type_eq a b : type_eq a b -> FM.kind_of a = FM.kind_of b.
Proof. destruct a, b; simpl; intro H; try contradiction; reflexivity. Qed.

Section AskSim.
  Variables A B : FM.schema.
  Variables GA GB : FM.features.
  Hypothesis Hsim : fsim A B.
  Hypothesis HvA : all_visible A GA.
  Hypothesis HvB : all_visible B GB.

  Lemma lookup_types X n t : FM.lookup X n = Some t -> In (n, t) (FM.types X).
  Proof. unfold FM.lookup. rewrite assoc_lookup. apply lookup_in. Qed.

  Lemma lk n : match FM.lookup A n, FM.lookup B n with
               | Some ta, Some tb => type_eq ta tb /\ FM.subset (FM.type_req ta) GA = true /\ FM.subset (FM.type_req tb) GB = true
               | None, None => True
               | _, _ => False
               end.
  Proof.
    pose proof (fs_lookup A B Hsim n) as H.
    destruct (FM.lookup A n) as [ta|] eqn:Ea, (FM.lookup B n) as [tb|] eqn:Eb; simpl in H; auto.
    split; auto. split.
    - apply (HvA n ta). apply lookup_types. exact Ea.
    - apply (HvB n tb). apply lookup_types. exact Eb.
  Qed.

  (** the registered implementations of an interface, as a set of names *)
  Lemma impls_names X G i n : NoDup (map fst (FM.types X)) -> all_visible X G ->
    In n (FM.names_within G (FM.impls X i)) <->
    exists t, FM.lookup X n = Some t /\ FM.implements i (n, t) = true.
  Proof.
    intros Hnd Hv. unfold FM.names_within, FM.impls. rewrite in_map_iff. split.
    - intros [[n' t] [E H]]. simpl in E. subst n'. apply filter_In in H as [H _]. apply filter_In in H as [H1 H2].
      exists t. split; auto. unfold FM.lookup. rewrite assoc_lookup. apply in_lookup; auto.
    - intros [t [H1 H2]]. exists (n, t). split; auto. apply lookup_types in H1.
      apply filter_In. split; [apply filter_In; auto|]. simpl. apply (Hv n t H1).
  Qed.

  Lemma implements_eq i n ta tb : type_eq ta tb -> FM.implements i (n, ta) = FM.implements i (n, tb).
  Proof. destruct ta, tb; simpl; intro H; try contradiction; auto. destruct H as [_ ->]. reflexivity. Qed.

  Lemma impls_sim i n : In n (FM.names_within GA (FM.impls A i)) <-> In n (FM.names_within GB (FM.impls B i)).
  Proof.
    rewrite (impls_names A GA i n (fs_nodup_a A B Hsim) HvA), (impls_names B GB i n (fs_nodup_b A B Hsim) HvB).
    pose proof (lk n) as H.
    destruct (FM.lookup A n) as [ta|], (FM.lookup B n) as [tb|]; try contradiction.
    - destruct H as [H _]. split; intros [t [E1 E2]]; inversion E1; subst t.
      + exists tb. split; auto. rewrite <- (implements_eq i n ta tb H). exact E2.
      + exists ta. split; auto. rewrite (implements_eq i n ta tb H). exact E2.
    - split; intros [t [E _]]; discriminate.
  Qed.

  Theorem ask_sim q : FM.in_view_validator q || FM.in_view_executor q = true ->
    ans_eq (FM.ask FM.fixed A GA q) (FM.ask FM.fixed B GB q).
  Proof.
    destruct q; intro Hq; try discriminate Hq; clear Hq; cbn [FM.ask].
    - (* QRoot *)
      destruct r; simpl; f_equal; [f_equal; apply (fs_q A B Hsim) | apply (fs_m A B Hsim) | apply (fs_s A B Hsim)].
    - (* QNamedV *)
      pose proof (lk n) as H.
      destruct (FM.lookup A n) as [ta|], (FM.lookup B n) as [tb|]; try contradiction; try apply ans_eq_refl.
      destruct H as [_ [-> ->]]. reflexivity.
    - (* QNamedE *)
      pose proof (lk n) as H.
      destruct (FM.lookup A n) as [ta|], (FM.lookup B n) as [tb|]; try contradiction; try apply ans_eq_refl.
    - (* QKind *)
      pose proof (lk t) as H.
      destruct (FM.lookup A t) as [ta|], (FM.lookup B t) as [tb|]; try contradiction; simpl; auto.
      destruct H as [H _]. rewrite (kind_type_eq _ _ H). reflexivity.
    - (* QField *)
      pose proof (lk t) as H.
      destruct (FM.lookup A t) as [ta|] eqn:Ea, (FM.lookup B t) as [tb|] eqn:Eb; try contradiction; simpl; auto.
      destruct H as [H _].
      assert (VA : forall fd, FM.assoc f (FM.fields_of ta) = Some fd -> FM.subset (FM.f_req fd) GA = true).
      { intros fd Hfd. rewrite assoc_lookup in Hfd. apply lookup_in in Hfd.
        exact (proj2 (HvA t ta (lookup_types A t ta Ea)) (f, fd) Hfd). }
      assert (VB : forall fd, FM.assoc f (FM.fields_of tb) = Some fd -> FM.subset (FM.f_req fd) GB = true).
      { intros fd Hfd. rewrite assoc_lookup in Hfd. apply lookup_in in Hfd.
        exact (proj2 (HvB t tb (lookup_types B t tb Eb)) (f, fd) Hfd). }
      assert (E : option_map nfd (FM.assoc f (FM.fields_of ta)) = option_map nfd (FM.assoc f (FM.fields_of tb))).
      { rewrite !assoc_lookup. rewrite <- !lookup_mapv.
        destruct ta, tb; simpl in H; try contradiction; simpl; auto.
        - destruct H as [[H _] _]. apply H.
        - destruct H as [H _]. apply H. }
      destruct (FM.assoc f (FM.fields_of ta)) as [fa|] eqn:Fa; [rewrite (VA fa eq_refl)|];
        (destruct (FM.assoc f (FM.fields_of tb)) as [fb|] eqn:Fb; [rewrite (VB fb eq_refl)|]); exact E.
    - (* QPossibleV *)
      pose proof (lk t) as H.
      destruct (FM.lookup A t) as [ta|], (FM.lookup B t) as [tb|]; try contradiction; simpl; auto.
      destruct H as [H _].
      destruct ta, tb; simpl in H; try contradiction; simpl; auto.
      + intro n. tauto.
      + intro n. apply impls_sim.
      + subst. intro n. tauto.
    - (* QImpls *)
      pose proof (lk t) as H.
      destruct (FM.lookup A t) as [ta|], (FM.lookup B t) as [tb|]; try contradiction; simpl; try tauto.
      destruct H as [H _].
      destruct ta, tb; simpl in H; try contradiction; simpl; try tauto.
      + intro n. apply impls_sim.
      + subst. intro n. tauto.
    - (* QApplies *)
      pose proof (lk t) as H. pose proof (lk o) as Ho.
      destruct (FM.lookup A t) as [ta|], (FM.lookup B t) as [tb|]; try contradiction; simpl; auto.
      destruct H as [H _].
      destruct ta, tb; simpl in H; try contradiction; simpl; auto.
      + destruct (FM.lookup A o) as [oa|], (FM.lookup B o) as [ob|]; try contradiction; auto.
        destruct Ho as [Ho _]. destruct oa, ob; simpl in Ho; try contradiction; auto.
        destruct Ho as [_ ->]. reflexivity.
      + subst. reflexivity.
    - (* QEnumValues *)
      pose proof (lk t) as H.
      destruct (FM.lookup A t) as [ta|], (FM.lookup B t) as [tb|]; try contradiction; simpl; auto.
      destruct H as [H _].
      destruct ta, tb; simpl in H; try contradiction; simpl; auto.
      intro n. rewrite !in_map_iff. split; intros [p [E Hp]]; exists p; (split; [exact E|]);
        apply filter_In in Hp as [Hp1 Hp2]; apply filter_In; split; auto; apply H; auto.
    - (* QInputFields *)
      pose proof (lk t) as H.
      destruct (FM.lookup A t) as [ta|], (FM.lookup B t) as [tb|]; try contradiction; simpl; auto.
      destruct H as [H _].
      destruct ta, tb; simpl in H; try contradiction; simpl; auto.
    - (* QDirective *)
      pose proof (fs_dirs A B Hsim) as [H _]. specialize (H n). rewrite !lookup_mapv in H.
      rewrite (assoc_lookup n (FM.directives A)), (assoc_lookup n (FM.directives B)).
      destruct (lookup n (FM.directives A)) as [a|] eqn:Ea; destruct (lookup n (FM.directives B)) as [b|] eqn:Eb.
      + assert (H' : option_map (sort_by fst) (Some a) = option_map (sort_by fst) (Some b))
          by (rewrite <- Ea, <- Eb; exact H).
        simpl in H'. inversion H' as [H'']. unfold dirs_eq. apply alist_eq_of_eq. unfold mapv. simpl. f_equal. f_equal. exact H''.
      + exfalso. assert (H' : option_map (sort_by fst) (Some a) = option_map (sort_by fst) (@None (list (FM.name * FM.sty))))
          by (rewrite <- Ea, <- Eb; exact H). discriminate H'.
      + exfalso. assert (H' : option_map (sort_by fst) (@None (list (FM.name * FM.sty))) = option_map (sort_by fst) (Some b))
          by (rewrite <- Ea, <- Eb; exact H). discriminate H'.
      + apply alist_eq_refl.
  Qed.

  (** introspection's own listings: types, __type(name:), fields, interfaces, possibleTypes,
      directives *)
  Lemma ptrs_all X G l : all_visible X G -> FM.ptrs_within X G l = l.
  Proof.
    intro Hv. unfold FM.ptrs_within. induction l as [|n r IH]; simpl; auto.
    assert (FM.subset (FM.req_of X n) G = true) as ->.
    { unfold FM.req_of. destruct (FM.lookup X n) as [t|] eqn:E; [|reflexivity].
      apply (Hv n t). apply lookup_types. exact E. }
    rewrite IH. reflexivity.
  Qed.

  Lemma types_names X G n : NoDup (map fst (FM.types X)) -> all_visible X G ->
    In n (FM.names_within G (FM.types X)) <-> exists t, FM.lookup X n = Some t.
  Proof.
    intros Hnd Hv. unfold FM.names_within. rewrite in_map_iff. split.
    - intros [[n' t] [E H]]. simpl in E. subst n'. apply filter_In in H as [H _].
      exists t. unfold FM.lookup. rewrite assoc_lookup. apply in_lookup; auto.
    - intros [t H]. exists (n, t). split; auto. apply lookup_types in H. apply filter_In. split; auto.
      simpl. apply (Hv n t H).
  Qed.

  Lemma nfd_dep fd : FM.f_dep (nfd fd) = FM.f_dep fd.
  Proof. reflexivity. Qed.

  Lemma fields_listing G (fs : list (FM.name * FM.field_def)) incl p :
    (forall nf, In nf fs -> FM.subset (FM.f_req (snd nf)) G = true) ->
    In p (mapv nfd (filter (fun nf => (negb (FM.f_dep (snd nf)) || incl) && FM.subset (FM.f_req (snd nf)) G) fs)) <->
    In p (mapv nfd fs) /\ (negb (FM.f_dep (snd p)) || incl) = true.
  Proof.
    intro Hv. destruct p as [k y]. rewrite !in_mapv. split.
    - intros [x [Hx ->]]. apply filter_In in Hx as [Hx Hp]. apply andb_true_iff in Hp as [Hp _].
      split; [exists x; auto | simpl; exact Hp].
    - intros [[x [Hx ->]] Hp]. exists x. split; auto. apply filter_In. split; auto.
      simpl in Hp. simpl. apply andb_true_iff. split; [exact Hp | exact (Hv (k, x) Hx)].
  Qed.

  Theorem ask_sim_intro q : FM.in_view_introspection q = true ->
    ans_eq (FM.ask FM.fixed A GA q) (FM.ask FM.fixed B GB q).
  Proof.
    destruct (FM.in_view_validator q || FM.in_view_executor q) eqn:Ev; [intros _; apply ask_sim; exact Ev|].
    destruct q; intro Hq; try discriminate Hq; try discriminate Ev; clear Hq Ev; cbn [FM.ask].
    - (* QIntroTypes *)
      intro n. rewrite (types_names A GA n (fs_nodup_a A B Hsim) HvA), (types_names B GB n (fs_nodup_b A B Hsim) HvB).
      pose proof (lk n) as H.
      destruct (FM.lookup A n) as [ta|], (FM.lookup B n) as [tb|]; try contradiction.
      + split; intros _; eexists; reflexivity.
      + split; intros [t E]; discriminate.
    - (* QIntroType *)
      pose proof (lk n) as H.
      destruct (FM.lookup A n) as [ta|], (FM.lookup B n) as [tb|]; try contradiction; try reflexivity.
      destruct H as [_ [-> ->]]. reflexivity.
    - (* QIntroFields *)
      pose proof (lk t) as H.
      destruct (FM.lookup A t) as [ta|] eqn:Ea, (FM.lookup B t) as [tb|] eqn:Eb; try contradiction; simpl; auto.
      destruct H as [H _].
      pose proof (proj2 (HvA t ta (lookup_types A t ta Ea))) as VA.
      pose proof (proj2 (HvB t tb (lookup_types B t tb Eb))) as VB.
      destruct ta, tb; simpl in H; try contradiction; simpl in *; auto.
      + destruct H as [[_ H] _]. intro p. rewrite (fields_listing GA _ incl_dep p VA), (fields_listing GB _ incl_dep p VB).
        rewrite (H p). tauto.
      + destruct H as [_ H]. intro p. rewrite (fields_listing GA _ incl_dep p VA), (fields_listing GB _ incl_dep p VB).
        rewrite (H p). tauto.
    - (* QIntroInterfaces *)
      pose proof (lk t) as H.
      destruct (FM.lookup A t) as [ta|], (FM.lookup B t) as [tb|]; try contradiction; simpl; auto.
      destruct H as [H _].
      destruct ta, tb; simpl in H; try contradiction; simpl; auto.
      destruct H as [_ ->]. rewrite (ptrs_all A GA _ HvA), (ptrs_all B GB _ HvB). intro n. tauto.
    - (* QIntroPossible *)
      pose proof (lk t) as H.
      destruct (FM.lookup A t) as [ta|], (FM.lookup B t) as [tb|]; try contradiction; simpl; auto.
      destruct H as [H _].
      destruct ta, tb; simpl in H; try contradiction; simpl; auto.
      + intro n. apply impls_sim.
      + subst. rewrite (ptrs_all A GA _ HvA), (ptrs_all B GB _ HvB). intro n. tauto.
    - (* QDirectives *)
      exact (fs_dirs A B Hsim).
  Qed.

  (** hence every lookup of all three views *)
  Theorem ask_sim_all q : ans_eq (FM.ask FM.fixed A GA q) (FM.ask FM.fixed B GB q).
  Proof.
    destruct (FM.in_view_introspection q) eqn:Ei; [apply ask_sim_intro; exact Ei|].
    apply ask_sim. destruct q; try discriminate Ei; reflexivity.
  Qed.
End AskSim.

(** ** from "the same definition for validation" ([canon]) to [fsim] *)
From ApiFu Require Import Intro.RebuildSpec Intro.GraphProofs.

Definition ce (e : enum_val) : enum_val := {| ev_value := GNull; ev_desc := ev_desc e; ev_deprecation := ev_deprecation e |}.
Definition ci (d : input_def) : input_def :=
  {| in_type := in_type d; in_default := canon_default (in_default d); in_desc := in_desc d |}.
Definition cf (f : field_def) : field_def :=
  {| f_type := f_type f; f_args := canon_inputs (f_args f); f_features := f_features f;
     f_deprecation := f_deprecation f; f_desc := f_desc f |}.
Definition cd (d : dir_def) : dir_def :=
  {| dd_args := canon_inputs (dd_args d); dd_locs := dd_locs d; dd_desc := dd_desc d |}.

Lemma canon_inputs_mapv l : canon_inputs l = sort_by fst (mapv ci l).
Proof. reflexivity. Qed.

Definition c_arg (d : input_def) : FM.sty := c_sty (in_type d).
Lemma c_args_mapv l : c_args l = mapv c_arg l.
Proof. reflexivity. Qed.

Lemma sort_mapv {X Y} (f : X -> Y) (l : list (name * X)) : sort_by fst (mapv f l) = mapv f (sort_by fst l).
Proof. unfold mapv. rewrite sort_map. reflexivity. Qed.

Lemma c_args_canon l : c_args (canon_inputs l) = sort_by fst (c_args l).
Proof.
  rewrite canon_inputs_mapv, !c_args_mapv, <- sort_mapv, mapv_mapv. reflexivity.
Qed.

Lemma args_of_canon a b : canon_inputs a = canon_inputs b -> alist_eq (c_args a) (c_args b).
Proof.
  intro H. rewrite !canon_inputs_mapv in H. apply alist_eq_sorted in H.
  apply (alist_eq_mapv c_arg) in H. rewrite !mapv_mapv in H. exact H.
Qed.

(** a field as the validator's view sees it, computed from the canonical field *)
Definition gfield (f : field_def) : FM.field_def :=
  {| FM.f_type := c_sty (f_type f); FM.f_args := c_args (f_args f); FM.f_req := [];
     FM.f_dep := is_deprecated (f_deprecation f); FM.f_ret := [] |}.
Lemma nfd_c_field f : nfd (c_field f) = gfield (cf f).
Proof. unfold nfd, c_field, gfield, cf; simpl. rewrite c_args_canon. reflexivity. Qed.

Lemma fields_of_canon a b :
  sort_by fst (map canon_field a) = sort_by fst (map canon_field b) ->
  alist_eq (mapv nfd (c_fields a)) (mapv nfd (c_fields b)).
Proof.
  intro H. change (map canon_field a) with (mapv cf a) in H. change (map canon_field b) with (mapv cf b) in H.
  apply alist_eq_sorted in H. apply (alist_eq_mapv gfield) in H. rewrite !mapv_mapv in H.
  unfold c_fields. change (map (fun f => (fst f, c_field (snd f))) a) with (mapv c_field a).
  change (map (fun f => (fst f, c_field (snd f))) b) with (mapv c_field b).
  rewrite !mapv_mapv.
  assert (E : forall l, mapv (fun x => nfd (c_field x)) l = mapv (fun x => gfield (cf x)) l).
  { intro l. unfold mapv. apply map_ext. intro p. rewrite nfd_c_field. reflexivity. }
  rewrite !E. exact H.
Qed.

Definition c_enum (e : enum_val) : bool := is_deprecated (ev_deprecation e).

Lemma type_of_canon a b : canon_type a = canon_type b -> type_eq (c_type a) (c_type b).
Proof.
  destruct a, b; simpl; intro H; try discriminate; auto.
  - (* enum *)
    inversion H as [[H1 H2 H3]].
    change (map canon_enum_value vals) with (mapv ce vals) in H1. change (map canon_enum_value vals0) with (mapv ce vals0) in H1.
    apply alist_eq_sorted in H1. apply (alist_eq_mapv c_enum) in H1. rewrite !mapv_mapv in H1. exact (proj2 H1).
  - inversion H as [[H1 H2 H3]]. apply args_of_canon. exact H1.
  - inversion H as [[H1 H2 H3 H4]]. split; [apply fields_of_canon; exact H1 | congruence].
  - inversion H as [[H1 H2 H3]]. apply fields_of_canon. exact H1.
  - inversion H as [[H1 H2 H3]]. congruence.
Qed.

Lemma filter_true {X} (l : list X) : filter (fun _ => true) l = l.
Proof. induction l; simpl; congruence. Qed.

Lemma lookup_canon X n : lookup n (types (canon X)) = option_map canon_type (lookup n (types X)).
Proof.
  unfold canon, canon_on; simpl. rewrite filter_true.
  change (map (fun t => (fst t, canon_type (snd t))) (types X)) with (mapv canon_type (types X)).
  rewrite lookup_sort, lookup_mapv. reflexivity.
Qed.

Lemma lookup_to_feat X n : FM.lookup (to_feat X) n = option_map c_type (lookup n (types X)).
Proof.
  unfold FM.lookup, to_feat; simpl. rewrite assoc_lookup. unfold c_types.
  change (map (fun t => (fst t, c_type (snd t))) (types X)) with (mapv c_type (types X)). apply lookup_mapv.
Qed.

Lemma names_to_feat X : map fst (FM.types (to_feat X)) = map fst (types X).
Proof. unfold to_feat, c_types; simpl. rewrite map_map. reflexivity. Qed.

Lemma dirs_of_canon a b :
  sort_by fst (map canon_directive a) = sort_by fst (map canon_directive b) ->
  dirs_eq (map (fun d => (fst d, c_args (dd_args (snd d)))) a) (map (fun d => (fst d, c_args (dd_args (snd d)))) b).
Proof.
  intro H. change (map canon_directive a) with (mapv cd a) in H. change (map canon_directive b) with (mapv cd b) in H.
  apply alist_eq_sorted in H. apply (alist_eq_mapv (fun d => c_args (dd_args d))) in H. rewrite !mapv_mapv in H.
  unfold dirs_eq.
  change (map (fun d => (fst d, c_args (dd_args (snd d)))) a) with (mapv (fun d => c_args (dd_args d)) a).
  change (map (fun d => (fst d, c_args (dd_args (snd d)))) b) with (mapv (fun d => c_args (dd_args d)) b).
  rewrite !mapv_mapv.
  assert (E : forall l, mapv (fun x : dir_def => sort_by fst (c_args (dd_args x))) l = mapv (fun x => c_args (dd_args (cd x))) l).
  { intro l. unfold mapv. apply map_ext. intro p. simpl. rewrite c_args_canon. reflexivity. }
  rewrite !E. exact H.
Qed.

Theorem fsim_of_canon X Y :
  NoDup (map fst (types X)) -> NoDup (map fst (types Y)) -> canon X = canon Y -> fsim (to_feat X) (to_feat Y).
Proof.
  intros HX HY H. constructor.
  - rewrite names_to_feat. exact HX.
  - rewrite names_to_feat. exact HY.
  - intro n. rewrite !lookup_to_feat.
    pose proof (lookup_canon X n) as E1. pose proof (lookup_canon Y n) as E2. rewrite H in E1. rewrite E1 in E2.
    destruct (lookup n (types X)) as [a|], (lookup n (types Y)) as [b|]; simpl in *; try discriminate; auto.
    inversion E2 as [E]. apply type_of_canon. exact E.
  - exact (f_equal query H).
  - exact (f_equal mutation H).
  - exact (f_equal subscription H).
  - apply dirs_of_canon. exact (f_equal directives H).
Qed.

(** ** definitions without feature annotations: everything is visible to every request *)
Definition fields_of_nt (t : named_type) : list (name * field_def) :=
  match t with NObject fs _ _ _ | NInterface fs _ _ => fs | _ => [] end.
Definition reqfree (X : schema) : Prop :=
  forall n t, In (n, t) (types X) -> nt_req t = [] /\ forall kf, In kf (fields_of_nt t) -> f_features (snd kf) = [].

Lemma fields_c_type t : FM.fields_of (c_type t) = c_fields (fields_of_nt t).
Proof. destruct t; reflexivity. Qed.
Lemma req_c_type t : FM.type_req (c_type t) = nt_req t.
Proof. destruct t; reflexivity. Qed.

Lemma all_visible_reqfree X G : reqfree X -> all_visible (to_feat X) G.
Proof.
  intros H n t Hin. unfold to_feat, c_types in Hin; simpl in Hin. apply in_map_iff in Hin as [[n' t0] [E Hin]].
  simpl in E. inversion E; subst. destruct (H n t0 Hin) as [H1 H2]. split.
  - rewrite req_c_type, H1. reflexivity.
  - intros nf Hnf. rewrite fields_c_type in Hnf. unfold c_fields in Hnf. apply in_map_iff in Hnf as [kf [<- Hkf]].
    simpl. rewrite (H2 kf Hkf). reflexivity.
Qed.

Lemma req_canon_type t : nt_req (canon_type t) = nt_req t.
Proof. destruct t; reflexivity. Qed.

Lemma in_types_canon X n t : In (n, t) (types X) -> In (n, canon_type t) (types (canon X)).
Proof.
  intro H. unfold canon, canon_on; simpl. rewrite filter_true. apply in_sort. apply in_map_iff. exists (n, t). auto.
Qed.
Lemma in_canon_types X n c : In (n, c) (types (canon X)) -> exists t, In (n, t) (types X) /\ c = canon_type t.
Proof.
  unfold canon, canon_on; simpl. rewrite filter_true. intro H. apply in_sort in H. apply in_map_iff in H as [[n' t] [E H]].
  simpl in E. inversion E; subst. eauto.
Qed.

Lemma canon_fields_features a b :
  canon_type a = canon_type b ->
  (forall kf, In kf (fields_of_nt b) -> f_features (snd kf) = []) ->
  forall kf, In kf (fields_of_nt a) -> f_features (snd kf) = [].
Proof.
  intros H Hb kf Hkf.
  assert (S1 : sort_by fst (map canon_field (fields_of_nt a)) = sort_by fst (map canon_field (fields_of_nt b))).
  { destruct a, b; simpl in *; try discriminate; auto; inversion H; auto. }
  assert (H1 : In (canon_field kf) (sort_by fst (map canon_field (fields_of_nt a)))) by (apply in_sort; apply in_map; exact Hkf).
  rewrite S1 in H1. apply in_sort in H1. apply in_map_iff in H1 as [kf' [E Hkf']].
  specialize (Hb kf' Hkf'). unfold canon_field in E. inversion E as [[E1 E2 E3 E4]]. congruence.
Qed.

Lemma reqfree_canon X Y : canon X = canon Y -> reqfree Y -> reqfree X.
Proof.
  intros H HY n t Hin. apply in_types_canon in Hin. rewrite H in Hin. apply in_canon_types in Hin as [t' [Hin' E]].
  destruct (HY n t' Hin') as [H1 H2]. split.
  - rewrite <- (req_canon_type t), E, req_canon_type. exact H1.
  - apply (canon_fields_features t t' E H2).
Qed.

Lemma nodup_names_canon X Y : canon X = canon Y -> NoDup (map fst (types Y)) -> NoDup (map fst (types X)).
Proof.
  intros H HY.
  assert (P : forall Z, Permutation (map fst (types (canon Z))) (map fst (types Z))).
  { intro Z. unfold canon, canon_on; simpl. rewrite filter_true.
    eapply perm_trans; [apply Permutation_map, sort_perm|]. rewrite map_map. simpl. apply Permutation_refl. }
  eapply Permutation_NoDup; [apply P|]. rewrite H. eapply Permutation_NoDup; [apply Permutation_sym, P | exact HY].
Qed.

(** the erased definition *)
Lemma reqfree_erase S F : reqfree (erase S F).
Proof.
  intros n t Hin. unfold erase in Hin; simpl in Hin. apply in_flat_map in Hin as [m [_ Hin]].
  destruct (lookup m (types S)) as [t0|]; [|destruct Hin]. destruct Hin as [E|[]]. inversion E; subst. split.
  - destruct t0; reflexivity.
  - intros kf Hkf. destruct t0; simpl in Hkf; try contradiction;
      unfold visible_fields in Hkf; apply in_map_iff in Hkf as [f [<- _]]; reflexivity.
Qed.

Lemma names_erase S F : map fst (types (erase S F)) = filter (defined S) (listed S F).
Proof.
  unfold erase; simpl. induction (listed S F) as [|n l IH]; simpl; auto.
  unfold defined at 1. destruct (lookup n (types S)); simpl; rewrite IH; reflexivity.
Qed.

Lemma nodup_names_erase S F : NoDup (map fst (types (erase S F))).
Proof.
  rewrite names_erase. apply NoDup_filter. unfold listed.
  eapply Permutation_NoDup; [apply Permutation_sym, sort_perm|]. rewrite map_id || idtac.
  apply NoDup_filter. apply members_spec.
Qed.

(** ** the rebuilt definition answers every lookup of the validator like the erased original *)
Theorem lookups_of_canon S F R G G' q :
  canon R = canon (erase S F) -> FM.in_view_validator q || FM.in_view_executor q = true ->
  ans_eq (FM.ask FM.fixed (to_feat R) G q) (FM.ask FM.fixed (to_feat (erase S F)) G' q).
Proof.
  intros H Hq. apply ask_sim; auto.
  - apply fsim_of_canon; auto.
    + apply (nodup_names_canon R (erase S F) H). apply nodup_names_erase.
    + apply nodup_names_erase.
  - apply all_visible_reqfree. apply (reqfree_canon R (erase S F) H). apply reqfree_erase.
  - apply all_visible_reqfree. apply reqfree_erase.
Qed.

From ApiFu Require Import Intro.MarshalValue Intro.Rebuild Intro.RebuildProofs.

Theorem rebuild_same_lookups S F r :
  depth_ok S = true -> interfaces_declared_once S = true -> locations_known S = true ->
  refs_defined S = true -> gating_nested S = true -> roots_visible S F = true ->
  builtins_consistent S = true -> kinds_ok S = true -> scalars_accept_all S = true -> defaults_denote S ->
  introspect (print_default S) S F = IntroOk r ->
  exists R, rebuild (map_defaults dflt_text r) = Some R /\
    forall G G' q, FM.in_view_validator q || FM.in_view_executor q = true ->
      ans_eq (FM.ask FM.fixed (to_feat R) G q) (FM.ask FM.fixed (to_feat (erase S F)) G' q).
Proof.
  intros H1 H2 H3 H4 H5 H6 H7 H8 H9 H10 Hr.
  destruct (rebuild_same_for_validation S F r H1 H2 H3 H4 H5 H6 H7 H8 H9 H10 Hr) as [R [HR HC]].
  exists R. split; [exact HR|]. intros G G' q Hq. apply lookups_of_canon; auto.
Qed.

(** ** the last link: C10's erased definition is C13's erased schema, up to [fsim] *)
From ApiFu Require Feat.FeaturesProofs.
Module FP := ApiFu.Feat.FeaturesProofs.

(** the definition as schema.New registers it: only the types that belong to it *)
Definition registered (S : schema) : schema :=
  {| types := filter (fun t => mem (fst t) (members S)) (types S);
     query := query S; mutation := mutation S; subscription := subscription S;
     additional := additional S; directives := directives S |}.

Lemma lookup_filter_key {X} (p : name -> bool) (l : list (name * X)) n :
  lookup n (filter (fun t => p (fst t)) l) = if p n then lookup n l else None.
Proof.
  induction l as [|[k v] r IH]; simpl; [destruct (p n); reflexivity|].
  destruct (p k) eqn:Ek; simpl.
  - destruct (bytes_eqb n k) eqn:E.
    + apply bytes_eqb_eq in E. subst. rewrite Ek. reflexivity.
    + exact IH.
  - destruct (bytes_eqb n k) eqn:E.
    + apply bytes_eqb_eq in E. subst. rewrite Ek in *. exact IH.
    + exact IH.
Qed.

Lemma lookup_filter_val {X} (p : name * X -> bool) (l : list (name * X)) n :
  NoDup (map fst l) ->
  lookup n (filter p l) = match lookup n l with Some v => if p (n, v) then Some v else None | None => None end.
Proof.
  induction l as [|[k v] r IH]; simpl; auto. intro Hnd. inversion Hnd as [|? ? Hni Hnd']; subst.
  destruct (bytes_eqb n k) eqn:E.
  - apply bytes_eqb_eq in E. subst k. destruct (p (n, v)) eqn:Ep; simpl.
    + rewrite bytes_eqb_refl. reflexivity.
    + rewrite (IH Hnd'). destruct (lookup n r) eqn:El; auto. exfalso. apply Hni. apply lookup_in in El.
      apply in_map_iff. exists (n, x). auto.
  - destruct (p (k, v)); simpl; [rewrite E|]; apply IH; auto.
Qed.

Lemma nodup_filter_keys {X} (p : name * X -> bool) (l : list (name * X)) : NoDup (map fst l) -> NoDup (map fst (filter p l)).
Proof.
  induction l as [|[k v] r IH]; simpl; auto. intro H. inversion H as [|? ? Hni Hnd]; subst.
  destruct (p (k, v)); simpl; auto. constructor; auto. intro Hin. apply Hni.
  apply in_map_iff in Hin as [[k' v'] [E Hin]]. simpl in E. subst. apply filter_In in Hin as [Hin _].
  apply in_map_iff. exists (k, v'). auto.
Qed.

Lemma names_mapv {X Y} (f : X -> Y) l : map fst (mapv f l) = map fst l.
Proof. unfold mapv. rewrite map_map. reflexivity. Qed.

Lemma filter_mapv {X Y} (f : X -> Y) (p : name * Y -> bool) l :
  filter p (mapv f l) = mapv f (filter (fun kv => p (fst kv, f (snd kv))) l).
Proof. unfold mapv. induction l as [|[k v] r IH]; simpl; auto. destruct (p (k, f v)); simpl; rewrite IH; reflexivity. Qed.

Section LastLink.
  Variable S : schema.
  Variable F : features.
  Hypothesis Hnd : NoDup (map fst (types S)).
  Hypothesis Hroots : roots_visible S F = true.

  Let T := to_feat (registered S).
  Let alive := FS.visible T F.

  Lemma lookup_T n : FM.lookup T n = if mem n (members S) then option_map c_type (lookup n (types S)) else None.
  Proof.
    unfold T. rewrite lookup_to_feat. unfold registered; simpl.
    rewrite (lookup_filter_key (fun k => mem k (members S))). destruct (mem n (members S)); reflexivity.
  Qed.

  Lemma alive_eq i : alive i = mem i (members S) && visible_type S F i.
  Proof.
    unfold alive, FS.visible. rewrite lookup_T. unfold visible_type.
    destruct (mem i (members S)); simpl; auto.
    destruct (lookup i (types S)) as [t|]; simpl; auto. rewrite req_c_type. reflexivity.
  Qed.

  (** what a registered type mentions and the request can see is registered *)
  Lemma alive_mentioned n t i : In n (members S) -> lookup n (types S) = Some t -> In i (mentions t) ->
    alive i = visible_type S F i.
  Proof.
    intros Hn Hl Hi. rewrite alive_eq. destruct (visible_type S F i) eqn:Ev; [|apply andb_false_r].
    rewrite andb_true_r. apply mem_in. apply members_spec. apply (belongs_mention S n t i); auto.
    - apply members_spec. exact Hn.
    - unfold visible_type in Ev. unfold defined. destruct (lookup i (types S)); auto; discriminate.
  Qed.

  Lemma filter_ext_in' {X} (p q : X -> bool) l : (forall x, In x l -> p x = q x) -> filter p l = filter q l.
  Proof. induction l as [|x r IH]; simpl; intro H; auto. rewrite H by auto. rewrite IH by auto. reflexivity. Qed.

  Lemma erased_fields_eq fs :
    mapv nfd (FS.erase_fields F (c_fields fs)) = mapv nfd (c_fields (visible_fields F fs)).
  Proof.
    unfold FS.erase_fields, c_fields, visible_fields.
    induction fs as [|[k f] r IH]; simpl; auto.
    change (FM.subset (f_features f) F) with (subset (f_features f) F).
    destruct (subset (f_features f) F); simpl; [f_equal|]; exact IH.
  Qed.

  Lemma erased_type_eq n t : In n (members S) -> lookup n (types S) = Some t ->
    type_eq (FS.erase_type alive F (c_type t)) (c_type (erase_type S F t)).
  Proof.
    intros Hn Hl. destruct t as [b a r d | vs r d | fs r rc d | fs ifs r d | fs r d | ms r d]; simpl.
    - exact I.
    - intro p. tauto.
    - apply alist_eq_refl.
    - split.
      + apply alist_eq_of_eq. apply erased_fields_eq.
      + apply filter_ext_in'. intros i Hi. apply (alive_mentioned n _ i Hn Hl). simpl. apply in_app_iff. auto.
    - apply alist_eq_of_eq. apply erased_fields_eq.
    - apply filter_ext_in'. intros i Hi. apply (alive_mentioned n _ i Hn Hl). exact Hi.
  Qed.

  Lemma lookup_generated (L : list name) n :
    lookup n (flat_map (fun m => match lookup m (types S) with
                                 | Some t => [(m, erase_type S F t)]
                                 | None => []
                                 end) L)
    = if mem n L then option_map (erase_type S F) (lookup n (types S)) else None.
  Proof.
    unfold mem. induction L as [|m r IH]; simpl; auto.
    destruct (bytes_eqb n m) eqn:E.
    - apply bytes_eqb_eq in E. subst m. simpl. destruct (lookup n (types S)) as [t|] eqn:El; simpl.
      + rewrite bytes_eqb_refl. reflexivity.
      + rewrite IH. destruct (existsb (bytes_eqb n) r); reflexivity.
    - simpl. destruct (lookup m (types S)); simpl; [rewrite E|]; exact IH.
  Qed.

  Lemma mem_listed n : mem n (listed S F) = mem n (members S) && visible_type S F n.
  Proof.
    destruct (mem n (listed S F)) eqn:E1.
    - apply mem_in in E1. unfold listed in E1. apply in_sort in E1. apply filter_In in E1 as [H1 H2].
      apply mem_in in H1. rewrite H1, H2. reflexivity.
    - symmetry. apply andb_false_iff. destruct (mem n (members S)) eqn:E2; auto. right.
      destruct (visible_type S F n) eqn:E3; auto. exfalso.
      apply mem_false in E1. apply E1. unfold listed. apply in_sort. apply filter_In. split; auto. apply mem_in. exact E2.
  Qed.

  Lemma nodup_T : NoDup (map fst (FM.types T)).
  Proof. unfold T. rewrite names_to_feat. unfold registered; simpl. apply nodup_filter_keys. exact Hnd. Qed.

  Lemma lookup_erased_T n :
    FM.lookup (FS.erase T F) n =
    match FM.lookup T n with
    | Some t => if FM.subset (FM.type_req t) F then Some (FS.erase_type alive F t) else None
    | None => None
    end.
  Proof.
    unfold FM.lookup at 1. unfold FS.erase; simpl. rewrite assoc_lookup.
    change (map (fun nt => (fst nt, FS.erase_type (FS.visible T F) F (snd nt))))
      with (@mapv FM.named_type FM.named_type (FS.erase_type (FS.visible T F) F)).
    rewrite lookup_mapv. rewrite (lookup_filter_val (fun nt => FM.subset (FM.type_req (snd nt)) F)) by apply nodup_T.
    unfold FM.lookup. rewrite (assoc_lookup n (FM.types T)).
    change (FM.types T) with (c_types (filter (fun t : name * named_type => mem (fst t) (members S)) (types S))).
    match goal with |- context [lookup n ?l] => destruct (lookup n l) as [t|] end; simpl; auto.
    destruct (FM.subset (FM.type_req t) F); reflexivity.
  Qed.

  Lemma root_alive m : In m (opt_list (mutation S) ++ opt_list (subscription S)) -> alive m = true.
  Proof.
    intro Hm. unfold roots_visible in Hroots. apply andb_true_iff in Hroots as [H _]. apply andb_true_iff in H as [_ H].
    rewrite forallb_forall in H. specialize (H m Hm). rewrite alive_eq, H, andb_true_r.
    apply mem_in. apply members_spec. apply belongs_entry.
    - unfold entry_points. simpl. right. rewrite !in_app_iff. apply in_app_iff in Hm. tauto.
    - unfold visible_type in H. unfold defined. destruct (lookup m (types S)); auto; discriminate.
  Qed.

  Theorem erase_fsim : fsim (FS.erase T F) (to_feat (erase S F)).
  Proof.
    constructor.
    - unfold FS.erase; simpl. rewrite map_map. simpl.
      change (map (fun x : FM.name * FM.named_type => fst x)) with (@map (FM.name * FM.named_type) FM.name fst).
      apply nodup_filter_keys. apply nodup_T.
    - rewrite names_to_feat. apply nodup_names_erase.
    - intro n. rewrite lookup_erased_T, lookup_T, lookup_to_feat.
      unfold erase; simpl. rewrite lookup_generated, mem_listed. unfold visible_type.
      destruct (mem n (members S)) eqn:Em; simpl; auto.
      destruct (lookup n (types S)) as [t|] eqn:El; simpl; auto.
      rewrite req_c_type. change (FM.subset (nt_req t) F) with (subset (nt_req t) F).
      destruct (subset (nt_req t) F); simpl; auto.
      apply (erased_type_eq n t); auto. apply mem_in. exact Em.
    - reflexivity.
    - unfold FS.erase; simpl. destruct (mutation S) as [m|] eqn:E; simpl; auto.
      fold alive. rewrite root_alive; auto. rewrite E. simpl. auto.
    - unfold FS.erase; simpl. destruct (subscription S) as [m|] eqn:E; simpl; auto.
      fold alive. rewrite root_alive; auto. rewrite E. apply in_app_iff. right. simpl. auto.
    - apply alist_eq_refl.
  Qed.

  Lemma erased_all_visible : all_visible (FS.erase T F) F.
  Proof.
    intros n t Hin. unfold FS.erase in Hin; simpl in Hin. apply in_map_iff in Hin as [[n' t0] [E Hin]].
    simpl in E. inversion E; subst. apply filter_In in Hin as [_ Hreq]. simpl in Hreq. split.
    - destruct t0; exact Hreq.
    - intros nf Hnf. destruct t0; simpl in Hnf; try contradiction; unfold FS.erase_fields in Hnf;
        apply filter_In in Hnf as [_ H]; exact H.
  Qed.
End LastLink.

(** ** the theorem: the rebuilt definition answers every lookup of the validator's view like the
    original does for the request *)
Theorem rebuild_same_lookups_full S F r :
  depth_ok S = true -> interfaces_declared_once S = true -> locations_known S = true ->
  refs_defined S = true -> gating_nested S = true -> roots_visible S F = true ->
  builtins_consistent S = true -> kinds_ok S = true -> scalars_accept_all S = true -> defaults_denote S ->
  NoDup (map fst (types S)) -> FM.schema_ok (to_feat (registered S)) = true ->
  introspect (print_default S) S F = IntroOk r ->
  exists R, rebuild (map_defaults dflt_text r) = Some R /\
    forall G q, FM.in_view_validator q || FM.in_view_executor q = true ->
      (forall h, In h (FM.handle_args q) -> FS.visible (to_feat (registered S)) F h = true) ->
      ans_eq (FM.ask FM.fixed (to_feat R) G q) (FM.ask FM.fixed (to_feat (registered S)) F q).
Proof.
  intros H1 H2 H3 H4 H5 H6 H7 H8 H9 H10 Hnd Hok Hr.
  destruct (rebuild_same_for_validation S F r H1 H2 H3 H4 H5 H6 H7 H8 H9 H10 Hr) as [R [HR HC]].
  exists R. split; [exact HR|]. intros G q Hq Hh.
  rewrite (FP.view_erase_eq (to_feat (registered S)) F F q Hok (FP.subset_refl F) Hh).
  apply ask_sim; auto.
  - eapply fsim_trans.
    + apply fsim_of_canon; [| apply nodup_names_erase | exact HC].
      apply (nodup_names_canon R (erase S F) HC). apply nodup_names_erase.
    + apply fsim_sym. apply erase_fsim; auto.
  - apply all_visible_reqfree. apply (reqfree_canon R (erase S F) HC). apply reqfree_erase.
  - apply erased_all_visible.
Qed.

(** ... and every lookup of the introspection view as well: all of C13's lookups *)
Theorem rebuild_same_lookups_all S F r :
  depth_ok S = true -> interfaces_declared_once S = true -> locations_known S = true ->
  refs_defined S = true -> gating_nested S = true -> roots_visible S F = true ->
  builtins_consistent S = true -> kinds_ok S = true -> scalars_accept_all S = true -> defaults_denote S ->
  NoDup (map fst (types S)) -> FM.schema_ok (to_feat (registered S)) = true ->
  introspect (print_default S) S F = IntroOk r ->
  exists R, rebuild (map_defaults dflt_text r) = Some R /\
    forall G q,
      (forall h, In h (FM.handle_args q) -> FS.visible (to_feat (registered S)) F h = true) ->
      ans_eq (FM.ask FM.fixed (to_feat R) G q) (FM.ask FM.fixed (to_feat (registered S)) F q).
Proof.
  intros H1 H2 H3 H4 H5 H6 H7 H8 H9 H10 Hnd Hok Hr.
  destruct (rebuild_same_for_validation S F r H1 H2 H3 H4 H5 H6 H7 H8 H9 H10 Hr) as [R [HR HC]].
  exists R. split; [exact HR|]. intros G q Hh.
  rewrite (FP.view_erase_eq (to_feat (registered S)) F F q Hok (FP.subset_refl F) Hh).
  apply ask_sim_all; auto.
  - eapply fsim_trans.
    + apply fsim_of_canon; [| apply nodup_names_erase | exact HC].
      apply (nodup_names_canon R (erase S F) HC). apply nodup_names_erase.
    + apply fsim_sym. apply erase_fsim; auto.
  - apply all_visible_reqfree. apply (reqfree_canon R (erase S F) HC). apply reqfree_erase.
  - apply erased_all_visible.
Qed.
