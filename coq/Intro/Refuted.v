(** * C10 — the two known classes, as witnesses on the model (checks/C10.findings.txt).

    Both statements are evaluated ([vm_compute]) on one small definition each; they say that the
    corresponding hypothesis of the main theorem cannot be dropped:
    - [printable] (no astral characters) in [default_roundtrip_values];
    - [scalars_accept_all] in [rebuild_same_for_validation];
    - [depth_ok] (chains within the depth of introspection.Query) in [introspect_describes]. *)
From Coq Require Import List NArith ZArith Bool String.
From ApiFu Require Import Base.Sexp Intro.Utf8 Intro.IntrospectModel Intro.MarshalValue Intro.LiteralSpec
     Intro.IntrospectSpec Intro.Rebuild Intro.RebuildSpec Intro.IntrospectProofs Intro.MarshalProofs Intro.RebuildProofs.
Import ListNotations.
Open Scope N_scope.
Open Scope string_scope.

Local Definition nm (s : string) : name := s2b s.
Local Definition iv (t : sty) (d : option gval) : input_def := {| in_type := t; in_default := d; in_desc := [] |}.
Local Definition fd (t : sty) (args : list (name * input_def)) : field_def :=
  {| f_type := t; f_args := args; f_features := []; f_deprecation := []; f_desc := [] |}.

(** ** key default-string-astral *)

(** Query { a(s: String = "😀"): String } — U+1F600 *)
Definition S_astral : schema :=
  {| types := [ (nm "String", NScalar true false [] []);
                (nm "Query", NObject [ (nm "a", fd (StNamed (nm "String"))
                                                  [ (nm "s", iv (StNamed (nm "String")) (Some (GString [128512]))) ]) ] [] [] []) ];
     query := nm "Query"; mutation := None; subscription := None; additional := []; directives := [] |}.

(** marshalValue prints the string through encoding/json, which leaves U+1F600 as its four UTF-8
    bytes; the lexer's source characters end at U+FFFF, and its \u escape has no surrogate pairs:
    the printed default is not a literal of the language *)
Theorem default_astral_refuted :
  exists S v t, enums_ok S /\ default_conforms S v t = true /\
    exists txt, marshal S v t = MOk txt /\ literal_denotes S t txt v = false.
Proof.
  exists S_astral, (GString [128512]), (StNamed (nm "String")).
  split; [apply enums_ok_b_spec; vm_compute; reflexivity|].
  split; [vm_compute; reflexivity|].
  destruct (marshal S_astral (GString [128512]) (StNamed (nm "String"))) as [txt| |] eqn:Em; [|vm_compute in Em; discriminate..].
  exists txt. split; [reflexivity|].
  vm_compute in Em. injection Em as <-. vm_compute. reflexivity.
Qed.

(** ** key rebuilt-scalar-accepts-any-literal *)

(** scalar Date (LiteralCoercion rejects some literals); Query { at(d: Date): Int } *)
Definition S_picky : schema :=
  {| types := [ (nm "Int", NScalar true false [] []);
                (nm "Date", NScalar false false [] []);
                (nm "Query", NObject [ (nm "at", fd (StNamed (nm "Int")) [ (nm "d", iv (StNamed (nm "Date")) None) ]) ] [] [] []) ];
     query := nm "Query"; mutation := None; subscription := None; additional := []; directives := [] |}.

(** every other hypothesis of [rebuild_same_for_validation] holds, the rebuild succeeds, and the
    rebuilt definition is NOT the original for validation: its Date accepts every literal *)
Theorem rebuild_picky_scalar_refuted :
  exists S F r R,
    depth_ok S = true /\ interfaces_declared_once S = true /\ locations_known S = true /\
    refs_defined S = true /\ gating_nested S = true /\ roots_visible S F = true /\
    builtins_consistent S = true /\ kinds_ok S = true /\ defaults_denote S /\
    scalars_accept_all S = false /\
    introspect (print_default S) S F = IntroOk r /\
    rebuild (map_defaults dflt_text r) = Some R /\ canon R <> canon (erase S F).
Proof.
  exists S_picky, [].
  destruct (introspect (print_default S_picky) S_picky []) as [r| |] eqn:Ei; [|vm_compute in Ei; discriminate..].
  destruct (rebuild (map_defaults dflt_text r)) as [R|] eqn:Er;
    [|vm_compute in Ei; injection Ei as <-; vm_compute in Er; discriminate].
  exists r, R.
  do 8 (split; [vm_compute; reflexivity|]).
  split; [apply defaults_denote_b_spec; vm_compute; reflexivity|].
  split; [vm_compute; reflexivity|].
  split; [reflexivity|]. split; [exact Er|].
  vm_compute in Ei. injection Ei as <-. vm_compute in Er. injection Er as <-.
  vm_compute. discriminate.
Qed.

(** ** the limit of introspection.Query: chains deeper than the query nests [ofType] *)

(** Query { deep: [[[[[[[[Int]]]]]]]] } — eight list wrappers around Int: nine levels *)
Fixpoint lists (k : nat) (t : sty) : sty := match k with O => t | Datatypes.S k' => StList (lists k' t) end.
Definition S_deep : schema :=
  {| types := [ (nm "Int", NScalar true false [] []);
                (nm "Query", NObject [ (nm "deep", fd (lists 8 (StNamed (nm "Int"))) []) ] [] [] []) ];
     query := nm "Query"; mutation := None; subscription := None; additional := []; directives := [] |}.

(** every hypothesis of [introspect_describes] except [depth_ok] holds; the response is not the
    description: the type of [deep] ends after eight LIST levels without ever naming Int, so that
    one type reference of the response does not resolve.  The standard query is not complete for
    such a definition (it documents this limit itself); the resolvers are — a query nesting
    [ofType] nine times sees the whole chain ([type_ref_full]). *)
Theorem deep_chain_truncated_refuted :
  exists S F r,
    depth_ok S = false /\ interfaces_declared_once S = true /\ locations_known S = true /\
    introspect (fun t d => (t, d)) S F = IntroOk r /\
    normalise r <> describe (fun t d => (t, d)) S F /\
    normalise r = truncate query_depth (describe (fun t d => (t, d)) S F) /\
    refs_resolve (normalise r) = false /\
    type_ref S 9 (lists 8 (StNamed (nm "Int"))) = Some (full_ref S (lists 8 (StNamed (nm "Int")))).
Proof.
  exists S_deep, [].
  destruct (introspect (fun t d => (t, d)) S_deep []) as [r| |] eqn:Ei; [|vm_compute in Ei; discriminate..].
  exists r. do 3 (split; [vm_compute; reflexivity|]). split; [reflexivity|].
  vm_compute in Ei. injection Ei as <-.
  split; [vm_compute; discriminate|]. repeat split; vm_compute; reflexivity.
Qed.
