(** * Intro/Rebuild.v — C10: SchemaData.GetSchemaDefinition, introspection data -> definition.

    Transcription of graphql/schema/introspection/schema_data.go (after the repairs
    "fix: schema rebuilt from introspection data lost default values" and "... dropped
    unreferenced unions"): what is kept and what is dropped.

    The input is the decoded response of introspection.Query ([r_schema (option bytes)], defaults
    as their printed text).  The output is a definition in the same model type as the original,
    where what the Go code cannot reconstruct takes a fixed value:
      - no type or field has required features;
      - a custom scalar has no literal coercion, so it accepts every literal ([accept_all]);
      - an enum value has no Go value ([GNull]);
      - an input object gets a (failing) ResultCoercion stub, an object an IsTypeOf stub;
      - a default value is kept as its literal: [GNull] when the text is the null literal,
        otherwise [GString text] (Go keeps the parsed ast.Value; validation only asks whether a
        default exists and whether it is null).  The test "is the null literal" is
        parser.ParseValue + ast.IsNullValue in Go; here it is the comparison with the four bytes
        marshalValue prints for a null default.
    [None] = GetSchemaDefinition returns an error.  No proofs in this file. *)
From Coq Require Import List NArith ZArith Bool.
From ApiFu Require Import Base.Sexp Intro.IntrospectModel Intro.MarshalValue.
Import ListNotations.

Definition obind {A B} (o : option A) (f : A -> option B) : option B :=
  match o with Some x => f x | None => None end.

Section MapOptR.
  Variables A B : Type.
  Variable f : A -> option B.
  Fixpoint omap (l : list A) : option (list B) :=
    match l with
    | [] => Some []
    | x :: r => match f x, omap r with Some y, Some ys => Some (y :: ys) | _, _ => None end
    end.
End MapOptR.
Arguments omap {A B}.

Definition otext (o : option text) : text := match o with Some t => t | None => [] end.
Definition olist' {A} (o : option (list A)) : list A := match o with Some l => l | None => [] end.

(** the [types] map of schema_data.go:27-50: name -> what kind of shell was allocated.
    [None] for a built-in name (the built-in itself is used). *)
Inductive shell := ShBuiltin | ShKind (k : kind).

Definition shell_of (t : r_type (option bytes)) : option (name * shell) :=
  if is_builtin_name (rt_name t) then Some (rt_name t, ShBuiltin)
  else match rt_kind t with
       | KList | KNonNull => None                       (* "unsupported type kind in types list" *)
       | k => Some (rt_name t, ShKind k)
       end.

(** TypeData.getType (schema_data.go:258-282): only [Name] is used for a named reference *)
Fixpoint get_type (tbl : list (name * shell)) (r : tref) : option sty :=
  match r with
  | TRef (Some KList) _ o => match o with Some r' => option_map StList (get_type tbl r') | None => None end
  | TRef (Some KNonNull) _ o => match o with Some r' => option_map StNonNull (get_type tbl r') | None => None end
  | TRef _ (Some n) _ => match lookup n tbl with Some _ => Some (StNamed n) | None => None end
  | TRef _ None _ => None                               (* types[""] *)
  end.

Definition is_shell (tbl : list (name * shell)) (n : name) (k : kind) : bool :=
  match lookup n tbl with
  | Some (ShKind k') => match k, k' with
                        | KObject, KObject | KInterface, KInterface => true
                        | _, _ => false
                        end
  | _ => false
  end.

(** a reference that must be an object / an interface: getType, then the Go type assertion *)
Definition get_named_of (tbl : list (name * shell)) (k : kind) (r : tref) : option name :=
  match get_type tbl r with
  | Some (StNamed n) => if is_shell tbl n k then Some n else None
  | _ => None
  end.

Definition root_object (tbl : list (name * shell)) (n : name) : option name :=
  match lookup n tbl with
  | Some (ShKind KObject) => Some n
  | _ => None
  end.

Definition b_null_text : bytes := [110; 117; 108; 108].

(** InputValueData.getInputValueDefinition *)
Definition rebuild_default (d : option bytes) : option gval :=
  match d with
  | None => None
  | Some txt => if bytes_eqb txt b_null_text then Some GNull else Some (GString txt)
  end.

Definition rebuild_input (tbl : list (name * shell)) (i : r_input (option bytes)) : option (name * input_def) :=
  obind (get_type tbl (ri_type i)) (fun t =>
  Some (ri_name i, {| in_type := t; in_default := rebuild_default (ri_default i); in_desc := otext (ri_desc i) |})).

(** FieldData.getFieldDefinition *)
Definition rebuild_field (tbl : list (name * shell)) (f : r_field (option bytes)) : option (name * field_def) :=
  obind (get_type tbl (rf_type f)) (fun t =>
  obind (omap (rebuild_input tbl) (rf_args f)) (fun args =>
  Some (rf_name f, {| f_type := t; f_args := args; f_features := []; f_deprecation := otext (rf_reason f);
                      f_desc := otext (rf_desc f) |}))).

Definition rebuild_enum_value (v : r_enum) : name * enum_val :=
  (re_name v, {| ev_value := GNull; ev_desc := otext (re_desc v); ev_deprecation := otext (re_reason v) |}).

(** the second loop over d.Types (schema_data.go:84-174) *)
Definition rebuild_type (tbl : list (name * shell)) (t : r_type (option bytes)) : option (name * named_type) :=
  if is_builtin_name (rt_name t) then Some (rt_name t, NScalar true false [] [])
  else
    let desc := otext (rt_desc t) in
    match rt_kind t with
    | KScalar => Some (rt_name t, NScalar false true [] desc)
    | KObject =>
        obind (omap (rebuild_field tbl) (olist' (rt_fields t))) (fun fs =>
        obind (omap (get_named_of tbl KInterface) (olist' (rt_ifaces t))) (fun ifs =>
        Some (rt_name t, NObject fs ifs [] desc)))
    | KInterface =>
        obind (omap (rebuild_field tbl) (olist' (rt_fields t))) (fun fs =>
        Some (rt_name t, NInterface fs [] desc))
    | KUnion =>
        obind (omap (get_named_of tbl KObject) (olist' (rt_possible t))) (fun ms =>
        Some (rt_name t, NUnion ms [] desc))
    | KEnum => Some (rt_name t, NEnum (map rebuild_enum_value (olist' (rt_enums t))) [] desc)
    | KInputObject =>
        obind (omap (rebuild_input tbl) (olist' (rt_inputs t))) (fun fs =>
        Some (rt_name t, NInput fs [] true desc))
    | KList | KNonNull => None
    end.

(** which rebuilt types go to AdditionalTypes: objects with interfaces, and unions *)
Definition is_additional (t : r_type (option bytes)) : bool :=
  negb (is_builtin_name (rt_name t)) &&
  match rt_kind t with
  | KObject => match olist' (rt_ifaces t) with [] => false | _ => true end
  | KUnion => true
  | _ => false
  end.

(** DirectiveData.getDirectiveDefinition *)
Definition rebuild_directive (tbl : list (name * shell)) (d : r_directive (option bytes)) : option (name * dir_def) :=
  if negb (forallb (fun l => mem l known_locations) (rd_locs d)) then None   (* "unsupported directive location" *)
  else obind (omap (rebuild_input tbl) (rd_args d)) (fun args =>
       Some (rd_name d, {| dd_args := args; dd_locs := rd_locs d; dd_desc := otext (rd_desc d) |})).

Definition rebuild (r : r_schema (option bytes)) : option schema :=
  obind (omap shell_of (rs_types r)) (fun tbl =>
  obind (root_object tbl (rs_query r)) (fun q =>
  obind (match rs_mutation r with
         | None => Some None
         | Some m => option_map Some (root_object tbl m)
         end) (fun mu =>
  obind (match rs_subscription r with
         | None => Some None
         | Some m => option_map Some (root_object tbl m)
         end) (fun su =>
  obind (omap (rebuild_type tbl) (rs_types r)) (fun tys =>
  obind (omap (rebuild_directive tbl) (rs_directives r)) (fun dirs =>
  Some {| types := tys; query := q; mutation := mu; subscription := su;
          additional := map rt_name (filter is_additional (rs_types r));
          directives := dirs |})))))).

(** the printed tree as GetSchemaDefinition reads it *)
Definition dflt_text (d : dflt) : option bytes := match d with DText b => Some b | _ => None end.

Section MapDefaults.
  Variables D1 D2 : Type.
  Variable f : D1 -> D2.
  Definition map_input (i : r_input D1) : r_input D2 :=
    {| ri_name := ri_name i; ri_desc := ri_desc i; ri_type := ri_type i; ri_default := f (ri_default i) |}.
  Definition map_field (x : r_field D1) : r_field D2 :=
    {| rf_name := rf_name x; rf_desc := rf_desc x; rf_args := map map_input (rf_args x); rf_type := rf_type x;
       rf_deprecated := rf_deprecated x; rf_reason := rf_reason x |}.
  Definition map_type (t : r_type D1) : r_type D2 :=
    {| rt_kind := rt_kind t; rt_name := rt_name t; rt_desc := rt_desc t;
       rt_fields := option_map (map map_field) (rt_fields t);
       rt_inputs := option_map (map map_input) (rt_inputs t);
       rt_ifaces := rt_ifaces t; rt_enums := rt_enums t; rt_possible := rt_possible t |}.
  Definition map_directive (d : r_directive D1) : r_directive D2 :=
    {| rd_name := rd_name d; rd_desc := rd_desc d; rd_locs := rd_locs d; rd_args := map map_input (rd_args d) |}.
  Definition map_defaults (r : r_schema D1) : r_schema D2 :=
    {| rs_query := rs_query r; rs_mutation := rs_mutation r; rs_subscription := rs_subscription r;
       rs_types := map map_type (rs_types r); rs_directives := map map_directive (rs_directives r) |}.
End MapDefaults.
Arguments map_defaults {D1 D2}.
Arguments map_input {D1 D2}.
Arguments map_field {D1 D2}.
Arguments map_type {D1 D2}.
Arguments map_directive {D1 D2}.
