(** * Syn/ParserModel.v — hand transcription of graphql/parser/parser.go (C06).

    The parser only ever sees what [scanner.Scan] hands to [consumeToken]: a significant token
    (kind, [StringValue()], position) together with the scanner errors that were recorded while
    that [Scan] call ran, or — once — the end of the input (position, errors).  That interface is
    the model's input ([stoken], [eof_pos], [eof_errs]); the lexer itself is property C07.

    Every production is transcribed with the same control flow: [enter]/[exit] of the recursion
    counter on every path, [panic(p.errorf ..)] as [Fail] carrying [p.errors] at that moment
    (first-error semantics: [recover] in ParseDocument/ParseValue returns exactly that list),
    Go's left-to-right evaluation of composite literals, loops as recursive functions on fuel.
    Fuel: every entry point is run with [S (length tokens)]; [OutOfFuel] is an explicit result
    (ParserProofs.fuel_sufficient shows it is never returned with that fuel).

    No proofs in this file. *)
From Coq Require Import List NArith ZArith Bool.
From ApiFu Require Import Base.Sexp Syn.Ast.
Import ListNotations.

(** one [Scan()] result: the token and the scanner errors appended during that call *)
Record stoken := mkst { st_tok : token; st_errs : list pos }.

(** parser struct: [nextToken] is the head of [toks] (the EOF pseudo token when empty),
    [errors] (locations only), [recursion]; [eof] is [toks = []]. *)
Record pstate := mkps { toks : list stoken; errs : list pos; recur : Z }.

Inductive res (A : Type) :=
| Ok (a : A) (s : pstate)
| Fail (es : list pos)          (* panic with an Error value: p.errors at that moment, the new error last *)
| OutOfFuel.
Arguments Ok {A} a s.
Arguments Fail {A} es.
Arguments OutOfFuel {A}.

Definition M (A : Type) := pstate -> res A.

Definition ret {A} (a : A) : M A := fun s => Ok a s.
Definition bind {A B} (m : M A) (k : A -> M B) : M B :=
  fun s => match m s with
           | Ok a s' => k a s'
           | Fail es => Fail es
           | OutOfFuel => OutOfFuel
           end.
Definition out_of_fuel {A} : M A := fun _ => OutOfFuel.

Notation "x <- m ;; k" := (bind m (fun x => k)) (at level 61, m at next level, right associativity).
Notation "m ;;; k" := (bind m (fun _ => k)) (at level 61, right associativity).

Definition max_recursion : Z := 1000.

Section Parser.
  (** position reported by the scanner after the last token, and the scanner errors recorded by
      the [Scan()] call that returned false *)
  Variable eof_pos : pos.
  Variable eof_errs : list pos.
  (** [leak = true]: the pinned tree before the repair of defect 14 ([parseSelection] returned
      on two paths without [exit()]); [false]: the current code. *)
  Variable leak : bool.

  Definition eof_token : token := mktok KInvalid b_EOF eof_pos.

  (** p.peek() *)
  Definition peek_tok (s : pstate) : token :=
    match toks s with [] => eof_token | t :: _ => st_tok t end.
  Definition peek : M token := fun s => Ok (peek_tok s) s.

  (** p.eof *)
  Definition at_eof_b (s : pstate) : bool := match toks s with [] => true | _ => false end.
  Definition at_eof : M bool := fun s => Ok (at_eof_b s) s.

  (** p.consumeToken(): advance, then append the scanner errors that came with the new token.
      (At the end of the input a further call finds neither a token nor new errors.) *)
  Definition consume_state (s : pstate) : pstate :=
    match toks s with
    | [] => s
    | _ :: r => mkps r (errs s ++ match r with [] => eof_errs | t :: _ => st_errs t end) (recur s)
    end.
  Definition consume : M unit := fun s => Ok tt (consume_state s).

  (** panic(p.errorf(..)): location = position of the token of lookahead *)
  Definition errorf {A} : M A := fun s => Fail (errs s ++ [tp (peek_tok s)]).

  Definition enter : M unit :=
    fun s => let r := (recur s + 1)%Z in
             if (max_recursion <? r)%Z then errorf (mkps (toks s) (errs s) r)
             else Ok tt (mkps (toks s) (errs s) r).
  Definition exit_ : M unit := fun s => Ok tt (mkps (toks s) (errs s) (recur s - 1)%Z).

  (** token tests *)
  Definition is_punct (v : bytes) (t : token) : bool := kind_eqb (tk t) KPunct && bytes_eqb (tv t) v.
  Definition is_name (t : token) : bool := kind_eqb (tk t) KName.
  Definition is_kw (v : bytes) (t : token) : bool := kind_eqb (tk t) KName && bytes_eqb (tv t) v.

  (** [for { if <stop> { break }; xs = append(xs, body()) }] *)
  Fixpoint many {A} (fuel : nat) (stop : pstate -> bool) (body : M A) : M (list A) :=
    match fuel with
    | O => out_of_fuel
    | S f => fun s => if stop s then Ok [] s
                      else (x <- body ;; xs <- many f stop body ;; ret (x :: xs)) s
    end.
  Definition stop_at (v : bytes) (s : pstate) : bool := is_punct v (peek_tok s).

  (** parseName *)
  Definition parse_name : M ident :=
    enter ;;;
    t <- peek ;;
    if is_name t then consume ;;; exit_ ;;; ret (mkid (tv t) (tp t))
    else errorf.

  (** parseVariable *)
  Definition parse_variable : M variable :=
    enter ;;;
    t <- peek ;;
    if negb (is_punct b_dollar t) then errorf
    else consume ;;; n <- parse_name ;; exit_ ;;; ret (mkvar n (tp t)).

  (** parseValue(constant) *)
  Definition object_field (pv : M value) : M (ident * value) :=
    n <- parse_name ;;
    t <- peek ;;
    if negb (is_punct b_colon t) then errorf
    else consume ;;; v <- pv ;; ret (n, v).

  Fixpoint parse_value (fuel : nat) (constant : bool) : M value :=
    match fuel with
    | O => out_of_fuel
    | S f =>
        enter ;;;
        t <- peek ;;
        r <- match tk t with
             | KInt => consume ;;; ret (Some (VInt (tv t) (tp t)))
             | KFloat => consume ;;; ret (Some (VFloat (tv t) (tp t)))
             | KString => consume ;;; ret (Some (VString (tv t) (tp t)))
             | KName =>
                 consume ;;;
                 ret (Some (if bytes_eqb (tv t) b_true then VBool true (tp t)
                            else if bytes_eqb (tv t) b_false then VBool false (tp t)
                            else if bytes_eqb (tv t) b_null then VNull (tp t)
                            else VEnum (tv t) (tp t)))
             | KPunct =>
                 if bytes_eqb (tv t) b_dollar then
                   if constant then errorf
                   else x <- parse_variable ;; ret (Some (VVar x))
                 else if bytes_eqb (tv t) b_lbrack then
                   consume ;;;
                   vs <- many f (stop_at b_rbrack) (parse_value f constant) ;;
                   c <- peek ;;
                   consume ;;;
                   ret (Some (VList vs (tp t) (tp c)))
                 else if bytes_eqb (tv t) b_lbrace then
                   consume ;;;
                   fs <- many f (stop_at b_rbrace) (object_field (parse_value f constant)) ;;
                   c <- peek ;;
                   consume ;;;
                   ret (Some (VObject fs (tp t) (tp c)))
                 else ret None
             | KInvalid => ret None
             end ;;
        match r with
        | None => errorf
        | Some v => exit_ ;;; ret v
        end
    end.

  (** parseNamedType *)
  Definition parse_named_type : M ident :=
    enter ;;; n <- parse_name ;; exit_ ;;; ret n.

  (** parseType *)
  Fixpoint parse_type (fuel : nat) : M ty :=
    match fuel with
    | O => out_of_fuel
    | S f =>
        enter ;;;
        t <- peek ;;
        r <- (if is_punct b_lbrack t then
                consume ;;;
                inner <- parse_type f ;;
                c <- peek ;;
                if negb (is_punct b_rbrack c) then errorf
                else consume ;;; ret (TList inner (tp t) (tp c))
              else n <- parse_named_type ;; ret (TNamed n)) ;;
        b <- peek ;;
        r' <- (if is_punct b_bang b then consume ;;; ret (TNonNull r) else ret r) ;;
        exit_ ;;; ret r'
    end.

  (** parseArgument *)
  Definition parse_argument (fuel : nat) : M argument :=
    enter ;;;
    n <- parse_name ;;
    t <- peek ;;
    if negb (is_punct b_colon t) then errorf
    else consume ;;; v <- parse_value fuel false ;; exit_ ;;; ret (mkarg n v).

  (** parseOptionalArguments *)
  Definition parse_optional_arguments (fuel : nat) : M (list argument) :=
    enter ;;;
    t <- peek ;;
    r <- (if is_punct b_lparen t then
            consume ;;;
            xs <- many fuel (stop_at b_rparen) (parse_argument fuel) ;;
            match xs with
            | [] => errorf
            | _ => consume ;;; ret xs
            end
          else ret []) ;;
    exit_ ;;; ret r.

  (** parseOptionalDirectives *)
  Definition parse_directive (fuel : nat) : M directive :=
    t <- peek ;;
    consume ;;;
    n <- parse_name ;;
    args <- parse_optional_arguments fuel ;;
    ret (mkdir n args (tp t)).
  Definition parse_optional_directives (fuel : nat) : M (list directive) :=
    enter ;;;
    ds <- many fuel (fun s => negb (stop_at b_at s)) (parse_directive fuel) ;;
    exit_ ;;; ret ds.

  (** parseTypeCondition *)
  Definition parse_type_condition : M ident :=
    enter ;;;
    t <- peek ;;
    if negb (is_kw b_on t) then errorf
    else consume ;;; n <- parse_named_type ;; exit_ ;;; ret n.

  (** *** selection sets: [pss] is the (recursive) parseSelectionSet *)
  Section Selections.
    Variable fuel : nat.
    Variable pss : M selset.

    (** parseOptionalSelectionSet *)
    Definition parse_optional_selection_set : M (option selset) :=
      enter ;;;
      t <- peek ;;
      r <- (if is_punct b_lbrace t then x <- pss ;; ret (Some x) else ret None) ;;
      exit_ ;;; ret r.

    (** parseField *)
    Definition parse_field : M selection :=
      enter ;;;
      n1 <- parse_name ;;
      t <- peek ;;
      an <- (if is_punct b_colon t then consume ;;; n2 <- parse_name ;; ret (Some n1, n2)
             else ret (None, n1)) ;;
      args <- parse_optional_arguments fuel ;;
      dirs <- parse_optional_directives fuel ;;
      sub <- parse_optional_selection_set ;;
      exit_ ;;; ret (SField (fst an) (snd an) args dirs sub).

    (** parseSelection (the two early returns had no [exit()] before the repair) *)
    Definition parse_selection : M selection :=
      enter ;;;
      t <- peek ;;
      if negb (is_punct b_ellipsis t) then
        r <- parse_field ;; (if leak then ret tt else exit_) ;;; ret r
      else
        consume ;;;
        t2 <- peek ;;
        if is_name t2 && negb (bytes_eqb (tv t2) b_on) then
          n <- parse_name ;;
          dirs <- parse_optional_directives fuel ;;
          (if leak then ret tt else exit_) ;;;
          ret (SSpread n dirs (tp t))
        else
          tc <- (if is_name t2 then x <- parse_type_condition ;; ret (Some x) else ret None) ;;
          dirs <- parse_optional_directives fuel ;;
          sub <- pss ;;
          exit_ ;;; ret (SInline tc dirs sub (tp t)).
  End Selections.

  (** parseSelectionSet *)
  Fixpoint parse_selection_set (fuel : nat) : M selset :=
    match fuel with
    | O => out_of_fuel
    | S f =>
        enter ;;;
        t <- peek ;;
        if negb (is_punct b_lbrace t) then errorf
        else
          consume ;;;
          sels <- many f (stop_at b_rbrace) (parse_selection f (parse_selection_set f)) ;;
          c <- peek ;;
          match sels with
          | [] => errorf
          | _ => consume ;;; exit_ ;;; ret (SelSet sels (tp t) (tp c))
          end
    end.

  (** parseVariableDefinition *)
  Definition parse_variable_definition (fuel : nat) : M vardef :=
    enter ;;;
    v <- parse_variable ;;
    t <- peek ;;
    if negb (is_punct b_colon t) then errorf
    else
      consume ;;;
      typ <- parse_type fuel ;;
      t2 <- peek ;;
      d <- (if is_punct b_eq t2 then consume ;;; x <- parse_value fuel true ;; ret (Some x)
            else ret None) ;;
      exit_ ;;; ret (mkvd v typ d).

  (** parseOptionalVariableDefinitions *)
  Definition parse_optional_variable_definitions (fuel : nat) : M (list vardef) :=
    enter ;;;
    t <- peek ;;
    r <- (if is_punct b_lparen t then
            consume ;;;
            xs <- many fuel (stop_at b_rparen) (parse_variable_definition fuel) ;;
            match xs with
            | [] => errorf
            | _ => consume ;;; ret xs
            end
          else ret []) ;;
    exit_ ;;; ret r.

  (** parseOperationType *)
  Definition is_operation_type (t : token) : bool :=
    is_name t && (bytes_eqb (tv t) b_query || bytes_eqb (tv t) b_mutation || bytes_eqb (tv t) b_subscription).
  Definition parse_operation_type : M optype :=
    enter ;;;
    t <- peek ;;
    if negb (is_operation_type t) then errorf
    else consume ;;; exit_ ;;; ret (mkot (tv t) (tp t)).

  (** parseOperationDefinition *)
  Definition parse_operation_definition (fuel : nat) : M definition :=
    enter ;;;
    ss <- parse_optional_selection_set (parse_selection_set fuel) ;;
    r <- match ss with
         | Some x => ret (DOp None None [] [] x)
         | None =>
             ot <- parse_operation_type ;;
             t <- peek ;;
             n <- (if is_name t then x <- parse_name ;; ret (Some x) else ret None) ;;
             vars <- parse_optional_variable_definitions fuel ;;
             dirs <- parse_optional_directives fuel ;;
             sub <- parse_selection_set fuel ;;
             ret (DOp (Some ot) n vars dirs sub)
         end ;;
    exit_ ;;; ret r.

  (** parseOptionalFragmentDefinition *)
  Definition parse_optional_fragment_definition (fuel : nat) : M (option definition) :=
    enter ;;;
    t <- peek ;;
    r <- (if is_kw b_fragment t then
            consume ;;;
            t2 <- peek ;;
            if negb (is_name t2) || bytes_eqb (tv t2) b_on then errorf
            else
              n <- parse_name ;;
              tc <- parse_type_condition ;;
              dirs <- parse_optional_directives fuel ;;
              sub <- parse_selection_set fuel ;;
              ret (Some (DFrag (tp t) n tc dirs sub))
          else ret None) ;;
    exit_ ;;; ret r.

  (** parseDefinition *)
  Definition parse_definition (fuel : nat) : M definition :=
    enter ;;;
    o <- parse_optional_fragment_definition fuel ;;
    r <- match o with
         | Some d => ret d
         | None => parse_operation_definition fuel
         end ;;
    exit_ ;;; ret r.

  (** parseDocument *)
  Definition parse_document (fuel : nat) : M document :=
    enter ;;;
    defs <- many fuel at_eof_b (parse_definition fuel) ;;
    match defs with
    | [] => errorf
    | _ => exit_ ;;; ret defs
    end.

  (** *** entry points *)

  (** newParser: the first consumeToken() *)
  Definition init (ts : list stoken) : pstate :=
    mkps ts (match ts with [] => eof_errs | t :: _ => st_errs t end) 0.

  (** what ParseDocument / ParseValue return: the tree (nil after a recovered panic) and
      [p.errors] *)
  Inductive outcome (A : Type) :=
  | Out (tree : option A) (es : list pos)
  | OOF.
  Arguments Out {A} tree es.
  Arguments OOF {A}.

  Definition run {A} (m : M A) (ts : list stoken) : outcome A :=
    match m (init ts) with
    | Ok a s => Out (Some a) (errs s)
    | Fail es => Out None es
    | OutOfFuel => OOF
    end.

  Definition fuel_for (ts : list stoken) : nat := S (length ts).

  (** parser.ParseDocument *)
  Definition ParseDocument (ts : list stoken) : outcome document :=
    run (parse_document (fuel_for ts)) ts.

  (** parser.ParseValue: one value, then the end of the input *)
  Definition parse_value_top (fuel : nat) : M value :=
    v <- parse_value fuel false ;;
    e <- at_eof ;;
    if e then ret v else errorf.
  Definition ParseValue (ts : list stoken) : outcome value :=
    run (parse_value_top (fuel_for ts)) ts.

  (** ParseValue of the pinned tree (before the repair): no check that the input ends *)
  Definition ParseValue_before_fix (ts : list stoken) : outcome value :=
    run (parse_value (fuel_for ts) false) ts.
End Parser.

Arguments Out {A} tree es.
Arguments OOF {A}.
