(** * Syn/ParserProofs.v — C06 (work in progress) *)
From Coq Require Import List NArith ZArith Bool Lia.
From ApiFu Require Import Base.Sexp Syn.Ast Syn.ParserModel Syn.Printer.
Import ListNotations.

Definition p0 : pos := mkpos 0 0.
Definition st0 (k : kind) (v : bytes) : stoken := mkst (mktok k v p0) [].

(** defect 14 on the pinned tree: { a a a ... a } with 1000 fields *)
Definition wide_doc (n : nat) : list stoken :=
  st0 KPunct b_lbrace :: repeat (st0 KName [97%N]) n ++ [st0 KPunct b_rbrace].

Lemma wide_rejected_before_fix :
  exists es, ParseDocument p0 [] true (wide_doc 1000) = Out None es.
Proof. eexists. vm_compute. reflexivity. Qed.
