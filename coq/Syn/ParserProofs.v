(** * Syn/ParserProofs.v — C06: the theorems about the entry points [ParseDocument] and
    [ParseValue] of the parser model, assembled from the per-production triples
    (ParserSound.v) and their converses (ParserComplete.v). *)
From Coq Require Import List NArith ZArith Bool Lia.
From ApiFu Require Import Base.Sexp Syn.Ast Syn.ParserModel Syn.Printer Syn.ParserBase Syn.ParserSound
     Syn.ParserComplete Syn.ParserFuel.
Import ListNotations.

(** every scanner error of the input, in scan order: what [p.errors] holds when the whole input
    has been consumed *)
Definition scanner_errors (eof_errs : list pos) (ts : list stoken) : list pos :=
  flat_map st_errs ts ++ eof_errs.

Definition token_positions (ts : list stoken) : list pos := map (fun t => tp (st_tok t)) ts.

(** ** subsequences (for position injectivity) *)
Inductive subseq {A : Type} : list A -> list A -> Prop :=
| sub_nil : subseq [] []
| sub_skip x l1 l2 : subseq l1 l2 -> subseq l1 (x :: l2)
| sub_keep x l1 l2 : subseq l1 l2 -> subseq (x :: l1) (x :: l2).

Lemma subseq_nil_l {A} (l : list A) : subseq [] l.
Proof. induction l; constructor; assumption. Qed.

Lemma subseq_refl {A} (l : list A) : subseq l l.
Proof. induction l; constructor; assumption. Qed.

Lemma subseq_app {A} (a b c d : list A) : subseq a b -> subseq c d -> subseq (a ++ c) (b ++ d).
Proof. intros H1 H2. induction H1; simpl; try constructor; assumption. Qed.

Lemma subseq_skip_l {A} (l a b : list A) : subseq a b -> subseq a (l ++ b).
Proof. intro H. induction l; simpl; [assumption|constructor; assumption]. Qed.

Lemma subseq_in {A} (a b : list A) x : subseq a b -> In x a -> In x b.
Proof. intro H. induction H; simpl; intros Hi; auto. destruct Hi; auto. Qed.

Lemma subseq_trans {A} (a b c : list A) : subseq a b -> subseq b c -> subseq a c.
Proof.
  intros H1 H2. revert a H1. induction H2; intros a H1.
  - exact H1.
  - constructor. apply IHsubseq. exact H1.
  - inversion H1; subst.
    + constructor. apply IHsubseq. assumption.
    + apply sub_keep. apply IHsubseq. assumption.
Qed.

Lemma subseq_NoDup {A} (a b : list A) : subseq a b -> NoDup b -> NoDup a.
Proof.
  intro H. induction H; intro Hn.
  - constructor.
  - inversion Hn; subst. auto.
  - inversion Hn; subst. constructor; [|auto]. intro Hi. apply H2. eapply subseq_in; eassumption.
Qed.

(** positions the tree records, in token order *)
Definition recorded (es : list etok) : list pos :=
  flat_map (fun e => match ep e with Some p => [p] | None => [] end) es.

Lemma recorded_app a b : recorded (a ++ b) = recorded a ++ recorded b.
Proof. unfold recorded. apply flat_map_app. Qed.

Lemma recorded_layout es ts : layout_of es ts = true -> subseq (recorded es) (map tp ts).
Proof.
  revert ts. induction es as [|e es IH]; intros [|t ts] H; try discriminate.
  - constructor.
  - rewrite layout_of_cons in H. apply andb_true_iff in H as [Hm Hl]. specialize (IH _ Hl).
    unfold recorded in *. cbn [flat_map map]. apply matches_spec in Hm as (_ & _ & Hp).
    destruct (ep e) as [p|]; cbn [app].
    + rewrite (Hp p eq_refl). apply sub_keep. exact IH.
    + apply sub_skip. exact IH.
Qed.

Lemma positions_subseq :
  (forall x, subseq (positions_selection x) (recorded (tokens_selection x))) /\
  (forall ss, subseq (positions_selset ss) (recorded (tokens_selset ss))).
Proof.
  apply selection_ind'.
  - intros [a|] n args dirs; cbn [positions_selection selection_pos tokens_selection app].
    + cbn [recorded flat_map ep e_ident e_name app]. apply sub_keep. apply subseq_nil_l.
    + cbn [recorded flat_map ep e_ident e_name app]. apply sub_keep. apply subseq_nil_l.
  - intros alias n args dirs ss IH. cbn [positions_selection selection_pos tokens_selection].
    assert (Hrest : subseq (positions_selset ss)
                           (recorded (tokens_arguments args ++ tokens_directives dirs ++ tokens_selset ss))).
    { rewrite !recorded_app. apply subseq_skip_l. apply subseq_skip_l. exact IH. }
    destruct alias as [a|]; cbn [app].
    + change (recorded (e_ident a :: e_punct_ b_colon :: e_ident n :: ?r))
        with (id_pos a :: id_pos n :: recorded (tokens_arguments args ++ tokens_directives dirs ++ tokens_selset ss)).
      apply sub_keep. apply sub_skip. exact Hrest.
    + change (recorded (e_ident n :: ?r))
        with (id_pos n :: recorded (tokens_arguments args ++ tokens_directives dirs ++ tokens_selset ss)).
      apply sub_keep. exact Hrest.
  - intros n dirs e. cbn [positions_selection selection_pos tokens_selection].
    change (recorded (e_punct b_ellipsis e :: ?r)) with (e :: recorded (e_ident n :: tokens_directives dirs)).
    apply sub_keep. apply subseq_nil_l.
  - intros cond dirs ss e IH. cbn [positions_selection selection_pos tokens_selection].
    change (recorded (e_punct b_ellipsis e :: ?r))
      with (e :: recorded (tokens_opt_type_condition cond ++ tokens_directives dirs ++ tokens_selset ss)).
    apply sub_keep. rewrite !recorded_app. apply subseq_skip_l. apply subseq_skip_l. exact IH.
  - intros sels o c IH. rewrite positions_selset_eq, tokens_selset_eq.
    change (recorded (e_punct b_lbrace o :: ?r))
      with (o :: recorded (flat_map tokens_selection sels ++ [e_punct b_rbrace c])).
    apply sub_skip. rewrite recorded_app.
    rewrite <- (app_nil_r (flat_map positions_selection sels)). apply subseq_app; [|apply subseq_nil_l].
    induction IH as [|x l Hx _ IHl]; cbn [flat_map]; [constructor|].
    rewrite recorded_app. apply subseq_app; assumption.
Qed.

Lemma positions_definition_subseq d :
  subseq (positions_definition d) (recorded (tokens_definition d)).
Proof.
  destruct positions_subseq as [_ Hss].
  destruct d as [ot n vars dirs sub|kw n cond dirs sub]; cbn [positions_definition tokens_definition].
  - rewrite !recorded_app. repeat apply subseq_skip_l. apply Hss.
  - change (recorded (e_name b_fragment kw :: e_ident n :: ?r))
      with (kw :: id_pos n :: recorded (tokens_type_condition cond ++ tokens_directives dirs ++ tokens_selset sub)).
    apply sub_skip. apply sub_skip. rewrite !recorded_app. repeat apply subseq_skip_l. apply Hss.
Qed.

Lemma positions_document_subseq d :
  subseq (positions_document d) (recorded (tokens_document d)).
Proof.
  unfold positions_document, tokens_document. induction d as [|x d IH]; cbn [flat_map]; [constructor|].
  rewrite recorded_app. apply subseq_app; [apply positions_definition_subseq|exact IH].
Qed.

Section Top.
  Variable eof_pos : pos.
  Variable eof_errs : list pos.

  Local Notation ParseDocument := (ParseDocument eof_pos eof_errs false).
  Local Notation ParseValue := (ParseValue eof_pos eof_errs).

  (** what the triples say about a whole run *)
  Lemma run_sat A (m : M A) (Q : A -> pstate -> Prop) ts :
    sat eof_pos eof_errs ts m (init eof_errs ts) Q ->
    match m (init eof_errs ts) with
    | Ok a s' => valid eof_errs ts s' /\ Q a s'
    | Fail es => failed_at eof_pos eof_errs ts es
    | OutOfFuel => True
    end.
  Proof. intro H. apply H. apply valid_init. Qed.

  Lemma valid_end ts s : valid eof_errs ts s -> toks s = [] -> errs s = scanner_errors eof_errs ts.
  Proof. intros [_ He] Ht. rewrite Ht in He. cbn [pending] in He. rewrite app_nil_r in He. exact He. Qed.

  Lemma post_whole {A} (T : A -> list etok) W D ts (a : A) s' :
    post T W D (init eof_errs ts) a s' -> toks s' = [] ->
    layout_of (T a) (map st_tok ts) = true /\ W a = true /\ (D a <= max_recursion)%Z /\ recur s' = 0%Z.
  Proof.
    intros (pre & E & L & Wa & R & Da) Ht. rewrite Ht, app_nil_r in E. cbn [init toks recur] in *. subst pre.
    repeat split; try assumption; try lia.
  Qed.

  Lemma failed_located ts es :
    failed_at eof_pos eof_errs ts es ->
    exists pre p, es = pre ++ [p] /\ (exists rest, pre ++ rest = scanner_errors eof_errs ts) /\
                  (In p (token_positions ts) \/ p = eof_pos).
  Proof.
    intros (s & [[pre Hp] He] & ->). exists (errs s), (tp (peek_tok eof_pos s)).
    split; [reflexivity|]. split; [exists (pending eof_errs (toks s)); exact He|].
    unfold peek_tok. destruct (toks s) as [|t r] eqn:Et; [right; reflexivity|left].
    unfold token_positions. rewrite Hp. rewrite map_app. apply in_or_app. right. left. reflexivity.
  Qed.

  (** ** documents *)

  (** a returned tree is a tree of exactly this token sequence, whatever lexical errors were
      reported beside it *)
  Theorem parse_document_tree ts d es :
    ParseDocument ts = Out (Some d) es ->
    layout_of (tokens_document d) (map st_tok ts) = true /\ wf_document d = true /\
    (depth_document d <= max_recursion)%Z /\ es = scanner_errors eof_errs ts.
  Proof.
    unfold ParserModel.ParseDocument, run. intro H.
    pose proof (run_sat _ _ _ ts (parse_document_sat eof_pos eof_errs ts (fuel_for ts) (init eof_errs ts))) as Hs.
    destruct (parse_document eof_pos eof_errs false (fuel_for ts) (init eof_errs ts)) as [a s'|es'|]; try discriminate.
    inversion H; subst a es. destruct Hs as [V [P Ht]].
    destruct (post_whole _ _ _ _ _ _ P Ht) as (L & W & D & _).
    repeat split; try assumption. apply valid_end; assumption.
  Qed.

  Theorem parse_sound ts d :
    ParseDocument ts = Out (Some d) [] ->
    layout_of (tokens_document d) (map st_tok ts) = true /\ wf_document d = true /\
    (depth_document d <= max_recursion)%Z /\ scanner_errors eof_errs ts = [].
  Proof.
    intro H. destruct (parse_document_tree _ _ _ H) as (L & W & D & E). repeat split; auto.
  Qed.

  Theorem parse_roundtrip_errs ts d :
    layout_of (tokens_document d) (map st_tok ts) = true -> wf_document d = true ->
    (depth_document d <= max_recursion)%Z ->
    ParseDocument ts = Out (Some d) (scanner_errors eof_errs ts).
  Proof.
    intros L W D. unfold ParserModel.ParseDocument, run.
    destruct (document_complete eof_pos eof_errs d (init eof_errs ts) (fuel_for ts)) as (a & s' & E & -> & Ht & _).
    - exact L.
    - exact W.
    - cbn [init recur]. lia.
    - apply layout_of_length in L. rewrite map_length in L. unfold fuel_for. lia.
    - pose proof (run_sat _ _ _ ts (parse_document_sat eof_pos eof_errs ts (fuel_for ts) (init eof_errs ts))) as Hs.
      rewrite E in *. destruct Hs as [V _]. rewrite (valid_end _ _ V Ht). reflexivity.
  Qed.

  Theorem parse_roundtrip ts d :
    layout_of (tokens_document d) (map st_tok ts) = true -> wf_document d = true ->
    (depth_document d <= max_recursion)%Z -> scanner_errors eof_errs ts = [] ->
    ParseDocument ts = Out (Some d) [].
  Proof. intros L W D E. rewrite <- E. apply parse_roundtrip_errs; assumption. Qed.

  (** a rejection carries the scanner errors met so far and exactly one parser error, located
      at a token of the input or at the end of the input *)
  Theorem parse_error_located ts es :
    ParseDocument ts = Out None es ->
    exists pre p, es = pre ++ [p] /\ (exists rest, pre ++ rest = scanner_errors eof_errs ts) /\
                  (In p (token_positions ts) \/ p = eof_pos).
  Proof.
    unfold ParserModel.ParseDocument, run. intro H.
    pose proof (run_sat _ _ _ ts (parse_document_sat eof_pos eof_errs ts (fuel_for ts) (init eof_errs ts))) as Hs.
    destruct (parse_document eof_pos eof_errs false (fuel_for ts) (init eof_errs ts)) as [a s'|es'|]; try discriminate.
    inversion H; subst es'. apply failed_located. exact Hs.
  Qed.

  (** never "no tree and no error" *)
  Corollary parse_reject_has_error ts : ParseDocument ts <> Out None [].
  Proof.
    intro H. destruct (parse_error_located _ _ H) as (pre & p & E & _). destruct pre; discriminate.
  Qed.

  (** the counter is back at its entry value after every successful run (any fuel) *)
  Theorem recursion_balanced fuel ts d s' :
    parse_document eof_pos eof_errs false fuel (init eof_errs ts) = Ok d s' -> recur s' = 0%Z.
  Proof.
    intro H.
    pose proof (run_sat _ _ _ ts (parse_document_sat eof_pos eof_errs ts fuel (init eof_errs ts))) as Hs.
    rewrite H in Hs. destruct Hs as [_ [(pre & _ & _ & _ & R & _) _]]. exact R.
  Qed.

  (** distinct selection nodes have distinct positions when tokens do *)
  Theorem parse_pos_injective ts d es :
    ParseDocument ts = Out (Some d) es -> NoDup (token_positions ts) -> NoDup (positions_document d).
  Proof.
    intros H Hn. destruct (parse_document_tree _ _ _ H) as (L & _).
    apply recorded_layout in L. unfold token_positions in Hn. rewrite <- map_map in Hn.
    eapply subseq_NoDup; [|exact Hn]. eapply subseq_trans; [apply positions_document_subseq|exact L].
  Qed.

  (** the stated fuel ([S (length ts)]) suffices on every input *)
  Theorem parse_total ts : ParseDocument ts <> OOF.
  Proof. apply document_fuel_sufficient. Qed.

  (** the parser decides the grammar: exactly the layouts of well-formed trees (of derivation
      height within the limit) without lexical errors are accepted *)
  Theorem parse_accepts_exactly ts d :
    ParseDocument ts = Out (Some d) [] <->
    layout_of (tokens_document d) (map st_tok ts) = true /\ wf_document d = true /\
    (depth_document d <= max_recursion)%Z /\ scanner_errors eof_errs ts = [].
  Proof.
    split; [apply parse_sound|]. intros (L & W & D & E). apply parse_roundtrip; assumption.
  Qed.

  (** ... and everything else is rejected with at least one error *)
  Theorem parse_rejects_rest ts :
    (forall d, ~ (layout_of (tokens_document d) (map st_tok ts) = true /\ wf_document d = true /\
                  (depth_document d <= max_recursion)%Z)) ->
    exists es, ParseDocument ts = Out None es /\ es <> [].
  Proof.
    intro Hn. destruct (ParseDocument ts) as [[d|] es|] eqn:E.
    - exfalso. destruct (parse_document_tree _ _ _ E) as (L & W & D & _). apply (Hn d). auto.
    - exists es. split; [reflexivity|]. intro He. subst es. exact (parse_reject_has_error _ E).
    - exfalso. exact (parse_total _ E).
  Qed.

  (** every selection node's position is the position of a token of the input *)
  Corollary parse_positions_are_token_positions ts d es p :
    ParseDocument ts = Out (Some d) es -> In p (positions_document d) -> In p (token_positions ts).
  Proof.
    intros H Hi. destruct (parse_document_tree _ _ _ H) as (L & _).
    apply recorded_layout in L. unfold token_positions. rewrite <- map_map.
    eapply subseq_in; [|exact Hi]. eapply subseq_trans; [apply positions_document_subseq|exact L].
  Qed.

  (** the parser error of a rejection lies inside the text: whatever holds of the positions of all
      tokens and of the end of the input (e.g. [1 <= line <= lines + 1]) holds of it *)
  Corollary parse_error_inside_text (Inside : pos -> Prop) ts es :
    Forall Inside (token_positions ts) -> Inside eof_pos ->
    ParseDocument ts = Out None es -> exists pre p, es = pre ++ [p] /\ Inside p.
  Proof.
    intros Ht He H. destruct (parse_error_located _ _ H) as (pre & p & E & _ & [Hi| ->]).
    - exists pre, p. split; [exact E|]. rewrite Forall_forall in Ht. apply Ht. exact Hi.
    - exists pre, eof_pos. auto.
  Qed.

  (** ** values *)

  Lemma parse_value_top_sat ts fuel s :
    sat eof_pos eof_errs ts (parse_value_top eof_pos eof_errs fuel) s
        (fun v s' => post tokens_value (wf_value false) depth_value s v s' /\ toks s' = []).
  Proof.
    unfold parse_value_top. eapply sat_bind; [apply parse_value_sat|]. intros v s1 V1 P.
    apply sat_at_eof. unfold at_eof_b. destruct (toks s1) eqn:E; [|apply sat_errorf].
    apply sat_ret. intros _. split; assumption.
  Qed.

  Theorem parse_value_tree ts v es :
    ParseValue ts = Out (Some v) es ->
    layout_of (tokens_value v) (map st_tok ts) = true /\ wf_value false v = true /\
    (depth_value v <= max_recursion)%Z /\ es = scanner_errors eof_errs ts.
  Proof.
    unfold ParserModel.ParseValue, run. intro H.
    pose proof (run_sat _ _ _ ts (parse_value_top_sat ts (fuel_for ts) (init eof_errs ts))) as Hs.
    destruct (parse_value_top eof_pos eof_errs (fuel_for ts) (init eof_errs ts)) as [a s'|es'|]; try discriminate.
    inversion H; subst a es. destruct Hs as [V [P Ht]].
    destruct (post_whole _ _ _ _ _ _ P Ht) as (L & W & D & _).
    repeat split; try assumption. apply valid_end; assumption.
  Qed.

  Theorem parse_value_roundtrip ts v :
    layout_of (tokens_value v) (map st_tok ts) = true -> wf_value false v = true ->
    (depth_value v <= max_recursion)%Z ->
    ParseValue ts = Out (Some v) (scanner_errors eof_errs ts).
  Proof.
    intros L W D. unfold ParserModel.ParseValue, run.
    destruct (value_top_complete eof_pos eof_errs v (init eof_errs ts) (fuel_for ts)) as (a & s' & E & -> & Ht & _).
    - exact L.
    - exact W.
    - cbn [init recur]. lia.
    - apply layout_of_length in L. rewrite map_length in L. unfold fuel_for. lia.
    - pose proof (run_sat _ _ _ ts (parse_value_top_sat ts (fuel_for ts) (init eof_errs ts))) as Hs.
      rewrite E in *. destruct Hs as [V _]. rewrite (valid_end _ _ V Ht). reflexivity.
  Qed.

  Theorem parse_value_error_located ts es :
    ParseValue ts = Out None es ->
    exists pre p, es = pre ++ [p] /\ (exists rest, pre ++ rest = scanner_errors eof_errs ts) /\
                  (In p (token_positions ts) \/ p = eof_pos).
  Proof.
    unfold ParserModel.ParseValue, run. intro H.
    pose proof (run_sat _ _ _ ts (parse_value_top_sat ts (fuel_for ts) (init eof_errs ts))) as Hs.
    destruct (parse_value_top eof_pos eof_errs (fuel_for ts) (init eof_errs ts)) as [a s'|es'|]; try discriminate.
    inversion H; subst es'. apply failed_located. exact Hs.
  Qed.

  Theorem parse_value_total ts : ParseValue ts <> OOF.
  Proof. apply value_fuel_sufficient. Qed.
End Top.

(** ** the two repaired defects, kept as witnesses *)

Definition p0 : pos := mkpos 0 0.
Definition st0 (k : kind) (v : bytes) : stoken := mkst (mktok k v p0) [].
Definition b_a : bytes := [97%N].

(** [{ a a a ... a }] *)
Definition wide_tokens (n : nat) : list stoken :=
  st0 KPunct b_lbrace :: repeat (st0 KName b_a) n ++ [st0 KPunct b_rbrace].
Definition wide_doc (n : nat) : document :=
  [DOp None None [] [] (SelSet (repeat (SField None (mkid b_a p0) [] [] None) n) p0 p0)].

(** defect 14 on the pinned tree ([leak = true]): a flat selection set of 1000 fields, whose
    derivation height is 8, is rejected — [parse_roundtrip] and [recursion_balanced] fail there *)
Lemma wide_rejected_before_fix :
  layout_of (tokens_document (wide_doc 1000)) (map st_tok (wide_tokens 1000)) = true /\
  wf_document (wide_doc 1000) = true /\ depth_document (wide_doc 1000) = 8%Z /\
  exists es, ParserModel.ParseDocument p0 [] true (wide_tokens 1000) = Out None es.
Proof. repeat split; try (vm_compute; reflexivity). eexists. vm_compute. reflexivity. Qed.

Lemma recursion_unbalanced_before_fix :
  exists d s', parse_document p0 [] true 5 (init [] (wide_tokens 1)) = Ok d s' /\ recur s' = 1%Z.
Proof. eexists. eexists. vm_compute. split; reflexivity. Qed.

(** ParseValue of the pinned tree: [1 2] is accepted as the value [1] *)
Lemma value_truncated_before_fix :
  exists v, ParseValue_before_fix p0 [] [st0 KInt [49%N]; st0 KInt [50%N]] = Out (Some v) [] /\
            layout_of (tokens_value v) (map st_tok [st0 KInt [49%N]; st0 KInt [50%N]]) = false.
Proof. eexists. vm_compute. split; reflexivity. Qed.

(** ** after the repair: flat selection sets of ANY width are accepted (their derivation height
    does not depend on the width) *)
Lemma wide_depth n : depth_document (wide_doc (S n)) = 8%Z.
Proof.
  unfold wide_doc, depth_document. cbn [map maxl fold_right depth_definition]. rewrite depth_selset_eq.
  assert (H : maxl (map depth_selection (repeat (SField None (mkid b_a p0) [] [] None) (S n))) = 3%Z).
  { induction n as [|n IH]; [reflexivity|]. cbn [repeat map maxl fold_right] in *. unfold maxl in IH. rewrite IH. reflexivity. }
  rewrite H. reflexivity.
Qed.

Lemma wide_layout n :
  layout_of (tokens_document (wide_doc n)) (map st_tok (wide_tokens n)) = true.
Proof.
  unfold wide_doc, wide_tokens, tokens_document. cbn [flat_map tokens_definition tokens_vardefs tokens_directives app].
  rewrite app_nil_r, tokens_selset_eq. cbn [map]. rewrite map_app. cbn [map].
  apply layout_of_cons_intro; [reflexivity|]. apply layout_of_app; [|reflexivity].
  induction n as [|n IH]; [reflexivity|]. cbn [repeat flat_map map tokens_selection tokens_arguments tokens_directives app].
  apply layout_of_cons_intro; [reflexivity|exact IH].
Qed.

Lemma wide_wf n : wf_document (wide_doc (S n)) = true.
Proof.
  unfold wide_doc, wf_document. cbn [nonempty forallb wf_definition andb]. rewrite wf_selset_eq. rewrite andb_true_r.
  cbn [repeat nonempty andb]. induction n as [|n IH]; [reflexivity|]. cbn [repeat forallb] in *. exact IH.
Qed.

Theorem wide_accepted_after_fix n :
  ParserModel.ParseDocument p0 [] false (wide_tokens (S n)) = Out (Some (wide_doc (S n))) [].
Proof.
  apply parse_roundtrip.
  - apply wide_layout.
  - apply wide_wf.
  - rewrite wide_depth. unfold max_recursion. lia.
  - unfold scanner_errors, wide_tokens. rewrite app_nil_r. cbn [flat_map st0 st_errs app].
    rewrite flat_map_app. cbn [flat_map st_errs st0 app]. rewrite app_nil_r.
    induction n as [|n IH]; [reflexivity|]. cbn [repeat flat_map st_errs st0 app] in *. exact IH.
Qed.
