(** * Syn/PositionProofs.v — C06: every [Position()] is the recorded position of the node's first
    token in the printed form (which [layout_of] compares with the source token's position). *)
From Coq Require Import List NArith.
From ApiFu Require Import Base.Sexp Syn.Ast Syn.Printer Syn.PositionMethods.
Import ListNotations.

Lemma first_pos_app a b p : first_pos a = Some p -> first_pos (a ++ b) = Some p.
Proof. destruct a; [discriminate|]. intro H; exact H. Qed.

Lemma value_pos_first v : first_pos (tokens_value v) = Some (value_pos v).
Proof. destruct v; reflexivity. Qed.

Lemma ty_pos_first t : first_pos (tokens_type t) = Some (ty_pos t).
Proof.
  induction t as [n|t IH o c|t IH]; [reflexivity|reflexivity|].
  cbn [tokens_type ty_pos]. apply first_pos_app. exact IH.
Qed.

Lemma variable_pos_first x : first_pos (tokens_variable x) = Some (variable_pos x).
Proof. reflexivity. Qed.
Lemma ident_pos_first i : first_pos [e_ident i] = Some (ident_pos i).
Proof. reflexivity. Qed.
Lemma argument_pos_first a : first_pos (tokens_argument a) = Some (argument_pos a).
Proof. reflexivity. Qed.
Lemma object_field_pos_first f :
  first_pos (e_ident (fst f) :: e_punct_ b_colon :: tokens_value (snd f)) = Some (object_field_pos f).
Proof. reflexivity. Qed.
Lemma directive_pos_first d : first_pos (tokens_directive d) = Some (directive_pos d).
Proof. reflexivity. Qed.
Lemma vardef_pos_first vd : first_pos (tokens_vardef vd) = Some (vardef_pos vd).
Proof. reflexivity. Qed.
Lemma selset_pos_first ss : first_pos (tokens_selset ss) = Some (selset_pos ss).
Proof. destruct ss; reflexivity. Qed.
Lemma selection_pos_first s : first_pos (tokens_selection s) = Some (selection_pos s).
Proof. destruct s as [[a|] n args dirs sub|n dirs e|cond dirs sub e]; reflexivity. Qed.
(** a shorthand operation is the bare selection set ([wf_definition]); any other definition starts
    with its keyword *)
Lemma definition_pos_first d : wf_definition d = true ->
  first_pos (tokens_definition d) = Some (definition_pos d).
Proof.
  destruct d as [[o|] n vars dirs sub|kw n cond dirs sub]; intro W; [reflexivity| |reflexivity].
  cbn [wf_definition] in W. destruct n; [discriminate|]. destruct vars; [|discriminate]. destruct dirs; [|discriminate].
  cbn [tokens_definition definition_pos app tokens_vardefs tokens_directives flat_map]. apply selset_pos_first.
Qed.

(** all of them at once: each [Position()] method of graphql/ast returns the position recorded on
    the first token of the node's printed form *)
Theorem position_methods_first_token :
  (forall v, first_pos (tokens_value v) = Some (value_pos v)) /\
  (forall t, first_pos (tokens_type t) = Some (ty_pos t)) /\
  (forall x, first_pos (tokens_variable x) = Some (variable_pos x)) /\
  (forall i, first_pos [e_ident i] = Some (ident_pos i)) /\
  (forall a, first_pos (tokens_argument a) = Some (argument_pos a)) /\
  (forall f, first_pos (e_ident (fst f) :: e_punct_ b_colon :: tokens_value (snd f)) = Some (object_field_pos f)) /\
  (forall d, first_pos (tokens_directive d) = Some (directive_pos d)) /\
  (forall vd, first_pos (tokens_vardef vd) = Some (vardef_pos vd)) /\
  (forall ss, first_pos (tokens_selset ss) = Some (selset_pos ss)) /\
  (forall s, first_pos (tokens_selection s) = Some (selection_pos s)) /\
  (forall d, wf_definition d = true -> first_pos (tokens_definition d) = Some (definition_pos d)).
Proof.
  repeat split.
  - apply value_pos_first.
  - apply ty_pos_first.
  - apply selset_pos_first.
  - apply selection_pos_first.
  - apply definition_pos_first.
Qed.
