(** * Syn/ParserComplete.v — the converse direction: when the remaining input is a layout of
    [tokens_X x ++ K] ([K] = what the grammar expects after [x]), [x] is well formed and its
    derivation fits under the recursion limit, production X returns exactly [x] and leaves a
    layout of [K].  ("Follow" conditions on [K] express that the token after an optional part is
    not one that would start that part; they hold in every context the grammar offers.) *)
From Coq Require Import List NArith ZArith Bool Lia.
From ApiFu Require Import Base.Sexp Syn.Ast Syn.ParserModel Syn.Printer Syn.ParserBase Syn.ParserSound.
Import ListNotations.

Section Complete.
  Variable eof_pos : pos.
  Variable eof_errs : list pos.

  Local Notation pk := (peek_tok eof_pos).

  (** the remaining input is a layout of [K] *)
  Definition ml (K : list etok) (s : pstate) : Prop := layout_of K (map st_tok (toks s)) = true.

  (** success logic *)
  Definition csat {A} (m : M A) (s : pstate) (Q : A -> pstate -> Prop) : Prop :=
    exists a s', m s = Ok a s' /\ Q a s'.

  Lemma csat_ret A (a : A) s (Q : A -> pstate -> Prop) : Q a s -> csat (ret a) s Q.
  Proof. intro H. exists a, s. split; [reflexivity|assumption]. Qed.

  Lemma csat_bind A B (m : M A) (k : A -> M B) s (P : A -> pstate -> Prop) (Q : B -> pstate -> Prop) :
    csat m s P -> (forall a s1, P a s1 -> csat (k a) s1 Q) -> csat (bind m k) s Q.
  Proof.
    intros (a & s1 & E & HP) Hk. destruct (Hk a s1 HP) as (b & s2 & E2 & HQ).
    exists b, s2. unfold bind. rewrite E. auto.
  Qed.

  Lemma csat_conseq A (m : M A) s (P Q : A -> pstate -> Prop) :
    csat m s P -> (forall a s1, P a s1 -> Q a s1) -> csat m s Q.
  Proof. intros (a & s1 & E & HP) H. exists a, s1. auto. Qed.

  Lemma csat_enter B (k : M B) s (Q : B -> pstate -> Prop) :
    (recur s + 1 <= max_recursion)%Z ->
    csat k (mkps (toks s) (errs s) (recur s + 1)) Q -> csat (enter eof_pos ;;; k) s Q.
  Proof.
    intros Hr (b & s2 & E & HQ). exists b, s2. unfold bind, enter.
    apply Z.ltb_ge in Hr. rewrite Hr. auto.
  Qed.

  Lemma csat_exit B (k : M B) s (Q : B -> pstate -> Prop) :
    csat k (mkps (toks s) (errs s) (recur s - 1)) Q -> csat (exit_ ;;; k) s Q.
  Proof. intros (b & s2 & E & HQ). exists b, s2. unfold bind, exit_. auto. Qed.

  Lemma csat_peek B (k : token -> M B) s (Q : B -> pstate -> Prop) :
    csat (k (pk s)) s Q -> csat (t <- peek eof_pos ;; k t) s Q.
  Proof. intros (b & s2 & E & HQ). exists b, s2. unfold bind, peek. auto. Qed.

  Lemma csat_at_eof B (k : bool -> M B) s (Q : B -> pstate -> Prop) :
    csat (k (at_eof_b s)) s Q -> csat (e <- at_eof ;; k e) s Q.
  Proof. intros (b & s2 & E & HQ). exists b, s2. unfold bind, at_eof. auto. Qed.

  Lemma csat_consume B (k : M B) s (Q : B -> pstate -> Prop) :
    csat k (consume_state eof_errs s) Q -> csat (consume eof_errs ;;; k) s Q.
  Proof. intros (b & s2 & E & HQ). exists b, s2. unfold bind, consume. auto. Qed.

  (** ** what the lookahead is when the input is a layout of [e :: K] *)

  Definition e_is_punct (v : bytes) (e : etok) : bool := kind_eqb (ek e) KPunct && bytes_eqb (ev e) v.
  Definition e_is_kw (v : bytes) (e : etok) : bool := kind_eqb (ek e) KName && bytes_eqb (ev e) v.

  Lemma ml_recur K s r : ml K (mkps (toks s) (errs s) r) <-> ml K s.
  Proof. unfold ml; simpl; tauto. Qed.

  Lemma ml_cons e K s :
    ml (e :: K) s ->
    exists t r, toks s = t :: r /\ matches e (st_tok t) = true /\ layout_of K (map st_tok r) = true.
  Proof.
    unfold ml. destruct (toks s) as [|t r]; [discriminate|]. cbn [map]. rewrite layout_of_cons.
    intro H. apply andb_true_iff in H as [A B]. exists t, r. auto.
  Qed.

  Lemma ml_nil s : ml [] s -> toks s = [].
  Proof. unfold ml. destruct (toks s); [reflexivity|discriminate]. Qed.

  Lemma pk_ml e K s : ml (e :: K) s -> matches e (pk s) = true.
  Proof. intro H. destruct (ml_cons _ _ _ H) as (t & r & Et & Hm & _). unfold peek_tok. rewrite Et. exact Hm. Qed.

  Lemma tk_ml e K s : ml (e :: K) s -> tk (pk s) = ek e.
  Proof. intro H. apply pk_ml, matches_spec in H. tauto. Qed.

  Lemma tv_ml e K s : ml (e :: K) s -> tv (pk s) = ev e.
  Proof. intro H. apply pk_ml, matches_spec in H. tauto. Qed.

  Lemma tp_ml e K s p : ml (e :: K) s -> ep e = Some p -> tp (pk s) = p.
  Proof. intros H E. apply pk_ml, matches_spec in H. destruct H as (_ & _ & H). auto. Qed.

  Lemma is_punct_ml e K s v : ml (e :: K) s -> is_punct v (pk s) = e_is_punct v e.
  Proof. intro H. unfold is_punct, e_is_punct. rewrite (tk_ml _ _ _ H), (tv_ml _ _ _ H). reflexivity. Qed.

  Lemma is_kw_ml e K s v : ml (e :: K) s -> is_kw v (pk s) = e_is_kw v e.
  Proof. intro H. unfold is_kw, e_is_kw. rewrite (tk_ml _ _ _ H), (tv_ml _ _ _ H). reflexivity. Qed.

  Lemma is_name_ml e K s : ml (e :: K) s -> is_name (pk s) = kind_eqb (ek e) KName.
  Proof. intro H. unfold is_name. rewrite (tk_ml _ _ _ H). reflexivity. Qed.

  Lemma pk_nil s : ml [] s -> pk s = eof_token eof_pos.
  Proof. intro H. unfold peek_tok. rewrite (ml_nil _ H). reflexivity. Qed.

  Lemma consume_ml e K s :
    ml (e :: K) s -> ml K (consume_state eof_errs s) /\ recur (consume_state eof_errs s) = recur s.
  Proof.
    intro H. destruct (ml_cons _ _ _ H) as (t & r & Et & _ & HK).
    rewrite (consume_cons _ _ _ _ Et). unfold ml. cbn [toks recur]. auto.
  Qed.

  (** consume the expected token [e]; the continuation sees a state matching [K] *)
  Lemma csat_eat B (k : M B) e K s (Q : B -> pstate -> Prop) :
    ml (e :: K) s ->
    (forall s1, ml K s1 -> recur s1 = recur s -> csat k s1 Q) ->
    csat (consume eof_errs ;;; k) s Q.
  Proof.
    intros H Hk. apply csat_consume. destruct (consume_ml _ _ _ H) as [A B0]. apply Hk; assumption.
  Qed.

  (** [K] does not begin with the punctuator [v] *)
  Definition nf (v : bytes) (K : list etok) : Prop :=
    match K with [] => True | e :: _ => e_is_punct v e = false end.

  Lemma is_punct_nf K s v : ml K s -> nf v K -> is_punct v (pk s) = false.
  Proof.
    destruct K as [|e K]; intros H N.
    - rewrite (pk_nil _ H). reflexivity.
    - rewrite (is_punct_ml _ _ _ _ H). exact N.
  Qed.

  (** the result of a sub-parser: the expected tree, a layout of the continuation, counter restored *)
  Definition cpost {A} (x : A) (K : list etok) (r : Z) (a : A) (s' : pstate) : Prop :=
    a = x /\ ml K s' /\ recur s' = r.

  Lemma ident_eta i t : tv t = id_name i -> tp t = id_pos i -> mkid (tv t) (tp t) = i.
  Proof. destruct i; simpl; intros -> ->; reflexivity. Qed.

  Lemma parse_name_complete i K s :
    ml (e_ident i :: K) s -> (recur s + depth_name <= max_recursion)%Z ->
    csat (parse_name eof_pos eof_errs) s (cpost i K (recur s)).
  Proof.
    intros H Hr. unfold parse_name, depth_name in *. apply csat_enter; [assumption|]. apply csat_peek.
    match goal with |- context [is_name (pk ?x)] => set (s1 := x) end.
    assert (H1 : ml (e_ident i :: K) s1) by (apply ml_recur; exact H).
    rewrite (is_name_ml _ _ _ H1). cbn [ek e_ident e_name kind_eqb].
    apply (csat_eat _ _ _ _ _ _ H1). intros s2 H2 R2. apply csat_exit. apply csat_ret.
    split; [|split].
    - apply ident_eta; [apply (tv_ml _ _ _ H1)|apply (tp_ml _ _ _ _ H1); reflexivity].
    - apply ml_recur. exact H2.
    - subst s1. cbn [recur] in *. lia.
  Qed.

  (** ** evaluation of tests on expected tokens *)

  Ltac eval_consts :=
    repeat match goal with
           | |- context [bytes_eqb ?a ?b] =>
               is_const a; is_const b;
               let r := eval vm_compute in (bytes_eqb a b) in change (bytes_eqb a b) with r
           end.

  (** rewrite the test on the lookahead of the state matching [H : ml (e :: K) s], then compute *)
  Ltac test H :=
    first [rewrite (is_punct_ml _ _ _ _ H) | rewrite (is_kw_ml _ _ _ _ H) | rewrite (is_name_ml _ _ _ H)
           | rewrite (tk_ml _ _ _ H)];
    cbn [e_is_punct e_is_kw ek ev e_punct e_punct_ e_ident e_name kind_eqb andb negb];
    eval_consts; cbn [andb negb orb].

  Ltac cuse L := eapply csat_bind; [eapply L|].

  (** ** loops *)

  Lemma many_complete A (T : A -> list etok) (stop : pstate -> bool) (body : M A) (r : Z)
        (Kend : list etok) (G : list etok -> Prop) :
    (forall s, ml Kend s -> stop s = true) ->
    G Kend ->
    forall xs,
      (forall x K', In x xs -> G (T x ++ K')) ->
      (forall x K' s', In x xs -> ml (T x ++ K') s' -> recur s' = r -> G K' ->
                       stop s' = false /\ csat body s' (cpost x K' r)) ->
      forall fuel s,
        (length xs < fuel)%nat -> ml (flat_map T xs ++ Kend) s -> recur s = r ->
        csat (many fuel stop body) s (cpost xs Kend r).
  Proof.
    intros Hstop HG. induction xs as [|x xs IH]; intros HGx Hbody fuel s Hf Hm Hr.
    - destruct fuel as [|f]; [lia|]. cbn [many flat_map app] in *.
      exists [], s. rewrite (Hstop _ Hm). split; [reflexivity|]. repeat split; assumption.
    - destruct fuel as [|f]; [simpl in Hf; lia|]. cbn [flat_map] in Hm. rewrite <- app_assoc in Hm.
      assert (HG' : G (flat_map T xs ++ Kend)).
      { destruct xs as [|y ys]; [exact HG|]. cbn [flat_map]. rewrite <- app_assoc. apply HGx. right; left; reflexivity. }
      destruct (Hbody x _ s (or_introl eq_refl) Hm Hr HG') as [Hs Hb].
      cbn [many]. unfold csat. rewrite Hs.
      change (csat (y <- body ;; ys <- many f stop body ;; ret (y :: ys)) s (cpost (x :: xs) Kend r)).
      eapply csat_bind; [exact Hb|]. intros a s1 (-> & H1 & R1).
      eapply csat_bind.
      { apply IH; [intros; apply HGx; right; assumption|intros; apply Hbody; auto; right; assumption| | |];
          [simpl in Hf; lia|exact H1|exact R1]. }
      intros ys s2 (-> & H2 & R2). apply csat_ret. repeat split; assumption.
  Qed.

  (** ** variables and values *)

  Lemma variable_eta x t n : n = var_name x -> tp t = var_dollar x -> mkvar n (tp t) = x.
  Proof. destruct x; simpl; intros -> ->; reflexivity. Qed.

  Lemma parse_variable_complete x K s :
    ml (tokens_variable x ++ K) s -> (recur s + depth_variable <= max_recursion)%Z ->
    csat (parse_variable eof_pos eof_errs) s (cpost x K (recur s)).
  Proof.
    intros H Hr. unfold parse_variable, depth_variable, depth_name, tokens_variable in *. cbn [app] in H.
    apply csat_enter; [lia|]. apply csat_peek.
    match goal with |- context [is_punct _ (pk ?x)] => set (s1 := x) end.
    assert (H1 : ml (e_punct b_dollar (var_dollar x) :: e_ident (var_name x) :: K) s1) by (apply ml_recur; exact H).
    test H1. apply (csat_eat _ _ _ _ _ _ H1). intros s2 H2 R2.
    cuse parse_name_complete; [exact H2|subst s1; cbn [recur] in *; unfold depth_name; lia|].
    intros n s3 (-> & H3 & R3).
    apply csat_exit. apply csat_ret. split; [|split].
    - apply variable_eta; [reflexivity|apply (tp_ml _ _ _ _ H1); reflexivity].
    - apply ml_recur. assumption.
    - subst s1. cbn [recur] in *. lia.
  Qed.

  Lemma tokens_value_nonempty v : (1 <= length (tokens_value v))%nat.
  Proof. destruct v; cbn [tokens_value tokens_variable length]; try lia; destruct b; simpl; lia. Qed.

  (** no value begins with a closing bracket or brace *)
  Lemma value_first_not v K s w :
    w = b_rbrack \/ w = b_rbrace -> ml (tokens_value v ++ K) s -> is_punct w (pk s) = false.
  Proof.
    intros Hw H. destruct v as [x|l p|l p|s0 p|b p|p|n p|vs o c|fs o c];
      cbn [tokens_value tokens_variable app] in H; test H; destruct Hw as [-> | ->]; reflexivity.
  Qed.

  Lemma depth_value_pos v : (1 <= depth_value v)%Z.
  Proof.
    destruct v; cbn [depth_value]; unfold depth_variable, depth_name; try lia;
      match goal with |- context [maxl ?l] => pose proof (maxl_nonneg l) end; lia.
  Qed.

  Lemma fuel_pos v fuel : (length (tokens_value v) < fuel)%nat -> exists f, fuel = S f.
  Proof. destruct fuel; [lia|eauto]. Qed.

  Lemma value_tail v K s1 r0 (inner : M (option value)) :
    csat inner s1 (cpost (Some v) K (recur s1)) -> recur s1 = (r0 + 1)%Z ->
    csat (r <- inner ;; match r with None => errorf eof_pos | Some v => exit_ ;;; ret v end) s1 (cpost v K r0).
  Proof.
    intros Hi Hr. eapply csat_bind; [exact Hi|]. intros r s2 (-> & H2 & R2).
    apply csat_exit. apply csat_ret. split; [reflexivity|]. split; [apply ml_recur; exact H2|].
    cbn [recur]. lia.
  Qed.

  (** a single-token value *)
  Lemma value_single (v : value) (f : token -> value) e K s1 :
    ml (e :: K) s1 -> f (pk s1) = v ->
    csat (consume eof_errs ;;; ret (Some (f (pk s1)))) s1 (cpost (Some v) K (recur s1)).
  Proof.
    intros H1 Hv. apply (csat_eat _ _ _ _ _ _ H1). intros s2 H2 R2. apply csat_ret.
    rewrite Hv. repeat split; assumption.
  Qed.

  Lemma in_flat_map_length {A} (T : A -> list etok) x xs n :
    In x xs -> (length (flat_map T xs) <= n)%nat -> (length (T x) <= n)%nat.
  Proof. intros Hi Hn. pose proof (flat_map_length_in T x xs Hi). lia. Qed.

  Lemma value_complete : forall v c K s fuel,
    ml (tokens_value v ++ K) s -> wf_value c v = true ->
    (recur s + depth_value v <= max_recursion)%Z -> (length (tokens_value v) < fuel)%nat ->
    csat (parse_value eof_pos eof_errs fuel c) s (cpost v K (recur s)).
  Proof.
    induction v as [x|l p|l p|s0 p|b p|p|n p|vs o c0 IH|fs o c0 IH] using value_ind';
      intros c K s fuel H W D F; destruct (fuel_pos _ _ F) as [f ->];
      match type of D with (_ + depth_value ?v <= _)%Z => pose proof (depth_value_pos v) as Dp end;
      cbn [parse_value]; (apply csat_enter; [lia|]); apply csat_peek;
      match goal with |- context [tk (pk ?x)] => set (s1 := x) end;
      assert (H1 := proj2 (ml_recur _ s (recur s + 1)%Z) H); fold s1 in H1;
      cbn [tokens_value tokens_variable app] in H1;
      (apply value_tail; [|reflexivity]).
    - (* variable *)
      test H1. rewrite (tv_ml _ _ _ H1). cbn [ev e_punct]. eval_consts.
      cbn [wf_value] in W. apply negb_true_iff in W. subst c.
      cuse parse_variable_complete; [exact H1|subst s1; cbn [recur depth_value] in *; lia|].
      intros a s2 (-> & H2 & R2). apply csat_ret. repeat split; assumption.
    - test H1. apply (value_single (VInt l p) (fun t => VInt (tv t) (tp t)) _ _ _ H1).
      rewrite (tv_ml _ _ _ H1), (tp_ml _ _ _ p H1); reflexivity.
    - test H1. apply (value_single (VFloat l p) (fun t => VFloat (tv t) (tp t)) _ _ _ H1).
      rewrite (tv_ml _ _ _ H1), (tp_ml _ _ _ p H1); reflexivity.
    - test H1. apply (value_single (VString s0 p) (fun t => VString (tv t) (tp t)) _ _ _ H1).
      rewrite (tv_ml _ _ _ H1), (tp_ml _ _ _ p H1); reflexivity.
    - test H1.
      apply (value_single (VBool b p)
               (fun t => if bytes_eqb (tv t) b_true then VBool true (tp t)
                         else if bytes_eqb (tv t) b_false then VBool false (tp t)
                         else if bytes_eqb (tv t) b_null then VNull (tp t) else VEnum (tv t) (tp t)) _ _ _ H1).
      rewrite (tv_ml _ _ _ H1), (tp_ml _ _ _ p H1); [|reflexivity]. destruct b; reflexivity.
    - test H1.
      apply (value_single (VNull p)
               (fun t => if bytes_eqb (tv t) b_true then VBool true (tp t)
                         else if bytes_eqb (tv t) b_false then VBool false (tp t)
                         else if bytes_eqb (tv t) b_null then VNull (tp t) else VEnum (tv t) (tp t)) _ _ _ H1).
      rewrite (tv_ml _ _ _ H1), (tp_ml _ _ _ p H1); reflexivity.
    - test H1. cbn [wf_value] in W. apply andb_true_iff in W as [W12 W3]. apply andb_true_iff in W12 as [W1 W2].
      apply negb_true_iff in W1, W2, W3.
      apply (value_single (VEnum n p)
               (fun t => if bytes_eqb (tv t) b_true then VBool true (tp t)
                         else if bytes_eqb (tv t) b_false then VBool false (tp t)
                         else if bytes_eqb (tv t) b_null then VNull (tp t) else VEnum (tv t) (tp t)) _ _ _ H1).
      rewrite (tv_ml _ _ _ H1), (tp_ml _ _ _ p H1); [|reflexivity]. cbn [ev e_name]. rewrite W1, W2, W3. reflexivity.
    - (* list *)
      test H1. rewrite (tv_ml _ _ _ H1). cbn [ev e_punct]. eval_consts.
      apply (csat_eat _ _ _ _ _ _ H1). intros s2 H2 R2. rewrite <- app_assoc in H2.
      cbn [tokens_value length] in F. rewrite app_length in F. cbn [length] in F.
      cbn [wf_value] in W. cbn [depth_value] in D.
      eapply csat_bind.
      { apply (many_complete _ tokens_value (stop_at eof_pos b_rbrack) (parse_value eof_pos eof_errs f c)
                             (recur s2) ([e_punct b_rbrack c0] ++ K) (fun _ => True)) with (xs := vs).
        - intros s' Hs'. unfold stop_at. cbn [app] in Hs'. test Hs'. reflexivity.
        - exact I.
        - intros; exact I.
        - intros x K' s' Hin Hm Hr _. split.
          + unfold stop_at. apply (value_first_not x K' s'); auto.
          + rewrite <- Hr. rewrite Forall_forall in IH. apply IH; [exact Hin|exact Hm| | |].
            * rewrite forallb_forall in W. apply W. exact Hin.
            * pose proof (maxl_in _ _ (in_map depth_value _ _ Hin)). subst s1. cbn [recur] in *. lia.
            * pose proof (flat_map_length_in tokens_value x vs Hin). lia.
        - pose proof (flat_map_length_ge tokens_value vs (fun x _ => tokens_value_nonempty x)). lia.
        - exact H2.
        - reflexivity. }
      intros a s3 (-> & H3 & R3). cbn [app] in H3. apply csat_peek.
      apply (csat_eat _ _ _ _ _ _ H3). intros s4 H4 R4. apply csat_ret.
      rewrite (tp_ml _ _ _ o H1), (tp_ml _ _ _ c0 H3); try reflexivity.
      repeat split; [assumption|congruence].
    - (* object *)
      test H1. rewrite (tv_ml _ _ _ H1). cbn [ev e_punct]. eval_consts.
      apply (csat_eat _ _ _ _ _ _ H1). intros s2 H2 R2. rewrite <- app_assoc in H2.
      cbn [tokens_value length] in F. rewrite app_length in F. cbn [length] in F.
      cbn [wf_value] in W. cbn [depth_value] in D.
      set (T := fun f0 : ident * value => e_ident (fst f0) :: e_punct_ b_colon :: tokens_value (snd f0)) in *.
      eapply csat_bind.
      { apply (many_complete _ T (stop_at eof_pos b_rbrace)
                             (object_field eof_pos eof_errs (parse_value eof_pos eof_errs f c))
                             (recur s2) ([e_punct b_rbrace c0] ++ K) (fun _ => True)) with (xs := fs).
        - intros s' Hs'. unfold stop_at. cbn [app] in Hs'. test Hs'. reflexivity.
        - exact I.
        - intros; exact I.
        - intros [fn fv] K' s' Hin Hm Hr _. unfold T in Hm. cbn [fst snd app] in Hm. split.
          + unfold stop_at. test Hm. reflexivity.
          + unfold object_field.
            assert (Dn : (recur s' + Z.max depth_name (depth_value fv) <= max_recursion)%Z).
            { pose proof (maxl_in _ _ (in_map (fun f0 => Z.max depth_name (depth_value (snd f0))) _ _ Hin)) as Hmx.
              cbn [snd] in Hmx. subst s1. cbn [recur] in *. lia. }
            cuse parse_name_complete; [exact Hm|lia|]. intros a s5 (-> & H5 & R5).
            apply csat_peek. test H5. apply (csat_eat _ _ _ _ _ _ H5). intros s6 H6 R6.
            rewrite Forall_forall in IH.
            eapply csat_bind.
            { apply (IH (fn, fv) Hin c K' s6 f H6).
              - rewrite forallb_forall in W. apply (W (fn, fv)). exact Hin.
              - cbn [snd]. lia.
              - pose proof (in_flat_map_length T (fn, fv) fs (length (flat_map T fs)) Hin (le_n _)) as Hl.
                unfold T in Hl at 1. cbn [fst snd length] in Hl. cbn [snd]. lia. }
            intros a s7 (-> & H7 & R7). apply csat_ret. repeat split; [assumption|congruence].
        - assert (length fs <= length (flat_map T fs))%nat; [|lia].
          apply flat_map_length_ge. intros x _. unfold T. cbn [length]. lia.
        - exact H2.
        - reflexivity. }
      intros a s3 (-> & H3 & R3). cbn [app] in H3. apply csat_peek.
      apply (csat_eat _ _ _ _ _ _ H3). intros s4 H4 R4. apply csat_ret.
      rewrite (tp_ml _ _ _ o H1), (tp_ml _ _ _ c0 H3); try reflexivity.
      repeat split; [assumption|congruence].
  Qed.

  (** ** types *)

  Lemma parse_named_type_complete i K s :
    ml (e_ident i :: K) s -> (recur s + depth_named_type <= max_recursion)%Z ->
    csat (parse_named_type eof_pos eof_errs) s (cpost i K (recur s)).
  Proof.
    intros H Hr. unfold parse_named_type, depth_named_type, depth_name in *. apply csat_enter; [lia|].
    cuse parse_name_complete; [apply ml_recur; exact H|cbn [recur]; unfold depth_name; lia|].
    intros a s2 (-> & H2 & R2). apply csat_exit. apply csat_ret.
    split; [reflexivity|]. split; [apply ml_recur; exact H2|]. cbn [recur] in *. lia.
  Qed.

  Definition bang (nn : bool) : list etok := if nn then [e_punct_ b_bang] else [].

  Lemma type_tail (r : ty) (nn : bool) K s2 r0 :
    ml (bang nn ++ K) s2 -> (nn = false -> nf b_bang K) -> recur s2 = (r0 + 1)%Z ->
    csat (b <- peek eof_pos ;;
          r' <- (if is_punct b_bang b then consume eof_errs ;;; ret (TNonNull r) else ret r) ;;
          exit_ ;;; ret r') s2 (cpost (if nn then TNonNull r else r) K r0).
  Proof.
    intros H Hn Hr. apply csat_peek. destruct nn; cbn [bang app] in H.
    - test H. eapply csat_bind with (P := cpost (TNonNull r) K (recur s2)).
      { apply (csat_eat _ _ _ _ _ _ H). intros s3 H3 R3. apply csat_ret.
        exact (conj eq_refl (conj H3 R3)). }
      intros a s3 (-> & H3 & R3). apply csat_exit. apply csat_ret.
      split; [reflexivity|]. split; [apply ml_recur; exact H3|]. cbn [recur]. lia.
    - rewrite (is_punct_nf _ _ _ H (Hn eq_refl)). eapply csat_bind with (P := cpost r K (recur s2)).
      { apply csat_ret. exact (conj eq_refl (conj H eq_refl)). }
      intros a s3 (-> & H3 & R3). apply csat_exit. apply csat_ret.
      split; [reflexivity|]. split; [apply ml_recur; exact H3|]. cbn [recur]. lia.
  Qed.

  Lemma tokens_type_nonempty t : (1 <= length (tokens_type t))%nat.
  Proof. induction t; cbn [tokens_type length]; try lia. rewrite app_length. lia. Qed.

  Lemma depth_type_pos t : (1 <= depth_type t)%Z.
  Proof. induction t; cbn [depth_type]; unfold depth_named_type, depth_name; lia. Qed.

  (** the full statement for a type *)
  Definition type_full (t : ty) : Prop :=
    forall K s fuel,
      ml (tokens_type t ++ K) s -> wf_type t = true -> nf b_bang K ->
      (recur s + depth_type t <= max_recursion)%Z -> (length (tokens_type t) < fuel)%nat ->
      csat (parse_type eof_pos eof_errs fuel) s (cpost t K (recur s)).

  (** a type that is not itself NonNull, optionally followed by [!] *)
  Definition type_base (t : ty) : Prop :=
    forall nn K s fuel,
      is_nonnull t = false ->
      ml (tokens_type t ++ bang nn ++ K) s -> wf_type t = true -> (nn = false -> nf b_bang K) ->
      (recur s + depth_type t <= max_recursion)%Z -> (length (tokens_type t) < fuel)%nat ->
      csat (parse_type eof_pos eof_errs fuel) s (cpost (if nn then TNonNull t else t) K (recur s)).

  Lemma type_complete_both : forall t, type_full t /\ type_base t.
  Proof.
    induction t as [n|t' [IHf IHb] o c|t' [IHf IHb]].
    - assert (Hb : type_base (TNamed n)).
      { intros nn K s fuel _ H W N D F. destruct fuel as [|f]; [cbn [tokens_type length] in F; lia|].
        cbn [parse_type tokens_type app depth_type] in *. unfold depth_named_type, depth_name in *.
        apply csat_enter; [lia|]. apply csat_peek.
        match goal with |- context [is_punct b_lbrack (pk ?x)] => set (s1 := x) end.
        assert (H1 := proj2 (ml_recur _ s (recur s + 1)%Z) H); fold s1 in H1. test H1.
        eapply csat_bind with (P := cpost (TNamed n) (bang nn ++ K) (recur s1)).
        { cuse parse_named_type_complete; [exact H1|subst s1; cbn [recur]; unfold depth_named_type, depth_name; lia|].
          intros a s2 (-> & H2 & R2). apply csat_ret. exact (conj eq_refl (conj H2 R2)). }
        intros a s2 (-> & H2 & R2). apply type_tail; [exact H2|exact N|subst s1; cbn [recur] in *; lia]. }
      split; [|exact Hb].
      intros K s fuel H W N D F. apply (Hb false K s fuel eq_refl H W (fun _ => N) D F).
    - assert (Hb : type_base (TList t' o c)).
      { intros nn K s fuel _ H W N D F. destruct fuel as [|f]; [cbn [tokens_type length] in F; lia|].
        cbn [parse_type tokens_type app depth_type wf_type] in *.
        pose proof (depth_type_pos t') as Dp.
        apply csat_enter; [lia|]. apply csat_peek.
        match goal with |- context [is_punct b_lbrack (pk ?x)] => set (s1 := x) end.
        assert (H1 := proj2 (ml_recur _ s (recur s + 1)%Z) H); fold s1 in H1. test H1.
        cbn [length] in F. rewrite app_length in F. cbn [length] in F.
        eapply csat_bind with (P := cpost (TList t' o c) (bang nn ++ K) (recur s1)).
        { apply (csat_eat _ _ _ _ _ _ H1). intros s2 H2 R2. rewrite <- app_assoc in H2. cbn [app] in H2.
          eapply csat_bind.
          { apply (IHf _ s2 f H2 W); [reflexivity|subst s1; cbn [recur] in *; lia|lia]. }
          intros a s3 (-> & H3 & R3). apply csat_peek. test H3.
          apply (csat_eat _ _ _ _ _ _ H3). intros s4 H4 R4. apply csat_ret.
          rewrite (tp_ml _ _ _ o H1), (tp_ml _ _ _ c H3); try reflexivity.
          split; [reflexivity|]. split; [exact H4|]. rewrite R4, R3. exact R2. }
        intros a s2 (-> & H2 & R2). apply type_tail; [exact H2|exact N|subst s1; cbn [recur] in *; lia]. }
      split; [|exact Hb].
      intros K s fuel H W N D F. apply (Hb false K s fuel eq_refl H W (fun _ => N) D F).
    - split.
      + intros K s fuel H W N D F. cbn [wf_type tokens_type depth_type] in *.
        rewrite <- app_assoc in H. rewrite app_length in F.
        apply (IHb true K s fuel); try assumption.
        * destruct t'; [reflexivity|reflexivity|discriminate].
        * destruct t'; [exact W|exact W|discriminate].
        * intro; discriminate.
        * lia.
      + intros nn K s fuel Hn. discriminate.
  Qed.

  Lemma type_complete t : type_full t.
  Proof. apply type_complete_both. Qed.

  (** ** arguments *)

  Lemma argument_eta a n v : n = arg_name a -> v = arg_value a -> mkarg n v = a.
  Proof. destruct a; simpl; intros -> ->; reflexivity. Qed.

  Lemma argument_complete a K s fuel :
    ml (tokens_argument a ++ K) s -> wf_argument a = true ->
    (recur s + depth_argument a <= max_recursion)%Z -> (length (tokens_argument a) < fuel)%nat ->
    csat (parse_argument eof_pos eof_errs fuel) s (cpost a K (recur s)).
  Proof.
    intros H W D F. unfold parse_argument, tokens_argument, wf_argument, depth_argument, depth_name in *.
    cbn [app length] in *. pose proof (depth_value_pos (arg_value a)) as Dp.
    apply csat_enter; [lia|].
    cuse parse_name_complete; [apply ml_recur; exact H|cbn [recur]; unfold depth_name; lia|].
    intros n s2 (-> & H2 & R2). apply csat_peek. test H2.
    apply (csat_eat _ _ _ _ _ _ H2). intros s3 H3 R3.
    cuse value_complete; [exact H3|exact W|cbn [recur] in *; lia|lia|].
    intros v s4 (-> & H4 & R4). apply csat_exit. apply csat_ret.
    split; [apply argument_eta; reflexivity|]. split; [apply ml_recur; exact H4|]. cbn [recur] in *. lia.
  Qed.

  (** ** [( x+ )] lists *)

  Lemma optional_parens_complete A (T : A -> list etok) (D : A -> Z) (body : M A) (G : list etok -> Prop)
        (xs : list A) K s fuel :
    ml (tokens_parens T xs ++ K) s ->
    (xs = [] -> nf b_lparen K) ->
    (recur s + (1 + maxl (map D xs)) <= max_recursion)%Z ->
    (length (tokens_parens T xs) < fuel)%nat ->
    (forall x, In x xs -> (1 <= length (T x))%nat) ->
    G (e_punct_ b_rparen :: K) ->
    (forall x K', In x xs -> G (T x ++ K')) ->
    (forall x K' s', In x xs -> ml (T x ++ K') s' -> recur s' = (recur s + 1)%Z -> G K' ->
                     is_punct b_rparen (pk s') = false /\ csat body s' (cpost x K' (recur s + 1)%Z)) ->
    csat (enter eof_pos ;;;
          t <- peek eof_pos ;;
          r <- (if is_punct b_lparen t then
                  consume eof_errs ;;;
                  xs <- many fuel (stop_at eof_pos b_rparen) body ;;
                  match xs with
                  | [] => errorf eof_pos
                  | _ => consume eof_errs ;;; ret xs
                  end
                else ret []) ;;
          exit_ ;;; ret r) s (cpost xs K (recur s)).
  Proof.
    intros H Hnil Dd F Hne HG HGx Hbody. pose proof (maxl_nonneg (map D xs)) as Hmx.
    apply csat_enter; [lia|]. apply csat_peek.
    match goal with |- context [is_punct b_lparen (pk ?x)] => set (s1 := x) end.
    assert (H1 := proj2 (ml_recur _ s (recur s + 1)%Z) H); fold s1 in H1.
    eapply csat_bind with (P := cpost xs K (recur s + 1)%Z).
    2:{ intros a s2 (-> & H2 & R2). apply csat_exit. apply csat_ret.
        split; [reflexivity|]. split; [apply ml_recur; exact H2|]. cbn [recur]. lia. }
    destruct xs as [|x xs].
    - cbn [tokens_parens app] in H1. rewrite (is_punct_nf _ _ _ H1 (Hnil eq_refl)).
      apply csat_ret. split; [reflexivity|split; [exact H1|reflexivity]].
    - unfold tokens_parens in H1, F. cbn [app] in H1. test H1.
      apply (csat_eat _ _ _ _ _ _ H1). intros s2 H2 R2. rewrite <- app_assoc in H2.
      cbn [length] in F. rewrite app_length in F. cbn [length] in F.
      eapply csat_bind.
      { apply (many_complete _ T (stop_at eof_pos b_rparen) body (recur s + 1)%Z ([e_punct_ b_rparen] ++ K) G)
          with (xs := x :: xs).
        - intros s' Hs'. unfold stop_at. cbn [app] in Hs'. test Hs'. reflexivity.
        - exact HG.
        - exact HGx.
        - intros y K' s' Hin Hm Hr HK'. unfold stop_at. apply Hbody; assumption.
        - pose proof (flat_map_length_ge T (x :: xs) Hne). lia.
        - exact H2.
        - subst s1. cbn [recur] in R2. exact R2. }
      intros a s3 (-> & H3 & R3). cbn [app] in H3.
      apply (csat_eat _ _ _ _ _ _ H3). intros s4 H4 R4. apply csat_ret.
      split; [reflexivity|]. split; [exact H4|congruence].
  Qed.

  Lemma tokens_argument_nonempty a : (1 <= length (tokens_argument a))%nat.
  Proof. unfold tokens_argument. cbn [length]. lia. Qed.

  Lemma arguments_complete args K s fuel :
    ml (tokens_arguments args ++ K) s -> forallb wf_argument args = true ->
    (args = [] -> nf b_lparen K) ->
    (recur s + depth_arguments args <= max_recursion)%Z -> (length (tokens_arguments args) < fuel)%nat ->
    csat (parse_optional_arguments eof_pos eof_errs fuel) s (cpost args K (recur s)).
  Proof.
    intros H W N D F. unfold parse_optional_arguments.
    apply (optional_parens_complete _ tokens_argument depth_argument _ (fun _ => True)); try assumption.
    - intros; apply tokens_argument_nonempty.
    - exact I.
    - intros; exact I.
    - intros x K' s' Hin Hm Hr _. split.
      + unfold tokens_argument in Hm. cbn [app] in Hm. test Hm. reflexivity.
      + rewrite <- Hr. apply argument_complete; [exact Hm| | |].
        * rewrite forallb_forall in W. apply W; exact Hin.
        * unfold depth_arguments in D. pose proof (maxl_in _ _ (in_map depth_argument _ _ Hin)). lia.
        * rewrite tokens_arguments_parens in F. unfold tokens_parens in F. destruct args as [|a0 args0]; [destruct Hin|].
          cbn [length] in F. rewrite app_length in F.
          pose proof (flat_map_length_in tokens_argument x (a0 :: args0) Hin). lia.
  Qed.

  (** ** directives *)

  Lemma directive_eta d n args t : n = dir_name d -> args = dir_args d -> tp t = dir_at d -> mkdir n args (tp t) = d.
  Proof. destruct d; simpl; intros -> -> ->; reflexivity. Qed.

  Lemma directive_complete d K s fuel :
    ml (tokens_directive d ++ K) s -> wf_directive d = true -> nf b_lparen K ->
    (recur s + depth_directive d <= max_recursion)%Z -> (length (tokens_directive d) < fuel)%nat ->
    csat (parse_directive eof_pos eof_errs fuel) s (cpost d K (recur s)).
  Proof.
    intros H W N D F. unfold parse_directive, tokens_directive, wf_directive, depth_directive, depth_name in *.
    cbn [app length] in *. apply csat_peek.
    apply (csat_eat _ _ _ _ _ _ H). intros s2 H2 R2.
    cuse parse_name_complete; [exact H2|unfold depth_name; lia|].
    intros n s3 (-> & H3 & R3).
    cuse arguments_complete; [exact H3|exact W|intros _; exact N|lia|lia|].
    intros args s4 (-> & H4 & R4). apply csat_ret.
    split; [apply directive_eta; try reflexivity; apply (tp_ml _ _ _ _ H); reflexivity|].
    split; [exact H4|congruence].
  Qed.

  Lemma directives_complete ds K s fuel :
    ml (tokens_directives ds ++ K) s -> wf_directives ds = true -> nf b_lparen K -> nf b_at K ->
    (recur s + depth_directives ds <= max_recursion)%Z -> (length (tokens_directives ds) < fuel)%nat ->
    csat (parse_optional_directives eof_pos eof_errs fuel) s (cpost ds K (recur s)).
  Proof.
    intros H W N1 N2 D F. unfold parse_optional_directives, depth_directives, tokens_directives, wf_directives in *.
    pose proof (maxl_nonneg (map depth_directive ds)) as Hmx.
    apply csat_enter; [lia|].
    eapply csat_bind.
    { apply (many_complete _ tokens_directive (fun s => negb (stop_at eof_pos b_at s)) (parse_directive eof_pos eof_errs fuel)
                           (recur s + 1)%Z K (nf b_lparen)) with (xs := ds).
      - intros s' Hs'. unfold stop_at. rewrite (is_punct_nf _ _ _ Hs' N2). reflexivity.
      - exact N1.
      - intros x K' _. unfold tokens_directive. cbn [app nf]. reflexivity.
      - intros x K' s' Hin Hm Hr HK'. split.
        + unfold stop_at. unfold tokens_directive in Hm. cbn [app] in Hm. test Hm. reflexivity.
        + rewrite <- Hr. apply directive_complete; [exact Hm| |exact HK'| |].
          * rewrite forallb_forall in W. apply W; exact Hin.
          * pose proof (maxl_in _ _ (in_map depth_directive _ _ Hin)). lia.
          * pose proof (flat_map_length_in tokens_directive x ds Hin). lia.
      - assert (length ds <= length (flat_map tokens_directive ds))%nat; [|lia].
        apply flat_map_length_ge. intros x _. unfold tokens_directive. cbn [length]. lia.
      - apply ml_recur. exact H.
      - reflexivity. }
    intros a s2 (-> & H2 & R2). apply csat_exit. apply csat_ret.
    split; [reflexivity|]. split; [apply ml_recur; exact H2|]. cbn [recur]. lia.
  Qed.

  (** ** type conditions *)

  Lemma type_condition_complete n K s :
    ml (tokens_type_condition n ++ K) s -> (recur s + depth_type_condition <= max_recursion)%Z ->
    csat (parse_type_condition eof_pos eof_errs) s (cpost n K (recur s)).
  Proof.
    intros H D. unfold parse_type_condition, tokens_type_condition, depth_type_condition, depth_named_type, depth_name in *.
    cbn [app] in H. apply csat_enter; [lia|]. apply csat_peek.
    match goal with |- context [is_kw b_on (pk ?x)] => set (s1 := x) end.
    assert (H1 := proj2 (ml_recur _ s (recur s + 1)%Z) H); fold s1 in H1. test H1.
    apply (csat_eat _ _ _ _ _ _ H1). intros s2 H2 R2.
    cuse parse_named_type_complete; [exact H2|subst s1; cbn [recur] in *; unfold depth_named_type, depth_name; lia|].
    intros a s3 (-> & H3 & R3). apply csat_exit. apply csat_ret.
    split; [reflexivity|]. split; [apply ml_recur; exact H3|]. subst s1. cbn [recur] in *. lia.
  Qed.

  (** ** follow sets *)

  Lemma nf_arguments v args K :
    bytes_eqb b_lparen v = false -> nf v K -> nf v (tokens_arguments args ++ K).
  Proof. intros Hv N. destruct args; [exact N|]. cbn [tokens_arguments app nf e_is_punct ek ev e_punct_ kind_eqb andb]. exact Hv. Qed.

  Lemma nf_directives v ds K :
    bytes_eqb b_at v = false -> nf v K -> nf v (tokens_directives ds ++ K).
  Proof.
    intros Hv N. destruct ds; [exact N|]. unfold tokens_directives, tokens_directive.
    cbn [flat_map app nf e_is_punct ek ev e_punct kind_eqb andb]. exact Hv.
  Qed.

  Lemma nf_selset v ss K : bytes_eqb b_lbrace v = false -> nf v (tokens_selset ss ++ K).
  Proof.
    intros Hv. destruct ss. rewrite tokens_selset_eq. cbn [app nf e_is_punct ek ev e_punct kind_eqb andb]. exact Hv.
  Qed.

  Lemma nf_opt_selset v o K :
    bytes_eqb b_lbrace v = false -> nf v K -> nf v (tokens_opt_selset o ++ K).
  Proof. intros Hv N. destruct o; [apply nf_selset; exact Hv|exact N]. Qed.

  Definition sel_follow (K : list etok) : Prop :=
    nf b_colon K /\ nf b_lparen K /\ nf b_at K /\ nf b_lbrace K.

  Lemma sel_follow_selection x K' : sel_follow (tokens_selection x ++ K').
  Proof.
    destruct x as [[a|] n args dirs sub|n dirs e|cond dirs sub e]; cbn [tokens_selection app];
      repeat split; reflexivity.
  Qed.

  Lemma sel_follow_rbrace c K : sel_follow (e_punct b_rbrace c :: K).
  Proof. repeat split; reflexivity. Qed.

  (** ** selection sets *)

  Lemma opt_selset_complete (pss : M selset) o K s :
    ml (tokens_opt_selset o ++ K) s -> (o = None -> nf b_lbrace K) ->
    (recur s + depth_opt_selset o <= max_recursion)%Z ->
    (forall ss, o = Some ss -> forall s', ml (tokens_selset ss ++ K) s' -> recur s' = (recur s + 1)%Z ->
                                           csat pss s' (cpost ss K (recur s + 1)%Z)) ->
    csat (parse_optional_selection_set eof_pos pss) s (cpost o K (recur s)).
  Proof.
    intros H N D Hp. unfold parse_optional_selection_set, depth_opt_selset in *.
    assert (Dp : (recur s + 1 <= max_recursion)%Z).
    { destruct o as [[sels o0 c0]|]; [|lia]. rewrite depth_selset_eq in D.
      pose proof (maxl_nonneg (map depth_selection sels)). lia. }
    apply csat_enter; [exact Dp|]. apply csat_peek.
    match goal with |- context [is_punct b_lbrace (pk ?x)] => set (s1 := x) end.
    assert (H1 := proj2 (ml_recur _ s (recur s + 1)%Z) H); fold s1 in H1.
    eapply csat_bind with (P := cpost o K (recur s + 1)%Z).
    2:{ intros a s2 (-> & H2 & R2). apply csat_exit. apply csat_ret.
        split; [reflexivity|]. split; [apply ml_recur; exact H2|]. cbn [recur]. lia. }
    destruct o as [ss|]; cbn [tokens_opt_selset app] in H1.
    - assert (Hb : is_punct b_lbrace (pk s1) = true).
      { destruct ss. rewrite tokens_selset_eq in H1. cbn [app] in H1. test H1. reflexivity. }
      rewrite Hb. cuse (Hp ss eq_refl s1 H1); [reflexivity|].
      intros a s2 (-> & H2 & R2). apply csat_ret. split; [reflexivity|]. split; assumption.
    - rewrite (is_punct_nf _ _ _ H1 (N eq_refl)). apply csat_ret. split; [reflexivity|]. split; [exact H1|reflexivity].
  Qed.

  Lemma tokens_selection_field alias n args dirs sub K :
    tokens_selection (SField alias n args dirs sub) ++ K =
    match alias with Some a => [e_ident a; e_punct_ b_colon] | None => [] end ++
    e_ident n :: tokens_arguments args ++ tokens_directives dirs ++ tokens_opt_selset sub ++ K.
  Proof.
    cbn [tokens_selection]. rewrite <- app_assoc. f_equal. cbn [app]. f_equal.
    rewrite <- !app_assoc. reflexivity.
  Qed.

  Lemma depth_arguments_pos args : (1 <= depth_arguments args)%Z.
  Proof. unfold depth_arguments. pose proof (maxl_nonneg (map depth_argument args)). lia. Qed.
  Lemma depth_directives_pos ds : (1 <= depth_directives ds)%Z.
  Proof. unfold depth_directives. pose proof (maxl_nonneg (map depth_directive ds)). lia. Qed.
  Lemma depth_selset_pos ss : (1 <= depth_selset ss)%Z.
  Proof. destruct ss. rewrite depth_selset_eq. pose proof (maxl_nonneg (map depth_selection sels)). lia. Qed.

  Lemma field_complete fuel (pss : M selset) alias n args dirs sub K s :
    ml (tokens_selection (SField alias n args dirs sub) ++ K) s ->
    wf_selection (SField alias n args dirs sub) = true -> sel_follow K ->
    (recur s + (depth_selection (SField alias n args dirs sub) - 1) <= max_recursion)%Z ->
    (length (tokens_selection (SField alias n args dirs sub)) < fuel)%nat ->
    (forall ss, sub = Some ss -> forall s', ml (tokens_selset ss ++ K) s' -> recur s' = (recur s + 2)%Z ->
                                             csat pss s' (cpost ss K (recur s + 2)%Z)) ->
    csat (parse_field eof_pos eof_errs fuel pss) s (cpost (SField alias n args dirs sub) K (recur s)).
  Proof.
    intros H W (N1 & N2 & N3 & N4) D F Hsub. rewrite tokens_selection_field in H.
    cbn [wf_selection depth_selection] in W, D. apply andb_true_iff in W as [W12 W3]. apply andb_true_iff in W12 as [W1 W2].
    pose proof (depth_arguments_pos args) as Dp1. pose proof (depth_directives_pos dirs) as Dp2.
    unfold depth_name in *.
    assert (Fa : (length (tokens_arguments args) < fuel)%nat /\ (length (tokens_directives dirs) < fuel)%nat).
    { cbn [tokens_selection] in F. rewrite !app_length in F. cbn [length] in F. rewrite !app_length in F. lia. }
    destruct Fa as [Fa Fd].
    unfold parse_field. apply csat_enter; [lia|].
    match goal with |- csat _ ?x _ => set (s1 := x) end.
    assert (H1 := proj2 (ml_recur _ s (recur s + 1)%Z) H); fold s1 in H1.
    assert (R1 : recur s1 = (recur s + 1)%Z) by reflexivity.
    set (Krest := tokens_arguments args ++ tokens_directives dirs ++ tokens_opt_selset sub ++ K) in *.
    assert (Ncolon : nf b_colon Krest).
    { unfold Krest. apply nf_arguments; [reflexivity|]. apply nf_directives; [reflexivity|].
      apply nf_opt_selset; [reflexivity|exact N1]. }
    assert (Htail : forall s3, ml Krest s3 -> recur s3 = (recur s + 1)%Z ->
              csat (args0 <- parse_optional_arguments eof_pos eof_errs fuel ;;
                    dirs0 <- parse_optional_directives eof_pos eof_errs fuel ;;
                    sub0 <- parse_optional_selection_set eof_pos pss ;;
                    exit_ ;;; ret (SField alias n args0 dirs0 sub0)) s3
                   (cpost (SField alias n args dirs sub) K (recur s))).
    { intros s3 H3 R3. unfold Krest in H3.
      cuse arguments_complete; [exact H3|exact W1| |lia|exact Fa|].
      { intros _. apply nf_directives; [reflexivity|]. apply nf_opt_selset; [reflexivity|exact N2]. }
      intros a s4 (-> & H4 & R4).
      cuse directives_complete; [exact H4|exact W2| | |lia|exact Fd|].
      { apply nf_opt_selset; [reflexivity|exact N2]. }
      { apply nf_opt_selset; [reflexivity|exact N3]. }
      intros a s5 (-> & H5 & R5).
      cuse opt_selset_complete; [exact H5|intros _; exact N4| | |].
      { unfold depth_opt_selset. destruct sub; lia. }
      { intros ss Hss s' Hs' Rs'. rewrite R5, R4, R3. replace (recur s + 1 + 1)%Z with (recur s + 2)%Z by lia.
        apply (Hsub ss Hss s' Hs'). lia. }
      intros a s6 (-> & H6 & R6). apply csat_exit. apply csat_ret.
      split; [reflexivity|]. split; [apply ml_recur; exact H6|]. cbn [recur]. lia. }
    destruct alias as [a|]; cbn [app] in H1.
    - cuse parse_name_complete; [exact H1|unfold depth_name; lia|]. intros a0 s2 (-> & H2 & R2).
      apply csat_peek. test H2.
      eapply csat_bind with (P := cpost (Some a, n) Krest (recur s + 1)%Z).
      { apply (csat_eat _ _ _ _ _ _ H2). intros s3 H3 R3.
        cuse parse_name_complete; [exact H3|unfold depth_name; lia|]. intros a0 s4 (-> & H4 & R4).
        apply csat_ret. split; [reflexivity|]. split; [exact H4|lia]. }
      intros an s3 (-> & H3 & R3). cbn [fst snd]. apply Htail; assumption.
    - cuse parse_name_complete; [exact H1|unfold depth_name; lia|]. intros a0 s2 (-> & H2 & R2).
      apply csat_peek. rewrite (is_punct_nf _ _ _ H2 Ncolon).
      eapply csat_bind with (P := cpost (None, n) Krest (recur s + 1)%Z).
      { apply csat_ret. split; [reflexivity|]. split; [exact H2|lia]. }
      intros an s3 (-> & H3 & R3). cbn [fst snd]. apply Htail; assumption.
  Qed.

  Definition sel_stmt (x : selection) : Prop :=
    forall K s f,
      ml (tokens_selection x ++ K) s -> wf_selection x = true -> sel_follow K ->
      (recur s + depth_selection x <= max_recursion)%Z -> (length (tokens_selection x) < f)%nat ->
      csat (parse_selection eof_pos eof_errs false f (parse_selection_set eof_pos eof_errs false f)) s
           (cpost x K (recur s)).

  Definition selset_stmt (ss : selset) : Prop :=
    forall K s fuel,
      ml (tokens_selset ss ++ K) s -> wf_selset ss = true ->
      (recur s + depth_selset ss <= max_recursion)%Z -> (length (tokens_selset ss) < fuel)%nat ->
      csat (parse_selection_set eof_pos eof_errs false fuel) s (cpost ss K (recur s)).

  Lemma tokens_selection_nonempty x : (1 <= length (tokens_selection x))%nat.
  Proof.
    destruct x as [alias n args dirs sub|n dirs e|cond dirs sub e]; cbn [tokens_selection length]; try lia.
    rewrite app_length. cbn [length]. lia.
  Qed.

  Lemma field_case alias n args dirs sub :
    (forall ss, sub = Some ss -> selset_stmt ss) -> sel_stmt (SField alias n args dirs sub).
  Proof.
    intros Hss K s f H W N D F. unfold parse_selection.
    assert (Dp : (recur s + 1 <= max_recursion)%Z).
    { cbn [depth_selection] in D. unfold depth_name in D. lia. }
    apply csat_enter; [exact Dp|]. apply csat_peek.
    match goal with |- context [is_punct b_ellipsis (pk ?x)] => set (s1 := x) end.
    assert (H1 := proj2 (ml_recur _ s (recur s + 1)%Z) H); fold s1 in H1.
    assert (Hb : is_punct b_ellipsis (pk s1) = false).
    { rewrite tokens_selection_field in H1. destruct alias; cbn [app] in H1; test H1; reflexivity. }
    rewrite Hb. cbn [negb].
    cuse field_complete; [exact H1|exact W|exact N|subst s1; cbn [recur]; lia|exact F| |].
    { intros ss Hs s' Hs' Rs'. subst s1. cbn [recur] in *. rewrite <- Rs'.
      apply (Hss ss Hs K s' f Hs').
      - subst sub. cbn [wf_selection] in W. apply andb_true_iff in W as [_ W]. exact W.
      - subst sub. cbn [depth_selection] in D. lia.
      - subst sub. cbn [tokens_selection] in F. rewrite !app_length in F. cbn [length] in F. rewrite !app_length in F. lia. }
    intros a s2 (-> & H2 & R2). apply csat_exit. apply csat_ret.
    split; [reflexivity|]. split; [apply ml_recur; exact H2|]. subst s1. cbn [recur] in *. lia.
  Qed.

  Lemma selection_complete_both : (forall x, sel_stmt x) /\ (forall ss, selset_stmt ss).
  Proof.
    apply selection_ind'.
    - (* field without selection set *)
      intros alias n args dirs. apply field_case. intros ss Hs; discriminate.
    - (* field with selection set *)
      intros alias n args dirs ss IH. apply field_case. intros ss' Hs. inversion Hs; subst; exact IH.
    - (* fragment spread *)
      intros n dirs e K s f H W (N1 & N2 & N3 & N4) D F. unfold parse_selection.
      cbn [tokens_selection app wf_selection depth_selection length] in *. unfold depth_name in *.
      apply andb_true_iff in W as [W1 W2]. apply negb_true_iff in W1.
      pose proof (depth_directives_pos dirs) as Dp.
      apply csat_enter; [lia|]. apply csat_peek.
      match goal with |- context [is_punct b_ellipsis (pk ?x)] => set (s1 := x) end.
      assert (H1 := proj2 (ml_recur _ s (recur s + 1)%Z) H); fold s1 in H1.
      test H1. apply (csat_eat _ _ _ _ _ _ H1). intros s2 H2 R2. apply csat_peek.
      rewrite (is_name_ml _ _ _ H2), (tv_ml _ _ _ H2). cbn [ek ev e_ident e_name kind_eqb andb]. rewrite W1. cbn [negb].
      cuse parse_name_complete; [exact H2|subst s1; cbn [recur] in *; unfold depth_name; lia|].
      intros a s3 (-> & H3 & R3).
      cuse directives_complete; [exact H3|exact W2|exact N2|exact N3|subst s1; cbn [recur] in *; lia|lia|].
      intros a s4 (-> & H4 & R4). apply csat_exit. apply csat_ret.
      rewrite (tp_ml _ _ _ e H1); [|reflexivity].
      split; [reflexivity|]. split; [apply ml_recur; exact H4|]. subst s1. cbn [recur] in *. lia.
    - (* inline fragment *)
      intros cond dirs ss e IH K s f H W _ D F. unfold parse_selection.
      cbn [tokens_selection app wf_selection depth_selection length] in *.
      apply andb_true_iff in W as [W1 W2].
      pose proof (depth_directives_pos dirs) as Dp. pose proof (depth_selset_pos ss) as Dp2.
      apply csat_enter; [lia|]. apply csat_peek.
      match goal with |- context [is_punct b_ellipsis (pk ?x)] => set (s1 := x) end.
      assert (H1 := proj2 (ml_recur _ s (recur s + 1)%Z) H); fold s1 in H1.
      test H1. apply (csat_eat _ _ _ _ _ _ H1). intros s2 H2 R2. apply csat_peek.
      rewrite <- !app_assoc in H2. rewrite !app_length in F.
      set (Krest := tokens_directives dirs ++ tokens_selset ss ++ K) in *.
      assert (Htest : is_name (pk s2) && negb (bytes_eqb (tv (pk s2)) b_on) = false /\
                      is_name (pk s2) = match cond with Some _ => true | None => false end).
      { destruct cond as [c|]; cbn [tokens_opt_type_condition tokens_type_condition app] in H2.
        - rewrite (is_name_ml _ _ _ H2), (tv_ml _ _ _ H2). cbn [ek ev kind_eqb andb]. split; reflexivity.
        - unfold Krest in H2. destruct dirs as [|d dirs'].
          + cbn [tokens_directives flat_map app] in H2. destruct ss. rewrite tokens_selset_eq in H2. cbn [app] in H2.
            rewrite (is_name_ml _ _ _ H2). split; reflexivity.
          + unfold tokens_directives, tokens_directive in H2. cbn [flat_map app] in H2.
            rewrite (is_name_ml _ _ _ H2). split; reflexivity. }
      destruct Htest as [Ht1 Ht2]. rewrite Ht1, Ht2.
      eapply csat_bind with (P := cpost cond Krest (recur s + 1)%Z).
      { destruct cond as [c|]; cbn [tokens_opt_type_condition app] in H2.
        - cuse type_condition_complete; [exact H2|subst s1; cbn [recur] in *; lia|].
          intros a s3 (-> & H3 & R3). apply csat_ret. split; [reflexivity|]. split; [exact H3|]. subst s1. cbn [recur] in *. lia.
        - apply csat_ret. split; [reflexivity|]. split; [exact H2|]. subst s1. cbn [recur] in *. lia. }
      intros a s3 (-> & H3 & R3). unfold Krest in H3.
      cuse directives_complete; [exact H3|exact W1| | |lia|lia|].
      { apply nf_selset. reflexivity. }
      { apply nf_selset. reflexivity. }
      intros a s4 (-> & H4 & R4).
      eapply csat_bind.
      { apply (IH K s4 f H4 W2); [lia|lia]. }
      intros a s5 (-> & H5 & R5). apply csat_exit. apply csat_ret.
      rewrite (tp_ml _ _ _ e H1); [|reflexivity].
      split; [reflexivity|]. split; [apply ml_recur; exact H5|]. cbn [recur] in *. lia.
    - (* selection set *)
      intros sels o c IH K s fuel H W D F.
      rewrite tokens_selset_eq in H, F. rewrite wf_selset_eq in W. rewrite depth_selset_eq in D.
      apply andb_true_iff in W as [Wn W]. cbn [app length] in H, F. rewrite app_length in F. cbn [length] in F.
      destruct fuel as [|f]; [lia|]. cbn [parse_selection_set].
      pose proof (maxl_nonneg (map depth_selection sels)) as Hmx.
      apply csat_enter; [lia|]. apply csat_peek.
      match goal with |- context [is_punct b_lbrace (pk ?x)] => set (s1 := x) end.
      assert (H1 := proj2 (ml_recur _ s (recur s + 1)%Z) H); fold s1 in H1.
      test H1. apply (csat_eat _ _ _ _ _ _ H1). intros s2 H2 R2. rewrite <- app_assoc in H2.
      eapply csat_bind.
      { apply (many_complete _ tokens_selection (stop_at eof_pos b_rbrace)
                             (parse_selection eof_pos eof_errs false f (parse_selection_set eof_pos eof_errs false f))
                             (recur s + 1)%Z ([e_punct b_rbrace c] ++ K) sel_follow) with (xs := sels).
        - intros s' Hs'. unfold stop_at. cbn [app] in Hs'. test Hs'. reflexivity.
        - apply sel_follow_rbrace.
        - intros x K' _. apply sel_follow_selection.
        - intros x K' s' Hin Hm Hr HK'. split.
          + unfold stop_at.
            destruct x as [[a|] n args dirs sub|n dirs e|cond dirs sub e]; cbn [tokens_selection app] in Hm;
              test Hm; reflexivity.
          + rewrite <- Hr. rewrite Forall_forall in IH. apply (IH x Hin K' s' f Hm).
            * rewrite forallb_forall in W. apply W; exact Hin.
            * exact HK'.
            * pose proof (maxl_in _ _ (in_map depth_selection _ _ Hin)). lia.
            * pose proof (flat_map_length_in tokens_selection x sels Hin). lia.
        - pose proof (flat_map_length_ge tokens_selection sels (fun x _ => tokens_selection_nonempty x)). lia.
        - exact H2.
        - subst s1. cbn [recur] in R2. exact R2. }
      intros a s3 (-> & H3 & R3). cbn [app] in H3. apply csat_peek.
      destruct sels as [|x0 sels0]; [discriminate|].
      apply (csat_eat _ _ _ _ _ _ H3). intros s4 H4 R4. apply csat_exit. apply csat_ret.
      rewrite (tp_ml _ _ _ o H1), (tp_ml _ _ _ c H3); try reflexivity.
      split; [reflexivity|]. split; [apply ml_recur; exact H4|]. cbn [recur]. lia.
  Qed.

  Lemma selset_complete ss : selset_stmt ss.
  Proof. apply selection_complete_both. Qed.

  (** ** variable definitions *)

  Lemma vardef_eta vd v t d : v = vd_var vd -> t = vd_type vd -> d = vd_default vd -> mkvd v t d = vd.
  Proof. destruct vd; simpl; intros -> -> ->; reflexivity. Qed.

  Definition tokens_default (d : option value) : list etok :=
    match d with Some v => e_punct_ b_eq :: tokens_value v | None => [] end.

  Lemma vardef_complete vd K s fuel :
    ml (tokens_vardef vd ++ K) s -> wf_vardef vd = true -> nf b_bang K -> nf b_eq K ->
    (recur s + depth_vardef vd <= max_recursion)%Z -> (length (tokens_vardef vd) < fuel)%nat ->
    csat (parse_variable_definition eof_pos eof_errs fuel) s (cpost vd K (recur s)).
  Proof.
    intros H W N1 N2 D F. unfold parse_variable_definition, tokens_vardef, wf_vardef, depth_vardef in *.
    apply andb_true_iff in W as [W1 W2]. pose proof (depth_type_pos (vd_type vd)) as Dp.
    unfold depth_variable, depth_name in *. rewrite <- app_assoc in H. cbn [app] in H. rewrite <- app_assoc in H.
    rewrite app_length in F. cbn [length] in F. rewrite app_length in F.
    fold (tokens_default (vd_default vd)) in H, F.
    apply csat_enter; [lia|].
    cuse parse_variable_complete; [apply ml_recur; exact H|cbn [recur]; unfold depth_variable, depth_name; lia|].
    intros v s2 (-> & H2 & R2). apply csat_peek. test H2.
    apply (csat_eat _ _ _ _ _ _ H2). intros s3 H3 R3.
    cuse type_complete; [exact H3|exact W1| |cbn [recur] in *; lia|lia|].
    { destruct (vd_default vd); cbn [tokens_default app nf]; [reflexivity|exact N1]. }
    intros t s4 (-> & H4 & R4). apply csat_peek.
    eapply csat_bind with (P := cpost (vd_default vd) K (recur s + 1)%Z).
    { destruct (vd_default vd) as [dv|]; cbn [tokens_default app length] in *.
      - test H4. apply (csat_eat _ _ _ _ _ _ H4). intros s5 H5 R5.
        cuse value_complete; [exact H5|exact W2|cbn [recur] in *; lia|lia|].
        intros a s6 (-> & H6 & R6). apply csat_ret. split; [reflexivity|]. split; [exact H6|]. cbn [recur] in *. lia.
      - rewrite (is_punct_nf _ _ _ H4 N2). apply csat_ret. split; [reflexivity|]. split; [exact H4|]. cbn [recur] in *. lia. }
    intros d s5 (-> & H5 & R5). apply csat_exit. apply csat_ret.
    split; [apply vardef_eta; reflexivity|]. split; [apply ml_recur; exact H5|]. cbn [recur]. lia.
  Qed.

  Lemma tokens_vardef_nonempty vd : (1 <= length (tokens_vardef vd))%nat.
  Proof. unfold tokens_vardef, tokens_variable. cbn [app length]. lia. Qed.

  Lemma tokens_vardefs_parens vds : tokens_vardefs vds = tokens_parens tokens_vardef vds.
  Proof. reflexivity. Qed.

  Lemma vardefs_complete vds K s fuel :
    ml (tokens_vardefs vds ++ K) s -> forallb wf_vardef vds = true ->
    (vds = [] -> nf b_lparen K) ->
    (recur s + depth_vardefs vds <= max_recursion)%Z -> (length (tokens_vardefs vds) < fuel)%nat ->
    csat (parse_optional_variable_definitions eof_pos eof_errs fuel) s (cpost vds K (recur s)).
  Proof.
    intros H W N D F. unfold parse_optional_variable_definitions.
    apply (optional_parens_complete _ tokens_vardef depth_vardef _ (fun K' => nf b_bang K' /\ nf b_eq K')); try assumption.
    - intros; apply tokens_vardef_nonempty.
    - split; reflexivity.
    - intros x K' _. unfold tokens_vardef, tokens_variable. cbn [app nf]. split; reflexivity.
    - intros x K' s' Hin Hm Hr [G1 G2]. split.
      + unfold tokens_vardef, tokens_variable in Hm. cbn [app] in Hm. test Hm. reflexivity.
      + rewrite <- Hr. apply vardef_complete; [exact Hm| |exact G1|exact G2| |].
        * rewrite forallb_forall in W. apply W; exact Hin.
        * unfold depth_vardefs in D. pose proof (maxl_in _ _ (in_map depth_vardef _ _ Hin)). lia.
        * rewrite tokens_vardefs_parens in F. unfold tokens_parens in F. destruct vds as [|a0 vds0]; [destruct Hin|].
          cbn [length] in F. rewrite app_length in F.
          pose proof (flat_map_length_in tokens_vardef x (a0 :: vds0) Hin). lia.
  Qed.

  (** ** definitions *)

  Lemma optype_eta o t : tv t = ot_value o -> tp t = ot_pos o -> mkot (tv t) (tp t) = o.
  Proof. destruct o; simpl; intros -> ->; reflexivity. Qed.

  Lemma operation_type_complete o K s :
    ml (e_name (ot_value o) (ot_pos o) :: K) s -> is_optype_name (ot_value o) = true ->
    (recur s + 1 <= max_recursion)%Z ->
    csat (parse_operation_type eof_pos eof_errs) s (cpost o K (recur s)).
  Proof.
    intros H W D. unfold parse_operation_type. apply csat_enter; [lia|]. apply csat_peek.
    match goal with |- context [is_operation_type (pk ?x)] => set (s1 := x) end.
    assert (H1 := proj2 (ml_recur _ s (recur s + 1)%Z) H); fold s1 in H1.
    unfold is_operation_type. rewrite (is_name_ml _ _ _ H1), (tv_ml _ _ _ H1). cbn [ek ev e_name kind_eqb andb].
    unfold is_optype_name in W. rewrite W. cbn [negb].
    apply (csat_eat _ _ _ _ _ _ H1). intros s2 H2 R2. apply csat_exit. apply csat_ret.
    split; [rewrite (tp_ml _ _ _ (ot_pos o) H1); [destruct o; reflexivity|reflexivity]|].
    split; [apply ml_recur; exact H2|]. subst s1. cbn [recur] in *. lia.
  Qed.

  Definition tokens_opt_name (n : option ident) : list etok :=
    match n with Some i => [e_ident i] | None => [] end.

  Lemma tokens_definition_op o n vars dirs sub K :
    tokens_definition (DOp (Some o) n vars dirs sub) ++ K =
    e_name (ot_value o) (ot_pos o) :: tokens_opt_name n ++ tokens_vardefs vars ++ tokens_directives dirs ++
    tokens_selset sub ++ K.
  Proof. cbn [tokens_definition app]. f_equal. rewrite <- !app_assoc. reflexivity. Qed.

  Lemma operation_definition_complete d K s fuel :
    match d with DOp _ _ _ _ _ => True | DFrag _ _ _ _ _ => False end ->
    ml (tokens_definition d ++ K) s -> wf_definition d = true ->
    (recur s + (depth_definition d - 1) <= max_recursion)%Z -> (length (tokens_definition d) < fuel)%nat ->
    csat (parse_operation_definition eof_pos eof_errs false fuel) s (cpost d K (recur s)).
  Proof.
    intros Hd H W D F. destruct d as [[o|] n vars dirs sub|]; [| |destruct Hd]; unfold parse_operation_definition.
    - (* operation with a type *)
      rewrite tokens_definition_op in H. cbn [wf_definition depth_definition] in W, D.
      apply andb_true_iff in W as [W123 W4]. apply andb_true_iff in W123 as [W12 W3]. apply andb_true_iff in W12 as [W1 W2].
      pose proof (depth_selset_pos sub) as Dp.
      cbn [tokens_definition app length] in F. rewrite !app_length in F.
      apply csat_enter; [lia|].
      match goal with |- csat _ ?x _ => set (s1 := x) end.
      assert (H1 := proj2 (ml_recur _ s (recur s + 1)%Z) H); fold s1 in H1.
      cuse (opt_selset_complete (parse_selection_set eof_pos eof_errs false fuel) None); [exact H1|intros _; reflexivity| |intros ss Hs; discriminate|].
      { unfold depth_opt_selset. subst s1. cbn [recur]. lia. }
      intros a s2 (-> & H2 & R2).
      eapply csat_bind with (P := cpost (DOp (Some o) n vars dirs sub) K (recur s + 1)%Z).
      2:{ intros a s3 (-> & H3 & R3). apply csat_exit. apply csat_ret.
          split; [reflexivity|]. split; [apply ml_recur; exact H3|]. cbn [recur]. lia. }
      cuse operation_type_complete; [exact H2|exact W1|subst s1; cbn [recur] in *; lia|].
      intros a s3 (-> & H3 & R3). apply csat_peek.
      set (Krest := tokens_vardefs vars ++ tokens_directives dirs ++ tokens_selset sub ++ K) in *.
      assert (Hname : is_name (pk s3) = match n with Some _ => true | None => false end).
      { destruct n as [i|]; cbn [tokens_opt_name app] in H3.
        - rewrite (is_name_ml _ _ _ H3). reflexivity.
        - unfold Krest in H3. destruct vars as [|v vars'].
          + cbn [tokens_vardefs app] in H3. destruct dirs as [|d dirs'].
            * cbn [tokens_directives flat_map app] in H3. destruct sub. rewrite tokens_selset_eq in H3. cbn [app] in H3.
              rewrite (is_name_ml _ _ _ H3). reflexivity.
            * unfold tokens_directives, tokens_directive in H3. cbn [flat_map app] in H3.
              rewrite (is_name_ml _ _ _ H3). reflexivity.
          + cbn [tokens_vardefs app] in H3. rewrite (is_name_ml _ _ _ H3). reflexivity. }
      rewrite Hname.
      eapply csat_bind with (P := cpost n Krest (recur s + 1)%Z).
      { destruct n as [i|]; cbn [tokens_opt_name app] in H3.
        - cuse parse_name_complete; [exact H3|subst s1; cbn [recur] in *; unfold depth_name in *; lia|].
          intros a s4 (-> & H4 & R4). apply csat_ret. split; [reflexivity|]. split; [exact H4|]. subst s1. cbn [recur] in *. lia.
        - apply csat_ret. split; [reflexivity|]. split; [exact H3|]. subst s1. cbn [recur] in *. lia. }
      intros a s4 (-> & H4 & R4). unfold Krest in H4.
      cuse vardefs_complete; [exact H4|exact W2| |lia|lia|].
      { intros _. apply nf_directives; [reflexivity|]. apply nf_selset. reflexivity. }
      intros a s5 (-> & H5 & R5).
      cuse directives_complete; [exact H5|exact W3| | |lia|lia|].
      { apply nf_selset. reflexivity. }
      { apply nf_selset. reflexivity. }
      intros a s6 (-> & H6 & R6).
      eapply csat_bind.
      { apply (selset_complete sub K s6 fuel H6 W4); lia. }
      intros a s7 (-> & H7 & R7). apply csat_ret. split; [reflexivity|]. split; [exact H7|lia].
    - (* shorthand *)
      cbn [wf_definition depth_definition tokens_definition] in *.
      destruct n; [discriminate|]. destruct vars; [|discriminate]. destruct dirs; [|discriminate].
      cbn [tokens_vardefs tokens_directives flat_map app] in *.
      pose proof (depth_selset_pos sub) as Dp.
      apply csat_enter; [lia|].
      match goal with |- csat _ ?x _ => set (s1 := x) end.
      assert (H1 := proj2 (ml_recur _ s (recur s + 1)%Z) H); fold s1 in H1.
      cuse (opt_selset_complete (parse_selection_set eof_pos eof_errs false fuel) (Some sub)); [exact H1|intros Hs; discriminate| | |].
      { unfold depth_opt_selset. subst s1. cbn [recur]. lia. }
      { intros ss Hs s' Hs' Rs'. inversion Hs; subst ss. rewrite <- Rs'.
        apply (selset_complete sub K s' fuel Hs' W); [subst s1; cbn [recur] in *; lia|exact F]. }
      intros a s2 (-> & H2 & R2).
      eapply csat_bind with (P := cpost (DOp None None [] [] sub) K (recur s + 1)%Z).
      { apply csat_ret. split; [reflexivity|]. split; [exact H2|exact R2]. }
      intros a s3 (-> & H3 & R3). apply csat_exit. apply csat_ret.
      split; [reflexivity|]. split; [apply ml_recur; exact H3|]. cbn [recur]. lia.
  Qed.

  Lemma definition_complete d K s fuel :
    ml (tokens_definition d ++ K) s -> wf_definition d = true ->
    (recur s + depth_definition d <= max_recursion)%Z -> (length (tokens_definition d) < fuel)%nat ->
    csat (parse_definition eof_pos eof_errs false fuel) s (cpost d K (recur s)).
  Proof.
    intros H W D F. unfold parse_definition.
    assert (Dp : (recur s + 2 <= max_recursion)%Z).
    { destruct d as [[o|] n vars dirs sub|kw n cond dirs sub]; cbn [depth_definition] in D;
        unfold depth_type_condition, depth_named_type, depth_name in D; lia. }
    apply csat_enter; [lia|].
    match goal with |- csat _ ?x _ => set (s1 := x) end.
    assert (H1 := proj2 (ml_recur _ s (recur s + 1)%Z) H); fold s1 in H1.
    unfold parse_optional_fragment_definition.
    eapply csat_bind with
        (P := fun o s' => match d with
                          | DFrag _ _ _ _ _ => cpost (Some d) K (recur s + 1)%Z o s'
                          | DOp _ _ _ _ _ => cpost None (tokens_definition d ++ K) (recur s + 1)%Z o s'
                          end).
    - apply csat_enter; [subst s1; cbn [recur]; lia|]. apply csat_peek.
      match goal with |- context [is_kw b_fragment (pk ?x)] => set (s2 := x) end.
      assert (H2 := proj2 (ml_recur _ s1 (recur s1 + 1)%Z) H1); fold s2 in H2.
      destruct d as [[o|] n vars dirs sub|kw n cond dirs sub].
      + (* typed operation: the first token is query / mutation / subscription *)
        assert (Hk : is_kw b_fragment (pk s2) = false).
        { rewrite tokens_definition_op in H2. rewrite (is_kw_ml _ _ _ _ H2). cbn [e_is_kw ek ev e_name kind_eqb andb].
          cbn [wf_definition] in W. apply andb_true_iff in W as [W _]. apply andb_true_iff in W as [W _].
          apply andb_true_iff in W as [W _]. unfold is_optype_name in W.
          destruct (bytes_eqb (ot_value o) b_fragment) eqn:E; [|reflexivity].
          apply bytes_eqb_eq in E. rewrite E in W. discriminate. }
        rewrite Hk.
        eapply csat_bind with (P := cpost None (tokens_definition (DOp (Some o) n vars dirs sub) ++ K) (recur s + 2)%Z).
        { apply csat_ret. split; [reflexivity|]. split; [exact H2|]. subst s1 s2. cbn [recur]. lia. }
        intros a s3 (-> & H3 & R3). apply csat_exit. apply csat_ret.
        split; [reflexivity|]. split; [apply ml_recur; exact H3|]. cbn [recur]. lia.
      + assert (Hk : is_kw b_fragment (pk s2) = false).
        { cbn [wf_definition tokens_definition] in *. destruct n; [discriminate|]. destruct vars; [|discriminate].
          destruct dirs; [|discriminate]. cbn [tokens_vardefs tokens_directives flat_map app] in H2.
          destruct sub. rewrite tokens_selset_eq in H2. cbn [app] in H2. test H2. reflexivity. }
        rewrite Hk.
        eapply csat_bind with (P := cpost None (tokens_definition (DOp None n vars dirs sub) ++ K) (recur s + 2)%Z).
        { apply csat_ret. split; [reflexivity|]. split; [exact H2|]. subst s1 s2. cbn [recur]. lia. }
        intros a s3 (-> & H3 & R3). apply csat_exit. apply csat_ret.
        split; [reflexivity|]. split; [apply ml_recur; exact H3|]. cbn [recur]. lia.
      + (* fragment definition *)
        cbn [tokens_definition app wf_definition depth_definition length] in *.
        apply andb_true_iff in W as [W12 W3]. apply andb_true_iff in W12 as [W1 W2]. apply negb_true_iff in W1.
        rewrite <- !app_assoc in H2. rewrite !app_length in F.
        pose proof (depth_selset_pos sub) as Dp2. pose proof (depth_directives_pos dirs) as Dp3.
        unfold depth_type_condition, depth_named_type, depth_name in *.
        test H2.
        eapply csat_bind with (P := cpost (Some (DFrag kw n cond dirs sub)) K (recur s + 2)%Z).
        2:{ intros a s3 (-> & H3 & R3). apply csat_exit. apply csat_ret.
            split; [reflexivity|]. split; [apply ml_recur; exact H3|]. cbn [recur]. lia. }
        apply (csat_eat _ _ _ _ _ _ H2). intros s3 H3 R3. apply csat_peek.
        rewrite (is_name_ml _ _ _ H3), (tv_ml _ _ _ H3). cbn [ek ev e_ident e_name kind_eqb negb orb]. rewrite W1.
        assert (R3' : recur s3 = (recur s + 2)%Z) by (subst s1 s2; cbn [recur] in *; lia).
        cuse parse_name_complete; [exact H3|unfold depth_name; lia|]. intros a s4 (-> & H4 & R4).
        cuse type_condition_complete; [exact H4|unfold depth_type_condition, depth_named_type, depth_name; lia|].
        intros a s5 (-> & H5 & R5).
        cuse directives_complete; [exact H5|exact W2| | |lia|lia|].
        { apply nf_selset. reflexivity. }
        { apply nf_selset. reflexivity. }
        intros a s6 (-> & H6 & R6).
        eapply csat_bind.
        { apply (selset_complete sub K s6 fuel H6 W3); lia. }
        intros a s7 (-> & H7 & R7). apply csat_ret.
        rewrite (tp_ml _ _ _ kw H2); [|reflexivity].
        split; [reflexivity|]. split; [exact H7|lia].
    - intros o s2 HP.
      eapply csat_bind with (P := cpost d K (recur s + 1)%Z).
      2:{ intros a s3 (-> & H3 & R3). apply csat_exit. apply csat_ret.
          split; [reflexivity|]. split; [apply ml_recur; exact H3|]. cbn [recur]. lia. }
      destruct d as [ot n vars dirs sub|kw n cond dirs sub].
      + destruct HP as (-> & H2 & R2). rewrite <- R2.
        apply operation_definition_complete; [exact I|exact H2|exact W|lia|exact F].
      + destruct HP as (-> & H2 & R2). apply csat_ret. split; [reflexivity|]. split; assumption.
  Qed.

  Lemma tokens_definition_nonempty d : (1 <= length (tokens_definition d))%nat.
  Proof.
    destruct d as [ot n vars dirs [sels o c]|kw n cond dirs sub]; cbn [tokens_definition length]; [|lia].
    rewrite tokens_selset_eq. rewrite !app_length. cbn [length]. lia.
  Qed.

  Lemma document_complete d s fuel :
    ml (tokens_document d) s -> wf_document d = true ->
    (recur s + depth_document d <= max_recursion)%Z -> (length (tokens_document d) < fuel)%nat ->
    csat (parse_document eof_pos eof_errs false fuel) s (fun a s' => a = d /\ toks s' = [] /\ recur s' = recur s).
  Proof.
    intros H W D F. unfold parse_document, wf_document, depth_document, tokens_document in *.
    apply andb_true_iff in W as [Wn W]. pose proof (maxl_nonneg (map depth_definition d)) as Hmx.
    apply csat_enter; [lia|].
    eapply csat_bind.
    { apply (many_complete _ tokens_definition at_eof_b (parse_definition eof_pos eof_errs false fuel)
                           (recur s + 1)%Z [] (fun _ => True)) with (xs := d).
      - intros s' Hs'. unfold at_eof_b. rewrite (ml_nil _ Hs'). reflexivity.
      - exact I.
      - intros; exact I.
      - intros x K' s' Hin Hm Hr _. split.
        + unfold at_eof_b. pose proof (tokens_definition_nonempty x) as Hne.
          destruct (tokens_definition x) as [|e es] eqn:E; [cbn [length] in Hne; lia|]. cbn [app] in Hm.
          destruct (ml_cons _ _ _ Hm) as (t & r & Et & _). rewrite Et. reflexivity.
        + rewrite <- Hr. apply definition_complete; [exact Hm| | |].
          * rewrite forallb_forall in W. apply W; exact Hin.
          * pose proof (maxl_in _ _ (in_map depth_definition _ _ Hin)). lia.
          * pose proof (flat_map_length_in tokens_definition x d Hin). lia.
      - pose proof (flat_map_length_ge tokens_definition d (fun x _ => tokens_definition_nonempty x)). lia.
      - rewrite app_nil_r. apply ml_recur. exact H.
      - reflexivity. }
    intros a s2 (-> & H2 & R2). destruct d as [|d0 d']; [discriminate|].
    apply csat_exit. apply csat_ret. split; [reflexivity|]. cbn [toks recur]. split; [apply (ml_nil _ H2)|lia].
  Qed.

  Lemma value_top_complete v s fuel :
    ml (tokens_value v) s -> wf_value false v = true ->
    (recur s + depth_value v <= max_recursion)%Z -> (length (tokens_value v) < fuel)%nat ->
    csat (parse_value_top eof_pos eof_errs fuel) s (fun a s' => a = v /\ toks s' = [] /\ recur s' = recur s).
  Proof.
    intros H W D F. unfold parse_value_top.
    cuse value_complete; [rewrite app_nil_r; exact H|exact W|exact D|exact F|].
    intros a s2 (-> & H2 & R2). apply csat_at_eof. unfold at_eof_b. rewrite (ml_nil _ H2).
    apply csat_ret. split; [reflexivity|]. split; [apply (ml_nil _ H2)|exact R2].
  Qed.
End Complete.
