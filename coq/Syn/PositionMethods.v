(** * Syn/PositionMethods.v — C06: the [Position()] methods of graphql/ast/ast.go that Syn/Ast.v does
    not already have, and the list of all [Position()] results of a tree in a fixed pre-order (the
    order of harness/cmd/c06/posm.go), by which the check compares the model's [*_pos] functions
    with the real methods on every parsed tree.  No proofs in this file.

    Document.Position() is the constant {1, 1} — not a recorded position — and is left out. *)
From Coq Require Import List NArith.
From ApiFu Require Import Base.Sexp Syn.Ast Syn.Printer.
Import ListNotations.

Definition ident_pos (i : ident) : pos := id_pos i.                        (* Name, NamedType *)
Definition variable_pos (x : variable) : pos := var_dollar x.
Definition argument_pos (a : argument) : pos := id_pos (arg_name a).
Definition object_field_pos (f : ident * value) : pos := id_pos (fst f).
Definition directive_pos (d : directive) : pos := dir_at d.
Definition vardef_pos (vd : vardef) : pos := var_dollar (vd_var vd).
Definition optype_pos (o : optype) : pos := ot_pos o.

(** every [Position()] of the tree: the node's own, then its children's, in source order *)
Definition pm_variable (x : variable) : list pos := [variable_pos x; ident_pos (var_name x)].

Fixpoint pm_value (v : value) : list pos :=
  match v with
  | VVar x => pm_variable x
  | VList vs _ _ => value_pos v :: flat_map pm_value vs
  | VObject fs _ _ =>
      value_pos v :: flat_map (fun f => object_field_pos f :: ident_pos (fst f) :: pm_value (snd f)) fs
  | _ => [value_pos v]
  end.

Fixpoint pm_type (t : ty) : list pos :=
  ty_pos t ::
  match t with
  | TNamed n => [ident_pos n]
  | TList t' _ _ => pm_type t'
  | TNonNull t' => pm_type t'
  end.

Definition pm_argument (a : argument) : list pos :=
  argument_pos a :: ident_pos (arg_name a) :: pm_value (arg_value a).
Definition pm_directive (d : directive) : list pos :=
  directive_pos d :: ident_pos (dir_name d) :: flat_map pm_argument (dir_args d).
(** a NamedType and its Name *)
Definition pm_named_type (n : ident) : list pos := [ident_pos n; ident_pos n].

Fixpoint pm_selection (s : selection) : list pos :=
  selection_pos s ::
  match s with
  | SField alias n args dirs sub =>
      match alias with Some a => [ident_pos a] | None => [] end ++
      ident_pos n :: flat_map pm_argument args ++ flat_map pm_directive dirs ++
      match sub with Some ss => pm_selset ss | None => [] end
  | SSpread n dirs _ => ident_pos n :: flat_map pm_directive dirs
  | SInline cond dirs sub _ =>
      match cond with Some c => pm_named_type c | None => [] end ++
      flat_map pm_directive dirs ++ pm_selset sub
  end
with pm_selset (ss : selset) : list pos :=
  selset_pos ss ::
  match ss with
  | SelSet sels _ _ =>
      (fix go (l : list selection) : list pos :=
         match l with [] => [] | x :: r => pm_selection x ++ go r end) sels
  end.

Definition pm_vardef (vd : vardef) : list pos :=
  vardef_pos vd :: pm_variable (vd_var vd) ++ pm_type (vd_type vd) ++
  match vd_default vd with Some v => pm_value v | None => [] end.

Definition pm_definition (d : definition) : list pos :=
  definition_pos d ::
  match d with
  | DOp ot n vars dirs sub =>
      match ot with Some o => [optype_pos o] | None => [] end ++
      match n with Some i => [ident_pos i] | None => [] end ++
      flat_map pm_vardef vars ++ flat_map pm_directive dirs ++ pm_selset sub
  | DFrag _ n cond dirs sub =>
      ident_pos n :: pm_named_type cond ++ flat_map pm_directive dirs ++ pm_selset sub
  end.

Definition pm_document (d : document) : list pos := flat_map pm_definition d.

(** the position the printer puts on the first token of a node *)
Definition first_pos (es : list etok) : option pos :=
  match es with e :: _ => ep e | [] => None end.
