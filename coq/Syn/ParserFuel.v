(** * Syn/ParserFuel.v — the stated fuel suffices: run with [fuel > number of remaining
    tokens], no production of the parser model ever answers [OutOfFuel] (on any input, valid or
    not).  Every loop iteration and every recursive descent consumes at least one token. *)
From Coq Require Import List NArith ZArith Bool Lia.
From ApiFu Require Import Base.Sexp Syn.Ast Syn.ParserModel Syn.Printer Syn.ParserBase.
Import ListNotations.

Section Fuel.
  Variable eof_pos : pos.
  Variable eof_errs : list pos.
  Variable leak : bool.

  Local Notation pk := (peek_tok eof_pos).
  Local Notation len s := (length (toks s)).

  (** with fewer than [n] tokens left, [m] does not run out of fuel, never lengthens the input,
      and shortens it when the result satisfies [S] *)
  Definition progs {A} (n : nat) (S : A -> bool) (m : M A) (s : pstate) : Prop :=
    (len s < n)%nat ->
    match m s with
    | OutOfFuel => False
    | Ok a s' => if S a then (len s' < len s)%nat else (len s' <= len s)%nat
    | Fail _ => True
    end.

  Definition always {A} : A -> bool := fun _ => true.
  Definition never {A} : A -> bool := fun _ => false.

  Lemma progs_weaken A n (S S' : A -> bool) (m : M A) s :
    progs n S m s -> (forall a, S' a = true -> S a = true) -> progs n S' m s.
  Proof.
    unfold progs. intros H HS L. specialize (H L). destruct (m s) as [a s'| |]; auto.
    destruct (S' a) eqn:E.
    - rewrite (HS a E) in H. exact H.
    - destruct (S a); lia.
  Qed.

  Lemma progs_ret A n (a : A) S s : S a = false -> progs n S (ret a) s.
  Proof. unfold progs, ret. intros -> _. lia. Qed.

  Lemma progs_errorf A n (S : A -> bool) s : progs n S (errorf eof_pos) s.
  Proof. unfold progs, errorf. auto. Qed.

  Lemma progs_bind A B n (S1 : A -> bool) (S : B -> bool) (m : M A) (k : A -> M B) s :
    progs n S1 m s ->
    (forall a s1, progs n (fun b => negb (S1 a) && S b) (k a) s1) ->
    progs n S (bind m k) s.
  Proof.
    unfold progs, bind. intros Hm Hk L. specialize (Hm L). destruct (m s) as [a s1| |]; auto.
    assert (L1 : (len s1 < n)%nat) by (destruct (S1 a); lia).
    specialize (Hk a s1 L1). destruct (k a s1) as [b s2| |]; auto.
    destruct (S1 a); cbn [negb andb] in Hk; destruct (S b); lia.
  Qed.

  (** after a strict step the continuation may run with one unit of fuel less *)
  Lemma progs_bind_step A B n (S : B -> bool) (m : M A) (k : A -> M B) s :
    progs (Datatypes.S n) always m s ->
    (forall a s1, progs n never (k a) s1) ->
    progs (Datatypes.S n) S (bind m k) s.
  Proof.
    unfold progs, bind, always, never. intros Hm Hk L. specialize (Hm L). destruct (m s) as [a s1| |]; auto.
    assert (L1 : (len s1 < n)%nat) by lia.
    specialize (Hk a s1 L1). destruct (k a s1) as [b s2| |]; auto. destruct (S b); lia.
  Qed.

  Lemma progs_enter B n (S : B -> bool) (k : M B) s :
    (forall r, progs n S k (mkps (toks s) (errs s) r)) -> progs n S (enter eof_pos ;;; k) s.
  Proof.
    unfold progs, bind, enter. intros H L. destruct (max_recursion <? recur s + 1)%Z; [exact I|].
    apply (H (recur s + 1)%Z). exact L.
  Qed.

  Lemma progs_exit B n (S : B -> bool) (k : M B) s :
    (forall r, progs n S k (mkps (toks s) (errs s) r)) -> progs n S (exit_ ;;; k) s.
  Proof. unfold progs, bind, exit_. intros H L. apply (H (recur s - 1)%Z). exact L. Qed.

  Lemma progs_peek B n (S : B -> bool) (k : token -> M B) s :
    progs n S (k (pk s)) s -> progs n S (t <- peek eof_pos ;; k t) s.
  Proof. unfold progs, bind, peek. auto. Qed.

  Lemma progs_at_eof B n (S : B -> bool) (k : bool -> M B) s :
    progs n S (k (at_eof_b s)) s -> progs n S (e <- at_eof ;; k e) s.
  Proof. unfold progs, bind, at_eof. auto. Qed.

  (** consuming a real token is a strict step *)
  Lemma progs_consume B n (S : B -> bool) (k : M B) s :
    kind_eqb (tk (pk s)) KInvalid = false ->
    (forall s1, progs n never k s1) -> progs n S (consume eof_errs ;;; k) s.
  Proof.
    unfold progs, bind, consume, never. intros Hk H L.
    assert (Hl : (len (consume_state eof_errs s) < len s)%nat).
    { unfold consume_state, peek_tok in *. destruct (toks s) as [|t r]; [discriminate|]. cbn [toks length]. lia. }
    assert (L1 : (len (consume_state eof_errs s) < n)%nat) by lia.
    specialize (H _ L1). destruct (k (consume_state eof_errs s)) as [b s2| |]; auto. destruct (S b); lia.
  Qed.

  (** consuming without knowing what the lookahead is *)
  Lemma progs_consume_any B n (S : B -> bool) (k : M B) s :
    (forall s1, progs n S k s1) -> progs n S (consume eof_errs ;;; k) s.
  Proof.
    unfold progs, bind, consume. intros H L.
    assert (Hl : (len (consume_state eof_errs s) <= len s)%nat).
    { unfold consume_state. destruct (toks s) as [|t r] eqn:E; cbn [toks length]; [rewrite E; cbn [length]; lia|lia]. }
    assert (L1 : (len (consume_state eof_errs s) < n)%nat) by lia.
    specialize (H _ L1). destruct (k (consume_state eof_errs s)) as [b s2| |]; auto. destruct (S b); lia.
  Qed.

  Lemma is_punct_valid v t : is_punct v t = true -> kind_eqb (tk t) KInvalid = false.
  Proof. unfold is_punct. intro H. apply andb_true_iff in H as [H _]. apply kind_eqb_eq in H. rewrite H. reflexivity. Qed.
  Lemma is_name_valid t : is_name t = true -> kind_eqb (tk t) KInvalid = false.
  Proof. unfold is_name. intro H. apply kind_eqb_eq in H. rewrite H. reflexivity. Qed.
  Lemma is_kw_valid v t : is_kw v t = true -> kind_eqb (tk t) KInvalid = false.
  Proof. unfold is_kw. intro H. apply andb_true_iff in H as [H _]. apply kind_eqb_eq in H. rewrite H. reflexivity. Qed.

  Lemma progs_many A n (stop : pstate -> bool) (body : M A) :
    (forall s, stop s = false -> progs n always body s) ->
    forall f s, (f <= n)%nat -> progs f never (many f stop body) s.
  Proof.
    intros Hb. induction f as [|f IH]; intros s Hf.
    - unfold progs. lia.
    - unfold progs. intro L. cbn [many]. destruct (stop s) eqn:Es; [unfold never; lia|].
      unfold bind. assert (Ln : (len s < n)%nat) by lia.
      pose proof (Hb s Es Ln) as H1. destruct (body s) as [x s1| |]; auto. unfold always in H1.
      assert (L1 : (len s1 < f)%nat) by lia.
      assert (Hf' : (f <= n)%nat) by lia.
      pose proof (IH s1 Hf' L1) as H2. destruct (many f stop body s1) as [xs s2| |]; auto.
      unfold ret, never in *. lia.
  Qed.

  (** the loop at the same fuel as its body *)
  Lemma progs_many_same A n (S : list A -> bool) (stop : pstate -> bool) (body : M A) s :
    (forall s, stop s = false -> progs n always body s) ->
    (forall xs, S xs = false) ->
    progs n S (many n stop body) s.
  Proof.
    intros Hb HS. eapply progs_weaken; [apply (progs_many _ n stop body Hb n s (le_n n))|].
    intros a Ha. rewrite HS in Ha. discriminate.
  Qed.

  Ltac pstep :=
    first [ apply progs_enter; intro
          | apply progs_exit; intro
          | apply progs_peek
          | apply progs_at_eof
          | apply progs_errorf
          | apply progs_ret; reflexivity ].

  (** ** productions *)

  Lemma parse_name_progs n s : progs n always (parse_name eof_pos eof_errs) s.
  Proof.
    unfold parse_name. repeat pstep.
    match goal with |- context [is_name (pk ?x)] => destruct (is_name (pk x)) eqn:E end; [|pstep].
    apply progs_consume; [apply is_name_valid; exact E|]. intro s1. repeat pstep.
  Qed.

  Definition is_some {A} (o : option A) : bool := match o with Some _ => true | None => false end.

  Ltac sub L := eapply progs_bind; [apply L | intros ? ?; cbn [always never is_some negb andb]].
  Ltac test_if E :=
    match goal with |- context [if ?c then _ else _] => destruct c eqn:E end; cbn [negb].

  Lemma progs_consume_alone n s :
    kind_eqb (tk (pk s)) KInvalid = false -> progs n always (consume eof_errs) s.
  Proof.
    unfold progs, consume, always. intros Hk _.
    unfold consume_state, peek_tok in *. destruct (toks s) as [|t r]; [discriminate|]. cbn [toks length]. lia.
  Qed.

  Lemma progs_never_of_always A n (m : M A) s : progs n always m s -> progs n never m s.
  Proof. intro H. eapply progs_weaken; [exact H|]. intros a Ha. discriminate. Qed.

  Lemma parse_variable_progs n s : progs n always (parse_variable eof_pos eof_errs) s.
  Proof.
    unfold parse_variable. repeat pstep. test_if E; [pstep|]. apply negb_false_iff in E.
    apply progs_consume; [apply (is_punct_valid _ _ E)|]. intro.
    sub parse_name_progs. repeat pstep.
  Qed.

  Lemma object_field_progs n (pv : M value) s :
    (forall s, progs n never pv s) -> progs n always (object_field eof_pos eof_errs pv) s.
  Proof.
    intro Hpv. unfold object_field. sub parse_name_progs. pstep. test_if E; [pstep|].
    apply progs_consume_any. intro. eapply progs_bind; [apply Hpv|]. intros ? ?. cbn [never negb andb]. pstep.
  Qed.

  Lemma parse_value_progs : forall fuel c s, progs fuel always (parse_value eof_pos eof_errs fuel c) s.
  Proof.
    induction fuel as [|f IH]; intros c s; [unfold progs; cbn [length]; lia|].
    cbn [parse_value]. repeat pstep.
    match goal with |- context [tk (pk ?x)] => set (s1 := x) end.
    eapply progs_bind with (S1 := @is_some _).
    2:{ intros [v|] ?; cbn [is_some negb andb]; [|pstep]. repeat pstep. }
    assert (Hone : forall v : value, kind_eqb (tk (pk s1)) KInvalid = false ->
                             progs (S f) is_some (consume eof_errs ;;; ret (Some v)) s1).
    { intros v Hk. apply progs_consume; [exact Hk|]. intro. pstep. }
    destruct (tk (pk s1)) eqn:Ek.
    - pstep.
    - test_if Ed.
      { destruct c; [pstep|]. sub parse_variable_progs. pstep. }
      test_if Eb.
      { apply progs_bind_step; [apply progs_consume_alone; rewrite Ek; reflexivity|]. intros _ ?.
        eapply progs_bind; [apply progs_many_same; [intros; apply IH|reflexivity]|].
        intros ? ?. cbn [negb andb]. pstep. apply progs_consume_any. intro. pstep. }
      test_if Ec.
      { apply progs_bind_step; [apply progs_consume_alone; rewrite Ek; reflexivity|]. intros _ ?.
        eapply progs_bind; [apply progs_many_same; [intros; apply object_field_progs; intro; apply progs_never_of_always; apply IH|reflexivity]|].
        intros ? ?. cbn [negb andb]. pstep. apply progs_consume_any. intro. pstep. }
      pstep.
    - apply Hone. reflexivity.
    - apply Hone. reflexivity.
    - apply Hone. reflexivity.
    - apply Hone. reflexivity.
  Qed.

  Lemma parse_named_type_progs n s : progs n always (parse_named_type eof_pos eof_errs) s.
  Proof. unfold parse_named_type. pstep. sub parse_name_progs. repeat pstep. Qed.

  Lemma parse_type_progs : forall fuel s, progs fuel always (parse_type eof_pos eof_errs fuel) s.
  Proof.
    induction fuel as [|f IH]; intros s; [unfold progs; cbn [length]; lia|].
    cbn [parse_type]. repeat pstep.
    eapply progs_bind with (S1 := always).
    2:{ intros res ?. cbn [always negb andb]. pstep.
        eapply progs_bind with (S1 := never).
        - test_if E; [apply progs_consume_any; intro; pstep|pstep].
        - intros r' s3. cbn [never negb andb]. repeat pstep. }
    test_if E.
    - apply progs_bind_step; [apply progs_consume_alone; apply (is_punct_valid _ _ E)|]. intros _ ?.
      eapply progs_bind; [apply progs_never_of_always; apply IH|]. intros ? ?. cbn [never negb andb].
      pstep. test_if E2; [pstep|]. apply progs_consume_any. intro. pstep.
    - sub parse_named_type_progs. pstep.
  Qed.

  Lemma parse_argument_progs fuel s : progs fuel always (parse_argument eof_pos eof_errs fuel) s.
  Proof.
    unfold parse_argument. pstep. sub parse_name_progs. pstep. test_if E; [pstep|].
    apply progs_consume_any. intro.
    eapply progs_bind; [apply progs_never_of_always; apply parse_value_progs|]. intros ? ?. cbn [never negb andb].
    repeat pstep.
  Qed.

  Lemma optional_parens_progs A (body : M A) fuel s :
    (forall s, progs fuel always body s) ->
    progs fuel never
          (enter eof_pos ;;;
           t <- peek eof_pos ;;
           r <- (if is_punct b_lparen t then
                   consume eof_errs ;;;
                   xs <- many fuel (stop_at eof_pos b_rparen) body ;;
                   match xs with
                   | [] => errorf eof_pos
                   | _ => consume eof_errs ;;; ret xs
                   end
                 else ret []) ;;
           exit_ ;;; ret r) s.
  Proof.
    intro Hb. repeat pstep.
    eapply progs_bind with (S1 := never).
    2:{ intros res ?. cbn [never negb andb]. repeat pstep. }
    test_if E; [|pstep]. apply progs_consume_any. intro.
    eapply progs_bind; [apply progs_many_same; [intros; apply Hb|reflexivity]|].
    intros xs ?. cbn [negb andb]. destruct xs; [pstep|]. apply progs_consume_any. intro. pstep.
  Qed.

  Lemma parse_optional_arguments_progs fuel s :
    progs fuel never (parse_optional_arguments eof_pos eof_errs fuel) s.
  Proof. apply optional_parens_progs. intro. apply parse_argument_progs. Qed.

  Lemma parse_directive_progs fuel s : progs fuel always (parse_directive eof_pos eof_errs fuel) s.
  Proof.
    unfold parse_directive. pstep. apply progs_consume_any. intro.
    sub parse_name_progs. eapply progs_bind; [apply parse_optional_arguments_progs|].
    intros ? ?. cbn [never negb andb]. pstep.
  Qed.

  Lemma parse_optional_directives_progs fuel s :
    progs fuel never (parse_optional_directives eof_pos eof_errs fuel) s.
  Proof.
    unfold parse_optional_directives. pstep.
    eapply progs_bind; [apply progs_many_same; [intros; apply parse_directive_progs|reflexivity]|].
    intros ? ?. cbn [negb andb]. repeat pstep.
  Qed.

  Lemma parse_type_condition_progs n s : progs n always (parse_type_condition eof_pos eof_errs) s.
  Proof.
    unfold parse_type_condition. repeat pstep. test_if E; [pstep|]. apply negb_false_iff in E.
    apply progs_consume; [apply (is_kw_valid _ _ E)|]. intro.
    eapply progs_bind; [apply progs_never_of_always; apply parse_named_type_progs|].
    intros ? ?. cbn [never negb andb]. repeat pstep.
  Qed.

  Section Selections.
    Variable fuel : nat.
    Variable pss : M selset.
    Hypothesis Hpss : forall s, progs fuel always pss s.

    Lemma parse_optional_selection_set_progs s :
      progs fuel is_some (parse_optional_selection_set eof_pos pss) s.
    Proof.
      unfold parse_optional_selection_set. repeat pstep.
      eapply progs_bind with (S1 := @is_some _).
      2:{ intros res ?. destruct res; cbn [is_some negb andb]; repeat pstep. }
      test_if E; [|pstep]. sub Hpss. pstep.
    Qed.

    Lemma parse_field_progs s : progs fuel always (parse_field eof_pos eof_errs fuel pss) s.
    Proof.
      unfold parse_field. pstep. sub parse_name_progs. pstep.
      eapply progs_bind with (S1 := never).
      { test_if E; [|pstep]. apply progs_consume_any. intro.
        eapply progs_bind; [apply progs_never_of_always; apply parse_name_progs|].
        intros ? ?. cbn [never negb andb]. pstep. }
      intros ? ?. cbn [never negb andb].
      eapply progs_bind; [apply parse_optional_arguments_progs|]. intros ? ?. cbn [never negb andb].
      eapply progs_bind; [apply parse_optional_directives_progs|]. intros ? ?. cbn [never negb andb].
      eapply progs_bind with (S1 := never);
        [apply progs_weaken with (S := @is_some _); [apply parse_optional_selection_set_progs|intros ? Ha; discriminate]|].
      intros ? ?. cbn [never negb andb]. repeat pstep.
    Qed.

    Lemma parse_selection_progs s : progs fuel always (parse_selection eof_pos eof_errs leak fuel pss) s.
    Proof.
      unfold parse_selection. repeat pstep. test_if E.
      - sub parse_field_progs. destruct leak.
        + eapply progs_bind with (S1 := never); [pstep|]. intros. cbn [never negb andb]. pstep.
        + repeat pstep.
      - apply negb_false_iff in E. apply progs_consume; [apply (is_punct_valid _ _ E)|]. intro.
        pstep. test_if E2.
        + eapply progs_bind; [apply progs_never_of_always; apply parse_name_progs|]. intros ? ?. cbn [never negb andb].
          eapply progs_bind; [apply parse_optional_directives_progs|]. intros ? ?. cbn [never negb andb].
          destruct leak.
          * eapply progs_bind with (S1 := never); [pstep|]. intros. cbn [never negb andb]. pstep.
          * repeat pstep.
        + eapply progs_bind with (S1 := never).
          { test_if E3; [|pstep].
            eapply progs_bind; [apply progs_never_of_always; apply parse_type_condition_progs|].
            intros ? ?. cbn [never negb andb]. pstep. }
          intros ? ?. cbn [never negb andb].
          eapply progs_bind; [apply parse_optional_directives_progs|]. intros ? ?. cbn [never negb andb].
          eapply progs_bind; [apply progs_never_of_always; apply Hpss|]. intros ? ?. cbn [never negb andb].
          repeat pstep.
    Qed.
  End Selections.

  Lemma parse_selection_set_progs : forall fuel s,
    progs fuel always (parse_selection_set eof_pos eof_errs leak fuel) s.
  Proof.
    induction fuel as [|f IH]; intros s; [unfold progs; cbn [length]; lia|].
    cbn [parse_selection_set]. repeat pstep. test_if E; [pstep|]. apply negb_false_iff in E.
    apply progs_bind_step; [apply progs_consume_alone; apply (is_punct_valid _ _ E)|]. intros _ ?.
    eapply progs_bind; [apply progs_many_same; [intros; apply parse_selection_progs; exact IH|reflexivity]|].
    intros sels ?. cbn [negb andb]. pstep. destruct sels; [pstep|].
    apply progs_consume_any. intro. repeat pstep.
  Qed.

  Lemma parse_variable_definition_progs fuel s :
    progs fuel always (parse_variable_definition eof_pos eof_errs fuel) s.
  Proof.
    unfold parse_variable_definition. pstep. sub parse_variable_progs. pstep. test_if E; [pstep|].
    apply progs_consume_any. intro.
    eapply progs_bind; [apply progs_never_of_always; apply parse_type_progs|]. intros ? ?. cbn [never negb andb].
    pstep. eapply progs_bind with (S1 := never).
    { test_if E2; [|pstep]. apply progs_consume_any. intro.
      eapply progs_bind; [apply progs_never_of_always; apply parse_value_progs|]. intros ? ?. cbn [never negb andb]. pstep. }
    intros d ?. cbn [never negb andb]. repeat pstep.
  Qed.

  Lemma parse_optional_variable_definitions_progs fuel s :
    progs fuel never (parse_optional_variable_definitions eof_pos eof_errs fuel) s.
  Proof. apply optional_parens_progs. intro. apply parse_variable_definition_progs. Qed.

  Lemma parse_operation_type_progs n s : progs n always (parse_operation_type eof_pos eof_errs) s.
  Proof.
    unfold parse_operation_type. repeat pstep. test_if E; [pstep|]. apply negb_false_iff in E.
    unfold is_operation_type in E. apply andb_true_iff in E as [E _].
    apply progs_consume; [apply (is_name_valid _ E)|]. intro. repeat pstep.
  Qed.

  Lemma parse_operation_definition_progs fuel s :
    progs fuel always (parse_operation_definition eof_pos eof_errs leak fuel) s.
  Proof.
    unfold parse_operation_definition. pstep.
    eapply progs_bind; [apply parse_optional_selection_set_progs; apply parse_selection_set_progs|].
    intros ss ?. destruct ss as [x|]; cbn [is_some negb andb].
    - eapply progs_bind with (S1 := never); [pstep|]. intros res ?. cbn [never negb andb]. repeat pstep.
    - eapply progs_bind with (S1 := always).
      2:{ intros res ?. cbn [always negb andb]. repeat pstep. }
      sub parse_operation_type_progs. pstep.
      eapply progs_bind with (S1 := never).
      { test_if E; [|pstep]. eapply progs_bind; [apply progs_never_of_always; apply parse_name_progs|].
        intros ? ?. cbn [never negb andb]. pstep. }
      intros ? ?. cbn [never negb andb].
      eapply progs_bind; [apply parse_optional_variable_definitions_progs|]. intros ? ?. cbn [never negb andb].
      eapply progs_bind; [apply parse_optional_directives_progs|]. intros ? ?. cbn [never negb andb].
      eapply progs_bind; [apply progs_never_of_always; apply parse_selection_set_progs|]. intros ? ?.
      cbn [never negb andb]. pstep.
  Qed.

  Lemma parse_optional_fragment_definition_progs fuel s :
    progs fuel is_some (parse_optional_fragment_definition eof_pos eof_errs leak fuel) s.
  Proof.
    unfold parse_optional_fragment_definition. repeat pstep.
    eapply progs_bind with (S1 := @is_some _).
    2:{ intros res ?. destruct res; cbn [is_some negb andb]; repeat pstep. }
    test_if E; [|pstep]. apply progs_consume; [apply (is_kw_valid _ _ E)|]. intro.
    pstep. test_if E2; [pstep|].
    eapply progs_bind; [apply progs_never_of_always; apply parse_name_progs|]. intros ? ?. cbn [never negb andb].
    eapply progs_bind; [apply progs_never_of_always; apply parse_type_condition_progs|]. intros ? ?. cbn [never negb andb].
    eapply progs_bind; [apply parse_optional_directives_progs|]. intros ? ?. cbn [never negb andb].
    eapply progs_bind; [apply progs_never_of_always; apply parse_selection_set_progs|]. intros ? ?.
    cbn [never negb andb]. pstep.
  Qed.

  Lemma parse_definition_progs fuel s : progs fuel always (parse_definition eof_pos eof_errs leak fuel) s.
  Proof.
    unfold parse_definition. pstep.
    eapply progs_bind; [apply parse_optional_fragment_definition_progs|].
    intros o ?. destruct o as [d|]; cbn [is_some negb andb].
    - eapply progs_bind with (S1 := never); [pstep|]. intros res ?. cbn [never negb andb]. repeat pstep.
    - eapply progs_bind; [apply parse_operation_definition_progs|]. intros res ?. cbn [always negb andb]. repeat pstep.
  Qed.

  Lemma parse_document_progs fuel s : progs fuel never (parse_document eof_pos eof_errs leak fuel) s.
  Proof.
    unfold parse_document. pstep.
    eapply progs_bind; [apply progs_many_same; [intros; apply parse_definition_progs|reflexivity]|].
    intros defs ?. cbn [negb andb]. destruct defs; [pstep|]. repeat pstep.
  Qed.

  Lemma parse_value_top_progs fuel s : progs fuel never (parse_value_top eof_pos eof_errs fuel) s.
  Proof.
    unfold parse_value_top.
    eapply progs_bind; [apply progs_never_of_always; apply parse_value_progs|]. intros ? ?. cbn [never negb andb].
    pstep. test_if E; pstep.
  Qed.

  (** ** the entry points never run out of fuel *)
  Theorem document_fuel_sufficient ts : ParseDocument eof_pos eof_errs leak ts <> OOF.
  Proof.
    unfold ParseDocument, run. pose proof (parse_document_progs (fuel_for ts) (init eof_errs ts)) as H.
    unfold progs in H. cbn [init toks] in H. unfold fuel_for in *. specialize (H (Nat.lt_succ_diag_r _)).
    destruct (parse_document eof_pos eof_errs leak (S (length ts)) (init eof_errs ts)); [discriminate|discriminate|destruct H].
  Qed.

  Theorem value_fuel_sufficient ts : ParseValue eof_pos eof_errs ts <> OOF.
  Proof.
    unfold ParseValue, run. pose proof (parse_value_top_progs (fuel_for ts) (init eof_errs ts)) as H.
    unfold progs in H. cbn [init toks] in H. unfold fuel_for in *. specialize (H (Nat.lt_succ_diag_r _)).
    destruct (parse_value_top eof_pos eof_errs (S (length ts)) (init eof_errs ts)); [discriminate|discriminate|destruct H].
  Qed.
End Fuel.
