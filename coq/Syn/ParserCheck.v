(** * Syn/ParserCheck.v — C06 correspondence: decode a case, run the parser model on the
    significant tokens the real scanner produced, compare with what the real parser returned
    (tree with every position, error locations), and run the Spec oracle on the observed result.
    Executable only (extracted / vm_compute). *)
From Coq Require Import List NArith ZArith Bool String.
From ApiFu Require Import Base.Sexp Syn.Ast Syn.ParserModel Syn.Printer Syn.FrontEnd Syn.PositionMethods.
Import ListNotations.
Local Open Scope string_scope.

(** ** wire format of trees (written by the Go walker, harness/cmd/c06/walk.go) *)

Definition enc_pos (p : pos) : list sexp := [of_N (line p); of_N (col p)].
Definition enc_ident (i : ident) : sexp := SL (SSym "n" :: SStr (id_name i) :: enc_pos (id_pos i)).
Definition enc_var (x : variable) : sexp :=
  SL (SSym "var" :: SStr (id_name (var_name x)) :: enc_pos (id_pos (var_name x)) ++ enc_pos (var_dollar x)).

Fixpoint enc_value (v : value) : sexp :=
  match v with
  | VVar x => enc_var x
  | VInt l p => SL (SSym "int" :: SStr l :: enc_pos p)
  | VFloat l p => SL (SSym "float" :: SStr l :: enc_pos p)
  | VString s p => SL (SSym "str" :: SStr s :: enc_pos p)
  | VBool b p => SL (SSym "bool" :: of_bool b :: enc_pos p)
  | VNull p => SL (SSym "null" :: enc_pos p)
  | VEnum n p => SL (SSym "enum" :: SStr n :: enc_pos p)
  | VList vs o c => SL (SSym "list" :: SL (map enc_value vs) :: enc_pos o ++ enc_pos c)
  | VObject fs o c =>
      SL (SSym "obj" ::
          SL (map (fun f => SL (SSym "f" :: SStr (id_name (fst f)) :: enc_pos (id_pos (fst f)) ++ [enc_value (snd f)])) fs) ::
          enc_pos o ++ enc_pos c)
  end.

Fixpoint enc_type (t : ty) : sexp :=
  match t with
  | TNamed n => SL (SSym "named" :: SStr (id_name n) :: enc_pos (id_pos n))
  | TList t' o c => SL (SSym "listof" :: enc_type t' :: enc_pos o ++ enc_pos c)
  | TNonNull t' => SL [SSym "nonnull"; enc_type t']
  end.

Definition enc_argument (a : argument) : sexp :=
  SL (SSym "arg" :: SStr (id_name (arg_name a)) :: enc_pos (id_pos (arg_name a)) ++ [enc_value (arg_value a)]).
Definition enc_directive (d : directive) : sexp :=
  SL (SSym "dir" :: SStr (id_name (dir_name d)) :: enc_pos (id_pos (dir_name d)) ++
      SL (map enc_argument (dir_args d)) :: enc_pos (dir_at d)).

Fixpoint enc_selection (s : selection) : sexp :=
  match s with
  | SField alias n args dirs sub =>
      SL [SSym "field"; of_option enc_ident alias; enc_ident n; SL (map enc_argument args);
          SL (map enc_directive dirs);
          match sub with Some ss => SL [SSym "some"; enc_selset ss] | None => SL [SSym "none"] end]
  | SSpread n dirs e => SL (SSym "spread" :: enc_ident n :: SL (map enc_directive dirs) :: enc_pos e)
  | SInline cond dirs sub e =>
      SL (SSym "inline" :: of_option enc_ident cond :: SL (map enc_directive dirs) :: enc_selset sub :: enc_pos e)
  end
with enc_selset (ss : selset) : sexp :=
  match ss with
  | SelSet sels o c =>
      SL (SSym "ss" ::
          SL ((fix go (l : list selection) : list sexp :=
                 match l with [] => [] | x :: r => enc_selection x :: go r end) sels) ::
          enc_pos o ++ enc_pos c)
  end.

Definition enc_vardef (vd : vardef) : sexp :=
  SL [SSym "vardef"; enc_var (vd_var vd); enc_type (vd_type vd); of_option enc_value (vd_default vd)].
Definition enc_optype (o : optype) : sexp := SL (SSym "ot" :: SStr (ot_value o) :: enc_pos (ot_pos o)).

Definition enc_definition (d : definition) : sexp :=
  match d with
  | DOp ot n vars dirs sub =>
      SL [SSym "op"; of_option enc_optype ot; of_option enc_ident n; SL (map enc_vardef vars);
          SL (map enc_directive dirs); enc_selset sub]
  | DFrag kw n cond dirs sub =>
      SL (SSym "frag" :: enc_pos kw ++ [enc_ident n; enc_ident cond; SL (map enc_directive dirs); enc_selset sub])
  end.

Definition enc_document (d : document) : sexp := SL (SSym "doc" :: map enc_definition d).

(** ** decoders (inverse of the encoders; [None] on anything else) *)

Definition dec_pos (l c : sexp) : option pos :=
  match as_N l, as_N c with Some a, Some b => Some (mkpos a b) | _, _ => None end.

Definition dec_ident (s : sexp) : option ident :=
  match tagged "n" s with
  | Some [SStr b; l; c] => match dec_pos l c with Some p => Some (mkid b p) | None => None end
  | _ => None
  end.

Definition dec_var_args (args : list sexp) : option variable :=
  match args with
  | [SStr b; nl; nc; dl; dc] =>
      match dec_pos nl nc, dec_pos dl dc with
      | Some np, Some dp => Some (mkvar (mkid b np) dp)
      | _, _ => None
      end
  | _ => None
  end.
Definition dec_var (s : sexp) : option variable :=
  match tagged "var" s with Some args => dec_var_args args | None => None end.

Definition opt_bind {A B} (o : option A) (f : A -> option B) : option B :=
  match o with Some x => f x | None => None end.

(** fuel = nesting depth bound: the size of the s-expression (counted in [N], converted once) *)
Fixpoint sexp_size_N (s : sexp) : N :=
  match s with
  | SL l => N.succ (fold_right (fun x acc => N.add (sexp_size_N x) acc) 0%N l)
  | _ => 1%N
  end.
Definition sexp_size (s : sexp) : nat := N.to_nat (sexp_size_N s).

Fixpoint dec_value (fuel : nat) (s : sexp) : option value :=
  match fuel with
  | O => None
  | S f =>
      match untag s with
      | Some (t, args) =>
          if String.eqb t "var" then opt_bind (dec_var_args args) (fun x => Some (VVar x))
          else if String.eqb t "int" then
            match args with [SStr b; l; c] => opt_bind (dec_pos l c) (fun p => Some (VInt b p)) | _ => None end
          else if String.eqb t "float" then
            match args with [SStr b; l; c] => opt_bind (dec_pos l c) (fun p => Some (VFloat b p)) | _ => None end
          else if String.eqb t "str" then
            match args with [SStr b; l; c] => opt_bind (dec_pos l c) (fun p => Some (VString b p)) | _ => None end
          else if String.eqb t "bool" then
            match args with
            | [b; l; c] => opt_bind (as_bool b) (fun bb => opt_bind (dec_pos l c) (fun p => Some (VBool bb p)))
            | _ => None
            end
          else if String.eqb t "null" then
            match args with [l; c] => opt_bind (dec_pos l c) (fun p => Some (VNull p)) | _ => None end
          else if String.eqb t "enum" then
            match args with [SStr b; l; c] => opt_bind (dec_pos l c) (fun p => Some (VEnum b p)) | _ => None end
          else if String.eqb t "list" then
            match args with
            | [SL vs; ol; oc; cl; cc] =>
                opt_bind (map_opt (dec_value f) vs) (fun vs' =>
                opt_bind (dec_pos ol oc) (fun o => opt_bind (dec_pos cl cc) (fun c => Some (VList vs' o c))))
            | _ => None
            end
          else if String.eqb t "obj" then
            match args with
            | [SL fs; ol; oc; cl; cc] =>
                opt_bind (map_opt (fun x =>
                            match tagged "f" x with
                            | Some [SStr b; l; c; v] =>
                                opt_bind (dec_pos l c) (fun p => opt_bind (dec_value f v) (fun v' => Some (mkid b p, v')))
                            | _ => None
                            end) fs) (fun fs' =>
                opt_bind (dec_pos ol oc) (fun o => opt_bind (dec_pos cl cc) (fun c => Some (VObject fs' o c))))
            | _ => None
            end
          else None
      | None => None
      end
  end.

Fixpoint dec_type (fuel : nat) (s : sexp) : option ty :=
  match fuel with
  | O => None
  | S f =>
      match untag s with
      | Some (t, args) =>
          if String.eqb t "named" then
            match args with [SStr b; l; c] => opt_bind (dec_pos l c) (fun p => Some (TNamed (mkid b p))) | _ => None end
          else if String.eqb t "listof" then
            match args with
            | [x; ol; oc; cl; cc] =>
                opt_bind (dec_type f x) (fun x' =>
                opt_bind (dec_pos ol oc) (fun o => opt_bind (dec_pos cl cc) (fun c => Some (TList x' o c))))
            | _ => None
            end
          else if String.eqb t "nonnull" then
            match args with [x] => opt_bind (dec_type f x) (fun x' => Some (TNonNull x')) | _ => None end
          else None
      | None => None
      end
  end.

Definition dec_argument (s : sexp) : option argument :=
  match tagged "arg" s with
  | Some [SStr b; l; c; v] =>
      opt_bind (dec_pos l c) (fun p => opt_bind (dec_value (sexp_size v) v) (fun v' => Some (mkarg (mkid b p) v')))
  | _ => None
  end.

Definition dec_directive (s : sexp) : option directive :=
  match tagged "dir" s with
  | Some [SStr b; l; c; SL args; al; ac] =>
      opt_bind (dec_pos l c) (fun p => opt_bind (map_opt dec_argument args) (fun args' =>
      opt_bind (dec_pos al ac) (fun a => Some (mkdir (mkid b p) args' a))))
  | _ => None
  end.

Fixpoint dec_selection (fuel : nat) (s : sexp) : option selection :=
  match fuel with
  | O => None
  | S f =>
      match untag s with
      | Some (t, args) =>
          if String.eqb t "field" then
            match args with
            | [al; n; SL ar; SL ds; sub] =>
                opt_bind (as_option dec_ident al) (fun al' => opt_bind (dec_ident n) (fun n' =>
                opt_bind (map_opt dec_argument ar) (fun ar' => opt_bind (map_opt dec_directive ds) (fun ds' =>
                opt_bind (as_option (dec_selset f) sub) (fun sub' => Some (SField al' n' ar' ds' sub'))))))
            | _ => None
            end
          else if String.eqb t "spread" then
            match args with
            | [n; SL ds; el; ec] =>
                opt_bind (dec_ident n) (fun n' => opt_bind (map_opt dec_directive ds) (fun ds' =>
                opt_bind (dec_pos el ec) (fun e => Some (SSpread n' ds' e))))
            | _ => None
            end
          else if String.eqb t "inline" then
            match args with
            | [co; SL ds; sub; el; ec] =>
                opt_bind (as_option dec_ident co) (fun co' => opt_bind (map_opt dec_directive ds) (fun ds' =>
                opt_bind (dec_selset f sub) (fun sub' => opt_bind (dec_pos el ec) (fun e =>
                Some (SInline co' ds' sub' e)))))
            | _ => None
            end
          else None
      | None => None
      end
  end
with dec_selset (fuel : nat) (s : sexp) : option selset :=
  match fuel with
  | O => None
  | S f =>
      match tagged "ss" s with
      | Some [SL sels; ol; oc; cl; cc] =>
          opt_bind (map_opt (dec_selection f) sels) (fun sels' =>
          opt_bind (dec_pos ol oc) (fun o => opt_bind (dec_pos cl cc) (fun c => Some (SelSet sels' o c))))
      | _ => None
      end
  end.

Definition dec_vardef (s : sexp) : option vardef :=
  match tagged "vardef" s with
  | Some [v; t; d] =>
      opt_bind (dec_var v) (fun v' => opt_bind (dec_type (sexp_size t) t) (fun t' =>
      opt_bind (as_option (fun x => dec_value (sexp_size x) x) d) (fun d' => Some (mkvd v' t' d'))))
  | _ => None
  end.

Definition dec_optype (s : sexp) : option optype :=
  match tagged "ot" s with
  | Some [SStr b; l; c] => opt_bind (dec_pos l c) (fun p => Some (mkot b p))
  | _ => None
  end.

Definition dec_definition (s : sexp) : option definition :=
  match untag s with
  | Some (t, args) =>
      if String.eqb t "op" then
        match args with
        | [ot; n; SL vars; SL ds; sub] =>
            opt_bind (as_option dec_optype ot) (fun ot' => opt_bind (as_option dec_ident n) (fun n' =>
            opt_bind (map_opt dec_vardef vars) (fun vars' => opt_bind (map_opt dec_directive ds) (fun ds' =>
            opt_bind (dec_selset (sexp_size sub) sub) (fun sub' => Some (DOp ot' n' vars' ds' sub'))))))
        | _ => None
        end
      else if String.eqb t "frag" then
        match args with
        | [kl; kc; n; co; SL ds; sub] =>
            opt_bind (dec_pos kl kc) (fun kw => opt_bind (dec_ident n) (fun n' => opt_bind (dec_ident co) (fun co' =>
            opt_bind (map_opt dec_directive ds) (fun ds' =>
            opt_bind (dec_selset (sexp_size sub) sub) (fun sub' => Some (DFrag kw n' co' ds' sub'))))))
        | _ => None
        end
      else None
  | None => None
  end.

Definition dec_document (s : sexp) : option document :=
  match tagged "doc" s with
  | Some defs => map_opt dec_definition defs
  | None => None
  end.

(** ** tokens *)

Definition dec_kind (s : sexp) : option kind :=
  match s with
  | SSym k => if String.eqb k "p" then Some KPunct else if String.eqb k "n" then Some KName
              else if String.eqb k "i" then Some KInt else if String.eqb k "f" then Some KFloat
              else if String.eqb k "s" then Some KString else None
  | _ => None
  end.

Definition dec_err (s : sexp) : option pos :=
  match s with SL [l; c] => dec_pos l c | _ => None end.

(* (k "v" l c (el ec)...) *)
Definition dec_stoken (s : sexp) : option stoken :=
  match s with
  | SL (k :: SStr v :: l :: c :: es) =>
      opt_bind (dec_kind k) (fun k' => opt_bind (dec_pos l c) (fun p =>
      opt_bind (map_opt dec_err es) (fun es' => Some (mkst (mktok k' v p) es'))))
  | _ => None
  end.

(* l1 c1 l2 c2 ... ; tail recursive: the list has two entries per node of the tree *)
Fixpoint dec_pos_pairs_acc (fuel : nat) (l : list sexp) (acc : list pos) : option (list pos) :=
  match l with
  | [] => Some (rev' acc)
  | a :: b :: r =>
      match fuel with
      | O => None
      | S f => match dec_pos a b with
               | Some p => dec_pos_pairs_acc f r (p :: acc)
               | None => None
               end
      end
  | _ => None
  end.
Definition dec_pos_pairs (fuel : nat) (l : list sexp) : option (list pos) := dec_pos_pairs_acc fuel l [].

(** ** the observation of one run of the real parser on one source text *)
Record run := mkrun {
  r_lines : N;                      (* number of line terminators in the text *)
  r_toks : list stoken;             (* what the real scanner handed out *)
  r_eof : pos; r_eof_errs : list pos;
  r_tree : option sexp;             (* None: nil *)
  r_errs : list pos;                (* Error.Location of every returned error, in order *)
  r_src : option bytes;             (* the source text itself *)
  r_posm : option (list pos) }.     (* Position() of every node of the returned tree, pre-order *)

Definition dec_run (s : sexp) : option run :=
  match tagged "run" s with
  | Some l =>
      match field1 "lines" l, field1 "toks" l, field "eof" l, field "obs" l with
      | Some n, Some (SL ts), Some (el :: ec :: ees), Some [tree; SL oes] =>
          opt_bind (as_N n) (fun n' => opt_bind (map_opt dec_stoken ts) (fun ts' =>
          opt_bind (dec_pos el ec) (fun e => opt_bind (map_opt dec_err ees) (fun ees' =>
          opt_bind (map_opt dec_err oes) (fun oes' =>
          Some (mkrun n' ts' e ees' (if is_sym "nil" tree then None else Some tree) oes'
                      (match field1 "src" l with Some (SStr b) => Some b | _ => None end)
                      (match field1 "posm" l with Some (SL ps) => dec_pos_pairs (List.length ps) ps | _ => None end)))))))
      | _, _, _, _ => None
      end
  | None => None
  end.

(** ** helpers *)

Fixpoint pos_list_eqb (a b : list pos) : bool :=
  match a, b with
  | [], [] => true
  | x :: a', y :: b' => pos_eqb x y && pos_list_eqb a' b'
  | _, _ => false
  end.

(** all positions (the only integers in a tree) set to 0 *)
Fixpoint strip (s : sexp) : sexp :=
  match s with
  | SZ _ => SZ 0
  | SL l => SL (map strip l)
  | x => x
  end.

Definition pos_ltb (a b : pos) : bool :=
  N.ltb (line a) (line b) || (N.eqb (line a) (line b) && N.ltb (col a) (col b)).
Fixpoint increasing (l : list pos) : bool :=
  match l with
  | a :: ((b :: _) as r) => pos_ltb a b && increasing r
  | _ => true
  end.

Definition unpos (e : etok) : etok := mket (ek e) (ev e) None.

(** ** Spec oracle on one observed result.  Returns [Some key] on a violation. *)

Inductive entry := EDoc | EValue.

Record tree_facts := mkfacts {
  tf_tokens : list etok; tf_wf : bool; tf_depth : Z; tf_positions : list pos; tf_pm : list pos }.

Definition facts_of (e : entry) (tree : sexp) : option tree_facts :=
  match e with
  | EDoc => opt_bind (dec_document tree) (fun d =>
              if sexp_eqb (enc_document d) tree
              then Some (mkfacts (tokens_document d) (wf_document d) (depth_document d) (positions_document d) (pm_document d))
              else None)
  | EValue => opt_bind (dec_value (sexp_size tree) tree) (fun v =>
              if sexp_eqb (enc_value v) tree
              then Some (mkfacts (tokens_value v) (wf_value false v) (depth_value v) [] (pm_value v))
              else None)
  end.

Definition line_ok (lines : N) (p : pos) : bool := N.leb 1 (line p) && N.leb (line p) (lines + 1).

Definition oracle_run (e : entry) (rf : run * option tree_facts) : option string :=
  let r := fst rf in
  let toks := map st_tok (r_toks r) in
  match r_tree r, r_errs r with
  | Some tree, [] =>
      (* accepted *)
      match snd rf with
      | None => Some "accepted-malformed-tree"
      | Some f =>
          if negb (forallb (fun t => match st_errs t with [] => true | _ => false end) (r_toks r)
                   && match r_eof_errs r with [] => true | _ => false end)
          then Some "accepted-despite-lexical-error"
          else if negb (layout_of (map unpos (tf_tokens f)) toks) then Some "accepted-outside-grammar"
          else if negb (layout_of (tf_tokens f) toks) then Some "position-not-first-token"
          else if negb (tf_wf f) then Some "accepted-ill-formed-tree"
          else if negb (increasing (tf_positions f)) then Some "selection-positions-collide"
          else None
      end
  | None, [] => Some "rejected-without-error"
  | tree, es =>
      if negb (forallb (line_ok (r_lines r)) es) then Some "error-outside-text"
      else match tree with
           | Some _ => None    (* lexical errors only; the tree is compared with the model *)
           | None =>
               let p := last es (mkpos 0 0) in
               if pos_eqb p (r_eof r) || existsb (fun t => pos_eqb p (tp t)) toks then None
               else Some "error-not-at-token"
           end
  end.

Definition accepted (r : run) : bool :=
  match r_tree r, r_errs r with Some _, [] => true | _, _ => false end.

(** valid printed tree given ([expect], positions 0): must come back, equal modulo positions *)
Definition oracle_expect (e : entry) (family : string) (expect : sexp) (r : run) : option string :=
  match facts_of e expect with
  | None => Some "bad-expect"
  | Some f =>
      if Z.ltb max_recursion (tf_depth f) then None   (* beyond the limit nothing is claimed here;
                                                         the model comparison decides *)
      else if negb (accepted r) then
        Some (if String.eqb family "wide" then "wide-document-rejected" else "valid-document-rejected")
      else match r_tree r with
           | Some t => if sexp_eqb (strip t) expect then None else Some "roundtrip-different-tree"
           | None => Some "valid-document-rejected"
           end
  end.

(** two layouts of one token sequence: same verdict, same tree modulo positions *)
Definition shape (t : stoken) : sexp :=
  SL [SZ (match tk (st_tok t) with KInvalid => 0 | KPunct => 1 | KName => 2 | KInt => 3 | KFloat => 4 | KString => 5 end);
      SStr (tv (st_tok t))].
Definition same_tokens (a b : run) : bool := sexp_eqb (SL (map shape (r_toks a))) (SL (map shape (r_toks b))).

Definition oracle_pair (a b : run) : option string :=
  if negb (same_tokens a b) then None     (* not the same token sequence: nothing is claimed *)
  else if negb (Bool.eqb (accepted a) (accepted b)) then Some "layout-changed-verdict"
  else match r_tree a, r_tree b with
       | Some x, Some y => if sexp_eqb (strip x) (strip y) then None else Some "layout-changed-tree"
       | None, None => None
       | _, _ => Some "layout-changed-verdict"
       end.

(** ** model vs implementation on one run *)
Definition enc_outcome {A} (enc : A -> sexp) (o : outcome A) : option (option sexp * list pos) :=
  match o with
  | Out t es => Some (match t with Some x => Some (enc x) | None => None end, es)
  | OOF => None
  end.

Definition model_run (e : entry) (r : run) : option (option sexp * list pos) :=
  match e with
  | EDoc => enc_outcome enc_document (ParseDocument (r_eof r) (r_eof_errs r) false (r_toks r))
  | EValue => enc_outcome enc_value (ParseValue (r_eof r) (r_eof_errs r) (r_toks r))
  end.

(** the composed model from the BYTES of the text (FrontEnd.v: scanner model, then parser model) *)
Definition model_run_bytes (e : entry) (src : bytes) : option (option sexp * list pos) :=
  match e with
  | EDoc => enc_outcome enc_document (parse_document_bytes src)
  | EValue => enc_outcome enc_value (parse_value_bytes src)
  end.

Definition stoken_eqb (a b : stoken) : bool :=
  kind_eqb (tk (st_tok a)) (tk (st_tok b)) && bytes_eqb (tv (st_tok a)) (tv (st_tok b)) &&
  pos_eqb (tp (st_tok a)) (tp (st_tok b)) && pos_list_eqb (st_errs a) (st_errs b).

Fixpoint stokens_eqb (a b : list stoken) : bool :=
  match a, b with
  | [], [] => true
  | x :: a', y :: b' => stoken_eqb x y && stokens_eqb a' b'
  | _, _ => false
  end.

(** the stream the front-end model computes from the bytes against what the real scanner handed
    out, Scan call by Scan call (kind, value, position, the errors of that call; end position and
    final errors) *)
Definition front_matches (src : bytes) (r : run) : option bool :=
  match front_end src with
  | None => None
  | Some f => Some (stokens_eqb (f_toks f) (r_toks r) && pos_eqb (f_eof f) (r_eof r) &&
                    pos_list_eqb (f_eof_errs f) (r_eof_errs r))
  end.

Definition enc_errs (es : list pos) : sexp := SL (map (fun p => SL (enc_pos p)) es).

Definition compare_outcome (how : string) (m : option (option sexp * list pos)) (r : run) : option sexp :=
  match m with
  | None => Some (v_mismatch "model-out-of-fuel" [tag "model" [SSym how]])
  | Some (mt, mes) =>
      match mt, r_tree r with
      | Some x, Some y =>
          if negb (sexp_eqb x y) then
            Some (v_mismatch (if sexp_eqb (strip x) (strip y) then "positions" else "tree") [tag "model" [SSym how; x]])
          else if negb (pos_list_eqb mes (r_errs r)) then Some (v_mismatch "error-locations" [tag "model" [SSym how; enc_errs mes]])
          else None
      | None, None =>
          if negb (pos_list_eqb mes (r_errs r)) then Some (v_mismatch "error-locations" [tag "model" [SSym how; enc_errs mes]])
          else None
      | Some x, None => Some (v_mismatch "model-accepts-implementation-rejects" [tag "model" [SSym how; enc_errs mes]])
      | None, Some _ => Some (v_mismatch "model-rejects-implementation-accepts" [tag "model" [SSym how; enc_errs mes]])
      end
  end.

(** [src] has at most [n] bytes (stops after [n] steps: sources can be megabytes long) *)
Fixpoint within_nat (l : bytes) (n : nat) : bool :=
  match l, n with
  | [], _ => true
  | _ :: _, O => false
  | _ :: t, S m => within_nat t m
  end.
Definition within (limit : N) (src : bytes) : bool := within_nat src (N.to_nat limit).

(** default of the case field [fblimit] *)
Definition from_bytes_limit : N := 1024.

(** the parser model on the real scanner's tokens; and, from the bytes, the scanner model against
    the real scanner's stream and the composed model against the real parser's result *)
(** the real Position() methods on the returned tree against the model's position functions on
    the same tree *)
Definition compare_posm (rf : run * option tree_facts) : option sexp :=
  let r := fst rf in
  match r_tree r, r_posm r with
  | Some tree, Some ps =>
      match snd rf with
      | Some f => if pos_list_eqb (tf_pm f) ps then None
                  else Some (v_mismatch "position-methods" [tag "model" [enc_errs (tf_pm f)]])
      | None => None       (* a malformed tree is the oracle's business *)
      end
  | _, _ => None
  end.

Definition compare_run (e : entry) (limit : N) (rf : run * option tree_facts) : option sexp :=
  let r := fst rf in
  match compare_outcome "from-tokens" (model_run e r) r with
  | Some v => Some v
  | None =>
      match compare_posm rf with
      | Some v => Some v
      | None =>
      match r_src r with
      | None => None
      | Some src =>
          (* the extracted scanner model costs about 5 microseconds per byte: texts above the
             limit the harness sets for the tier are compared through their tokens only *)
          if negb (within limit src) then None else
          match front_matches src r with
          | None => Some (v_mismatch "front-end-out-of-fuel" [])
          | Some false => Some (v_mismatch "front-end-token-stream" [])
          | Some true => compare_outcome "from-bytes" (model_run_bytes e src) r
          end
      end
      end
  end.

(** ** evidence classes *)
Definition has_tok (v : bytes) (k : kind) (r : run) : bool :=
  existsb (fun t => kind_eqb (tk (st_tok t)) k && bytes_eqb (tv (st_tok t)) v) (r_toks r).

Definition classes_run (e : entry) (limit : N) (r : run) : list string :=
  let n := List.length (r_toks r) in
  let acc := accepted r in
  let lexerr := negb (forallb (fun t => match st_errs t with [] => true | _ => false end) (r_toks r))
                || match r_eof_errs r with [] => false | _ => true end in
  let first := match r_toks r with t :: _ => tp (st_tok t) | [] => r_eof r end in
  let lastp := last (r_errs r) (mkpos 0 0) in
  (match e with EDoc => ["document"] | EValue => ["value"] end) ++
  (if acc then ["accepted"] else ["rejected"]) ++
  (if lexerr then ["lexical-error"] else []) ++
  (if existsb (fun t => Nat.leb 2 (List.length (st_errs t))) (r_toks r) || Nat.leb 2 (List.length (r_eof_errs r))
   then ["several-errors-in-one-scan"] else []) ++
  (match r_eof_errs r with [] => [] | _ => ["lexical-error-at-end"] end) ++
  (if lexerr && match r_tree r with Some _ => true | None => false end then ["tree-beside-lexical-error"] else []) ++
  (if negb acc && negb lexerr then
     (if pos_eqb lastp (r_eof r) then ["error-at-eof"] else ["error-at-token"]) else []) ++
  (if acc && N.ltb 1 (line (r_eof r)) then ["multi-line"] else []) ++
  (if acc && has_tok b_ellipsis KPunct r then ["fragments"] else []) ++
  (if acc && has_tok b_at KPunct r then ["directives"] else []) ++
  (if acc && has_tok b_dollar KPunct r then ["variables"] else []) ++
  (if acc && has_tok b_eq KPunct r then ["defaults"] else []) ++
  (if acc && has_tok b_bang KPunct r then ["non-null-types"] else []) ++
  (if acc && has_tok b_fragment KName r then ["kw-fragment"] else []) ++
  (if Nat.leb 1000 n then ["thousand-tokens"] else []) ++
  (match r_tree r, r_posm r with Some _, Some (_ :: _) => ["position-methods-compared"] | _, _ => [] end) ++
  (match r_src r with
   | Some src => if negb (within limit src) then ["from-tokens-only"] else ["from-bytes"]
   | None => ["from-tokens-only"]
   end) ++
  (if acc || (negb lexerr && negb (pos_eqb lastp first)) then ["nontrivial"] else []).

(** ** the case *)
Fixpoint first_some {A B} (f : A -> option B) (l : list A) : option B :=
  match l with
  | [] => None
  | x :: r => match f x with Some y => Some y | None => first_some f r end
  end.

Definition check (c : sexp) : sexp :=
  match tagged "case" c with
  | Some l =>
      match field1 "entry" l, field1 "family" l, field "runs" l, field1 "expect" l with
      | Some en, Some (SSym fam), Some rs, Some ex =>
          let e := if is_sym "value" en then EValue else EDoc in
          let limit := match field1 "fblimit" l with
                       | Some x => match as_N x with Some n => n | None => from_bytes_limit end
                       | None => from_bytes_limit
                       end in
          match map_opt dec_run rs with
          | Some ((r0 :: _) as runs) =>
              let rfs := map (fun r => (r, match r_tree r with Some t => facts_of e t | None => None end)) runs in
              let o1 := first_some (oracle_run e) rfs in
              let o2 := match o1 with
                        | Some k => Some k
                        | None => if is_sym "none" ex then None
                                  else first_some (oracle_expect e fam ex) runs
                        end in
              let o3 := match o2 with
                        | Some k => Some k
                        | None => first_some (oracle_pair r0) (tl runs)
                        end in
              match o3 with
              | Some k => v_oracle_fail k []
              | None =>
                  match first_some (compare_run e limit) rfs with
                  | Some v => v
                  | None =>
                      let fams := if is_sym "none" ex then [fam] else [fam; "printed-tree"] in
                      v_ok (fams ++ classes_run e limit r0 ++
                            (if is_sym "none" ex then [] else
                               match facts_of e ex with
                               | Some f => if Z.ltb max_recursion (tf_depth f) then ["beyond-recursion-limit"]
                                           else if Z.ltb (max_recursion - 8) (tf_depth f) then ["at-recursion-limit"] else []
                               | None => []
                               end) ++
                            (match tl runs with [] => [] | _ => ["two-layouts"] end))
                  end
              end
          | _ => v_bad "runs"
          end
      | _, _, _, _ => v_bad "fields"
      end
  | None => v_bad "shape"
  end.
