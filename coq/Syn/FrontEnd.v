(** * Syn/FrontEnd.v — C06 from BYTES: the parser model driven by the scanner model (C07), the
    way [parser.newParser] / [consumeToken] drive [scanner.Scanner].  No proofs in this file.

    Go (graphql/parser/parser.go)                      here
    -------------------------------------------------  -----------------------------------------
    newParser: scanner.New(src, 0)                     [LexModel.init bs], mode 0 = [scan .. false]
    consumeToken: p.scanner.Scan()                     one [LexModel.scan] call
      true : Token(), StringValue(), Position()        [ptoken_of] of the returned token
      false: eof, INVALID "EOF", scanner.Position()    end of the stream; [f_eof] = (line, column)
                                                       of the state in which Scan found the input
                                                       exhausted (Scan stores tokenPosition there)
      Errors()[p.scannerErrors:], scannerErrors++      [new_errors seen]: the errors beyond the
                                                       [seen] already taken; [seen] grows by their
                                                       number
    ParseDocument / ParseValue                         [parse_document_bytes] / [parse_value_bytes]

    The Go parser calls Scan on demand (one call per consumeToken); the k-th call is the k-th call
    whenever it happens, because nothing else touches the scanner.  The model therefore makes all
    the calls first ([scan_stream]) and hands the parser model the resulting stream, each token
    with the errors reported during its own Scan call; the parser model reads the errors of a
    token only when it consumes it (ParserModel.consume_state), so a parse that stops early
    reports exactly the scanner errors the lazy code has seen.

    token.Token -> ParserModel kinds: the five significant kinds; mode 0 never returns another
    one (FrontEndProofs.front_end_total, clause ff_kinds), [KInvalid] stands for "any other kind" (the parser treats
    every kind it does not expect alike).  Go [int] positions are [Z] in the scanner model and
    [N] in the AST; lines and columns are at least 1 (FrontEndProofs.steps_pos, Inv_steps).

    Fuel: [S (length bs)] Scan calls (every call that returns a token consumes at least a byte),
    each with the scanner model's own fuel; then the parser model's [S (number of tokens)]. *)
From Coq Require Import List NArith ZArith Bool.
From ApiFu Require Import Base.Sexp Syn.Ast Syn.ParserModel.
From ApiFu Require Lex.Utf8 Lex.LexModel.
Import ListNotations.

Definition kind_of_tok (k : LexModel.tok) : kind :=
  match k with
  | LexModel.PUNCTUATOR => KPunct
  | LexModel.NAME => KName
  | LexModel.INT_VALUE => KInt
  | LexModel.FLOAT_VALUE => KFloat
  | LexModel.STRING_VALUE => KString
  | _ => KInvalid
  end.

Definition pos_of (l c : Z) : pos := mkpos (Z.to_N l) (Z.to_N c).
Definition err_pos (e : Z * Z) : pos := pos_of (fst e) (snd e).

(** &parserToken{Token: s.Token(), Value: s.StringValue(), Position: s.Position()} *)
Definition ptoken_of (t : LexModel.token) : token :=
  mktok (kind_of_tok (LexModel.t_kind t)) (LexModel.t_value t)
        (pos_of (LexModel.t_line t) (LexModel.t_col t)).

(** p.scanner.Errors()[p.scannerErrors:] *)
Definition new_errors (seen : nat) (st : LexModel.state) : list pos :=
  map err_pos (skipn seen (LexModel.s_errs st)).

Record front := mkfront { f_toks : list stoken; f_eof : pos; f_eof_errs : list pos }.

(** every consumeToken() call of a parser that reads the whole input, in order *)
Fixpoint scan_stream (fuel : nat) (seen : nat) (st : LexModel.state) : option front :=
  match fuel with
  | O => None
  | S f =>
      match LexModel.scan (S (LexModel.fuel_of st)) false st with
      | LexModel.ScanFuel => None
      | LexModel.ScanFalse st' =>
          Some (mkfront [] (pos_of (LexModel.s_line st') (LexModel.s_col st')) (new_errors seen st'))
      | LexModel.ScanTrue t st' =>
          let es := new_errors seen st' in
          match scan_stream f (seen + length es) st' with
          | Some r => Some (mkfront (mkst (ptoken_of t) es :: f_toks r) (f_eof r) (f_eof_errs r))
          | None => None
          end
      end
  end.

Definition front_end (bs : bytes) : option front :=
  scan_stream (S (length bs)) 0 (LexModel.init bs).

(** parser.ParseDocument(src) *)
Definition parse_document_bytes (bs : bytes) : outcome document :=
  match front_end bs with
  | None => OOF
  | Some r => ParseDocument (f_eof r) (f_eof_errs r) false (f_toks r)
  end.

(** parser.ParseValue(src) *)
Definition parse_value_bytes (bs : bytes) : outcome value :=
  match front_end bs with
  | None => OOF
  | Some r => ParseValue (f_eof r) (f_eof_errs r) (f_toks r)
  end.

(** ** the text the positions refer to *)

(** number of line terminators: LF, CR not followed by LF (CR LF counts once, at its LF) *)
Fixpoint line_terminators (bs : bytes) : Z :=
  match bs with
  | [] => 0
  | c :: t =>
      ((if (c =? 10)%N || ((c =? 13)%N && negb (match t with d :: _ => (d =? 10)%N | [] => false end))
        then 1 else 0) + line_terminators t)%Z
  end.

(** a position inside the text: a line of the text (or the line a final terminator opens),
    columns from 1 *)
Definition inside_text (bs : bytes) (p : pos) : Prop :=
  (1 <= line p <= 1 + Z.to_N (line_terminators bs))%N /\ (1 <= col p)%N.
