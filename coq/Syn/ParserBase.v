(** * Syn/ParserBase.v — generic lemmas for the C06 proofs: decidable equalities, layouts,
    and a small Hoare logic ([sat]) for the parser monad with the global invariant [valid]. *)
From Coq Require Import List NArith ZArith Bool Lia.
From ApiFu Require Import Base.Sexp Syn.Ast Syn.ParserModel Syn.Printer.
Import ListNotations.

(** ** equalities *)

Lemma kind_eqb_eq a b : kind_eqb a b = true <-> a = b.
Proof. destruct a, b; simpl; split; intro H; try reflexivity; try discriminate. Qed.

Lemma kind_eqb_refl a : kind_eqb a a = true.
Proof. destruct a; reflexivity. Qed.

Lemma pos_eqb_eq a b : pos_eqb a b = true <-> a = b.
Proof.
  destruct a as [l1 c1], b as [l2 c2]; unfold pos_eqb; simpl. split; intro H.
  - apply andb_true_iff in H as [A B]. apply N.eqb_eq in A, B. congruence.
  - inversion H; subst. rewrite !N.eqb_refl. reflexivity.
Qed.

Lemma pos_eqb_refl a : pos_eqb a a = true.
Proof. apply pos_eqb_eq; reflexivity. Qed.

Lemma bytes_eqb_neq a b : bytes_eqb a b = false <-> a <> b.
Proof.
  split; intro H.
  - intro E. apply bytes_eqb_eq in E. congruence.
  - destruct (bytes_eqb a b) eqn:E; [|reflexivity]. apply bytes_eqb_eq in E. contradiction.
Qed.

Lemma matches_spec e t :
  matches e t = true <->
  tk t = ek e /\ tv t = ev e /\ (forall p, ep e = Some p -> tp t = p).
Proof.
  unfold matches. rewrite !andb_true_iff, kind_eqb_eq, bytes_eqb_eq. split.
  - intros [[A B] C]. repeat split; try congruence. intros p Hp. rewrite Hp in C.
    apply pos_eqb_eq in C. congruence.
  - intros (A & B & C). repeat split; try congruence. destruct (ep e) as [p|]; [|reflexivity].
    rewrite (C p eq_refl). apply pos_eqb_refl.
Qed.

(** ** layouts *)

Lemma layout_of_app a b x y :
  layout_of a x = true -> layout_of b y = true -> layout_of (a ++ b) (x ++ y) = true.
Proof.
  revert x. induction a as [|e a IH]; intros [|t x] Ha Hb; simpl in *; try discriminate; auto.
  apply andb_true_iff in Ha as [A B]. rewrite A. simpl. apply IH; assumption.
Qed.

Lemma layout_of_app_inv a b ts :
  layout_of (a ++ b) ts = true ->
  exists x y, ts = x ++ y /\ layout_of a x = true /\ layout_of b y = true.
Proof.
  revert ts. induction a as [|e a IH]; intros ts H; simpl in *.
  - exists [], ts. auto.
  - destruct ts as [|t ts]; [discriminate|]. apply andb_true_iff in H as [A B].
    destruct (IH _ B) as (x & y & E & Hx & Hy). exists (t :: x), y. subst. simpl. rewrite A. auto.
Qed.

Lemma layout_of_nil_l ts : layout_of [] ts = true -> ts = [].
Proof. destruct ts; simpl; [reflexivity|discriminate]. Qed.

Lemma layout_of_length es ts : layout_of es ts = true -> length es = length ts.
Proof.
  revert ts. induction es as [|e es IH]; intros [|t ts] H; simpl in *; try discriminate; auto.
  apply andb_true_iff in H as [_ B]. f_equal. auto.
Qed.

Lemma layout_of_cons e es t ts :
  layout_of (e :: es) (t :: ts) = (matches e t && layout_of es ts).
Proof. reflexivity. Qed.

Lemma layout_of_one e t : layout_of [e] [t] = matches e t.
Proof. simpl. apply andb_true_r. Qed.

Lemma layout_of_cons_intro e es t ts :
  matches e t = true -> layout_of es ts = true -> layout_of (e :: es) (t :: ts) = true.
Proof. intros A B. simpl. rewrite A, B. reflexivity. Qed.

Lemma layout_of_nil : layout_of [] [] = true.
Proof. reflexivity. Qed.

(** ** the nested fixpoints of Printer.v in list-library form *)

Lemma tokens_selset_eq sels o c :
  tokens_selset (SelSet sels o c) =
  e_punct b_lbrace o :: flat_map tokens_selection sels ++ [e_punct b_rbrace c].
Proof.
  reflexivity.
Qed.

Lemma wf_selset_eq sels o c :
  wf_selset (SelSet sels o c) = nonempty sels && forallb wf_selection sels.
Proof.
  reflexivity.
Qed.

Lemma depth_selset_eq sels o c :
  depth_selset (SelSet sels o c) = (1 + maxl (map depth_selection sels))%Z.
Proof.
  cbn [depth_selset]. f_equal. induction sels as [|x r IH]; [reflexivity|].
  cbn [map maxl fold_right]. unfold maxl in IH. rewrite <- IH. reflexivity.
Qed.

Lemma positions_selset_eq sels o c :
  positions_selset (SelSet sels o c) = flat_map positions_selection sels.
Proof.
  reflexivity.
Qed.

(** ** induction principles for the nested trees *)

Lemma value_ind' (P : value -> Prop) :
  (forall x, P (VVar x)) -> (forall l p, P (VInt l p)) -> (forall l p, P (VFloat l p)) ->
  (forall s p, P (VString s p)) -> (forall b p, P (VBool b p)) -> (forall p, P (VNull p)) ->
  (forall n p, P (VEnum n p)) ->
  (forall vs o c, Forall P vs -> P (VList vs o c)) ->
  (forall fs o c, Forall (fun f => P (snd f)) fs -> P (VObject fs o c)) ->
  forall v, P v.
Proof.
  intros H1 H2 H3 H4 H5 H6 H7 H8 H9. fix IH 1.
  intros [x|l p|l p|s p|b p|p|n p|vs o c|fs o c];
    [apply H1|apply H2|apply H3|apply H4|apply H5|apply H6|apply H7| | ].
  - apply H8. induction vs as [|v vs IHvs]; constructor; [apply IH|exact IHvs].
  - apply H9. induction fs as [|f fs IHfs]; constructor; [apply IH|exact IHfs].
Qed.

Lemma selection_ind' (P : selection -> Prop) (Q : selset -> Prop) :
  (forall alias n args dirs, P (SField alias n args dirs None)) ->
  (forall alias n args dirs ss, Q ss -> P (SField alias n args dirs (Some ss))) ->
  (forall n dirs e, P (SSpread n dirs e)) ->
  (forall cond dirs ss e, Q ss -> P (SInline cond dirs ss e)) ->
  (forall sels o c, Forall P sels -> Q (SelSet sels o c)) ->
  (forall s, P s) /\ (forall ss, Q ss).
Proof.
  intros H1 H2 H3 H4 H5.
  assert (HP : forall s, P s).
  { fix IH 1. intros [alias n args dirs [[sels o c]|]|n dirs e|cond dirs [sels o c] e].
    - apply H2. apply H5. induction sels as [|x r IHr]; constructor; [apply IH|exact IHr].
    - apply H1.
    - apply H3.
    - apply H4. apply H5. induction sels as [|x r IHr]; constructor; [apply IH|exact IHr]. }
  split; [exact HP|]. intros [sels o c]. apply H5. induction sels; constructor; auto.
Qed.

(** ** token counts *)

Lemma flat_map_length_in {A B} (f : A -> list B) x xs :
  In x xs -> (length (f x) <= length (flat_map f xs))%nat.
Proof.
  induction xs as [|y ys IH]; simpl; [tauto|]. rewrite app_length. intros [->|H]; [lia|].
  specialize (IH H). lia.
Qed.

Lemma flat_map_length_ge {A B} (f : A -> list B) xs :
  (forall x, In x xs -> (1 <= length (f x))%nat) -> (length xs <= length (flat_map f xs))%nat.
Proof.
  induction xs as [|y ys IH]; simpl; intro H; [lia|]. rewrite app_length.
  pose proof (H y (or_introl eq_refl)). assert (length ys <= length (flat_map f ys))%nat by (apply IH; auto). lia.
Qed.

(** ** maxl *)

Lemma maxl_nonneg l : (0 <= maxl l)%Z.
Proof. induction l; simpl; lia. Qed.

Lemma maxl_bound (r : Z) (l : list Z) :
  (r <= max_recursion)%Z -> Forall (fun d => (r + d <= max_recursion)%Z) l ->
  (r + maxl l <= max_recursion)%Z.
Proof.
  intros Hr H. induction H as [|d l Hd _ IH]; simpl; lia.
Qed.

Lemma maxl_in (l : list Z) d : In d l -> (d <= maxl l)%Z.
Proof.
  induction l as [|x l IH]; simpl; [tauto|]. intros [->|H]; [lia|]. specialize (IH H). lia.
Qed.

(** ** the invariant and the Hoare logic *)

Section Sat.
  Variable eof_pos : pos.
  Variable eof_errs : list pos.
  (** the whole input *)
  Variable ts0 : list stoken.

  Notation peek_tok := (peek_tok eof_pos).

  Definition all_errs : list pos := flat_map st_errs ts0 ++ eof_errs.

  (** scanner errors not yet merged into [p.errors]: those of the tokens after the lookahead *)
  Definition pending (l : list stoken) : list pos :=
    match l with [] => [] | _ :: r => flat_map st_errs r ++ eof_errs end.

  (** reachable parser states: the remaining tokens are a suffix of the input and the errors
      recorded so far are exactly the scanner errors up to and including the lookahead *)
  Definition valid (s : pstate) : Prop :=
    (exists pre, ts0 = pre ++ toks s) /\ errs s ++ pending (toks s) = all_errs.

  (** a panic: [p.errors] of a reachable state plus one error at its lookahead *)
  Definition failed_at (es : list pos) : Prop :=
    exists s, valid s /\ es = errs s ++ [tp (peek_tok s)].

  Definition sat {A} (m : M A) (s : pstate) (Q : A -> pstate -> Prop) : Prop :=
    valid s ->
    match m s with
    | Ok a s' => valid s' /\ Q a s'
    | Fail es => failed_at es
    | OutOfFuel => True
    end.

  Lemma valid_init : valid (init eof_errs ts0).
  Proof.
    unfold valid, init, all_errs; simpl. split; [exists []; reflexivity|].
    destruct ts0 as [|t r]; simpl; [rewrite app_nil_r; reflexivity|]. rewrite app_assoc. reflexivity.
  Qed.

  Lemma valid_recur s r : valid s -> valid (mkps (toks s) (errs s) r).
  Proof. unfold valid; simpl; auto. Qed.

  Lemma valid_consume s : valid s -> valid (consume_state eof_errs s).
  Proof.
    unfold valid, consume_state. intros [[pre Hp] He]. destruct (toks s) as [|t r] eqn:E.
    - rewrite E. split; [exists pre; assumption|assumption].
    - simpl. split.
      + exists (pre ++ [t]). rewrite <- app_assoc. exact Hp.
      + rewrite <- He. simpl. destruct r as [|t' r']; simpl.
        * rewrite app_nil_r. reflexivity.
        * rewrite <- !app_assoc. reflexivity.
  Qed.

  Lemma sat_ret A (a : A) s (Q : A -> pstate -> Prop) : (valid s -> Q a s) -> sat (ret a) s Q.
  Proof. unfold sat, ret. auto. Qed.

  Lemma sat_bind A B (m : M A) (k : A -> M B) s (P : A -> pstate -> Prop) (Q : B -> pstate -> Prop) :
    sat m s P -> (forall a s1, valid s1 -> P a s1 -> sat (k a) s1 Q) -> sat (bind m k) s Q.
  Proof.
    unfold sat, bind. intros Hm Hk V. specialize (Hm V). destruct (m s) as [a s1|es|]; auto.
    destruct Hm as [V1 HP]. exact (Hk a s1 V1 HP V1).
  Qed.

  Lemma sat_conseq A (m : M A) s (P Q : A -> pstate -> Prop) :
    sat m s P -> (forall a s1, valid s1 -> P a s1 -> Q a s1) -> sat m s Q.
  Proof.
    unfold sat. intros Hm H V. specialize (Hm V). destruct (m s) as [a s1|es|]; auto.
    destruct Hm; split; auto.
  Qed.

  Lemma sat_errorf A s (Q : A -> pstate -> Prop) : sat (errorf eof_pos) s Q.
  Proof. unfold sat, errorf. intro V. exists s. auto. Qed.

  Lemma sat_out_of_fuel A s (Q : A -> pstate -> Prop) : sat out_of_fuel s Q.
  Proof. unfold sat, out_of_fuel. auto. Qed.

  Lemma sat_enter B (k : M B) s (Q : B -> pstate -> Prop) :
    ((recur s + 1 <= max_recursion)%Z -> sat k (mkps (toks s) (errs s) (recur s + 1)) Q) ->
    sat (enter eof_pos ;;; k) s Q.
  Proof.
    unfold sat, bind, enter. intros H V.
    destruct (max_recursion <? recur s + 1)%Z eqn:E.
    - unfold errorf. eexists. split; [apply (valid_recur s (recur s + 1)%Z V)|reflexivity].
    - apply Z.ltb_ge in E. apply (H E). apply valid_recur; assumption.
  Qed.

  Lemma sat_exit B (k : M B) s (Q : B -> pstate -> Prop) :
    sat k (mkps (toks s) (errs s) (recur s - 1)) Q -> sat (exit_ ;;; k) s Q.
  Proof. unfold sat, bind, exit_. intros H V. apply H. apply valid_recur; assumption. Qed.

  Lemma sat_peek B (k : token -> M B) s (Q : B -> pstate -> Prop) :
    sat (k (peek_tok s)) s Q -> sat (t <- peek eof_pos ;; k t) s Q.
  Proof. unfold sat, bind, peek. auto. Qed.

  Lemma sat_at_eof B (k : bool -> M B) s (Q : B -> pstate -> Prop) :
    sat (k (at_eof_b s)) s Q -> sat (e <- at_eof ;; k e) s Q.
  Proof. unfold sat, bind, at_eof. auto. Qed.

  Lemma sat_consume B (k : M B) s (Q : B -> pstate -> Prop) :
    sat k (consume_state eof_errs s) Q -> sat (consume eof_errs ;;; k) s Q.
  Proof. unfold sat, bind, consume. intros H V. apply H. apply valid_consume; assumption. Qed.

  (** a lookahead of a real kind is a real token *)
  Lemma peek_real s k :
    kind_eqb (tk (peek_tok s)) k = true -> k <> KInvalid ->
    exists t r, toks s = t :: r /\ st_tok t = peek_tok s.
  Proof.
    unfold ParserModel.peek_tok. destruct (toks s) as [|t r]; simpl.
    - intros H N. destruct k; simpl in H; try discriminate. congruence.
    - intros _ _. exists t, r. auto.
  Qed.

  Lemma is_punct_real s v :
    is_punct v (peek_tok s) = true ->
    exists t r, toks s = t :: r /\ st_tok t = peek_tok s /\ tk (st_tok t) = KPunct /\ tv (st_tok t) = v.
  Proof.
    unfold is_punct. intro H. apply andb_true_iff in H as [A B].
    destruct (peek_real s KPunct A) as (t & r & E & F); [discriminate|].
    exists t, r. rewrite F. apply kind_eqb_eq in A. apply bytes_eqb_eq in B. auto.
  Qed.

  Lemma is_name_real s :
    is_name (peek_tok s) = true ->
    exists t r, toks s = t :: r /\ st_tok t = peek_tok s /\ tk (st_tok t) = KName.
  Proof.
    unfold is_name. intro A.
    destruct (peek_real s KName A) as (t & r & E & F); [discriminate|].
    exists t, r. rewrite F. apply kind_eqb_eq in A. auto.
  Qed.

  Lemma consume_cons s t r :
    toks s = t :: r ->
    consume_state eof_errs s =
    mkps r (errs s ++ match r with [] => eof_errs | t' :: _ => st_errs t' end) (recur s).
  Proof. unfold consume_state. intros ->. reflexivity. Qed.

  Lemma layout_head e es pre s rest :
    toks s = pre ++ rest -> layout_of (e :: es) (map st_tok pre) = true -> matches e (peek_tok s) = true.
  Proof.
    intros E L. destruct pre as [|t pre]; [discriminate|]. simpl in L.
    apply andb_true_iff in L as [A _]. unfold ParserModel.peek_tok. rewrite E. exact A.
  Qed.

  (** ** the postcondition shared by all productions *)
  Definition post {A} (T : A -> list etok) (W : A -> bool) (D : A -> Z)
             (s : pstate) (a : A) (s' : pstate) : Prop :=
    exists pre, toks s = pre ++ toks s' /\ layout_of (T a) (map st_tok pre) = true /\
                W a = true /\ recur s' = recur s /\ (recur s + D a <= max_recursion)%Z.

  (** list version used by [many]: the depth bound holds element-wise *)
  Definition post_list {A} (T : A -> list etok) (W : A -> bool) (D : A -> Z)
             (s : pstate) (xs : list A) (s' : pstate) : Prop :=
    exists pre, toks s = pre ++ toks s' /\ layout_of (flat_map T xs) (map st_tok pre) = true /\
                forallb W xs = true /\ recur s' = recur s /\
                Forall (fun x => (recur s + D x <= max_recursion)%Z) xs.

  Lemma many_sat A (T : A -> list etok) (W : A -> bool) (D : A -> Z)
        (stop : pstate -> bool) (body : M A) :
    (forall s, stop s = false -> sat body s (post T W D s)) ->
    forall fuel s,
      sat (many fuel stop body) s (fun xs s' => post_list T W D s xs s' /\ stop s' = true).
  Proof.
    intros Hb. induction fuel as [|f IH]; intro s; simpl.
    - apply sat_out_of_fuel.
    - unfold sat. intro V. destruct (stop s) eqn:Es.
      + split; [assumption|]. split; [|assumption]. exists []. simpl. auto.
      + revert V. change (sat (x <- body ;; xs <- many f stop body ;; ret (x :: xs)) s
                           (fun xs s' => post_list T W D s xs s' /\ stop s' = true)).
        eapply sat_bind; [apply Hb; exact Es|]. intros x s1 V1 (pre1 & E1 & L1 & W1 & R1 & D1).
        eapply sat_bind; [apply IH|]. intros xs s2 V2 [(pre2 & E2 & L2 & W2 & R2 & D2) St].
        apply sat_ret. intros _. split; [|assumption].
        exists (pre1 ++ pre2). rewrite E1, E2, app_assoc. split; [reflexivity|].
        rewrite map_app. simpl. split; [apply layout_of_app; assumption|].
        rewrite W1, W2. split; [reflexivity|]. split; [congruence|].
        constructor; [assumption|]. rewrite R1 in D2. exact D2.
  Qed.
End Sat.

Global Arguments layout_of : simpl never.
Global Arguments matches : simpl never.
