(** * Syn/FrontEndSpec.v — C06 from BYTES: when a byte string is a document of the grammar.

    The June 2018 grammar in two layers, both already written down as specifications:
    the lexical grammar ([LexSpec.spec_lex], property C07: the text is valid UTF-8 and is cut, by
    longest match, into Tokens and Ignored tokens up to its end) and the syntactic grammar
    ([Printer.tokens_document], [wf_document]: the Tokens — ignored ones dropped — are, one for
    one, the tokens of a well-formed tree, each recorded position being the position of the node's
    first token).  No proofs in this file. *)
From Coq Require Import List NArith ZArith Bool.
From ApiFu Require Import Base.Sexp Syn.Ast Syn.ParserModel Syn.Printer Syn.ParserProofs Syn.FrontEnd.
From ApiFu Require Lex.Utf8 Lex.LexModel Lex.LexSpec Lex.LexRel.
Import ListNotations.

(** a Token of the lexical grammar as the parser sees it: kind, text (for strings the decoded
    value) in UTF-8, line and column *)
Definition ptoken_of_spec (t : LexSpec.stoken) : token := ptoken_of (LexRel.token_of_stoken t).

(** [bs] is a text of the lexical grammar with the Token sequence [toks].  The two exclusions
    are C07's recorded deviations of the scanner from the 2018 text (a number directly followed
    by e/E; U+FEFF inside the text): texts the grammar tokenises and the scanner always rejects
    (C07_known_classes_rejected). *)
Definition lexes_to (bs : bytes) (toks : list token) : Prop :=
  exists cps stoks,
    LexSpec.utf8_decode bs = Some cps /\ LexSpec.spec_lex cps = (stoks, LexSpec.EndOk) /\
    LexSpec.excl_dangling_exponent cps stoks = false /\ LexSpec.excl_inner_bom stoks = false /\
    toks = map ptoken_of_spec (LexSpec.significant stoks).

(** [bs] is a document of the grammar with tree [d] (positions included), of derivation height
    at most the parser's recursion limit *)
Definition in_grammar_bytes (bs : bytes) (d : document) : Prop :=
  exists toks, lexes_to bs toks /\ layout_of (tokens_document d) toks = true /\
               wf_document d = true /\ (depth_document d <= max_recursion)%Z.

Definition value_in_grammar_bytes (bs : bytes) (v : value) : Prop :=
  exists toks, lexes_to bs toks /\ layout_of (tokens_value v) toks = true /\
               wf_value false v = true /\ (depth_value v <= max_recursion)%Z.

(** the same token up to its position *)
Definition same_token_text (a b : token) : Prop := tk a = tk b /\ tv a = tv b.

(** ** what the scanner hands to the parser *)

(** lexicographic order of positions *)
Definition ple (a b : pos) : Prop := (line a < line b \/ (line a = line b /\ col a <= col b))%N.
Definition plt (a b : pos) : Prop := (line a < line b \/ (line a = line b /\ col a < col b))%N.

(** the stream [r] computed from the text [bs]: token positions, the end position and every
    lexical error lie inside the text; distinct tokens have distinct positions, all before the end
    position; only kinds the parser knows; at most one token per byte *)
Record front_facts (bs : bytes) (r : front) : Prop := {
  ff_inside_toks : Forall (inside_text bs) (token_positions (f_toks r));
  ff_inside_eof : inside_text bs (f_eof r);
  ff_inside_errs : Forall (inside_text bs) (scanner_errors (f_eof_errs r) (f_toks r));
  ff_nodup : NoDup (token_positions (f_toks r));
  ff_before_eof : Forall (fun p => plt p (f_eof r)) (token_positions (f_toks r));
  ff_kinds : Forall (fun t => tk (st_tok t) <> KInvalid) (f_toks r);
  ff_count : (length (f_toks r) <= length bs)%nat }.

