(** * Syn/FrontEndProofs.v — C06 from BYTES: the composed front end (scanner model of C07, then
    the parser model) is total, accepts exactly the grammar, records exact and pairwise distinct
    positions, and reports every error inside the text — for every byte string.

    The scanner side rests on C07's development: [LexProgress.scan_ok] (what one Scan call does, in
    terms of the step relation [steps]), [lex_progress] / [lex_mode] / [lex_sound_bytes] /
    [lex_refines_spec].  New here: positions never go backwards along [steps] and strictly grow
    with every consumed rune (hence distinct tokens have distinct positions — for EVERY byte string,
    valid UTF-8 or not), and the line number is exactly one plus the number of line terminators
    consumed (hence every position and every reported error lies inside the text). *)
From Coq Require Import List NArith ZArith Bool Lia ZifyBool ZifyNat ZifyN.
From ApiFu Require Import Base.Sexp Syn.Ast Syn.ParserModel Syn.Printer Syn.ParserProofs Syn.Relabel Syn.FrontEnd
     Syn.FrontEndSpec.
From ApiFu Require Lex.Utf8 Lex.LexModel Lex.LexSpec Lex.LexRel Lex.LexProgress Lex.LexMode Lex.LexValid
     Lex.LexRefine Lex.Utf8Proofs Lex.Utf8Valid.
Import ListNotations.
Local Open Scope Z_scope.

Local Notation lstate := LexModel.state.
Local Notation s_line := LexModel.s_line.
Local Notation s_col := LexModel.s_col.
Local Notation s_rest := LexModel.s_rest.
Local Notation s_errs := LexModel.s_errs.
Local Notation steps := LexProgress.steps.
Local Notation nsteps := LexProgress.nsteps.

(** ** list helpers *)
Lemma skipn_app_exact {A} (a b : list A) : skipn (length a) (a ++ b) = b.
Proof. rewrite skipn_app, skipn_all, Nat.sub_diag. reflexivity. Qed.

Lemma Forall_app_r {A} (P : A -> Prop) (a b : list A) : Forall P (a ++ b) -> Forall P b.
Proof. intro H. apply Forall_app in H. apply H. Qed.

(** ** positions along [steps] *)
Definition good (st : lstate) : Prop := 1 <= s_line st /\ 1 <= s_col st.
Definition zle (a b : lstate) : Prop :=
  s_line a < s_line b \/ (s_line a = s_line b /\ s_col a <= s_col b).
Definition zlt (a b : lstate) : Prop :=
  s_line a < s_line b \/ (s_line a = s_line b /\ s_col a < s_col b).

Lemma consume_rune_pos st : good st -> good (LexModel.consume_rune st) /\ zlt st (LexModel.consume_rune st).
Proof.
  unfold good, zlt, LexModel.consume_rune. cbv zeta. cbn [LexModel.s_line LexModel.s_col].
  intros [H1 H2].
  match goal with |- context [if ?b then _ else _] => destruct b end; lia.
Qed.

Lemma nsteps_pos d k st st' : nsteps d k st st' -> good st ->
  good st' /\ zle st st' /\ ((1 <= k)%nat -> zlt st st').
Proof.
  induction 1 as [d st|d k st st' Hd Hv H IH|k st st' Hd H IH|d k st st' H IH]; intro G.
  - split; [exact G|]. split; [unfold zle; lia|intro; lia].
  - destruct (consume_rune_pos st G) as [G1 L1]. destruct (IH G1) as (G2 & L2 & _).
    split; [exact G2|]. unfold zle, zlt in *. split; [lia|intros _; lia].
  - destruct (consume_rune_pos st G) as [G1 L1]. destruct (IH G1) as (G2 & L2 & _).
    split; [exact G2|]. unfold zle, zlt in *. split; [lia|intros _; lia].
  - assert (G1 : good (LexModel.errorf st)) by exact G.
    destruct (IH G1) as (G2 & L2 & L3). split; [exact G2|].
    unfold zle, zlt, LexModel.errorf in *. cbn [LexModel.s_line LexModel.s_col] in *. split; [exact L2|exact L3].
Qed.

Lemma steps_pos m st st' : steps m st st' -> good st ->
  good st' /\ zle st st' /\ ((1 <= m)%nat -> zlt st st').
Proof.
  intros (k & Hm & H) G. destruct (nsteps_pos _ _ _ _ H G) as (G' & L & S).
  split; [exact G'|]. split; [exact L|]. intro. apply S. lia.
Qed.

(** the same orders on AST positions *)
Definition spos (st : lstate) : pos := pos_of (s_line st) (s_col st).

Lemma spos_le a b : good a -> good b -> zle a b -> ple (spos a) (spos b).
Proof. unfold good, zle, ple, spos, pos_of. cbn [line col]. lia. Qed.
Lemma spos_lt a b : good a -> good b -> zlt a b -> plt (spos a) (spos b).
Proof. unfold good, zlt, plt, spos, pos_of. cbn [line col]. lia. Qed.
Lemma plt_irrefl p : ~ plt p p.
Proof. unfold plt. lia. Qed.
Lemma plt_le_trans a b c : plt a b -> ple b c -> plt a c.
Proof. unfold plt, ple. lia. Qed.
Lemma ple_trans a b c : ple a b -> ple b c -> ple a c.
Proof. unfold ple. lia. Qed.

(** ** the line number counts the line terminators consumed *)
Lemma line_terminators_nonneg bs : 0 <= line_terminators bs.
Proof.
  induction bs as [|c t IH]; cbn [line_terminators]; [lia|].
  match goal with |- context [if ?b then _ else _] => destruct b end; lia.
Qed.

(** what DecodeRune consumed: one ASCII byte, or bytes that are all at least 0x80 *)
Lemma decode_cases (p0 : N) (t : bytes) :
  ((p0 < 128)%N /\ Utf8.decode_rune (p0 :: t) = (Z.of_N p0, 1%nat)) \/
  (exists r n, Utf8.decode_rune (p0 :: t) = (r, n) /\ 128 <= r /\ (1 <= n)%nat /\
               Forall (fun b => (128 <= b)%N) (firstn n (p0 :: t))).
Proof.
  destruct (N.ltb_spec p0 128) as [Hlt|Hge].
  - left. split; [exact Hlt|]. unfold Utf8.decode_rune. cbv zeta. unfold Utf8.zb.
    destruct (Z.ltb_spec (Z.of_N p0) 128); [reflexivity|lia].
  - right. destruct (Utf8Valid.decode_rune_failure_or_valid (p0 :: t)) as [Hf|(c & Hs & Hd & Hp)]; [discriminate| |].
    + exists Utf8.RuneError, 1%nat. split; [exact Hf|]. unfold Utf8.RuneError. split; [lia|]. split; [lia|].
      cbn [firstn]. constructor; [exact Hge|constructor].
    + destruct (N.ltb_spec c 128) as [Hc|Hc].
      { exfalso. rewrite (Utf8Proofs.utf8_encode_ascii c Hc) in Hp. cbn [app] in Hp. inversion Hp. lia. }
      exists (Z.of_N c), (length (LexSpec.utf8_encode c)). split; [exact Hd|]. split; [lia|].
      pose proof (Utf8Proofs.utf8_encode_length_pos c) as Hl. split; [lia|].
      pose proof (f_equal (firstn (length (LexSpec.utf8_encode c))) Hp) as Hfirst.
      rewrite LexRefine.firstn_app_exact in Hfirst. rewrite Hfirst.
      apply Forall_forall. intros b Hb. exact (Utf8Proofs.utf8_encode_high c b Hc Hb).
Qed.

Lemma line_terminators_skip_high : forall (n : nat) (p : bytes),
  Forall (fun b => (128 <= b)%N) (firstn n p) -> line_terminators p = line_terminators (skipn n p).
Proof.
  induction n as [|n IH]; intros p H; [reflexivity|].
  destruct p as [|c t]; [reflexivity|]. cbn [firstn] in H. inversion H as [|? ? Hc Ht]; subst.
  cbn [skipn line_terminators]. rewrite <- (IH t Ht).
  destruct (N.eqb_spec c 10); [lia|]. destruct (N.eqb_spec c 13); [lia|]. cbn [orb andb]. lia.
Qed.

(** [s.nextRune == '\n'] after a consumeRune: the next byte is LF *)
Lemma next_is_lf (t : bytes) :
  (fst (LexModel.read_next_rune t) =? 10) = match t with d :: _ => (d =? 10)%N | [] => false end.
Proof.
  destruct t as [|d t']; [reflexivity|]. unfold LexModel.read_next_rune.
  destruct (decode_cases d t') as [[Hd He]|(r & n & He & Hr & Hn & Hf)]; rewrite He; cbn [fst].
  - destruct (Z.eqb_spec (Z.of_N d) 10); destruct (N.eqb_spec d 10); try reflexivity; lia.
  - destruct n as [|n]; [lia|]. cbn [firstn] in Hf. inversion Hf as [|? ? Hd _]; subst.
    destruct (Z.eqb_spec r 10); [lia|]. destruct (N.eqb_spec d 10); [lia|reflexivity].
Qed.

Definition lines_inv (K : Z) (st : lstate) : Prop := s_line st + line_terminators (s_rest st) = K.

Lemma consume_rune_lines K st : LexModel.is_done st = false -> lines_inv K st ->
  lines_inv K (LexModel.consume_rune st).
Proof.
  unfold lines_inv, LexModel.is_done. intros Hd H. destruct (s_rest st) as [|p0 t] eqn:Hr; [discriminate|].
  unfold LexModel.consume_rune, LexModel.next_rune, LexModel.next_size. cbv zeta. cbn [LexModel.s_line LexModel.s_rest].
  rewrite Hr. change (LexModel.read_next_rune (p0 :: t)) with (Utf8.decode_rune (p0 :: t)).
  destruct (decode_cases p0 t) as [[Hp He]|(r & n & He & Hge & Hn & Hf)]; rewrite He; cbn [fst snd].
  - cbn [skipn]. rewrite next_is_lf. cbn [line_terminators] in H.
    destruct (Z.eqb_spec (Z.of_N p0) 10); destruct (N.eqb_spec p0 10); try lia;
      destruct (Z.eqb_spec (Z.of_N p0) 13); destruct (N.eqb_spec p0 13); try lia; cbn [orb andb] in *; try lia.
    destruct (negb match t with [] => false | d :: _ => (d =? 10)%N end); lia.
  - rewrite (line_terminators_skip_high n (p0 :: t) Hf) in H.
    destruct (Z.eqb_spec r 10); [lia|]. destruct (Z.eqb_spec r 13); [lia|]. cbn [orb andb]. exact H.
Qed.

(** the invariant of every state the scanner reaches on a text with [K - 1] line terminators *)
Definition err_in (K : Z) (e : Z * Z) : Prop := 1 <= fst e <= K /\ 1 <= snd e.
Definition Inv (K : Z) (st : lstate) : Prop := good st /\ lines_inv K st /\ Forall (err_in K) (s_errs st).

Lemma Inv_steps K m st st' : steps m st st' -> Inv K st -> Inv K st'.
Proof.
  apply (LexProgress.steps_preserve (Inv K)).
  - intros s (G & L & E) Hd. split; [apply consume_rune_pos; exact G|]. split; [apply consume_rune_lines; assumption|exact E].
  - intros s (G & L & E). split; [exact G|]. split; [exact L|].
    unfold LexModel.errorf. cbn [LexModel.s_errs]. apply Forall_app. split; [exact E|].
    constructor; [|constructor]. unfold err_in, good, lines_inv in *. cbn [fst snd].
    pose proof (line_terminators_nonneg (s_rest s)). lia.
Qed.

Lemma Inv_init bs : Inv (1 + line_terminators bs) (LexModel.init bs).
Proof.
  unfold Inv, good, lines_inv, LexModel.init. cbn [LexModel.s_line LexModel.s_col LexModel.s_rest LexModel.s_errs].
  split; [lia|]. split; [reflexivity|constructor].
Qed.

Definition inside (K : Z) (p : pos) : Prop := (1 <= line p <= Z.to_N K)%N /\ (1 <= col p)%N.

Lemma Inv_inside K st : Inv K st -> inside K (spos st).
Proof.
  intros ([G1 G2] & L & _). unfold inside, spos, pos_of, lines_inv in *. cbn [line col].
  pose proof (line_terminators_nonneg (s_rest st)). lia.
Qed.

Lemma err_in_inside K e : err_in K e -> inside K (err_pos e).
Proof. unfold err_in, inside, err_pos, pos_of. cbn [line col]. lia. Qed.

(** ** one Scan call in mode 0 never returns an ignored or INVALID token *)
Lemma scan_true_significant : forall fuel st t st',
  LexModel.scan fuel false st = LexModel.ScanTrue t st' -> kind_of_tok (LexModel.t_kind t) <> KInvalid.
Proof.
  induction fuel as [|f IH]; intros st t st' H; [cbn [LexModel.scan] in H; destruct (LexModel.is_done st); discriminate|].
  cbn [LexModel.scan] in H. destruct (LexModel.is_done st); [discriminate|].
  destruct (LexModel.scan_switch st) as [[[k sv] st1]|]; [|discriminate].
  destruct (LexModel.tok_eqb k LexModel.INVALID || LexModel.is_ignored k && negb false) eqn:E.
  - exact (IH _ _ _ H).
  - inversion H; subst. cbn [LexModel.t_kind]. destruct k; cbn in E; try discriminate; cbn; discriminate.
Qed.

(** ** the stream of consumeToken() results, relationally *)
Inductive stream_rel : lstate -> list stoken -> pos -> list pos -> Prop :=
| sr_eof st st' l :
    steps 0 st st' -> LexModel.is_done st' = true -> s_errs st' = s_errs st ++ l ->
    stream_rel st [] (spos st') (map err_pos l)
| sr_tok st st0 st' t l ts ep ee :
    steps 0 st st0 -> LexProgress.tok_at st0 st' t -> kind_of_tok (LexModel.t_kind t) <> KInvalid ->
    s_errs st' = s_errs st ++ l -> stream_rel st' ts ep ee ->
    stream_rel st (mkst (ptoken_of t) (map err_pos l) :: ts) ep ee.

(** [scan_stream] is total, produces that stream, and is [scan_all] in mode 0 with the errors
    distributed over the Scan calls that reported them *)
Lemma scan_stream_ok : forall fuel st, (length (s_rest st) < fuel)%nat ->
  exists r lts es,
    scan_stream fuel (length (s_errs st)) st = Some r /\
    stream_rel st (f_toks r) (f_eof r) (f_eof_errs r) /\
    LexModel.scan_all fuel false st = LexModel.Done lts es /\
    map st_tok (f_toks r) = map ptoken_of lts /\
    map err_pos es = map err_pos (s_errs st) ++ scanner_errors (f_eof_errs r) (f_toks r).
Proof.
  induction fuel as [|f IH]; intros st Hf; [lia|].
  cbn [scan_stream LexModel.scan_all].
  destruct (LexProgress.scan_ok false (S (LexModel.fuel_of st)) st)
    as [(st' & H1 & [K1 _] & D1)|(t & st0 & st' & H1 & [K1 _] & T1)];
    [unfold LexModel.fuel_of; lia| |]; rewrite H1.
  - destruct (LexProgress.steps_errs _ _ _ K1) as [l Hl].
    exists (mkfront [] (spos st') (map err_pos l)), [], (s_errs st').
    unfold new_errors. rewrite Hl, skipn_app_exact. split; [reflexivity|].
    cbn [f_toks f_eof f_eof_errs]. split; [apply sr_eof; assumption|]. split; [reflexivity|]. split; [reflexivity|].
    unfold scanner_errors. cbn [flat_map app]. apply map_app.
  - pose proof (LexProgress.ta_steps _ _ _ T1) as TS.
    pose proof (LexProgress.steps_trans _ _ _ _ _ K1 TS) as K2.
    destruct (LexProgress.steps_errs _ _ _ K2) as [l Hl].
    pose proof (LexProgress.steps_length _ _ _ K2) as HL.
    destruct (IH st') as (r & lts & es & R1 & R2 & R3 & R4 & R5); [cbn [Nat.add] in HL; lia|].
    assert (Hnew : new_errors (length (s_errs st)) st' = map err_pos l).
    { unfold new_errors. rewrite Hl, skipn_app_exact. reflexivity. }
    rewrite Hnew.
    replace (length (s_errs st) + length (map err_pos l))%nat with (length (s_errs st'))
      by (rewrite Hl, app_length, map_length; reflexivity).
    rewrite R1, R3.
    exists (mkfront (mkst (ptoken_of t) (map err_pos l) :: f_toks r) (f_eof r) (f_eof_errs r)), (t :: lts), es.
    cbn [f_toks f_eof f_eof_errs]. split; [reflexivity|].
    split; [eapply sr_tok; try eassumption; eapply scan_true_significant; exact H1|].
    split; [reflexivity|]. split; [cbn [map st_tok]; rewrite R4; reflexivity|].
    rewrite R5, Hl, map_app. unfold scanner_errors. cbn [flat_map st_errs]. rewrite <- !app_assoc. reflexivity.
Qed.

(** ** what holds of every stream *)

(** every token, the end position and every scanner error lie inside the text *)
Lemma stream_inside K st ts ep ee : stream_rel st ts ep ee -> Inv K st ->
  Forall (inside K) (token_positions ts) /\ inside K ep /\ Forall (inside K) (scanner_errors ee ts).
Proof.
  induction 1 as [st st' l K1 D1 Hl|st st0 st' t l ts ep ee K1 T1 Hk Hl R IH]; intro I.
  - pose proof (Inv_steps _ _ _ _ K1 I) as I'. split; [constructor|]. split; [apply Inv_inside; exact I'|].
    unfold scanner_errors. cbn [flat_map app]. destruct I' as (_ & _ & E). rewrite Hl in E.
    apply Forall_app_r in E. apply Forall_forall. intros p Hp. apply in_map_iff in Hp. destruct Hp as (e & <- & He).
    apply err_in_inside. rewrite Forall_forall in E. exact (E e He).
  - pose proof (Inv_steps _ _ _ _ K1 I) as I0.
    pose proof (Inv_steps _ _ _ _ (LexProgress.ta_steps _ _ _ T1) I0) as I'.
    destruct (IH I') as (F1 & F2 & F3). split; [|split; [exact F2|]].
    + unfold token_positions. cbn [map st_tok]. constructor; [|exact F1].
      unfold ptoken_of. cbn [tp]. rewrite (LexProgress.ta_line _ _ _ T1), (LexProgress.ta_col _ _ _ T1).
      apply Inv_inside. exact I0.
    + unfold scanner_errors in *. cbn [flat_map st_errs]. rewrite <- app_assoc. apply Forall_app. split; [|exact F3].
      destruct I' as (_ & _ & E). rewrite Hl in E. apply Forall_app_r in E.
      apply Forall_forall. intros p Hp. apply in_map_iff in Hp. destruct Hp as (e & <- & He).
      apply err_in_inside. rewrite Forall_forall in E. exact (E e He).
Qed.

(** token positions strictly increase, and the end position lies after all of them *)
Lemma stream_sorted st ts ep ee : stream_rel st ts ep ee -> good st ->
  Forall (ple (spos st)) (token_positions ts) /\ ple (spos st) ep /\
  NoDup (token_positions ts) /\ Forall (fun p => plt p ep) (token_positions ts).
Proof.
  induction 1 as [st st' l K1 D1 Hl|st st0 st' t l ts ep ee K1 T1 Hk Hl R IH]; intro G.
  - destruct (steps_pos _ _ _ K1 G) as (G' & L & _).
    split; [constructor|]. split; [apply spos_le; assumption|]. split; constructor.
  - destruct (steps_pos _ _ _ K1 G) as (G0 & L0 & _).
    destruct (steps_pos _ _ _ (LexProgress.ta_steps _ _ _ T1) G0) as (G' & _ & L1).
    specialize (L1 ltac:(lia)). destruct (IH G') as (F1 & F2 & N & F4).
    assert (Htp : tp (ptoken_of t) = spos st0).
    { unfold ptoken_of, spos. cbn [tp]. rewrite (LexProgress.ta_line _ _ _ T1), (LexProgress.ta_col _ _ _ T1). reflexivity. }
    pose proof (spos_le _ _ G G0 L0) as P0. pose proof (spos_lt _ _ G0 G' L1) as P1.
    unfold token_positions in *. cbn [map st_tok]. rewrite Htp.
    assert (Fgt : Forall (plt (spos st0)) (map (fun t0 : stoken => tp (st_tok t0)) ts)).
    { eapply Forall_impl; [|exact F1]. intros p Hp. eapply plt_le_trans; eassumption. }
    split; [|split; [|split]].
    + constructor; [exact P0|]. eapply Forall_impl; [|exact Fgt]. intros p Hp.
      unfold plt, ple in *. lia.
    + eapply ple_trans; [exact P0|]. unfold plt, ple in *. lia.
    + constructor; [|exact N]. intro Hin. rewrite Forall_forall in Fgt. exact (plt_irrefl _ (Fgt _ Hin)).
    + constructor; [eapply plt_le_trans; eassumption|exact F4].
Qed.

(** at most one token per byte; no token of a kind the parser does not know *)
Lemma stream_count st ts ep ee : stream_rel st ts ep ee -> (length ts <= length (s_rest st))%nat.
Proof.
  induction 1 as [st st' l K1 D1 Hl|st st0 st' t l ts ep ee K1 T1 Hk Hl R IH]; [cbn [length]; lia|].
  pose proof (LexProgress.steps_length _ _ _ K1). pose proof (LexProgress.steps_length _ _ _ (LexProgress.ta_steps _ _ _ T1)).
  cbn [length]. lia.
Qed.

Lemma stream_kinds st ts ep ee : stream_rel st ts ep ee -> Forall (fun t => tk (st_tok t) <> KInvalid) ts.
Proof.
  induction 1 as [st st' l K1 D1 Hl|st st0 st' t l ts ep ee K1 T1 Hk Hl R IH]; constructor; [|exact IH].
  cbn [st_tok ptoken_of tk]. exact Hk.
Qed.

(** ** the front end on a whole text *)
Lemma front_end_ok bs : exists r lts es,
  front_end bs = Some r /\ stream_rel (LexModel.init bs) (f_toks r) (f_eof r) (f_eof_errs r) /\
  LexModel.lex false bs = LexModel.Done lts es /\ map st_tok (f_toks r) = map ptoken_of lts /\
  map err_pos es = scanner_errors (f_eof_errs r) (f_toks r).
Proof.
  unfold front_end, LexModel.lex.
  destruct (scan_stream_ok (S (length bs)) (LexModel.init bs)) as (r & lts & es & H1 & H2 & H3 & H4 & H5);
    [cbn [LexModel.init LexModel.s_rest]; lia|].
  cbn [LexModel.init LexModel.s_errs length map app] in H1, H5. exists r, lts, es. auto.
Qed.

Lemma inside_text_iff bs p : inside (1 + line_terminators bs) p <-> inside_text bs p.
Proof. unfold inside, inside_text. pose proof (line_terminators_nonneg bs). lia. Qed.

(** the scanner side of the front end, for EVERY byte string: it terminates within its fuel, and
    the stream it hands to the parser has pairwise distinct, increasing token positions, all of
    them — and the end position, and every lexical error — inside the text *)
Theorem front_end_total bs : exists r, front_end bs = Some r /\ front_facts bs r.
Proof.
  destruct (front_end_ok bs) as (r & lts & es & H1 & H2 & _). exists r. split; [exact H1|].
  pose proof (Inv_init bs) as I. destruct (stream_inside _ _ _ _ _ H2 I) as (A & B & C).
  assert (G : good (LexModel.init bs)) by apply I. destruct (stream_sorted _ _ _ _ H2 G) as (_ & _ & N & F).
  constructor.
  - eapply Forall_impl; [|exact A]. intros p. apply inside_text_iff.
  - apply inside_text_iff. exact B.
  - eapply Forall_impl; [|exact C]. intros p. apply inside_text_iff.
  - exact N.
  - exact F.
  - eapply stream_kinds; exact H2.
  - apply (stream_count _ _ _ _ H2).
Qed.

(** ** filtering the ignored tokens commutes with reading reference tokens as scanner tokens *)
Lemma significant_map stoks :
  LexMode.significant_tokens (map LexRel.token_of_stoken stoks) = map LexRel.token_of_stoken (LexSpec.significant stoks).
Proof.
  unfold LexMode.significant_tokens, LexSpec.significant.
  induction stoks as [|t l IH]; [reflexivity|]. cbn [map filter].
  change (LexModel.t_kind (LexRel.token_of_stoken t)) with (LexRel.tok_of_kind (LexSpec.st_kind t)).
  rewrite LexRefine.tok_of_kind_ignored. destruct (LexSpec.kind_ignored (LexSpec.st_kind t)); cbn [negb map]; rewrite IH; reflexivity.
Qed.

(** the scanner accepts (mode 0, no error) exactly the texts of the lexical grammar, and hands the
    parser their Tokens *)
Lemma front_end_lexes bs r : front_end bs = Some r ->
  (scanner_errors (f_eof_errs r) (f_toks r) = [] <-> exists toks, lexes_to bs toks) /\
  (forall toks, lexes_to bs toks -> map st_tok (f_toks r) = toks).
Proof.
  intro Hr. destruct (front_end_ok bs) as (r' & lts & es & H1 & _ & H3 & H4 & H5).
  rewrite Hr in H1. inversion H1; subst r'. clear H1.
  destruct (LexProgress.lex_progress true bs) as (ts' & es' & L1 & _).
  pose proof (LexMode.lex_mode _ _ _ L1) as L0. rewrite H3 in L0. inversion L0; subst lts es'. clear L0.
  assert (FWD : forall toks, lexes_to bs toks -> es = [] /\ map st_tok (f_toks r) = toks).
  { intros toks (cps & stoks & U & S & E1 & E2 & ->).
    pose proof (LexRefine.lex_refines_spec bs cps stoks U S E1 E2) as L2. rewrite L1 in L2. inversion L2; subst ts' es.
    split; [reflexivity|]. rewrite H4, significant_map, map_map. reflexivity. }
  split; [split|].
  - intro SE. rewrite SE in H5. apply map_eq_nil in H5. subst es.
    destruct (LexValid.lex_sound_bytes bs ts' L1) as (cps & stoks & U & S & -> & E1 & E2).
    eexists. exists cps, stoks. repeat split; try eassumption.
  - intros (toks & Ht). destruct (FWD toks Ht) as [-> _]. symmetry. exact H5.
  - intros toks Ht. apply (FWD toks Ht).
Qed.

(** ** parser.ParseDocument from bytes *)

(** no byte string makes the composed model run out of fuel — the scanner gets [S (length bs)]
    Scan calls, the parser [S (number of tokens)] <= [S (length bs)] — and the model has no other
    abnormal outcome (a panic with a parser error is the ordinary result [Out None es]) *)
Theorem parse_document_bytes_total bs : parse_document_bytes bs <> OOF.
Proof.
  unfold parse_document_bytes. destruct (front_end_total bs) as (r & -> & _). apply parse_total.
Qed.

Theorem parse_document_bytes_never_panics bs :
  exists tree es, parse_document_bytes bs = Out tree es /\ (tree = None -> es <> []).
Proof.
  pose proof (parse_document_bytes_total bs) as T.
  destruct (parse_document_bytes bs) as [tree es|] eqn:E; [|congruence].
  exists tree, es. split; [reflexivity|]. intros -> ->.
  unfold parse_document_bytes in E. destruct (front_end bs) as [r|]; [|discriminate].
  exact (parse_reject_has_error _ _ _ E).
Qed.

(** accepted = in the grammar, from bytes, tree and positions included *)
Theorem parse_bytes_accepts_exactly bs d :
  parse_document_bytes bs = Out (Some d) [] <-> in_grammar_bytes bs d.
Proof.
  unfold parse_document_bytes, in_grammar_bytes. destruct (front_end_total bs) as (r & Hr & _). rewrite Hr.
  destruct (front_end_lexes bs r Hr) as [LX LT]. split.
  - intro H. destruct (parse_sound _ _ _ _ H) as (L & W & D & SE).
    destruct (proj1 LX SE) as (toks & Ht). pose proof (LT toks Ht) as Eq. subst toks. eexists. repeat split; eassumption.
  - intros (toks & Ht & L & W & D). rewrite <- (LT toks Ht) in L.
    apply parse_roundtrip; try assumption. apply LX. exists toks. exact Ht.
Qed.

(** everything else is rejected: at least one error is reported (never "nil, no error", never a
    tree without an error for a text outside the grammar) *)
Theorem parse_bytes_rejects_rest bs :
  (forall d, ~ in_grammar_bytes bs d) ->
  exists tree es, parse_document_bytes bs = Out tree es /\ es <> [].
Proof.
  intro NG. destruct (parse_document_bytes_never_panics bs) as (tree & es & E & N).
  exists tree, es. split; [exact E|]. intros ->. destruct tree as [d|]; [|exact (N eq_refl eq_refl)].
  apply (NG d). apply parse_bytes_accepts_exactly. exact E.
Qed.

(** a returned tree is the tree of the whole text's Token sequence even beside lexical errors *)
Theorem parse_bytes_tree bs d es : parse_document_bytes bs = Out (Some d) es ->
  exists r, front_end bs = Some r /\ layout_of (tokens_document d) (map st_tok (f_toks r)) = true /\
            wf_document d = true /\ (depth_document d <= max_recursion)%Z /\
            es = scanner_errors (f_eof_errs r) (f_toks r).
Proof.
  unfold parse_document_bytes. destruct (front_end_total bs) as (r & Hr & _). rewrite Hr. intro H.
  exists r. split; [reflexivity|]. exact (parse_document_tree _ _ _ _ _ H).
Qed.

(** distinct selection nodes have distinct positions — no hypothesis about the scanner left *)
Theorem parse_bytes_pos_injective bs d es :
  parse_document_bytes bs = Out (Some d) es -> NoDup (positions_document d).
Proof.
  unfold parse_document_bytes. destruct (front_end_total bs) as (r & Hr & F). rewrite Hr. intro H.
  exact (parse_pos_injective _ _ _ _ _ H (ff_nodup _ _ F)).
Qed.

(** every reported error — lexical or syntactic — is positioned inside the text *)
Theorem parse_bytes_errors_inside_text bs tree es :
  parse_document_bytes bs = Out tree es -> Forall (inside_text bs) es.
Proof.
  unfold parse_document_bytes. destruct (front_end_total bs) as (r & Hr & F). rewrite Hr. intro H.
  destruct tree as [d|].
  - destruct (parse_document_tree _ _ _ _ _ H) as (_ & _ & _ & ->). exact (ff_inside_errs _ _ F).
  - destruct (parse_error_located _ _ _ _ H) as (pre & p & -> & (rest & Hp) & Hl).
    apply Forall_app. split.
    + pose proof (ff_inside_errs _ _ F) as E. rewrite <- Hp in E. apply Forall_app in E. apply E.
    + constructor; [|constructor]. destruct Hl as [Hin| ->]; [|exact (ff_inside_eof _ _ F)].
      pose proof (ff_inside_toks _ _ F) as T. rewrite Forall_forall in T. exact (T p Hin).
Qed.

(** a rejection: the lexical errors met so far, then exactly one syntax error, at a token of the
    text or at its end *)
Theorem parse_bytes_error_located bs es : parse_document_bytes bs = Out None es ->
  exists r pre p, front_end bs = Some r /\ es = pre ++ [p] /\
    (exists rest, pre ++ rest = scanner_errors (f_eof_errs r) (f_toks r)) /\
    (In p (token_positions (f_toks r)) \/ p = f_eof r) /\ inside_text bs p.
Proof.
  intro H. pose proof (parse_bytes_errors_inside_text _ _ _ H) as I. revert H.
  unfold parse_document_bytes. destruct (front_end_total bs) as (r & Hr & F). rewrite Hr. intro H.
  destruct (parse_error_located _ _ _ _ H) as (pre & p & -> & Hp & Hl).
  exists r, pre, p. split; [reflexivity|]. split; [reflexivity|]. split; [exact Hp|]. split; [exact Hl|]. apply Forall_app in I. destruct I as [_ I]. inversion I; assumption.
Qed.

(** layout: two texts whose Token sequences have the same kinds and texts — whatever ignored
    tokens, line breaks or byte order mark lie between them — get the same verdict and, positions
    erased, the same tree *)
Theorem parse_bytes_layout_insensitive bs1 bs2 r1 r2 d1 :
  front_end bs1 = Some r1 -> front_end bs2 = Some r2 ->
  Forall2 same_shape (f_toks r1) (f_toks r2) ->
  scanner_errors (f_eof_errs r2) (f_toks r2) = [] ->
  parse_document_bytes bs1 = Out (Some d1) [] ->
  exists d2, parse_document_bytes bs2 = Out (Some d2) [] /\ erase_document d2 = erase_document d1.
Proof.
  intros H1 H2 S E2 P. unfold parse_document_bytes in *. rewrite H1 in P. rewrite H2.
  destruct (front_end_total bs1) as (r & Hr & F). rewrite H1 in Hr. inversion Hr; subst r.
  destruct (parse_sound _ _ _ _ P) as (_ & _ & _ & E1).
  unfold scanner_errors in E1, E2. apply app_eq_nil in E1. destruct E1 as [_ E1]. rewrite E1 in P.
  pose proof E2 as E2'. apply app_eq_nil in E2'. destruct E2' as [_ E2']. rewrite E2' in *.
  exact (parse_layout_insensitive _ _ _ _ _ S (ff_nodup _ _ F) E2 P).
Qed.

(** ** parser.ParseValue from bytes *)
Theorem parse_value_bytes_total bs : parse_value_bytes bs <> OOF.
Proof.
  unfold parse_value_bytes. destruct (front_end_total bs) as (r & -> & _). apply parse_value_total.
Qed.

Theorem parse_value_bytes_accepts_exactly bs v :
  parse_value_bytes bs = Out (Some v) [] <-> value_in_grammar_bytes bs v.
Proof.
  unfold parse_value_bytes, value_in_grammar_bytes. destruct (front_end_total bs) as (r & Hr & _). rewrite Hr.
  destruct (front_end_lexes bs r Hr) as [LX LT]. split.
  - intro H. destruct (parse_value_tree _ _ _ _ _ H) as (L & W & D & SE). symmetry in SE.
    destruct (proj1 LX SE) as (toks & Ht). pose proof (LT toks Ht) as Eq. subst toks. eexists. repeat split; eassumption.
  - intros (toks & Ht & L & W & D). rewrite <- (LT toks Ht) in L.
    rewrite (parse_value_roundtrip (f_eof r) (f_eof_errs r) _ _ L W D).
    replace (scanner_errors (f_eof_errs r) (f_toks r)) with (@nil pos); [reflexivity|].
    symmetry. apply LX. exists toks. exact Ht.
Qed.

Theorem parse_value_bytes_errors_inside_text bs tree es :
  parse_value_bytes bs = Out tree es -> Forall (inside_text bs) es.
Proof.
  unfold parse_value_bytes. destruct (front_end_total bs) as (r & Hr & F). rewrite Hr. intro H.
  destruct tree as [d|].
  - destruct (parse_value_tree _ _ _ _ _ H) as (_ & _ & _ & ->). exact (ff_inside_errs _ _ F).
  - destruct (parse_value_error_located _ _ _ _ H) as (pre & p & -> & (rest & Hp) & Hl).
    apply Forall_app. split.
    + pose proof (ff_inside_errs _ _ F) as E. rewrite <- Hp in E. apply Forall_app in E. apply E.
    + constructor; [|constructor]. destruct Hl as [Hin| ->]; [|exact (ff_inside_eof _ _ F)].
      pose proof (ff_inside_toks _ _ F) as T. rewrite Forall_forall in T. exact (T p Hin).
Qed.

(** ** layout, stated on the two specifications alone: two texts of the lexical grammar whose Token
    sequences agree in kind and text are both documents of the grammar or neither is, and their
    trees are equal once positions are erased *)
Lemma same_shape_of_tokens : forall ts1 ts2,
  Forall2 same_token_text (map st_tok ts1) (map st_tok ts2) -> Forall2 same_shape ts1 ts2.
Proof.
  induction ts1 as [|a l IH]; intros [|b m] H; cbn [map] in H; inversion H; subst; constructor.
  - assumption.
  - apply IH. assumption.
Qed.

Theorem parse_bytes_same_tokens_same_tree bs1 bs2 toks1 toks2 d1 :
  lexes_to bs1 toks1 -> lexes_to bs2 toks2 -> Forall2 same_token_text toks1 toks2 ->
  in_grammar_bytes bs1 d1 ->
  exists d2, in_grammar_bytes bs2 d2 /\ erase_document d2 = erase_document d1.
Proof.
  intros L1 L2 S G. apply parse_bytes_accepts_exactly in G.
  destruct (front_end_total bs1) as (r1 & H1 & _). destruct (front_end_total bs2) as (r2 & H2 & _).
  destruct (front_end_lexes bs1 r1 H1) as [_ T1]. destruct (front_end_lexes bs2 r2 H2) as [X2 T2].
  rewrite <- (T1 _ L1), <- (T2 _ L2) in S. apply same_shape_of_tokens in S.
  assert (E2 : scanner_errors (f_eof_errs r2) (f_toks r2) = []) by (apply X2; exists toks2; exact L2).
  destruct (parse_bytes_layout_insensitive _ _ _ _ _ H1 H2 S E2 G) as (d2 & P2 & Er).
  exists d2. split; [apply parse_bytes_accepts_exactly; exact P2|exact Er].
Qed.
