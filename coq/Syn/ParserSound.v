(** * Syn/ParserSound.v — every production of the parser model satisfies its Hoare triple:
    on success the consumed tokens are a layout of the returned tree (positions included), the
    tree is well formed, the recursion counter is back to its entry value and never exceeded the
    limit; on failure the error is at the lookahead of a reachable state. *)
From Coq Require Import List NArith ZArith Bool Lia.
From ApiFu Require Import Base.Sexp Syn.Ast Syn.ParserModel Syn.Printer Syn.ParserBase.
Import ListNotations.

Lemma matches_name_self t : tk t = KName -> matches (e_name (tv t) (tp t)) t = true.
Proof. intro H. apply matches_spec; simpl. repeat split; auto. intros p E; inversion E; reflexivity. Qed.

Lemma matches_punct_self t v : tk t = KPunct -> tv t = v -> matches (e_punct v (tp t)) t = true.
Proof. intros H1 H2. apply matches_spec; simpl. repeat split; auto. intros p E; inversion E; reflexivity. Qed.

Lemma matches_punct_nopos t v : tk t = KPunct -> tv t = v -> matches (e_punct_ v) t = true.
Proof. intros H1 H2. apply matches_spec; simpl. repeat split; auto. intros p E; discriminate. Qed.

Lemma matches_kw_nopos t v : tk t = KName -> tv t = v -> matches (mket KName v None) t = true.
Proof. intros H1 H2. apply matches_spec; simpl. repeat split; auto. intros p E; discriminate. Qed.

Section Sound.
  Variable eof_pos : pos.
  Variable eof_errs : list pos.
  Variable ts0 : list stoken.

  Local Notation SAT := (sat eof_pos eof_errs ts0).
  Local Notation pk := (peek_tok eof_pos).

  Ltac use L := eapply sat_bind; [apply L|].
  (** name the state the next test looks at *)
  Ltac punct_or_fail Ep t r Et Ft Kt Vt :=
    match goal with
    | |- context [is_punct ?v (pk ?x)] =>
        destruct (is_punct v (pk x)) eqn:Ep; simpl negb; cbv iota; [|try apply sat_errorf];
        [destruct (is_punct_real _ _ _ Ep) as (t & r & Et & Ft & Kt & Vt)|..]
    end.
  Ltac eat Et := apply sat_consume; rewrite (consume_cons _ _ _ _ Et).

  Lemma parse_name_sat s :
    SAT (parse_name eof_pos eof_errs) s (post (fun i => [e_ident i]) (fun _ => true) (fun _ => depth_name) s).
  Proof.
    unfold parse_name. apply sat_enter; intro Hr. apply sat_peek.
    match goal with |- context [is_name (pk ?x)] => set (s1 := x) end.
    destruct (is_name (pk s1)) eqn:En; [|apply sat_errorf].
    destruct (is_name_real _ _ En) as (t & r & Et & Ft & Kt).
    eat Et. apply sat_exit. apply sat_ret. intros _.
    exists [t]. rewrite <- Ft. subst s1. cbn [toks recur map app] in *. split; [assumption|].
    unfold e_ident; cbn [id_name id_pos]. rewrite layout_of_one, (matches_name_self _ Kt). unfold depth_name.
    repeat split; lia.
  Qed.

  Lemma parse_variable_sat s :
    SAT (parse_variable eof_pos eof_errs) s
        (post tokens_variable (fun _ => true) (fun _ => depth_variable) s).
  Proof.
    unfold parse_variable. apply sat_enter; intro Hr. apply sat_peek.
    punct_or_fail Ep t r Et Ft Kt Vt. eat Et.
    use parse_name_sat. intros n s2 V2 (pre & E & L & _ & R & D).
    apply sat_exit. apply sat_ret. intros _.
    exists (t :: pre). rewrite <- Ft. cbn [toks recur] in *. split; [rewrite Et, E; reflexivity|].
    unfold tokens_variable; cbn [var_dollar var_name map]. split.
    { apply layout_of_cons_intro; [apply matches_punct_self; assumption|assumption]. }
    unfold depth_variable, depth_name in *. repeat split; try assumption; lia.
  Qed.

  (** tokens of one object field *)
  Definition tokens_field (f : ident * value) : list etok :=
    e_ident (fst f) :: e_punct_ b_colon :: tokens_value (snd f).

  Lemma object_field_sat (pv : M value) c :
    (forall s, SAT pv s (post tokens_value (wf_value c) depth_value s)) ->
    forall s, SAT (object_field eof_pos eof_errs pv) s
                  (post tokens_field (fun f => wf_value c (snd f))
                        (fun f => Z.max depth_name (depth_value (snd f))) s).
  Proof.
    intros Hpv s. unfold object_field.
    use parse_name_sat. intros n s1 V1 (pre1 & E1 & L1 & _ & R1 & D1).
    apply sat_peek. punct_or_fail Ep t r Et Ft Kt Vt. eat Et.
    use Hpv. intros v s2 V2 (pre2 & E2 & L2 & W2 & R2 & D2).
    apply sat_ret. intros _.
    exists (pre1 ++ t :: pre2). cbn [toks recur] in *. rewrite E1, Et, E2, <- app_assoc. split; [reflexivity|].
    unfold tokens_field; cbn [fst snd]. rewrite map_app; cbn [map].
    change (e_ident n :: e_punct_ b_colon :: tokens_value v) with ([e_ident n] ++ e_punct_ b_colon :: tokens_value v).
    split.
    { apply layout_of_app; [assumption|]. apply layout_of_cons_intro; [apply matches_punct_nopos|]; assumption. }
    unfold depth_name in *. repeat split; try assumption; lia.
  Qed.

  Lemma Forall_depth_shift {A} (D : A -> Z) r xs :
    Forall (fun x => (r + D x <= max_recursion)%Z) xs ->
    Forall (fun d => (r + d <= max_recursion)%Z) (map D xs).
  Proof. intro H. apply Forall_map. exact H. Qed.

  Definition opt_post (c : bool) (s1 : pstate) (r : option value) (s' : pstate) : Prop :=
    match r with
    | None => True
    | Some v => post tokens_value (wf_value c) (fun v => depth_value v - 1)%Z s1 v s'
    end.

  Lemma parse_value_sat fuel : forall c s,
    SAT (parse_value eof_pos eof_errs fuel c) s (post tokens_value (wf_value c) depth_value s).
  Proof.
    induction fuel as [|f IH]; intros c s; cbn [parse_value]; [apply sat_out_of_fuel|].
    apply sat_enter; intro Hr. apply sat_peek.
    match goal with |- context [tk (pk ?x)] => set (s1 := x) end.
    set (t := pk s1).
    eapply sat_bind with (P := opt_post c s1).
    2:{ intros [v|] s2 V2 HP; [|apply sat_errorf].
        destruct HP as (pre & E & L & W & R & D).
        apply sat_exit. apply sat_ret. intros _. subst s1.
        exists pre. cbn [toks recur] in *. repeat split; try assumption; lia. }
    assert (Hone : forall v k, tk t = k -> k <> KInvalid ->
                               tokens_value v = [mket k (tv t) (Some (tp t))] -> wf_value c v = true ->
                               depth_value v = 1%Z ->
                               SAT (consume eof_errs ;;; ret (Some v)) s1 (opt_post c s1)).
    { intros v k Hk Hn HT HW HD.
      assert (Hk' : kind_eqb (tk (pk s1)) k = true) by (apply kind_eqb_eq; exact Hk).
      destruct (peek_real _ _ _ Hk' Hn) as (t1 & r & Et & Ft).
      eat Et. apply sat_ret. intros _.
      exists [t1]. cbn [toks recur map app opt_post]. rewrite HT. fold t in Ft. rewrite Ft.
      split; [exact Et|]. split.
      { rewrite layout_of_one. apply matches_spec; simpl. repeat split; auto. intros p E; inversion E; reflexivity. }
      repeat split; try assumption. subst s1. cbn [recur] in *. lia. }
    destruct (tk t) eqn:Ek.
    - (* INVALID *) apply sat_ret. intros _. exact I.
    - (* PUNCTUATOR *)
      destruct (bytes_eqb (tv t) b_dollar) eqn:Ed.
      { destruct c; [apply sat_errorf|].
        use parse_variable_sat. intros x s2 V2 (pre & E & L & _ & R & D).
        apply sat_ret. intros _. exists pre. cbn [tokens_value wf_value depth_value negb].
        unfold depth_variable, depth_name in *. repeat split; try assumption; lia. }
      destruct (bytes_eqb (tv t) b_lbrack) eqn:Eb.
      { apply bytes_eqb_eq in Eb.
        assert (Hp : is_punct b_lbrack (pk s1) = true).
        { unfold is_punct. fold t. rewrite Ek, Eb, bytes_eqb_refl. reflexivity. }
        destruct (is_punct_real _ _ _ Hp) as (t1 & r & Et & Ft & Kt & Vt).
        eat Et.
        eapply sat_bind; [apply (many_sat eof_pos eof_errs ts0 _ tokens_value (wf_value c) depth_value); intros; apply IH|].
        intros vs s2 V2 [(pre & E & L & W & R & D) St].
        apply sat_peek. unfold stop_at in St.
        destruct (is_punct_real _ _ _ St) as (t2 & r2 & Et2 & Ft2 & Kt2 & Vt2).
        eat Et2. apply sat_ret. intros _.
        exists (t1 :: pre ++ [t2]). subst s1. cbn [toks recur opt_post tokens_value wf_value depth_value] in *. split.
        { rewrite Et, E, Et2. cbn [app]. rewrite <- app_assoc. reflexivity. }
        fold t in Ft. rewrite <- Ft2, <- Ft. cbn [map]. rewrite map_app. cbn [map]. split.
        { apply layout_of_cons_intro; [apply matches_punct_self; assumption|].
          apply layout_of_app; [assumption|]. rewrite layout_of_one. apply matches_punct_self; assumption. }
        split; [assumption|]. split; [assumption|].
        pose proof (maxl_bound (recur s + 1) (map depth_value vs) Hr (Forall_depth_shift _ _ _ D)). lia. }
      destruct (bytes_eqb (tv t) b_lbrace) eqn:Ec.
      { apply bytes_eqb_eq in Ec.
        assert (Hp : is_punct b_lbrace (pk s1) = true).
        { unfold is_punct. fold t. rewrite Ek, Ec, bytes_eqb_refl. reflexivity. }
        destruct (is_punct_real _ _ _ Hp) as (t1 & r & Et & Ft & Kt & Vt).
        eat Et.
        eapply sat_bind; [apply (many_sat eof_pos eof_errs ts0 _ tokens_field (fun f => wf_value c (snd f))
                                          (fun f => Z.max depth_name (depth_value (snd f))));
                          intros; apply object_field_sat; intro; apply IH|].
        intros fs s2 V2 [(pre & E & L & W & R & D) St].
        apply sat_peek. unfold stop_at in St.
        destruct (is_punct_real _ _ _ St) as (t2 & r2 & Et2 & Ft2 & Kt2 & Vt2).
        eat Et2. apply sat_ret. intros _.
        exists (t1 :: pre ++ [t2]). subst s1. cbn [toks recur opt_post tokens_value wf_value depth_value] in *. split.
        { rewrite Et, E, Et2. cbn [app]. rewrite <- app_assoc. reflexivity. }
        fold t in Ft. rewrite <- Ft2, <- Ft. cbn [map]. rewrite map_app. cbn [map]. split.
        { apply layout_of_cons_intro; [apply matches_punct_self; assumption|].
          apply layout_of_app; [exact L|]. rewrite layout_of_one. apply matches_punct_self; assumption. }
        split; [assumption|]. split; [assumption|].
        pose proof (maxl_bound (recur s + 1) _ Hr (Forall_depth_shift (fun f => Z.max depth_name (depth_value (snd f))) _ _ D)). lia. }
      apply sat_ret. intros _. exact I.
    - (* NAME *)
      destruct (bytes_eqb (tv t) b_true) eqn:E1.
      { apply bytes_eqb_eq in E1. apply (Hone _ KName); auto; [discriminate|]. cbn [tokens_value]. rewrite E1. reflexivity. }
      destruct (bytes_eqb (tv t) b_false) eqn:E2.
      { apply bytes_eqb_eq in E2. apply (Hone _ KName); auto; [discriminate|]. cbn [tokens_value]. rewrite E2. reflexivity. }
      destruct (bytes_eqb (tv t) b_null) eqn:E3.
      { apply bytes_eqb_eq in E3. apply (Hone _ KName); auto; [discriminate|]. cbn [tokens_value]. rewrite E3. reflexivity. }
      apply (Hone _ KName); auto; [discriminate|]. cbn [wf_value]. rewrite E1, E2, E3. reflexivity.
    - apply (Hone _ KInt); auto; discriminate.
    - apply (Hone _ KFloat); auto; discriminate.
    - apply (Hone _ KString); auto; discriminate.
  Qed.

  (** epilogue shared by the productions of the shape [enter; ...; r <- body; exit; return r] *)
  Lemma exit_ret_sat A (T : A -> list etok) W D s (a : A) s2 :
    post T W (fun a => D a - 1)%Z (mkps (toks s) (errs s) (recur s + 1)) a s2 ->
    SAT (exit_ ;;; ret a) s2 (post T W D s).
  Proof.
    intros (pre & E & L & Wa & R & Da). apply sat_exit. apply sat_ret. intros _.
    exists pre. cbn [toks recur] in *. repeat split; try assumption; lia.
  Qed.

  Lemma parse_named_type_sat s :
    SAT (parse_named_type eof_pos eof_errs) s
        (post (fun i => [e_ident i]) (fun _ => true) (fun _ => depth_named_type) s).
  Proof.
    unfold parse_named_type. apply sat_enter; intro Hr.
    use parse_name_sat. intros n s2 V2 (pre & E & L & _ & R & D).
    apply exit_ret_sat. exists pre. unfold depth_named_type. repeat split; try assumption; lia.
  Qed.

  Definition is_nonnull (t : ty) : bool := match t with TNonNull _ => true | _ => false end.

  Lemma wf_type_nonnull r : wf_type r = true -> is_nonnull r = false -> wf_type (TNonNull r) = true.
  Proof. destruct r; simpl; auto; discriminate. Qed.

  Lemma parse_type_sat fuel : forall s,
    SAT (parse_type eof_pos eof_errs fuel) s (post tokens_type wf_type depth_type s).
  Proof.
    induction fuel as [|f IH]; intros s; cbn [parse_type]; [apply sat_out_of_fuel|].
    apply sat_enter; intro Hr. apply sat_peek.
    match goal with |- context [is_punct b_lbrack (pk ?x)] => set (s1 := x) end.
    eapply sat_bind with
        (P := post tokens_type (fun r => wf_type r && negb (is_nonnull r)) (fun r => depth_type r - 1)%Z s1).
    - destruct (is_punct b_lbrack (pk s1)) eqn:Ep.
      + destruct (is_punct_real _ _ _ Ep) as (t & r & Et & Ft & Kt & Vt). eat Et.
        use IH. intros inner s2 V2 (pre & E & L & W & R & D).
        apply sat_peek. punct_or_fail Ep2 t2 r2 Et2 Ft2 Kt2 Vt2. eat Et2.
        apply sat_ret. intros _. exists (t :: pre ++ [t2]). subst s1. cbn [toks recur] in *.
        split; [rewrite Et, E, Et2; cbn [app]; rewrite <- app_assoc; reflexivity|].
        rewrite <- Ft, <- Ft2. cbn [tokens_type wf_type depth_type is_nonnull negb map]. rewrite map_app. cbn [map].
        split.
        { apply layout_of_cons_intro; [apply matches_punct_self; assumption|].
          apply layout_of_app; [assumption|]. rewrite layout_of_one. apply matches_punct_self; assumption. }
        rewrite W. repeat split; try assumption; lia.
      + use parse_named_type_sat. intros n s2 V2 (pre & E & L & _ & R & D).
        apply sat_ret. intros _. exists pre. cbn [tokens_type wf_type depth_type is_nonnull negb].
        repeat split; try assumption; try lia.
    - intros r s2 V2 (pre & E & L & W & R & D). apply andb_true_iff in W as [W1 W2].
      apply negb_true_iff in W2. apply sat_peek.
      destruct (is_punct b_bang (pk s2)) eqn:Eb.
      + destruct (is_punct_real _ _ _ Eb) as (t & r0 & Et & Ft & Kt & Vt).
        eapply sat_bind with (P := post tokens_type wf_type (fun r => depth_type r - 1)%Z s1).
        * eat Et. apply sat_ret. intros _. exists (pre ++ [t]). cbn [toks recur tokens_type depth_type].
          split; [rewrite E, Et, <- app_assoc; reflexivity|]. rewrite map_app. cbn [map]. split.
          { apply layout_of_app; [assumption|]. rewrite layout_of_one. apply matches_punct_nopos; assumption. }
          rewrite (wf_type_nonnull _ W1 W2). repeat split; try assumption.
        * intros r' s3 V3 H3. apply exit_ret_sat. exact H3.
      + eapply sat_bind with (P := post tokens_type wf_type (fun r => depth_type r - 1)%Z s1).
        * apply sat_ret. intros _. exists pre. repeat split; assumption.
        * intros r' s3 V3 H3. apply exit_ret_sat. exact H3.
  Qed.

  Lemma parse_argument_sat fuel s :
    SAT (parse_argument eof_pos eof_errs fuel) s (post tokens_argument wf_argument depth_argument s).
  Proof.
    unfold parse_argument. apply sat_enter; intro Hr.
    use parse_name_sat. intros n s1 V1 (pre1 & E1 & L1 & _ & R1 & D1).
    apply sat_peek. punct_or_fail Ep t r Et Ft Kt Vt. eat Et.
    use parse_value_sat. intros v s2 V2 (pre2 & E2 & L2 & W2 & R2 & D2).
    apply exit_ret_sat. exists (pre1 ++ t :: pre2). cbn [toks recur] in *.
    split; [rewrite E1, Et, E2, <- app_assoc; reflexivity|].
    unfold tokens_argument, wf_argument, depth_argument; cbn [arg_name arg_value]. rewrite map_app; cbn [map].
    change (e_ident n :: e_punct_ b_colon :: tokens_value v) with ([e_ident n] ++ e_punct_ b_colon :: tokens_value v).
    split.
    { apply layout_of_app; [assumption|]. apply layout_of_cons_intro; [apply matches_punct_nopos|]; assumption. }
    unfold depth_name in *. repeat split; try assumption; lia.
  Qed.

  (** [( x+ )] lists: arguments and variable definitions *)
  Definition tokens_parens {A} (T : A -> list etok) (xs : list A) : list etok :=
    match xs with
    | [] => []
    | _ => e_punct_ b_lparen :: flat_map T xs ++ [e_punct_ b_rparen]
    end.

  Lemma optional_parens_sat A (T : A -> list etok) W D (body : M A) fuel :
    (forall s, SAT body s (post T W D s)) ->
    forall s,
      SAT (enter eof_pos ;;;
           t <- peek eof_pos ;;
           r <- (if is_punct b_lparen t then
                   consume eof_errs ;;;
                   xs <- many fuel (stop_at eof_pos b_rparen) body ;;
                   match xs with
                   | [] => errorf eof_pos
                   | _ => consume eof_errs ;;; ret xs
                   end
                 else ret []) ;;
           exit_ ;;; ret r) s
          (post (tokens_parens T) (forallb W) (fun xs => 1 + maxl (map D xs))%Z s).
  Proof.
    intros Hb s. apply sat_enter; intro Hr. apply sat_peek.
    match goal with |- context [is_punct b_lparen (pk ?x)] => set (s1 := x) end.
    eapply sat_bind with
        (P := post (tokens_parens T) (forallb W) (fun xs => 1 + maxl (map D xs) - 1)%Z s1).
    2:{ intros r s2 V2 H2. apply exit_ret_sat. exact H2. }
    destruct (is_punct b_lparen (pk s1)) eqn:Ep.
    - destruct (is_punct_real _ _ _ Ep) as (t & r & Et & Ft & Kt & Vt). eat Et.
      eapply sat_bind; [apply (many_sat eof_pos eof_errs ts0 _ T W D); intros; apply Hb|].
      intros xs s2 V2 [(pre & E & L & Wx & R & Dx) St].
      destruct xs as [|x xs]; [apply sat_errorf|]. unfold stop_at in St.
      destruct (is_punct_real _ _ _ St) as (t2 & r2 & Et2 & Ft2 & Kt2 & Vt2). eat Et2.
      apply sat_ret. intros _. exists (t :: pre ++ [t2]). subst s1. cbn [toks recur] in *.
      split; [rewrite Et, E, Et2; cbn [app]; rewrite <- app_assoc; reflexivity|].
      unfold tokens_parens. cbn [map]. rewrite map_app. cbn [map]. split.
      { apply layout_of_cons_intro; [apply matches_punct_nopos; assumption|].
        apply layout_of_app; [exact L|]. rewrite layout_of_one. apply matches_punct_nopos; assumption. }
      split; [assumption|]. split; [assumption|].
      pose proof (maxl_bound (recur s + 1) _ Hr (Forall_depth_shift D _ _ Dx)) as Hm. cbn [map] in *. lia.
    - apply sat_ret. intros _. exists []. subst s1. cbn [toks recur tokens_parens forallb map maxl fold_right] in *.
      repeat split; try reflexivity. lia.
  Qed.

  Lemma tokens_arguments_parens args : tokens_arguments args = tokens_parens tokens_argument args.
  Proof. reflexivity. Qed.

  Lemma parse_optional_arguments_sat fuel s :
    SAT (parse_optional_arguments eof_pos eof_errs fuel) s
        (post tokens_arguments (forallb wf_argument) depth_arguments s).
  Proof.
    unfold parse_optional_arguments.
    eapply sat_conseq; [apply (optional_parens_sat _ tokens_argument wf_argument depth_argument); intro; apply parse_argument_sat|].
    intros a s1 _ H. exact H.
  Qed.

  Lemma parse_directive_sat fuel s :
    negb (stop_at eof_pos b_at s) = false ->
    SAT (parse_directive eof_pos eof_errs fuel) s (post tokens_directive wf_directive depth_directive s).
  Proof.
    intro Hs. apply negb_false_iff in Hs. unfold stop_at in Hs.
    destruct (is_punct_real _ _ _ Hs) as (t & r & Et & Ft & Kt & Vt).
    unfold parse_directive. apply sat_peek. eat Et.
    use parse_name_sat. intros n s1 V1 (pre1 & E1 & L1 & _ & R1 & D1).
    use parse_optional_arguments_sat. intros args s2 V2 (pre2 & E2 & L2 & W2 & R2 & D2).
    apply sat_ret. intros _. exists (t :: pre1 ++ pre2). cbn [toks recur] in *.
    split; [rewrite Et, E1, E2; cbn [app]; rewrite <- app_assoc; reflexivity|].
    unfold tokens_directive, wf_directive, depth_directive; cbn [dir_at dir_name dir_args map]. rewrite map_app.
    rewrite <- Ft. split.
    { apply layout_of_cons_intro; [apply matches_punct_self; assumption|].
      change (e_ident n :: tokens_arguments args) with ([e_ident n] ++ tokens_arguments args).
      apply layout_of_app; assumption. }
    unfold depth_name in *. repeat split; try assumption; lia.
  Qed.

  Lemma parse_optional_directives_sat fuel s :
    SAT (parse_optional_directives eof_pos eof_errs fuel) s
        (post tokens_directives wf_directives depth_directives s).
  Proof.
    unfold parse_optional_directives. apply sat_enter; intro Hr.
    eapply sat_bind; [apply (many_sat eof_pos eof_errs ts0 _ tokens_directive wf_directive depth_directive);
                      intros; apply parse_directive_sat; assumption|].
    intros ds s2 V2 [(pre & E & L & W & R & D) _].
    apply exit_ret_sat. exists pre. unfold tokens_directives, wf_directives, depth_directives.
    cbn [toks recur] in *. repeat split; try assumption.
    pose proof (maxl_bound (recur s + 1) _ Hr (Forall_depth_shift depth_directive _ _ D)). lia.
  Qed.

  Lemma parse_type_condition_sat s :
    SAT (parse_type_condition eof_pos eof_errs) s
        (post tokens_type_condition (fun _ => true) (fun _ => depth_type_condition) s).
  Proof.
    unfold parse_type_condition. apply sat_enter; intro Hr. apply sat_peek.
    match goal with |- context [is_kw b_on (pk ?x)] => set (s1 := x) end.
    destruct (is_kw b_on (pk s1)) eqn:Ek; cbn [negb]; [|apply sat_errorf].
    unfold is_kw in Ek. apply andb_true_iff in Ek as [K1 K2].
    destruct (is_name_real _ _ K1) as (t & r & Et & Ft & Kt). apply bytes_eqb_eq in K2. rewrite <- Ft in K2.
    eat Et. use parse_named_type_sat. intros n s2 V2 (pre & E & L & _ & R & D).
    apply exit_ret_sat. exists (t :: pre). subst s1. cbn [toks recur] in *.
    split; [rewrite Et, E; reflexivity|]. unfold tokens_type_condition. cbn [map]. split.
    { apply layout_of_cons_intro; [apply matches_kw_nopos; assumption|assumption]. }
    unfold depth_type_condition in *. repeat split; try assumption; lia.
  Qed.

  (** *** selection sets *)

  Definition tokens_opt_selset (o : option selset) : list etok :=
    match o with Some ss => tokens_selset ss | None => [] end.
  Definition wf_opt_selset (o : option selset) : bool :=
    match o with Some ss => wf_selset ss | None => true end.
  Definition depth_opt_selset (o : option selset) : Z :=
    (1 + match o with Some ss => depth_selset ss | None => 0 end)%Z.

  Section Selections.
    Variable fuel : nat.
    Variable pss : M selset.
    Hypothesis Hpss : forall s, SAT pss s (post tokens_selset wf_selset depth_selset s).

    Lemma parse_optional_selection_set_sat s :
      SAT (parse_optional_selection_set eof_pos pss) s
          (post tokens_opt_selset wf_opt_selset depth_opt_selset s).
    Proof.
      unfold parse_optional_selection_set. apply sat_enter; intro Hr. apply sat_peek.
      match goal with |- context [is_punct b_lbrace (pk ?x)] => set (s1 := x) end.
      eapply sat_bind with (P := post tokens_opt_selset wf_opt_selset (fun o => depth_opt_selset o - 1)%Z s1).
      2:{ intros r s2 V2 H2. apply exit_ret_sat. exact H2. }
      destruct (is_punct b_lbrace (pk s1)).
      - use Hpss. intros x s2 V2 (pre & E & L & W & R & D). apply sat_ret. intros _.
        exists pre. unfold depth_opt_selset. cbn [tokens_opt_selset wf_opt_selset].
        repeat split; try assumption; lia.
      - apply sat_ret. intros _. exists []. subst s1. unfold depth_opt_selset.
        cbn [toks recur tokens_opt_selset wf_opt_selset] in *. repeat split; try reflexivity; lia.
    Qed.

    Definition tokens_alias_name (an : option ident * ident) : list etok :=
      match fst an with Some a => [e_ident a; e_punct_ b_colon] | None => [] end ++ [e_ident (snd an)].

    Lemma parse_field_sat s :
      SAT (parse_field eof_pos eof_errs fuel pss) s
          (post tokens_selection wf_selection (fun x => depth_selection x - 1)%Z s).
    Proof.
      unfold parse_field. apply sat_enter; intro Hr.
      match goal with |- sat _ _ _ _ ?x _ => set (s1 := x) end.
      use parse_name_sat. intros n1 s2 V2 (pre1 & E1 & L1 & _ & R1 & D1). apply sat_peek.
      eapply sat_bind with (P := post tokens_alias_name (fun _ => true) (fun _ => depth_name) s1).
      { destruct (is_punct b_colon (pk s2)) eqn:Ep.
        - destruct (is_punct_real _ _ _ Ep) as (t & r & Et & Ft & Kt & Vt). eat Et.
          use parse_name_sat. intros n2 s3 V3 (pre2 & E2 & L2 & _ & R2 & D2).
          apply sat_ret. intros _. exists (pre1 ++ t :: pre2). cbn [toks recur] in *.
          split; [rewrite E1, Et, E2, <- app_assoc; reflexivity|].
          unfold tokens_alias_name; cbn [fst snd]. rewrite map_app. cbn [map]. split.
          { change ([e_ident n1; e_punct_ b_colon] ++ [e_ident n2]) with ([e_ident n1] ++ e_punct_ b_colon :: [e_ident n2]).
            apply layout_of_app; [assumption|]. apply layout_of_cons_intro; [apply matches_punct_nopos|]; assumption. }
          repeat split; try assumption; lia.
        - apply sat_ret. intros _. exists pre1. unfold tokens_alias_name; cbn [fst snd app].
          repeat split; assumption. }
      intros an s3 V3 (pre3 & E3 & L3 & _ & R3 & D3).
      use parse_optional_arguments_sat. intros args s4 V4 (pre4 & E4 & L4 & W4 & R4 & D4).
      use parse_optional_directives_sat. intros dirs s5 V5 (pre5 & E5 & L5 & W5 & R5 & D5).
      use parse_optional_selection_set_sat. intros sub s6 V6 (pre6 & E6 & L6 & W6 & R6 & D6).
      apply exit_ret_sat. fold s1. exists (pre3 ++ pre4 ++ pre5 ++ pre6).
      split; [rewrite E3, E4, E5, E6, <- !app_assoc; reflexivity|].
      cbn [tokens_selection wf_selection depth_selection]. split.
      { rewrite !map_app.
        replace (match fst an with Some a => [e_ident a; e_punct_ b_colon] | None => [] end ++
                 e_ident (snd an) :: tokens_arguments args ++ tokens_directives dirs ++
                 match sub with Some ss => tokens_selset ss | None => [] end)
          with (tokens_alias_name an ++ tokens_arguments args ++ tokens_directives dirs ++ tokens_opt_selset sub).
        2:{ unfold tokens_alias_name. rewrite <- app_assoc. reflexivity. }
        repeat (apply layout_of_app; [assumption|]). assumption. }
      unfold wf_directives in *. unfold wf_opt_selset, depth_opt_selset in *. rewrite W4, W5. cbn [andb].
      split; [exact W6|]. split; [congruence|].
      unfold depth_name in *. subst s1. cbn [recur] in *. lia.
    Qed.

    Definition depth_opt_tc (o : option ident) : Z :=
      match o with Some _ => depth_type_condition | None => 0%Z end.

    Lemma parse_selection_sat s :
      SAT (parse_selection eof_pos eof_errs false fuel pss) s
          (post tokens_selection wf_selection depth_selection s).
    Proof.
      unfold parse_selection. apply sat_enter; intro Hr. apply sat_peek.
      match goal with |- context [is_punct b_ellipsis (pk ?x)] => set (s1 := x) end.
      destruct (is_punct b_ellipsis (pk s1)) eqn:Ee; cbn [negb].
      - destruct (is_punct_real _ _ _ Ee) as (t & r & Et & Ft & Kt & Vt). eat Et. apply sat_peek.
        match goal with |- context [is_name (pk ?x)] => set (s2 := x) end.
        destruct (is_name (pk s2) && negb (bytes_eqb (tv (pk s2)) b_on)) eqn:En.
        + apply andb_true_iff in En as [En1 En2]. apply negb_true_iff in En2.
          use parse_name_sat. intros n s3 V3 (pre3 & E3 & L3 & _ & R3 & D3).
          use parse_optional_directives_sat. intros dirs s4 V4 (pre4 & E4 & L4 & W4 & R4 & D4).
          apply exit_ret_sat. exists (t :: pre3 ++ pre4).
          pose proof (layout_head eof_pos _ _ _ s2 _ E3 L3) as Hm. apply matches_spec in Hm as (_ & Hv & _).
          cbn [ev e_ident e_name] in Hv.
          subst s1 s2. cbn [toks recur] in *.
          split; [rewrite Et, E3, E4; cbn [app]; rewrite <- app_assoc; reflexivity|].
          cbn [tokens_selection wf_selection depth_selection map]. rewrite map_app, <- Ft. split.
          { apply layout_of_cons_intro; [apply matches_punct_self; assumption|].
            change (e_ident n :: tokens_directives dirs) with ([e_ident n] ++ tokens_directives dirs).
            apply layout_of_app; assumption. }
          rewrite <- Hv, En2, W4. unfold depth_name in *. repeat split; try reflexivity; lia.
        + eapply sat_bind with (P := post tokens_opt_type_condition (fun _ => true) depth_opt_tc s2).
          { destruct (is_name (pk s2)).
            - use parse_type_condition_sat. intros x s3 V3 (pre3 & E3 & L3 & _ & R3 & D3).
              apply sat_ret. intros _. exists pre3. cbn [tokens_opt_type_condition depth_opt_tc].
              repeat split; assumption.
            - apply sat_ret. intros _. exists []. subst s1 s2.
              cbn [toks recur tokens_opt_type_condition depth_opt_tc] in *. repeat split; try reflexivity; lia. }
          intros tc s3 V3 (pre3 & E3 & L3 & _ & R3 & D3).
          use parse_optional_directives_sat. intros dirs s4 V4 (pre4 & E4 & L4 & W4 & R4 & D4).
          use Hpss. intros sub s5 V5 (pre5 & E5 & L5 & W5 & R5 & D5).
          apply exit_ret_sat. exists (t :: pre3 ++ pre4 ++ pre5). subst s1 s2. cbn [toks recur] in *.
          split; [rewrite Et, E3, E4, E5; cbn [app]; rewrite <- !app_assoc; reflexivity|].
          cbn [tokens_selection wf_selection depth_selection map]. rewrite !map_app, <- Ft. split.
          { apply layout_of_cons_intro; [apply matches_punct_self; assumption|].
            repeat (apply layout_of_app; [assumption|]). assumption. }
          rewrite W4, W5. unfold depth_opt_tc in *. repeat split; try reflexivity; try (destruct tc; lia).
      - use parse_field_sat. intros x s2 V2 (pre & E & L & W & R & D).
        apply exit_ret_sat. exists pre. repeat split; assumption.
    Qed.
  End Selections.

  Lemma parse_selection_set_sat fuel : forall s,
    SAT (parse_selection_set eof_pos eof_errs false fuel) s (post tokens_selset wf_selset depth_selset s).
  Proof.
    induction fuel as [|f IH]; intros s; cbn [parse_selection_set]; [apply sat_out_of_fuel|].
    apply sat_enter; intro Hr. apply sat_peek.
    punct_or_fail Ep t r Et Ft Kt Vt. eat Et.
    eapply sat_bind; [apply (many_sat eof_pos eof_errs ts0 _ tokens_selection wf_selection depth_selection);
                      intros; apply parse_selection_sat; exact IH|].
    intros sels s2 V2 [(pre & E & L & W & R & D) St]. apply sat_peek.
    destruct sels as [|x sels]; [apply sat_errorf|]. unfold stop_at in St.
    destruct (is_punct_real _ _ _ St) as (t2 & r2 & Et2 & Ft2 & Kt2 & Vt2). eat Et2.
    apply sat_exit. apply sat_ret. intros _. exists (t :: pre ++ [t2]). cbn [toks recur] in *.
    split; [rewrite Et, E, Et2; cbn [app]; rewrite <- app_assoc; reflexivity|].
    rewrite tokens_selset_eq, wf_selset_eq, depth_selset_eq, <- Ft, <- Ft2. cbn [map]. rewrite map_app. cbn [map]. split.
    { apply layout_of_cons_intro; [apply matches_punct_self; assumption|].
      apply layout_of_app; [exact L|]. rewrite layout_of_one. apply matches_punct_self; assumption. }
    split; [exact W|]. split; [lia|].
    pose proof (maxl_bound (recur s + 1) _ Hr (Forall_depth_shift depth_selection _ _ D)) as Hm. cbn [map] in *. lia.
  Qed.

  (** *** variable definitions *)

  Lemma parse_variable_definition_sat fuel s :
    SAT (parse_variable_definition eof_pos eof_errs fuel) s (post tokens_vardef wf_vardef depth_vardef s).
  Proof.
    unfold parse_variable_definition. apply sat_enter; intro Hr.
    match goal with |- sat _ _ _ _ ?x _ => set (s1 := x) end.
    use parse_variable_sat. intros v s2 V2 (pre2 & E2 & L2 & _ & R2 & D2).
    apply sat_peek. punct_or_fail Ep t r Et Ft Kt Vt. eat Et.
    use parse_type_sat. intros typ s3 V3 (pre3 & E3 & L3 & W3 & R3 & D3). apply sat_peek.
    eapply sat_bind with
        (P := post (fun d => match d with Some v => e_punct_ b_eq :: tokens_value v | None => [] end)
                   (fun d => match d with Some v => wf_value true v | None => true end)
                   (fun d => match d with Some v => depth_value v | None => 0%Z end) s3).
    { destruct (is_punct b_eq (pk s3)) eqn:Eq.
      - destruct (is_punct_real _ _ _ Eq) as (t4 & r4 & Et4 & Ft4 & Kt4 & Vt4). eat Et4.
        use parse_value_sat. intros x s4 V4 (pre4 & E4 & L4 & W4 & R4 & D4).
        apply sat_ret. intros _. exists (t4 :: pre4). cbn [toks recur map] in *.
        split; [rewrite Et4, E4; reflexivity|]. split.
        { apply layout_of_cons_intro; [apply matches_punct_nopos|]; assumption. }
        repeat split; assumption.
      - apply sat_ret. intros _. exists []. subst s1. cbn [toks recur map] in *. repeat split; try reflexivity. lia. }
    intros d s4 V4 (pre4 & E4 & L4 & W4 & R4 & D4).
    apply exit_ret_sat. fold s1. exists (pre2 ++ t :: pre3 ++ pre4). cbn [toks recur] in *.
    split; [rewrite E2, Et, E3, E4; rewrite <- !app_assoc; cbn [app]; rewrite <- !app_assoc; reflexivity|].
    unfold tokens_vardef, wf_vardef, depth_vardef; cbn [vd_var vd_type vd_default].
    rewrite map_app. cbn [map]. rewrite map_app. split.
    { apply layout_of_app; [assumption|]. apply layout_of_cons_intro; [apply matches_punct_nopos; assumption|].
      apply layout_of_app; assumption. }
    rewrite W3, W4. unfold depth_variable, depth_name in *. subst s1. cbn [recur] in *.
    repeat split; try reflexivity; lia.
  Qed.

  Lemma parse_optional_variable_definitions_sat fuel s :
    SAT (parse_optional_variable_definitions eof_pos eof_errs fuel) s
        (post tokens_vardefs (forallb wf_vardef) depth_vardefs s).
  Proof.
    unfold parse_optional_variable_definitions.
    eapply sat_conseq; [apply (optional_parens_sat _ tokens_vardef wf_vardef depth_vardef); intro; apply parse_variable_definition_sat|].
    intros a s1 _ H. exact H.
  Qed.

  (** *** definitions and documents *)

  Lemma parse_operation_type_sat s :
    SAT (parse_operation_type eof_pos eof_errs) s
        (post (fun o => [e_name (ot_value o) (ot_pos o)]) (fun o => is_optype_name (ot_value o)) (fun _ => 1%Z) s).
  Proof.
    unfold parse_operation_type. apply sat_enter; intro Hr. apply sat_peek.
    match goal with |- context [is_operation_type (pk ?x)] => set (s1 := x) end.
    destruct (is_operation_type (pk s1)) eqn:Eo; cbn [negb]; [|apply sat_errorf].
    unfold is_operation_type in Eo. apply andb_true_iff in Eo as [En Ev].
    destruct (is_name_real _ _ En) as (t & r & Et & Ft & Kt). eat Et.
    apply sat_exit. apply sat_ret. intros _. exists [t]. rewrite <- Ft in *. subst s1. cbn [toks recur map ot_value ot_pos] in *.
    split; [assumption|]. rewrite layout_of_one, (matches_name_self _ Kt).
    unfold is_optype_name. rewrite Ev. repeat split; lia.
  Qed.

  Lemma parse_operation_definition_sat fuel s :
    SAT (parse_operation_definition eof_pos eof_errs false fuel) s
        (post tokens_definition wf_definition (fun d => depth_definition d - 1)%Z s).
  Proof.
    unfold parse_operation_definition. apply sat_enter; intro Hr.
    match goal with |- sat _ _ _ _ ?x _ => set (s1 := x) end.
    use parse_optional_selection_set_sat; [apply parse_selection_set_sat|].
    intros ss s2 V2 (pre2 & E2 & L2 & W2 & R2 & D2).
    eapply sat_bind with (P := post tokens_definition wf_definition (fun d => depth_definition d - 1 - 1)%Z s1).
    2:{ intros r s3 V3 H3. apply exit_ret_sat. exact H3. }
    destruct ss as [x|].
    - apply sat_ret. intros _. exists pre2. unfold depth_opt_selset in D2.
      cbn [tokens_definition wf_definition depth_definition tokens_vardefs tokens_directives flat_map app
           tokens_opt_selset wf_opt_selset] in *.
      repeat split; try assumption. subst s1. cbn [recur] in *. lia.
    - use parse_operation_type_sat. intros ot s3 V3 (pre3 & E3 & L3 & W3 & R3 & D3). apply sat_peek.
      eapply sat_bind with
          (P := post (fun n => match n with Some i => [e_ident i] | None => [] end) (fun _ => true)
                     (fun n => match n with Some _ => depth_name | None => 0%Z end) s3).
      { destruct (is_name (pk s3)).
        - use parse_name_sat. intros x s4 V4 (pre4 & E4 & L4 & _ & R4 & D4).
          apply sat_ret. intros _. exists pre4. repeat split; assumption.
        - apply sat_ret. intros _. exists []. cbn [toks recur map] in *. repeat split; try reflexivity. lia. }
      intros n s4 V4 (pre4 & E4 & L4 & _ & R4 & D4).
      use parse_optional_variable_definitions_sat. intros vars s5 V5 (pre5 & E5 & L5 & W5 & R5 & D5).
      use parse_optional_directives_sat. intros dirs s6 V6 (pre6 & E6 & L6 & W6 & R6 & D6).
      use parse_selection_set_sat. intros sub s7 V7 (pre7 & E7 & L7 & W7 & R7 & D7).
      apply sat_ret. intros _. exists (pre2 ++ pre3 ++ pre4 ++ pre5 ++ pre6 ++ pre7).
      split; [rewrite E2, E3, E4, E5, E6, E7, <- !app_assoc; reflexivity|].
      cbn [tokens_definition wf_definition depth_definition]. rewrite !map_app. split.
      { cbn [tokens_opt_selset] in L2. apply layout_of_nil_l in L2. rewrite L2. cbn [app].
        match goal with |- layout_of (?e :: ?r) _ = true => change (e :: r) with ([e] ++ r) end.
        repeat (apply layout_of_app; [assumption|]). assumption. }
      unfold wf_directives in *. rewrite W3, W5, W6, W7.
      unfold depth_opt_selset, depth_name in *. subst s1. cbn [recur] in *.
      repeat split; try reflexivity; try (destruct n; lia).
  Qed.

  Definition tokens_opt_def (o : option definition) : list etok :=
    match o with Some d => tokens_definition d | None => [] end.

  Lemma parse_optional_fragment_definition_sat fuel s :
    SAT (parse_optional_fragment_definition eof_pos eof_errs false fuel) s
        (post tokens_opt_def (fun o => match o with Some d => wf_definition d | None => true end)
              (fun o => match o with Some d => depth_definition d - 1 | None => 1 end)%Z s).
  Proof.
    unfold parse_optional_fragment_definition. apply sat_enter; intro Hr. apply sat_peek.
    match goal with |- context [is_kw b_fragment (pk ?x)] => set (s1 := x) end.
    eapply sat_bind with
        (P := post tokens_opt_def (fun o => match o with Some d => wf_definition d | None => true end)
                   (fun o => match o with Some d => depth_definition d - 1 | None => 1 end - 1)%Z s1).
    2:{ intros r s3 V3 H3. apply exit_ret_sat. exact H3. }
    destruct (is_kw b_fragment (pk s1)) eqn:Ek.
    - unfold is_kw in Ek. apply andb_true_iff in Ek as [K1 K2].
      destruct (is_name_real _ _ K1) as (t & r & Et & Ft & Kt). apply bytes_eqb_eq in K2. rewrite <- Ft in K2.
      eat Et. apply sat_peek.
      match goal with |- context [is_name (pk ?x)] => set (s2 := x) end.
      destruct (negb (is_name (pk s2)) || bytes_eqb (tv (pk s2)) b_on) eqn:En; [apply sat_errorf|].
      apply orb_false_iff in En as [_ En2].
      use parse_name_sat. intros n s3 V3 (pre3 & E3 & L3 & _ & R3 & D3).
      use parse_type_condition_sat. intros tc s4 V4 (pre4 & E4 & L4 & _ & R4 & D4).
      use parse_optional_directives_sat. intros dirs s5 V5 (pre5 & E5 & L5 & W5 & R5 & D5).
      use parse_selection_set_sat. intros sub s6 V6 (pre6 & E6 & L6 & W6 & R6 & D6).
      apply sat_ret. intros _. exists (t :: pre3 ++ pre4 ++ pre5 ++ pre6).
      pose proof (layout_head eof_pos _ _ _ s2 _ E3 L3) as Hm. apply matches_spec in Hm as (_ & Hv & _).
      cbn [ev e_ident e_name] in Hv.
      subst s1 s2. cbn [toks recur] in *.
      split; [rewrite Et, E3, E4, E5, E6; cbn [app]; rewrite <- !app_assoc; reflexivity|].
      cbn [tokens_opt_def tokens_definition wf_definition depth_definition map]. rewrite !map_app, <- Ft. split.
      { apply layout_of_cons_intro; [rewrite <- K2; apply matches_name_self; assumption|].
        change (e_ident n :: tokens_type_condition tc ++ tokens_directives dirs ++ tokens_selset sub)
          with ([e_ident n] ++ tokens_type_condition tc ++ tokens_directives dirs ++ tokens_selset sub).
        repeat (apply layout_of_app; [assumption|]). assumption. }
      unfold wf_directives in *. rewrite <- Hv, En2, W5, W6. unfold depth_type_condition, depth_named_type, depth_name in *.
      repeat split; try reflexivity; lia.
    - apply sat_ret. intros _. exists []. subst s1. cbn [toks recur map tokens_opt_def] in *.
      repeat split; try reflexivity; lia.
  Qed.

  Lemma parse_definition_sat fuel s :
    SAT (parse_definition eof_pos eof_errs false fuel) s (post tokens_definition wf_definition depth_definition s).
  Proof.
    unfold parse_definition. apply sat_enter; intro Hr.
    match goal with |- sat _ _ _ _ ?x _ => set (s1 := x) end.
    use parse_optional_fragment_definition_sat. intros o s2 V2 (pre2 & E2 & L2 & W2 & R2 & D2).
    eapply sat_bind with (P := post tokens_definition wf_definition (fun d => depth_definition d - 1)%Z s1).
    2:{ intros r s3 V3 H3. apply exit_ret_sat. exact H3. }
    destruct o as [d|].
    - apply sat_ret. intros _. exists pre2. repeat split; assumption.
    - eapply sat_conseq; [apply parse_operation_definition_sat|].
      intros d s3 V3 (pre3 & E3 & L3 & W3 & R3 & D3). exists (pre2 ++ pre3).
      split; [rewrite E2, E3, <- app_assoc; reflexivity|].
      cbn [tokens_opt_def] in L2. apply layout_of_nil_l in L2. rewrite map_app, L2. cbn [app].
      repeat split; try assumption; lia.
  Qed.

  Lemma parse_document_sat fuel s :
    SAT (parse_document eof_pos eof_errs false fuel) s
        (fun d s' => post tokens_document wf_document depth_document s d s' /\ toks s' = []).
  Proof.
    unfold parse_document. apply sat_enter; intro Hr.
    eapply sat_bind; [apply (many_sat eof_pos eof_errs ts0 _ tokens_definition wf_definition depth_definition);
                      intros; apply parse_definition_sat|].
    intros defs s2 V2 [(pre & E & L & W & R & D) St].
    destruct defs as [|d defs]; [apply sat_errorf|].
    apply sat_exit. apply sat_ret. intros _. split.
    - exists pre. cbn [toks recur] in *. unfold tokens_document, wf_document, depth_document.
      cbn [nonempty andb]. repeat split; try assumption; try lia.
      pose proof (maxl_bound (recur s + 1) _ Hr (Forall_depth_shift depth_definition _ _ D)) as Hm. cbn [map] in *. lia.
    - cbn [toks]. unfold at_eof_b in St. destruct (toks s2); [reflexivity|discriminate].
  Qed.
End Sound.
