(** * Syn/Ast.v — the executable-document AST, node for node as graphql/ast/ast.go, with every
    position field the Go structs have, and the significant tokens of graphql/token/token.go.

    Go [string]s are their bytes ([bytes = list N]); Go [token.Position{Line, Column}] is [pos].
    A nil slice and an empty slice are both [[]]; a nil pointer is [None]. *)
From Coq Require Import List NArith Bool String Ascii.
From ApiFu Require Import Base.Sexp.
Import ListNotations.

Definition name := bytes.

(** token.Position *)
Record pos := mkpos { line : N; col : N }.

Definition pos_eqb (a b : pos) : bool := N.eqb (line a) (line b) && N.eqb (col a) (col b).

(** ** Tokens (graphql/token/token.go), significant kinds only; [KInvalid] is token.INVALID, the
    kind of the pseudo token the parser sees at the end of the input. *)
Inductive kind := KInvalid | KPunct | KName | KInt | KFloat | KString.

Definition kind_eqb (a b : kind) : bool :=
  match a, b with
  | KInvalid, KInvalid | KPunct, KPunct | KName, KName | KInt, KInt | KFloat, KFloat | KString, KString => true
  | _, _ => false
  end.

(** parser.parserToken: kind, [StringValue()] (the literal text; for strings the decoded value),
    position of the first character *)
Record token := mktok { tk : kind; tv : bytes; tp : pos }.

(** ** ast.Name *)
Record ident := mkid { id_name : name; id_pos : pos }.

(** ** ast.Variable *)
Record variable := mkvar { var_name : ident; var_dollar : pos }.

(** ** ast.Value *)
Inductive value :=
| VVar (x : variable)
| VInt (lit : bytes) (p : pos)            (* IntValue.Value is the literal text *)
| VFloat (lit : bytes) (p : pos)
| VString (s : bytes) (p : pos)           (* the decoded value *)
| VBool (b : bool) (p : pos)
| VNull (p : pos)
| VEnum (n : name) (p : pos)
| VList (vs : list value) (opening closing : pos)
| VObject (fs : list (ident * value)) (opening closing : pos).   (* ObjectField{Name, Value} *)

(** ** ast.Type; ast.NamedType{Name} is its [ident] *)
Inductive ty :=
| TNamed (n : ident)
| TList (t : ty) (opening closing : pos)
| TNonNull (t : ty).

Record argument := mkarg { arg_name : ident; arg_value : value }.
Record directive := mkdir { dir_name : ident; dir_args : list argument; dir_at : pos }.

(** ** ast.Selection (Field, FragmentSpread, InlineFragment) and ast.SelectionSet *)
Inductive selection :=
| SField (alias : option ident) (n : ident) (args : list argument) (dirs : list directive)
         (sub : option selset)
| SSpread (n : ident) (dirs : list directive) (ellipsis : pos)
| SInline (cond : option ident) (dirs : list directive) (sub : selset) (ellipsis : pos)
with selset :=
| SelSet (sels : list selection) (opening closing : pos).

Record vardef := mkvd { vd_var : variable; vd_type : ty; vd_default : option value }.
Record optype := mkot { ot_value : bytes; ot_pos : pos }.

(** ** ast.Definition (OperationDefinition, FragmentDefinition) and ast.Document *)
Inductive definition :=
| DOp (ot : option optype) (n : option ident) (vars : list vardef) (dirs : list directive)
      (sub : selset)
| DFrag (kw : pos) (n : ident) (cond : ident) (dirs : list directive) (sub : selset).

Definition document := list definition.

(** ** [Position()] of the node types that have a non-trivial one *)
Definition value_pos (v : value) : pos :=
  match v with
  | VVar x => var_dollar x
  | VInt _ p | VFloat _ p | VString _ p | VBool _ p | VNull p | VEnum _ p => p
  | VList _ o _ | VObject _ o _ => o
  end.

Fixpoint ty_pos (t : ty) : pos :=
  match t with
  | TNamed n => id_pos n
  | TList _ o _ => o
  | TNonNull t' => ty_pos t'
  end.

Definition selset_pos (ss : selset) : pos := match ss with SelSet _ o _ => o end.

Definition selection_pos (s : selection) : pos :=
  match s with
  | SField (Some a) _ _ _ _ => id_pos a
  | SField None n _ _ _ => id_pos n
  | SSpread _ _ e => e
  | SInline _ _ _ e => e
  end.

Definition definition_pos (d : definition) : pos :=
  match d with
  | DOp (Some ot) _ _ _ _ => ot_pos ot
  | DOp None _ _ _ sub => selset_pos sub
  | DFrag kw _ _ _ _ => kw
  end.

(** ** Byte-string constants (computed once, so that no string literal is ever matched on) *)
Definition bs (s : string) : bytes :=
  map (fun a => N.of_nat (nat_of_ascii a)) (list_ascii_of_string s).

Definition b_bang : bytes := Eval compute in bs "!"%string.
Definition b_dollar : bytes := Eval compute in bs "$"%string.
Definition b_lparen : bytes := Eval compute in bs "("%string.
Definition b_rparen : bytes := Eval compute in bs ")"%string.
Definition b_colon : bytes := Eval compute in bs ":"%string.
Definition b_eq : bytes := Eval compute in bs "="%string.
Definition b_at : bytes := Eval compute in bs "@"%string.
Definition b_lbrack : bytes := Eval compute in bs "["%string.
Definition b_rbrack : bytes := Eval compute in bs "]"%string.
Definition b_lbrace : bytes := Eval compute in bs "{"%string.
Definition b_rbrace : bytes := Eval compute in bs "}"%string.
Definition b_ellipsis : bytes := Eval compute in bs "..."%string.
Definition b_on : bytes := Eval compute in bs "on"%string.
Definition b_fragment : bytes := Eval compute in bs "fragment"%string.
Definition b_query : bytes := Eval compute in bs "query"%string.
Definition b_mutation : bytes := Eval compute in bs "mutation"%string.
Definition b_subscription : bytes := Eval compute in bs "subscription"%string.
Definition b_true : bytes := Eval compute in bs "true"%string.
Definition b_false : bytes := Eval compute in bs "false"%string.
Definition b_null : bytes := Eval compute in bs "null"%string.
Definition b_EOF : bytes := Eval compute in bs "EOF"%string.
