(** * Syn/Printer.v — the Spec of C06: the June-2018 executable-document grammar read as a
    function from trees to token sequences, and the side conditions of the grammar.

    [tokens_* x] is the sequence of significant tokens of the (unique) derivation of [x]:
    kind, text, and — where the Go AST records a position for that token — the recorded
    position ([Some p]); tokens whose position no AST node keeps ([:], [(], [)], [=], [!], the
    keyword [on]) carry [None].  Every node's own position ([Position()] in ast.go) is thereby
    placed on the node's FIRST token.  A token list [ts] is a layout of [x] when
    [Forall2 matches (tokens_* x) ts].

    [wf_*] are the grammar's side conditions (non-empty lists where the grammar says "+"
    rather than "*", FragmentName "but not on", EnumValue "but not true, false or null",
    Const values in defaults, NonNullType not applied to a NonNullType, the three operation
    types, shorthand queries have no name / variables / directives).

    [depth_*] is the height of the derivation counted in grammar productions as parser.go
    nests them (one per production entered): the quantity the parser's recursion limit
    ([max_recursion] = 1000) bounds.  It is a maximum over children, never a sum: it does
    not depend on how many siblings a list has. *)
From Coq Require Import List NArith ZArith Bool.
From ApiFu Require Import Base.Sexp Syn.Ast.
Import ListNotations.

(** ** expected tokens *)
Record etok := mket { ek : kind; ev : bytes; ep : option pos }.

Definition matches (e : etok) (t : token) : bool :=
  kind_eqb (ek e) (tk t) && bytes_eqb (ev e) (tv t) &&
  match ep e with None => true | Some p => pos_eqb p (tp t) end.

Definition e_punct (v : bytes) (p : pos) : etok := mket KPunct v (Some p).
Definition e_punct_ (v : bytes) : etok := mket KPunct v None.
Definition e_name (v : bytes) (p : pos) : etok := mket KName v (Some p).
Definition e_ident (i : ident) : etok := e_name (id_name i) (id_pos i).

(** ** the grammar as a printer *)

(* Variable : $ Name *)
Definition tokens_variable (x : variable) : list etok :=
  [e_punct b_dollar (var_dollar x); e_ident (var_name x)].

(* Value[Const] : [~Const]Variable | IntValue | FloatValue | StringValue | BooleanValue |
   NullValue | EnumValue | ListValue[?Const] | ObjectValue[?Const] *)
Fixpoint tokens_value (v : value) : list etok :=
  match v with
  | VVar x => tokens_variable x
  | VInt l p => [mket KInt l (Some p)]
  | VFloat l p => [mket KFloat l (Some p)]
  | VString s p => [mket KString s (Some p)]
  | VBool b p => [e_name (if b then b_true else b_false) p]
  | VNull p => [e_name b_null p]
  | VEnum n p => [e_name n p]
  | VList vs o c => e_punct b_lbrack o :: flat_map tokens_value vs ++ [e_punct b_rbrack c]
  | VObject fs o c =>
      e_punct b_lbrace o ::
      flat_map (fun f => e_ident (fst f) :: e_punct_ b_colon :: tokens_value (snd f)) fs ++
      [e_punct b_rbrace c]
  end.

(* Type : NamedType | ListType | NonNullType *)
Fixpoint tokens_type (t : ty) : list etok :=
  match t with
  | TNamed n => [e_ident n]
  | TList t' o c => e_punct b_lbrack o :: tokens_type t' ++ [e_punct b_rbrack c]
  | TNonNull t' => tokens_type t' ++ [e_punct_ b_bang]
  end.

(* Argument : Name : Value        Arguments : ( Argument+ ) *)
Definition tokens_argument (a : argument) : list etok :=
  e_ident (arg_name a) :: e_punct_ b_colon :: tokens_value (arg_value a).
Definition tokens_arguments (args : list argument) : list etok :=
  match args with
  | [] => []
  | _ => e_punct_ b_lparen :: flat_map tokens_argument args ++ [e_punct_ b_rparen]
  end.

(* Directive : @ Name Arguments?    Directives : Directive+ *)
Definition tokens_directive (d : directive) : list etok :=
  e_punct b_at (dir_at d) :: e_ident (dir_name d) :: tokens_arguments (dir_args d).
Definition tokens_directives (ds : list directive) : list etok := flat_map tokens_directive ds.

(* TypeCondition : on NamedType *)
Definition tokens_type_condition (n : ident) : list etok := [mket KName b_on None; e_ident n].
Definition tokens_opt_type_condition (o : option ident) : list etok :=
  match o with Some n => tokens_type_condition n | None => [] end.

(* Selection : Field | FragmentSpread | InlineFragment     SelectionSet : { Selection+ }
   Field : Alias? Name Arguments? Directives? SelectionSet?
   FragmentSpread : ... FragmentName Directives?
   InlineFragment : ... TypeCondition? Directives? SelectionSet *)
Fixpoint tokens_selection (s : selection) : list etok :=
  match s with
  | SField alias n args dirs sub =>
      match alias with Some a => [e_ident a; e_punct_ b_colon] | None => [] end ++
      e_ident n :: tokens_arguments args ++ tokens_directives dirs ++
      match sub with Some ss => tokens_selset ss | None => [] end
  | SSpread n dirs e => e_punct b_ellipsis e :: e_ident n :: tokens_directives dirs
  | SInline cond dirs sub e =>
      e_punct b_ellipsis e :: tokens_opt_type_condition cond ++ tokens_directives dirs ++
      tokens_selset sub
  end
with tokens_selset (ss : selset) : list etok :=
  match ss with
  | SelSet sels o c =>
      e_punct b_lbrace o ::
      (fix go (l : list selection) : list etok :=
         match l with [] => [] | x :: r => tokens_selection x ++ go r end) sels ++
      [e_punct b_rbrace c]
  end.

(* VariableDefinition : Variable : Type DefaultValue?     DefaultValue : = Value[Const] *)
Definition tokens_vardef (vd : vardef) : list etok :=
  tokens_variable (vd_var vd) ++ e_punct_ b_colon :: tokens_type (vd_type vd) ++
  match vd_default vd with Some v => e_punct_ b_eq :: tokens_value v | None => [] end.
Definition tokens_vardefs (vds : list vardef) : list etok :=
  match vds with
  | [] => []
  | _ => e_punct_ b_lparen :: flat_map tokens_vardef vds ++ [e_punct_ b_rparen]
  end.

(* OperationDefinition : OperationType Name? VariableDefinitions? Directives? SelectionSet
                       | SelectionSet
   FragmentDefinition : fragment FragmentName TypeCondition Directives? SelectionSet *)
Definition tokens_definition (d : definition) : list etok :=
  match d with
  | DOp ot n vars dirs sub =>
      match ot with Some o => [e_name (ot_value o) (ot_pos o)] | None => [] end ++
      match n with Some i => [e_ident i] | None => [] end ++
      tokens_vardefs vars ++ tokens_directives dirs ++ tokens_selset sub
  | DFrag kw n cond dirs sub =>
      e_name b_fragment kw :: e_ident n :: tokens_type_condition cond ++
      tokens_directives dirs ++ tokens_selset sub
  end.

(* Document : Definition+ *)
Definition tokens_document (d : document) : list etok := flat_map tokens_definition d.

(** [ts] is a layout of the token sequence [es] *)
Fixpoint layout_of (es : list etok) (ts : list token) : bool :=
  match es, ts with
  | [], [] => true
  | e :: es', t :: ts' => matches e t && layout_of es' ts'
  | _, _ => false
  end.

(** ** side conditions of the grammar *)

Definition nonempty {A} (l : list A) : bool := match l with [] => false | _ => true end.

Fixpoint wf_value (const : bool) (v : value) : bool :=
  match v with
  | VVar _ => negb const
  | VInt _ _ | VFloat _ _ | VString _ _ | VBool _ _ | VNull _ => true
  | VEnum n _ => negb (bytes_eqb n b_true) && negb (bytes_eqb n b_false) && negb (bytes_eqb n b_null)
  | VList vs _ _ => forallb (wf_value const) vs
  | VObject fs _ _ => forallb (fun f => wf_value const (snd f)) fs
  end.

Fixpoint wf_type (t : ty) : bool :=
  match t with
  | TNamed _ => true
  | TList t' _ _ => wf_type t'
  | TNonNull t' => match t' with TNonNull _ => false | _ => wf_type t' end
  end.

Definition wf_argument (a : argument) : bool := wf_value false (arg_value a).
Definition wf_directive (d : directive) : bool := forallb wf_argument (dir_args d).
Definition wf_directives (ds : list directive) : bool := forallb wf_directive ds.

Fixpoint wf_selection (s : selection) : bool :=
  match s with
  | SField _ _ args dirs sub =>
      forallb wf_argument args && wf_directives dirs &&
      match sub with Some ss => wf_selset ss | None => true end
  | SSpread n dirs _ => negb (bytes_eqb (id_name n) b_on) && wf_directives dirs
  | SInline _ dirs sub _ => wf_directives dirs && wf_selset sub
  end
with wf_selset (ss : selset) : bool :=
  match ss with
  | SelSet sels _ _ =>
      nonempty sels &&
      (fix go (l : list selection) : bool :=
         match l with [] => true | x :: r => wf_selection x && go r end) sels
  end.

Definition wf_vardef (vd : vardef) : bool :=
  wf_type (vd_type vd) && match vd_default vd with Some v => wf_value true v | None => true end.

Definition is_optype_name (v : bytes) : bool :=
  bytes_eqb v b_query || bytes_eqb v b_mutation || bytes_eqb v b_subscription.

Definition wf_definition (d : definition) : bool :=
  match d with
  | DOp None n vars dirs sub =>
      match n, vars, dirs with None, [], [] => wf_selset sub | _, _, _ => false end
  | DOp (Some o) _ vars dirs sub =>
      is_optype_name (ot_value o) && forallb wf_vardef vars && wf_directives dirs && wf_selset sub
  | DFrag _ n _ dirs sub => negb (bytes_eqb (id_name n) b_on) && wf_directives dirs && wf_selset sub
  end.

Definition wf_document (d : document) : bool := nonempty d && forallb wf_definition d.

(** ** derivation height in parser productions *)
Local Open Scope Z_scope.

Definition maxl (l : list Z) : Z := fold_right Z.max 0 l.

Definition depth_name : Z := 1.
Definition depth_variable : Z := 1 + depth_name.
Definition depth_named_type : Z := 1 + depth_name.
Definition depth_type_condition : Z := 1 + depth_named_type.

Fixpoint depth_value (v : value) : Z :=
  match v with
  | VVar _ => 1 + depth_variable
  | VInt _ _ | VFloat _ _ | VString _ _ | VBool _ _ | VNull _ | VEnum _ _ => 1
  | VList vs _ _ => 1 + maxl (map depth_value vs)
  | VObject fs _ _ => 1 + maxl (map (fun f => Z.max depth_name (depth_value (snd f))) fs)
  end.

Fixpoint depth_type (t : ty) : Z :=
  match t with
  | TNamed _ => 1 + depth_named_type
  | TList t' _ _ => 1 + depth_type t'
  | TNonNull t' => depth_type t'
  end.

Definition depth_argument (a : argument) : Z := 1 + Z.max depth_name (depth_value (arg_value a)).
Definition depth_arguments (args : list argument) : Z := 1 + maxl (map depth_argument args).
Definition depth_directive (d : directive) : Z := Z.max depth_name (depth_arguments (dir_args d)).
Definition depth_directives (ds : list directive) : Z := 1 + maxl (map depth_directive ds).

Fixpoint depth_selection (s : selection) : Z :=
  match s with
  | SField _ _ args dirs sub =>
      (* parseSelection > parseField > { parseName, arguments, directives, parseOptionalSelectionSet } *)
      1 + (1 + Z.max depth_name (Z.max (depth_arguments args) (Z.max (depth_directives dirs)
             (1 + match sub with Some ss => depth_selset ss | None => 0 end))))
  | SSpread _ dirs _ => 1 + Z.max depth_name (depth_directives dirs)
  | SInline cond dirs sub _ =>
      1 + Z.max (match cond with Some _ => depth_type_condition | None => 0 end)
                (Z.max (depth_directives dirs) (depth_selset sub))
  end
with depth_selset (ss : selset) : Z :=
  match ss with
  | SelSet sels _ _ =>
      1 + (fix go (l : list selection) : Z :=
             match l with [] => 0 | x :: r => Z.max (depth_selection x) (go r) end) sels
  end.

Definition depth_vardef (vd : vardef) : Z :=
  1 + Z.max depth_variable (Z.max (depth_type (vd_type vd))
        (match vd_default vd with Some v => depth_value v | None => 0 end)).
Definition depth_vardefs (vds : list vardef) : Z := 1 + maxl (map depth_vardef vds).

Definition depth_definition (d : definition) : Z :=
  match d with
  | DOp None _ _ _ sub =>
      (* parseDefinition > { parseOptionalFragmentDefinition,
                             parseOperationDefinition > parseOptionalSelectionSet > parseSelectionSet } *)
      1 + Z.max 1 (1 + (1 + depth_selset sub))
  | DOp (Some _) n vars dirs sub =>
      1 + Z.max 1 (1 + Z.max 1 (Z.max (match n with Some _ => depth_name | None => 0 end)
                     (Z.max (depth_vardefs vars) (Z.max (depth_directives dirs) (depth_selset sub)))))
  | DFrag _ _ _ dirs sub =>
      1 + (1 + Z.max depth_type_condition (Z.max (depth_directives dirs) (depth_selset sub)))
  end.

Definition depth_document (d : document) : Z := 1 + maxl (map depth_definition d).

(** ** nodes whose positions key the executor's field-collection memo: every selection
    (Field: alias or name position; FragmentSpread / InlineFragment: the ellipsis), in
    document order *)
Fixpoint positions_selection (s : selection) : list pos :=
  selection_pos s ::
  match s with
  | SField _ _ _ _ (Some ss) => positions_selset ss
  | SField _ _ _ _ None => []
  | SSpread _ _ _ => []
  | SInline _ _ ss _ => positions_selset ss
  end
with positions_selset (ss : selset) : list pos :=
  match ss with
  | SelSet sels _ _ =>
      (fix go (l : list selection) : list pos :=
         match l with [] => [] | x :: r => positions_selection x ++ go r end) sels
  end.

Definition positions_definition (d : definition) : list pos :=
  match d with
  | DOp _ _ _ _ sub => positions_selset sub
  | DFrag _ _ _ _ sub => positions_selset sub
  end.

Definition positions_document (d : document) : list pos := flat_map positions_definition d.
