(** * Syn/Relabel.v — C06, insensitivity to layout: the parser's verdict and tree depend on the
    positions of the tokens only by copying them.  Two token sequences with the same kinds and
    texts (two layouts of one significant-token sequence) are both accepted or both rejected,
    and the trees are equal once positions are erased.

    Proved from [parse_sound] / [parse_roundtrip]: relabel the positions of the first tree along
    the token-wise correspondence; the relabelled tree is a tree of the second sequence. *)
From Coq Require Import List NArith ZArith Bool Lia.
From ApiFu Require Import Base.Sexp Syn.Ast Syn.ParserModel Syn.Printer Syn.ParserBase Syn.ParserProofs.
Import ListNotations.

Section Rl.
  Variable f : pos -> pos.

  Definition rl_ident (i : ident) : ident := mkid (id_name i) (f (id_pos i)).
  Definition rl_variable (x : variable) : variable := mkvar (rl_ident (var_name x)) (f (var_dollar x)).

  Fixpoint rl_value (v : value) : value :=
    match v with
    | VVar x => VVar (rl_variable x)
    | VInt l p => VInt l (f p)
    | VFloat l p => VFloat l (f p)
    | VString s p => VString s (f p)
    | VBool b p => VBool b (f p)
    | VNull p => VNull (f p)
    | VEnum n p => VEnum n (f p)
    | VList vs o c => VList (map rl_value vs) (f o) (f c)
    | VObject fs o c => VObject (map (fun nv => (rl_ident (fst nv), rl_value (snd nv))) fs) (f o) (f c)
    end.

  Fixpoint rl_type (t : ty) : ty :=
    match t with
    | TNamed n => TNamed (rl_ident n)
    | TList t' o c => TList (rl_type t') (f o) (f c)
    | TNonNull t' => TNonNull (rl_type t')
    end.

  Definition rl_argument (a : argument) : argument := mkarg (rl_ident (arg_name a)) (rl_value (arg_value a)).
  Definition rl_directive (d : directive) : directive :=
    mkdir (rl_ident (dir_name d)) (map rl_argument (dir_args d)) (f (dir_at d)).

  Fixpoint rl_selection (s : selection) : selection :=
    match s with
    | SField alias n args dirs sub =>
        SField (option_map rl_ident alias) (rl_ident n) (map rl_argument args) (map rl_directive dirs)
               (match sub with Some ss => Some (rl_selset ss) | None => None end)
    | SSpread n dirs e => SSpread (rl_ident n) (map rl_directive dirs) (f e)
    | SInline cond dirs sub e =>
        SInline (option_map rl_ident cond) (map rl_directive dirs) (rl_selset sub) (f e)
    end
  with rl_selset (ss : selset) : selset :=
    match ss with
    | SelSet sels o c =>
        SelSet ((fix go (l : list selection) : list selection :=
                   match l with [] => [] | x :: r => rl_selection x :: go r end) sels) (f o) (f c)
    end.

  Definition rl_vardef (vd : vardef) : vardef :=
    mkvd (rl_variable (vd_var vd)) (rl_type (vd_type vd)) (option_map rl_value (vd_default vd)).
  Definition rl_optype (o : optype) : optype := mkot (ot_value o) (f (ot_pos o)).
  Definition rl_definition (d : definition) : definition :=
    match d with
    | DOp ot n vars dirs sub =>
        DOp (option_map rl_optype ot) (option_map rl_ident n) (map rl_vardef vars) (map rl_directive dirs)
            (rl_selset sub)
    | DFrag kw n cond dirs sub =>
        DFrag (f kw) (rl_ident n) (rl_ident cond) (map rl_directive dirs) (rl_selset sub)
    end.
  Definition rl_document (d : document) : document := map rl_definition d.

  Definition rl_etok (e : etok) : etok := mket (ek e) (ev e) (option_map f (ep e)).

  Lemma rl_selset_eq sels o c : rl_selset (SelSet sels o c) = SelSet (map rl_selection sels) (f o) (f c).
  Proof. reflexivity. Qed.

  Lemma rl_field_eq alias n args dirs sub :
    rl_selection (SField alias n args dirs sub) =
    SField (option_map rl_ident alias) (rl_ident n) (map rl_argument args) (map rl_directive dirs)
           (match sub with Some ss => Some (rl_selset ss) | None => None end).
  Proof. reflexivity. Qed.

  Lemma rl_spread_eq n dirs e : rl_selection (SSpread n dirs e) = SSpread (rl_ident n) (map rl_directive dirs) (f e).
  Proof. reflexivity. Qed.

  Lemma rl_inline_eq cond dirs sub e :
    rl_selection (SInline cond dirs sub e) =
    SInline (option_map rl_ident cond) (map rl_directive dirs) (rl_selset sub) (f e).
  Proof. reflexivity. Qed.

  (** *** tokens *)

  Lemma tokens_rl_list {A} (rl : A -> A) (T : A -> list etok) (l : list A) :
    Forall (fun x => T (rl x) = map rl_etok (T x)) l ->
    flat_map T (map rl l) = map rl_etok (flat_map T l).
  Proof.
    induction 1 as [|x l Hx _ IH]; [reflexivity|]. cbn [map flat_map]. rewrite map_app, Hx, IH. reflexivity.
  Qed.

  Lemma tokens_rl_value : forall v, tokens_value (rl_value v) = map rl_etok (tokens_value v).
  Proof.
    induction v as [x|l p|l p|s p|b p|p|n p|vs o c IH|fs o c IH] using value_ind'; try reflexivity.
    - cbn [rl_value tokens_value map]. rewrite map_app. cbn [map].
      rewrite (tokens_rl_list rl_value tokens_value vs IH). reflexivity.
    - cbn [rl_value tokens_value map]. rewrite map_app. cbn [map]. f_equal. f_equal.
      induction IH as [|[n v] l Hx _ IHl]; [reflexivity|]. cbn [map flat_map fst snd] in *.
      rewrite map_app. cbn [map]. rewrite Hx, IHl. reflexivity.
  Qed.

  Lemma tokens_rl_type : forall t, tokens_type (rl_type t) = map rl_etok (tokens_type t).
  Proof.
    induction t as [n|t IH o c|t IH]; cbn [rl_type tokens_type map]; try reflexivity.
    - rewrite map_app, IH. reflexivity.
    - rewrite map_app, IH. reflexivity.
  Qed.

  Lemma tokens_rl_argument a : tokens_argument (rl_argument a) = map rl_etok (tokens_argument a).
  Proof. unfold tokens_argument, rl_argument. cbn [arg_name arg_value map]. rewrite tokens_rl_value. reflexivity. Qed.

  Lemma tokens_rl_arguments args : tokens_arguments (map rl_argument args) = map rl_etok (tokens_arguments args).
  Proof.
    destruct args as [|a args]; [reflexivity|].
    change (tokens_arguments (map rl_argument (a :: args)))
      with (e_punct_ b_lparen :: flat_map tokens_argument (map rl_argument (a :: args)) ++ [e_punct_ b_rparen]).
    change (tokens_arguments (a :: args))
      with (e_punct_ b_lparen :: flat_map tokens_argument (a :: args) ++ [e_punct_ b_rparen]).
    rewrite (tokens_rl_list rl_argument tokens_argument (a :: args)).
    - cbn [map]. rewrite map_app. reflexivity.
    - apply Forall_forall. intros; apply tokens_rl_argument.
  Qed.

  Lemma tokens_rl_directive d : tokens_directive (rl_directive d) = map rl_etok (tokens_directive d).
  Proof. unfold tokens_directive, rl_directive. cbn [dir_at dir_name dir_args map]. rewrite tokens_rl_arguments. reflexivity. Qed.

  Lemma tokens_rl_directives ds : tokens_directives (map rl_directive ds) = map rl_etok (tokens_directives ds).
  Proof. apply tokens_rl_list. apply Forall_forall. intros; apply tokens_rl_directive. Qed.

  Lemma tokens_rl_selection_both :
    (forall x, tokens_selection (rl_selection x) = map rl_etok (tokens_selection x)) /\
    (forall ss, tokens_selset (rl_selset ss) = map rl_etok (tokens_selset ss)).
  Proof.
    apply selection_ind'.
    - intros alias n args dirs. cbn [rl_selection tokens_selection].
      rewrite map_app. cbn [map]. rewrite !map_app, tokens_rl_arguments, tokens_rl_directives.
      destruct alias; reflexivity.
    - intros alias n args dirs ss IH. cbn [rl_selection tokens_selection].
      rewrite map_app. cbn [map]. rewrite !map_app, tokens_rl_arguments, tokens_rl_directives, IH.
      destruct alias; reflexivity.
    - intros n dirs e. cbn [rl_selection tokens_selection map]. rewrite tokens_rl_directives. reflexivity.
    - intros cond dirs ss e IH. cbn [rl_selection tokens_selection map].
      rewrite !map_app, tokens_rl_directives, IH. destruct cond; reflexivity.
    - intros sels o c IH. rewrite rl_selset_eq, !tokens_selset_eq. cbn [map]. rewrite map_app. cbn [map].
      rewrite (tokens_rl_list rl_selection tokens_selection sels IH). reflexivity.
  Qed.

  Lemma tokens_rl_selset ss : tokens_selset (rl_selset ss) = map rl_etok (tokens_selset ss).
  Proof. apply tokens_rl_selection_both. Qed.

  Lemma tokens_rl_vardef vd : tokens_vardef (rl_vardef vd) = map rl_etok (tokens_vardef vd).
  Proof.
    unfold tokens_vardef, rl_vardef. cbn [vd_var vd_type vd_default]. rewrite map_app. cbn [map]. rewrite map_app.
    rewrite tokens_rl_type. destruct (vd_default vd); cbn [option_map map]; [rewrite tokens_rl_value|]; reflexivity.
  Qed.

  Lemma tokens_rl_vardefs vds : tokens_vardefs (map rl_vardef vds) = map rl_etok (tokens_vardefs vds).
  Proof.
    destruct vds as [|a vds]; [reflexivity|].
    change (tokens_vardefs (map rl_vardef (a :: vds)))
      with (e_punct_ b_lparen :: flat_map tokens_vardef (map rl_vardef (a :: vds)) ++ [e_punct_ b_rparen]).
    change (tokens_vardefs (a :: vds))
      with (e_punct_ b_lparen :: flat_map tokens_vardef (a :: vds) ++ [e_punct_ b_rparen]).
    rewrite (tokens_rl_list rl_vardef tokens_vardef (a :: vds)).
    - cbn [map]. rewrite map_app. reflexivity.
    - apply Forall_forall. intros; apply tokens_rl_vardef.
  Qed.

  Lemma tokens_rl_definition d : tokens_definition (rl_definition d) = map rl_etok (tokens_definition d).
  Proof.
    destruct d as [ot n vars dirs sub|kw n cond dirs sub]; cbn [rl_definition tokens_definition].
    - rewrite !map_app, tokens_rl_vardefs, tokens_rl_directives, tokens_rl_selset. destruct ot, n; reflexivity.
    - cbn [map]. rewrite !map_app, tokens_rl_directives, tokens_rl_selset. reflexivity.
  Qed.

  Lemma tokens_rl_document d : tokens_document (rl_document d) = map rl_etok (tokens_document d).
  Proof. apply tokens_rl_list. apply Forall_forall. intros; apply tokens_rl_definition. Qed.

  (** *** side conditions and derivation height *)

  Lemma forallb_rl_list {A} (rl : A -> A) (W : A -> bool) (l : list A) :
    Forall (fun x => W (rl x) = W x) l -> forallb W (map rl l) = forallb W l.
  Proof. induction 1 as [|x l Hx _ IH]; [reflexivity|]. cbn [map forallb]. rewrite Hx, IH. reflexivity. Qed.

  Lemma maxl_rl_list {A} (rl : A -> A) (D : A -> Z) (l : list A) :
    Forall (fun x => D (rl x) = D x) l -> maxl (map D (map rl l)) = maxl (map D l).
  Proof. induction 1 as [|x l Hx _ IH]; [reflexivity|]. cbn [map maxl fold_right] in *. unfold maxl in IH. rewrite Hx, IH. reflexivity. Qed.

  Lemma wf_rl_value c : forall v, wf_value c (rl_value v) = wf_value c v.
  Proof.
    induction v as [x|l p|l p|s p|b p|p|n p|vs o c0 IH|fs o c0 IH] using value_ind'; try reflexivity.
    - cbn [rl_value wf_value]. apply forallb_rl_list. exact IH.
    - cbn [rl_value wf_value]. induction IH as [|[n v] l Hx _ IHl]; [reflexivity|].
      cbn [map forallb fst snd] in *. rewrite Hx, IHl. reflexivity.
  Qed.

  Lemma depth_rl_value : forall v, depth_value (rl_value v) = depth_value v.
  Proof.
    induction v as [x|l p|l p|s p|b p|p|n p|vs o c0 IH|fs o c0 IH] using value_ind'; try reflexivity.
    - cbn [rl_value depth_value]. rewrite (maxl_rl_list rl_value depth_value vs IH). reflexivity.
    - cbn [rl_value depth_value]. f_equal. induction IH as [|[n v] l Hx _ IHl]; [reflexivity|].
      cbn [map maxl fold_right fst snd] in *. unfold maxl in IHl. rewrite Hx, IHl. reflexivity.
  Qed.

  Lemma wf_rl_type : forall t, wf_type (rl_type t) = wf_type t.
  Proof.
    induction t as [n|t IH o c|t IH]; cbn [rl_type wf_type]; try reflexivity; try exact IH.
    destruct t; cbn [rl_type] in *; try reflexivity; exact IH.
  Qed.

  Lemma depth_rl_type : forall t, depth_type (rl_type t) = depth_type t.
  Proof. induction t as [n|t IH o c|t IH]; cbn [rl_type depth_type]; try reflexivity; rewrite IH; reflexivity. Qed.

  Lemma wf_rl_arguments args : forallb wf_argument (map rl_argument args) = forallb wf_argument args.
  Proof. apply forallb_rl_list. apply Forall_forall. intros a _. unfold wf_argument, rl_argument. cbn [arg_value]. apply wf_rl_value. Qed.

  Lemma depth_rl_arguments args : depth_arguments (map rl_argument args) = depth_arguments args.
  Proof.
    unfold depth_arguments. f_equal. apply maxl_rl_list. apply Forall_forall. intros a _.
    unfold depth_argument, rl_argument. cbn [arg_value]. rewrite depth_rl_value. reflexivity.
  Qed.

  Lemma wf_rl_directives ds : wf_directives (map rl_directive ds) = wf_directives ds.
  Proof.
    apply forallb_rl_list. apply Forall_forall. intros d _. unfold wf_directive, rl_directive. cbn [dir_args].
    apply wf_rl_arguments.
  Qed.

  Lemma depth_rl_directives ds : depth_directives (map rl_directive ds) = depth_directives ds.
  Proof.
    unfold depth_directives. f_equal. apply maxl_rl_list. apply Forall_forall. intros d _.
    unfold depth_directive, rl_directive. cbn [dir_args]. rewrite depth_rl_arguments. reflexivity.
  Qed.

  Lemma wf_rl_selection_both :
    (forall x, wf_selection (rl_selection x) = wf_selection x) /\ (forall ss, wf_selset (rl_selset ss) = wf_selset ss).
  Proof.
    apply selection_ind'.
    - intros alias n args dirs. cbn [rl_selection wf_selection]. rewrite wf_rl_arguments, wf_rl_directives. reflexivity.
    - intros alias n args dirs ss IH. cbn [rl_selection wf_selection]. rewrite wf_rl_arguments, wf_rl_directives, IH. reflexivity.
    - intros n dirs e. cbn [rl_selection wf_selection rl_ident id_name]. rewrite wf_rl_directives. reflexivity.
    - intros cond dirs ss e IH. cbn [rl_selection wf_selection]. rewrite wf_rl_directives, IH. reflexivity.
    - intros sels o c IH. rewrite rl_selset_eq, !wf_selset_eq. rewrite (forallb_rl_list rl_selection wf_selection sels IH).
      destruct sels; reflexivity.
  Qed.

  Lemma depth_rl_selection_both :
    (forall x, depth_selection (rl_selection x) = depth_selection x) /\
    (forall ss, depth_selset (rl_selset ss) = depth_selset ss).
  Proof.
    apply selection_ind'.
    - intros alias n args dirs. cbn [rl_selection depth_selection]. rewrite depth_rl_arguments, depth_rl_directives. reflexivity.
    - intros alias n args dirs ss IH. cbn [rl_selection depth_selection]. rewrite depth_rl_arguments, depth_rl_directives, IH. reflexivity.
    - intros n dirs e. cbn [rl_selection depth_selection]. rewrite depth_rl_directives. reflexivity.
    - intros cond dirs ss e IH. cbn [rl_selection depth_selection]. rewrite depth_rl_directives, IH. destruct cond; reflexivity.
    - intros sels o c IH. rewrite rl_selset_eq, !depth_selset_eq.
      rewrite (maxl_rl_list rl_selection depth_selection sels IH). reflexivity.
  Qed.

  Lemma wf_rl_vardefs vds : forallb wf_vardef (map rl_vardef vds) = forallb wf_vardef vds.
  Proof.
    apply forallb_rl_list. apply Forall_forall. intros vd _. unfold wf_vardef, rl_vardef. cbn [vd_type vd_default].
    rewrite wf_rl_type. destruct (vd_default vd); cbn [option_map]; [rewrite wf_rl_value|]; reflexivity.
  Qed.

  Lemma depth_rl_vardefs vds : depth_vardefs (map rl_vardef vds) = depth_vardefs vds.
  Proof.
    unfold depth_vardefs. f_equal. apply maxl_rl_list. apply Forall_forall. intros vd _.
    unfold depth_vardef, rl_vardef. cbn [vd_type vd_default]. rewrite depth_rl_type.
    destruct (vd_default vd); cbn [option_map]; [rewrite depth_rl_value|]; reflexivity.
  Qed.

  Lemma wf_rl_definition d : wf_definition (rl_definition d) = wf_definition d.
  Proof.
    destruct wf_rl_selection_both as [_ Hss].
    destruct d as [[o|] n vars dirs sub|kw n cond dirs sub]; cbn [rl_definition wf_definition option_map].
    - cbn [rl_optype ot_value]. rewrite wf_rl_vardefs, wf_rl_directives, Hss. reflexivity.
    - destruct n, vars, dirs; cbn [option_map map]; try reflexivity. apply Hss.
    - cbn [rl_ident id_name]. rewrite wf_rl_directives, Hss. reflexivity.
  Qed.

  Lemma depth_rl_definition d : depth_definition (rl_definition d) = depth_definition d.
  Proof.
    destruct depth_rl_selection_both as [_ Hss].
    destruct d as [[o|] n vars dirs sub|kw n cond dirs sub]; cbn [rl_definition depth_definition option_map].
    - rewrite depth_rl_vardefs, depth_rl_directives, Hss. destruct n; reflexivity.
    - rewrite Hss. reflexivity.
    - rewrite depth_rl_directives, Hss. reflexivity.
  Qed.

  Lemma wf_rl_document d : wf_document (rl_document d) = wf_document d.
  Proof.
    unfold wf_document, rl_document. rewrite (forallb_rl_list rl_definition wf_definition d).
    - destruct d; reflexivity.
    - apply Forall_forall. intros; apply wf_rl_definition.
  Qed.

  Lemma depth_rl_document d : depth_document (rl_document d) = depth_document d.
  Proof.
    unfold depth_document, rl_document. f_equal. apply maxl_rl_list. apply Forall_forall. intros; apply depth_rl_definition.
  Qed.
End Rl.

(** ** relabelling twice *)

Section Compose.
  Variables f g h : pos -> pos.
  Hypothesis Hgf : forall p, g (f p) = h p.

  Lemma rl_ident_comp i : rl_ident g (rl_ident f i) = rl_ident h i.
  Proof. unfold rl_ident. cbn [id_name id_pos]. rewrite Hgf. reflexivity. Qed.

  Lemma rl_variable_comp x : rl_variable g (rl_variable f x) = rl_variable h x.
  Proof. unfold rl_variable. cbn [var_name var_dollar]. rewrite rl_ident_comp, Hgf. reflexivity. Qed.

  Lemma map_comp_list {A} (r1 r2 r3 : A -> A) (l : list A) :
    Forall (fun x => r2 (r1 x) = r3 x) l -> map r2 (map r1 l) = map r3 l.
  Proof. induction 1 as [|x l Hx _ IH]; [reflexivity|]. cbn [map]. rewrite Hx, IH. reflexivity. Qed.

  Lemma rl_value_comp : forall v, rl_value g (rl_value f v) = rl_value h v.
  Proof.
    induction v as [x|l p|l p|s p|b p|p|n p|vs o c IH|fs o c IH] using value_ind';
      cbn [rl_value]; rewrite ?Hgf, ?rl_variable_comp; try reflexivity.
    - rewrite (map_comp_list _ _ _ vs IH). reflexivity.
    - f_equal. induction IH as [|[n v] l Hx _ IHl]; [reflexivity|]. cbn [map fst snd] in *.
      rewrite Hx, IHl, rl_ident_comp. reflexivity.
  Qed.

  Lemma rl_type_comp : forall t, rl_type g (rl_type f t) = rl_type h t.
  Proof. induction t as [n|t IH o c|t IH]; cbn [rl_type]; rewrite ?Hgf, ?rl_ident_comp, ?IH; reflexivity. Qed.

  Lemma rl_arguments_comp args : map (rl_argument g) (map (rl_argument f) args) = map (rl_argument h) args.
  Proof.
    apply map_comp_list. apply Forall_forall. intros a _. unfold rl_argument. cbn [arg_name arg_value].
    rewrite rl_ident_comp, rl_value_comp. reflexivity.
  Qed.

  Lemma rl_directives_comp ds : map (rl_directive g) (map (rl_directive f) ds) = map (rl_directive h) ds.
  Proof.
    apply map_comp_list. apply Forall_forall. intros d _. unfold rl_directive. cbn [dir_name dir_args dir_at].
    rewrite rl_ident_comp, rl_arguments_comp, Hgf. reflexivity.
  Qed.

  Lemma option_ident_comp o : option_map (rl_ident g) (option_map (rl_ident f) o) = option_map (rl_ident h) o.
  Proof. destruct o; cbn [option_map]; [rewrite rl_ident_comp|]; reflexivity. Qed.

  Lemma rl_selection_comp_both :
    (forall x, rl_selection g (rl_selection f x) = rl_selection h x) /\
    (forall ss, rl_selset g (rl_selset f ss) = rl_selset h ss).
  Proof.
    apply selection_ind'.
    - intros alias n args dirs. rewrite ?rl_field_eq, ?rl_spread_eq, ?rl_inline_eq. rewrite option_ident_comp, rl_ident_comp, rl_arguments_comp, rl_directives_comp. reflexivity.
    - intros alias n args dirs ss IH. rewrite ?rl_field_eq, ?rl_spread_eq, ?rl_inline_eq. rewrite option_ident_comp, rl_ident_comp, rl_arguments_comp, rl_directives_comp, IH. reflexivity.
    - intros n dirs e. rewrite ?rl_field_eq, ?rl_spread_eq, ?rl_inline_eq. rewrite rl_ident_comp, rl_directives_comp, Hgf. reflexivity.
    - intros cond dirs ss e IH. rewrite ?rl_field_eq, ?rl_spread_eq, ?rl_inline_eq. rewrite option_ident_comp, rl_directives_comp, IH, Hgf. reflexivity.
    - intros sels o c IH. rewrite !rl_selset_eq. rewrite (map_comp_list _ _ _ sels IH), !Hgf. reflexivity.
  Qed.

  Lemma rl_document_comp d : rl_document g (rl_document f d) = rl_document h d.
  Proof.
    destruct rl_selection_comp_both as [_ Hss].
    unfold rl_document. apply map_comp_list. apply Forall_forall. intros x _.
    destruct x as [ot n vars dirs sub|kw n cond dirs sub]; cbn [rl_definition].
    - rewrite option_ident_comp, rl_directives_comp, Hss. f_equal.
      + destruct ot; cbn [option_map]; [|reflexivity]. unfold rl_optype. cbn [ot_value ot_pos]. rewrite Hgf. reflexivity.
      + apply map_comp_list. apply Forall_forall. intros vd _. unfold rl_vardef. cbn [vd_var vd_type vd_default].
        rewrite rl_variable_comp, rl_type_comp. destruct (vd_default vd); cbn [option_map]; [rewrite rl_value_comp|]; reflexivity.
    - rewrite !rl_ident_comp, rl_directives_comp, Hss, Hgf. reflexivity.
  Qed.
End Compose.

(** all positions erased *)
Definition erase_document (d : document) : document := rl_document (fun _ => mkpos 0 0) d.

Lemma erase_rl f d : erase_document (rl_document f d) = erase_document d.
Proof. unfold erase_document. apply rl_document_comp. reflexivity. Qed.

(** ** two layouts of one token sequence *)

(** same kinds and texts, token by token *)
Definition same_shape (a b : stoken) : Prop :=
  tk (st_tok a) = tk (st_tok b) /\ tv (st_tok a) = tv (st_tok b).

Definition lookup_pos (l : list (pos * pos)) (p : pos) : pos :=
  match find (fun ab => pos_eqb (fst ab) p) l with Some ab => snd ab | None => p end.

Lemma lookup_pos_head a b l : lookup_pos ((a, b) :: l) a = b.
Proof. unfold lookup_pos. cbn [find fst]. rewrite pos_eqb_refl. reflexivity. Qed.

Lemma lookup_pos_tail a b l p : a <> p -> lookup_pos ((a, b) :: l) p = lookup_pos l p.
Proof.
  intro H. unfold lookup_pos. cbn [find fst]. destruct (pos_eqb a p) eqn:E; [|reflexivity].
  apply pos_eqb_eq in E. contradiction.
Qed.

Lemma layout_relabel : forall es ts1 ts2 f,
  layout_of es (map st_tok ts1) = true -> Forall2 same_shape ts1 ts2 ->
  Forall2 (fun a b => f (tp (st_tok a)) = tp (st_tok b)) ts1 ts2 ->
  layout_of (map (rl_etok f) es) (map st_tok ts2) = true.
Proof.
  induction es as [|e es IH]; intros ts1 ts2 f L S P.
  - destruct ts1; [|discriminate]. inversion S; subst. reflexivity.
  - destruct ts1 as [|a ts1]; [discriminate|]. inversion S as [|a' b l1 l2 [Hk Hv] S']; subst.
    inversion P as [|a'' b' l1' l2' Hp P']; subst. cbn [map] in *.
    rewrite layout_of_cons in L. apply andb_true_iff in L as [Hm L].
    apply layout_of_cons_intro; [|eapply IH; eassumption].
    apply matches_spec in Hm as (M1 & M2 & M3). apply matches_spec. cbn [rl_etok ek ev ep].
    repeat split; try congruence. intros p Ep. destruct (ep e) as [q|]; [|discriminate].
    inversion Ep; subst p. rewrite <- (M3 q eq_refl). symmetry. exact Hp.
Qed.

(** with distinct positions in the first layout, a position map along the correspondence exists *)
Lemma position_map_exists : forall ts1 ts2,
  length ts1 = length ts2 -> NoDup (token_positions ts1) ->
  exists f, Forall2 (fun a b => f (tp (st_tok a)) = tp (st_tok b)) ts1 ts2.
Proof.
  induction ts1 as [|a ts1 IH]; intros [|b ts2] Hl Hn; try discriminate.
  - exists (fun p => p). constructor.
  - cbn [token_positions map] in Hn. inversion Hn as [|x l Hni Hn']; subst.
    destruct (IH ts2) as [f Hf]; [simpl in Hl; lia|exact Hn'|].
    exists (fun p => if pos_eqb (tp (st_tok a)) p then tp (st_tok b) else f p).
    constructor; [rewrite pos_eqb_refl; reflexivity|].
    clear - Hf Hni. induction Hf as [|x y l1 l2 Hxy _ IHf]; constructor.
    + destruct (pos_eqb (tp (st_tok a)) (tp (st_tok x))) eqn:E; [|exact Hxy].
      apply pos_eqb_eq in E. exfalso. apply Hni. cbn [map]. left. symmetry. exact E.
    + apply IHf. intro Hi. apply Hni. cbn [map]. right. exact Hi.
Qed.

Lemma Forall2_same_length {A B} (R : A -> B -> Prop) l1 l2 : Forall2 R l1 l2 -> length l1 = length l2.
Proof. induction 1; simpl; congruence. Qed.

Theorem parse_layout_insensitive : forall eof1 eof2 ts1 ts2 d1,
  Forall2 same_shape ts1 ts2 -> NoDup (token_positions ts1) ->
  scanner_errors [] ts2 = [] ->
  ParseDocument eof1 [] false ts1 = Out (Some d1) [] ->
  exists d2, ParseDocument eof2 [] false ts2 = Out (Some d2) [] /\ erase_document d2 = erase_document d1.
Proof.
  intros eof1 eof2 ts1 ts2 d1 S Hn E2 H.
  destruct (parse_sound _ _ _ _ H) as (L & W & D & _).
  destruct (position_map_exists ts1 ts2 (Forall2_same_length _ _ _ S) Hn) as [f Hf].
  exists (rl_document f d1). split; [|apply erase_rl].
  apply parse_roundtrip.
  - rewrite tokens_rl_document. eapply layout_relabel; eassumption.
  - rewrite wf_rl_document. exact W.
  - rewrite depth_rl_document. exact D.
  - exact E2.
Qed.

Lemma same_shape_sym ts1 ts2 : Forall2 same_shape ts1 ts2 -> Forall2 same_shape ts2 ts1.
Proof. induction 1 as [|a b l1 l2 [H1 H2] _ IH]; constructor; [split; congruence|exact IH]. Qed.

(** the verdict does not depend on the layout *)
Corollary parse_layout_same_verdict : forall eof1 eof2 ts1 ts2,
  Forall2 same_shape ts1 ts2 -> NoDup (token_positions ts1) -> NoDup (token_positions ts2) ->
  scanner_errors [] ts1 = [] -> scanner_errors [] ts2 = [] ->
  ((exists d1, ParseDocument eof1 [] false ts1 = Out (Some d1) []) <->
   (exists d2, ParseDocument eof2 [] false ts2 = Out (Some d2) [])).
Proof.
  intros eof1 eof2 ts1 ts2 S N1 N2 E1 E2. split.
  - intros [d1 H]. destruct (parse_layout_insensitive eof1 eof2 ts1 ts2 d1 S N1 E2 H) as (d2 & H2 & _). eauto.
  - intros [d2 H]. destruct (parse_layout_insensitive eof2 eof1 ts2 ts1 d2 (same_shape_sym _ _ S) N2 E1 H) as (d1 & H1 & _). eauto.
Qed.
