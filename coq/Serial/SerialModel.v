(** * Serial/SerialModel.v — model of the executor's scheduling skeleton (no proofs here).

    Transcribes, over execution plan trees, from graphql/executor/executor.go:
      [executeQuery]/[executeMutation] epilogues 124-150 (forceSerial = false / true),
      [wait] 213-235, [executeSelections] 237-289 (incl. the forceSerial branch 269-276),
      [executeField]'s promise adapter 332-352, [catchErrorIfNullable] 356-361, [completeValue]'s
      non-null wrapper 364-379, list join 386-408 and object branch 421-446.

    A plan tree is what the executor sees after field collection, with schema and document
    abstracted away: a selection set is an ordered list of (response key, field plan); a field
    plan says how the resolver answers (synchronously or through a ResolvePromise, with a value or
    an error), whether the field type is non-null, and which Go value it delivers, described
    relative to the field's type (leaf / list of items / object with a nested selection set).

    The executor state [st] holds what the Go closures share through pointers ([executor.Errors],
    the promise channels) plus the harness-side bookkeeping: which promises exist, the idle-round
    counter, the global resolver event log.  Result maps are not modelled below the root (their
    contents never influence scheduling); the root result map of a mutation is the local variable
    [slots] of [serial_loop], pre-sized and filled by index exactly as [resultMap.Set(i, ...)].

    The idle handler is an oracle [sigma : round -> outstanding promises -> promises to fulfil];
    a request without idle handler is [None]. *)
From Coq Require Import List NArith ZArith Bool.
From ApiFu Require Import Base.Sexp Serial.SerialPlan Serial.SerialFuture.
Import ListNotations.

(** ** Errors: the response path plus which site of the executor produced it. *)
Inductive ekind :=
| KResolve     (* newFieldResolveError: resolver error or promise fulfilled with an error *)
| KNullNN      (* "Null result for non-null field." *)
| KBad         (* "Unexpected result…" / "Result is not a list." *)
| KRaw         (* the raw error travelling from the promise channel to Then's continuation *)
| KNoIdle.     (* wait: "No idle handler defined." *)
Record err := mkerr { e_path : list pelem; e_kind : ekind }.
Definition err_at (p : rpath) (k : ekind) : err := mkerr (slice p) k.

Notation result := (SerialFuture.result err).

(** ** State *)
Inductive pstate :=
| POut        (* the resolver returned the channel; nothing sent yet (outstanding) *)
| PSent       (* the idle handler sent the result; the executor has not received it *)
| PRecv.      (* received by the promise adapter's select *)

Record promise := { p_tag : N; p_path : rpath; p_st : pstate }.

Record st := {
  s_proms : list promise;          (* promises in creation order; the id of a promise is its position *)
  s_errs : list err;               (* executor.Errors *)
  s_evs : list event;              (* harness event log *)
  s_round : nat                    (* idle handler invocations so far *)
}.

Definition st0 : st := {| s_proms := []; s_errs := []; s_evs := []; s_round := 0 |}.

Definition add_err (e : err) (s : st) : st :=
  {| s_proms := s_proms s; s_errs := s_errs s ++ [e]; s_evs := s_evs s; s_round := s_round s |}.
Definition add_ev (e : event) (s : st) : st :=
  {| s_proms := s_proms s; s_errs := s_errs s; s_evs := s_evs s ++ [e]; s_round := s_round s |}.
Definition with_proms (ps : list promise) (s : st) : st :=
  {| s_proms := ps; s_errs := s_errs s; s_evs := s_evs s; s_round := s_round s |}.

Fixpoint upd_nth {A} (i : nat) (f : A -> A) (l : list A) : list A :=
  match l, i with
  | [], _ => []
  | x :: tl, O => f x :: tl
  | x :: tl, S j => x :: upd_nth j f tl
  end.

Definition set_pst (x : pstate) (pr : promise) : promise :=
  {| p_tag := p_tag pr; p_path := p_path pr; p_st := x |}.

(** the resolver made a channel and returned it *)
Definition new_promise (tag : N) (p : rpath) (s : st) : nat * st :=
  (length (s_proms s), with_proms (s_proms s ++ [{| p_tag := tag; p_path := p; p_st := POut |}]) s).

(** the [select { case r := <-f: … default: … }] of the promise adapter (executor.go:333-345).
    [ok] says what the harness sends on this channel (a value or an error): it is fixed by the
    plan when the resolver creates the promise. *)
Definition promise_poll (id : nat) (ok : bool) (s : st) : option result * st :=
  match nth_error (s_proms s) id with
  | Some pr =>
      match p_st pr with
      | PSent => (Some (if ok then ROk GUnit else RErr (mkerr [] KRaw)),
                  with_proms (upd_nth id (set_pst PRecv) (s_proms s)) s)
      | _ => (None, s)
      end
  | None => (None, s)
  end.

(** ** The idle handler as an oracle *)

Fixpoint outstanding_from (i : nat) (ps : list promise) : list (nat * N) :=
  match ps with
  | [] => []
  | pr :: tl => match p_st pr with
                | POut => (i, p_tag pr) :: outstanding_from (S i) tl
                | _ => outstanding_from (S i) tl
                end
  end.
Definition outstanding (s : st) : list (nat * N) := outstanding_from 0 (s_proms s).

Definition mem_nat (x : nat) (l : list nat) : bool := existsb (Nat.eqb x) l.

(** sends on the channels of the outstanding promises named in [chosen], in creation order *)
Fixpoint fulfil_from (i : nat) (chosen : list nat) (ps : list promise) : list promise * list event :=
  match ps with
  | [] => ([], [])
  | pr :: tl =>
      let '(tl1, evs) := fulfil_from (S i) chosen tl in
      match p_st pr with
      | POut => if mem_nat i chosen then (set_pst PSent pr :: tl1, EFulfil (slice (p_path pr)) :: evs)
                else (pr :: tl1, evs)
      | _ => (pr :: tl1, evs)
      end
  end.

(** one idle-handler call; [None] when it fulfils nothing (the real executor would then spin for
    ever: the documentation of ResolvePromise obliges the idle handler to send at least one result) *)
Definition idle (sigma : sched) (s : st) : option st :=
  let chosen := sigma (s_round s) (outstanding s) in
  let '(ps, evs) := fulfil_from 0 chosen (s_proms s) in
  match evs with
  | [] => None
  | _ => Some {| s_proms := ps; s_errs := s_errs s; s_evs := s_evs s ++ evs; s_round := S (s_round s) |}
  end.

(** ** The executor *)
Inductive outcome (A : Type) :=
| Done (a : A)
| Stuck (s : st)       (* idle with nothing fulfilled: the real executor never returns; [s] = the
                          state reached *)
| OutOfFuel (s : st).  (* the model's bound on idle rounds was too small; [s] = the state reached *)
Arguments Done {A}.
Arguments Stuck {A}.
Arguments OutOfFuel {A}.

Notation fut := (SerialFuture.fut st err).
Notation clo := (SerialFuture.clo st err).

(** e.CatchError (executor.go:109-115) *)
Definition catch_error (r : result) (s : st) : result * st :=
  match r with
  | RErr e => (ROk GNil, add_err e s)
  | ROk _ => (r, s)
  end.

(** catchErrorIfNullable *)
Definition catch_if_nullable (nn : bool) (f : fut) (s : st) : fut * st :=
  if nn then (f, s) else Map f catch_error s.

(** the callback of the non-null wrapper's not-ready branch (executor.go:373-378) *)
Definition nn_check (p : rpath) (r : result) (s : st) : result * st :=
  match r with
  | ROk GNil => (RErr (err_at p KNullNN), s)
  | _ => (r, s)
  end.

(** the non-null wrapper of completeValue (executor.go:364-379) around an inner completion *)
Definition nn_wrap (nn : bool) (p : rpath) (fs : fut * st) : fut * st :=
  if nn then
    let '(f, s) := fs in
    match f with
    | Ready (ROk GNil) => (Err (err_at p KNullNN), s)
    | Ready _ => (f, s)
    | Pending _ => Map f (nn_check p) s
    end
  else fs.

(** the setter closure of executeSelections (executor.go:280-283): [resultMap.Set(...); return nil] *)
Definition set_slot (v : gval) (s : st) : gval * st := (GNil, s).

(** the loop of executeSelections over the grouped field set, forceSerial = false
    (executor.go:245-286); [ef] is executeField *)
Definition sel_loop (ef : fplan -> rpath -> st -> fut * st) (p : rpath) :=
  fix sel_loop (l : selset) (futures : list fut) (s : st) {struct l}
  : option err * list fut * st :=
  match l with
  | [] => (None, futures, s)
  | (key, fp) :: tl =>
      let ip := PKey key :: p in
      let '(f, s1) := ef fp ip s in
      let '(f1, s2) := catch_if_nullable (fp_nn fp) f s1 in
      match f1 with
      | Ready (RErr e) => (Some e, futures, s2)            (* wait on a ready future; return Err *)
      | Ready (ROk v) => sel_loop tl futures s2            (* resultMap.Set(i, responseKey, v) *)
      | Pending _ =>
          let '(f2, s3) := MapOk f1 set_slot s2 in
          sel_loop tl (futures ++ [f2]) s3
      end
  end.

Definition sel_body (ef : fplan -> rpath -> st -> fut * st) (fields : selset) (p : rpath) (s : st)
  : fut * st :=
  let '(early, futures, s1) := sel_loop ef p fields [] s in
  match early with
  | Some e => (Err e, s1)
  | None => (MapOkValue (After futures) GObj, s1)
  end.

(** the list branch of completeValue (executor.go:386-408); [cv] is completeValue at the item
    type (non-null wrapper included) *)
Definition items_loop (cv : vplan -> rpath -> st -> fut * st) (inn : bool) (p : rpath) :=
  fix items_loop (l : list vplan) (i : nat) (s : st) {struct l} : list fut * st :=
  match l with
  | [] => ([], s)
  | x :: tl =>
      let '(f, s1) := cv x (PIdx i :: p) s in
      let '(f1, s2) := catch_if_nullable inn f s1 in
      let '(fs, s3) := items_loop tl (S i) s2 in
      (f1 :: fs, s3)
  end.

Definition list_body (cv : vplan -> rpath -> st -> fut * st) (inn : bool) (items : list vplan)
           (p : rpath) (s : st) : fut * st :=
  let '(fs, s1) := items_loop cv inn p items 0 s in
  (MapOkToAny (Join fs), s1).

(** [complete_inner] = completeValue below the non-null wrapper; [exec_field] = executeField *)
Fixpoint complete_inner (v : vplan) (p : rpath) (s : st) {struct v} : fut * st :=
  match v with
  | VNull => (Ok GNil, s)
  | VBad => (Err (err_at p KBad), s)
  | VLeaf z => (Ok (GInt z), s)
  | VList inn items =>
      list_body (fun x q s => nn_wrap inn q (complete_inner x q s)) inn items p s
  | VObj fields =>
      let '(f, s1) := sel_body exec_field fields p s in (MapOkToAny f, s1)
  end
with exec_field (fp : fplan) (p : rpath) (s : st) {struct fp} : fut * st :=
  match fp with
  | FP tag nn res =>
      let s1 := add_ev (EStart (slice p)) s in               (* fieldDef.Resolve(...) *)
      match tag with
      | None =>
          match res with
          | None => (Err (err_at p KResolve), s1)
          | Some v => nn_wrap nn p (complete_inner v p s1)
          end
      | Some t =>
          let '(id, s2) := new_promise t p s1 in
          (* the promise adapter (executor.go:332-352): Then(New(select on the channel), continuation) *)
          Then (New (promise_poll id (match res with Some _ => true | None => false end)))
               (fun r s =>
                  match r with
                  | ROk _ =>
                      match res with
                      | Some v => nn_wrap nn p (complete_inner v p s)
                      | None => (Ok GNil, s)   (* unreachable: the harness sends an error when the plan says so *)
                      end
                  | RErr _ => (Err (err_at p KResolve), s)
                  end) s2
      end
  | FTypename => (Ok GStr, s)      (* executor.go:250-253: resultMap.Set(i, key, objectType.Name); continue *)
  end.

(** completeValue(fieldType, …) with the non-null wrapper *)
Definition complete_value (nn : bool) (v : vplan) (p : rpath) (s : st) : fut * st :=
  nn_wrap nn p (complete_inner v p s).

(** executeSelections(…, forceSerial = false) *)
Definition exec_sel (fields : selset) (p : rpath) (s : st) : fut * st :=
  sel_body exec_field fields p s.

(** wait (executor.go:213-235): [fuel] bounds the idle rounds *)
Definition wait_fn (r : result) (s : st) : result * st := (r, s).

Fixpoint wait_loop (oh : option sched) (fuel : nat) (f : fut) (s : st) : outcome (result * st) :=
  match f with
  | Ready r => Done (r, s)
  | Pending _ =>
      match oh with
      | None => Done (RErr (mkerr [] KNoIdle), s)     (* e.IdleHandler == nil *)
      | Some sigma =>
          match fuel with
          | O => OutOfFuel s
          | S n =>
              match idle sigma s with
              | None => Stuck s
              | Some s1 => let '(f1, s2) := poll f s1 in wait_loop oh n f1 s2
              end
          end
      end
  end.

Definition wait (oh : option sched) (fuel : nat) (f : fut) (s : st) : outcome (result * st) :=
  match f with
  | Ready r => Done (r, s)
  | Pending _ =>
      let '(f0, s0) := Map f wait_fn s in
      let '(f1, s1) := poll f0 s0 in
      wait_loop oh fuel f1 s1
  end.

(** executeSelections(…, forceSerial = true): the root selection set of a mutation.  Each
    field's future is waited for before the next field starts (executor.go:269-276). *)
Notation slot := (option (bytes * gval)) (only parsing).     (* None = the zero OrderedMapItem *)

(** PROPOSED REPAIR, not in the code ([drain = false] is the code that exists;
    checks/C11.proposed-drain.patch): after the wait for a root field the executor receives from
    every promise channel it handed to a future and has not received from yet — the promises
    abandoned by an early error return — calling the idle handler until none is left. *)
Definition recv_all (s : st) : st :=
  with_proms (map (fun pr => match p_st pr with PSent => set_pst PRecv pr | _ => pr end) (s_proms s)) s.
Definition all_recv (s : st) : bool :=
  forallb (fun pr => match p_st pr with PRecv => true | _ => false end) (s_proms s).

Fixpoint drain_loop (oh : option sched) (fuel : nat) (s : st) : outcome st :=
  let s1 := recv_all s in
  if all_recv s1 then Done s1
  else match oh with
       | None => Done s1
       | Some sigma =>
           match fuel with
           | O => OutOfFuel s1
           | S n => match idle sigma s1 with
                    | None => Stuck s1
                    | Some s2 => drain_loop oh n s2
                    end
           end
       end.

Definition drain_after (drain : bool) (oh : option sched) (fuel : nat) (o : outcome (result * st))
  : outcome (result * st) :=
  match o with
  | Done (r, s3) =>
      if drain then
        match drain_loop oh fuel s3 with
        | Done s4 => Done (r, s4)
        | Stuck s' => Stuck s'
        | OutOfFuel s' => OutOfFuel s'
        end
      else o
  | _ => o
  end.

Fixpoint serial_loop (drain : bool) (oh : option sched) (fuel : nat) (l : selset) (slots : list slot) (i : nat)
         (p : rpath) (s : st) : outcome (option err * list slot * st) :=
  match l with
  | [] => Done (None, slots, s)
  | (key, fp) :: tl =>
      let ip := PKey key :: p in
      let '(f, s1) := exec_field fp ip s in
      let '(f1, s2) := catch_if_nullable (fp_nn fp) f s1 in
      match drain_after drain oh fuel (wait oh fuel f1 s2) with
      | Done (RErr e, s3) => Done (Some e, slots, s3)
      | Done (ROk v, s3) =>
          serial_loop drain oh fuel tl (upd_nth i (fun _ => Some (key, v)) slots) (S i) p s3
      | Stuck s' => Stuck s'
      | OutOfFuel s' => OutOfFuel s'
      end
  end.

Definition exec_sel_serial (drain : bool) (oh : option sched) (fuel : nat) (fields : selset) (p : rpath) (s : st)
  : outcome (fut * list slot * st) :=
  match serial_loop drain oh fuel fields (repeat None (length fields)) 0 p s with   (* NewOrderedMapWithLength *)
  | Done (Some e, slots, s1) => Done (Err e, slots, s1)
  | Done (None, slots, s1) => Done (MapOkValue (After []) GObj, slots, s1)
  | Stuck s' => Stuck s'
  | OutOfFuel s' => OutOfFuel s'
  end.

(** ** Whole requests *)
Record resp := {
  r_null : bool;                     (* "data": null *)
  r_root : list slot;                (* mutation: the items of the root result map, in slot order *)
  r_nerrs : nat;                     (* number of errors in the response *)
  r_rounds : nat;                    (* idle handler invocations *)
  r_events : list event;             (* the global resolver log *)
  r_proms : list promise             (* every promise ever created, with its final state *)
}.

Inductive mode := Query | Mutation.

Definition finish (slots : list slot) (rs : result * st) : resp :=
  let '(r, s) := rs in
  match r with
  | RErr e =>
      {| r_null := true; r_root := []; r_nerrs := S (length (s_errs s)); r_rounds := s_round s;
         r_events := s_evs s; r_proms := s_proms s |}
  | ROk v =>
      {| r_null := false; r_root := slots; r_nerrs := length (s_errs s); r_rounds := s_round s;
         r_events := s_evs s; r_proms := s_proms s |}
  end.

Definition run_gen (drain : bool) (oh : option sched) (md : mode) (fuel : nat) (root : selset) : outcome resp :=
  match md with
  | Query =>
      let '(f, s1) := exec_sel root [] st0 in
      match wait oh fuel f s1 with
      | Done rs => Done (finish [] rs)
      | Stuck s' => Stuck s'
      | OutOfFuel s' => OutOfFuel s'
      end
  | Mutation =>
      match exec_sel_serial drain oh fuel root [] st0 with
      | Done (f, slots, s1) =>
          match wait oh fuel f s1 with
          | Done rs => Done (finish slots rs)
          | Stuck s' => Stuck s'
          | OutOfFuel s' => OutOfFuel s'
          end
      | Stuck s' => Stuck s'
      | OutOfFuel s' => OutOfFuel s'
      end
  end.

(** the code that exists: no drain *)
Definition run := run_gen false.

(** the global resolver log of a run, whether or not it returned *)
Definition log_of (o : outcome resp) : list event :=
  match o with
  | Done r => r_events r
  | Stuck s | OutOfFuel s => s_evs s
  end.

(** the scheduler the harness implements: every promise has a rank (by its static tag); an idle
    round fulfils the outstanding promises of minimal rank *)
Definition rank_of (ranks : list nat) (t : N) : nat := nth (N.to_nat t) ranks 0.
Definition sigma_ranks (ranks : list nat) : sched :=
  fun _ out =>
    match out with
    | [] => []
    | (_, t0) :: _ =>
        let m := fold_left (fun a pt => Nat.min a (rank_of ranks (snd pt))) out (rank_of ranks t0) in
        map fst (filter (fun pt => Nat.eqb (rank_of ranks (snd pt)) m) out)
    end.

(** ** Sizes *)
Fixpoint count_async_v (v : vplan) : nat :=
  match v with
  | VList _ items => (fix go (l : list vplan) : nat := match l with [] => 0 | x :: tl => count_async_v x + go tl end) items
  | VObj fields => (fix go (l : list (bytes * fplan)) : nat :=
                      match l with [] => 0 | (_, f) :: tl => count_async_f f + go tl end) fields
  | _ => 0
  end
with count_async_f (f : fplan) : nat :=
  match f with
  | FP tag _ res => (match tag with Some _ => 1 | None => 0 end) +
                    (match res with Some v => count_async_v v | None => 0 end)
  | FTypename => 0
  end.
Definition count_async (sel : selset) : nat := count_async_v (VObj sel).

(** the key of every item of a result map, in item order ([None] = an item that was never set) *)
Definition slot_keys (slots : list (option (bytes * gval))) : list (option bytes) :=
  map (fun sl => match sl with Some (k, _) => Some k | None => None end) slots.
