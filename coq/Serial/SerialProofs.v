(** * Serial/SerialProofs.v — the theorems of C11 (part 4): the wait loop, the serial loop over the
    root fields of a mutation, the order of the global resolver log. *)
From Coq Require Import List Arith NArith ZArith Bool Lia.
From ApiFu Require Import Base.Sexp Serial.SerialPlan Serial.SerialFuture Serial.SerialModel
     Serial.SerialSpec Serial.SerialStep Serial.SerialGood Serial.SerialBuild.
Import ListNotations.

(** ** The idle handler *)
Definition pevol_idle (a b : promise) : Prop :=
  p_tag b = p_tag a /\ p_path b = p_path a /\
  (p_st b = p_st a \/ (p_st a = POut /\ p_st b = PSent)).

Lemma fulfil_from_spec chosen ps : forall i0 ps' evs,
  fulfil_from i0 chosen ps = (ps', evs) ->
  Forall2 pevol_idle ps ps' /\
  Forall (fun e => exists i pr, nth_error ps i = Some pr /\ p_st pr = POut /\
                                e = EFulfil (slice (p_path pr))) evs.
Proof.
  induction ps as [|pr tl IH]; intros i0 ps' evs E; simpl in E.
  - injection E as <- <-. split; constructor.
  - destruct (fulfil_from (S i0) chosen tl) as [tl1 evs1] eqn:E1.
    destruct (IH _ _ _ E1) as (F & Ev).
    assert (Ev' : Forall (fun e => exists i pr0, nth_error (pr :: tl) i = Some pr0 /\ p_st pr0 = POut /\
                                     e = EFulfil (slice (p_path pr0))) evs1).
    { eapply Forall_impl; [|exact Ev]. intros e (i & pr0 & A & B & C). exists (S i), pr0. auto. }
    assert (R : pevol_idle pr pr) by (repeat split; auto).
    destruct (p_st pr) eqn:P.
    + destruct (mem_nat i0 chosen); injection E as <- <-.
      * split; [constructor; auto|].
        -- repeat split; simpl; auto.
        -- constructor; auto. exists 0, pr. auto.
      * split; [constructor; auto|auto].
    + injection E as <- <-. split; [constructor; auto|auto].
    + injection E as <- <-. split; [constructor; auto|auto].
Qed.

Lemma pevol_idle_pevol a b : pevol_idle a b -> pevol a b.
Proof.
  intros (A & B & [C|[C D]]); repeat split; auto.
  - rewrite C. lia.
  - rewrite C, D. simpl. lia.
Qed.

Lemma idle_spec q sigma s s1 :
  idle sigma s = Some s1 ->
  wstep q s s1 /\ length (s_proms s1) = length (s_proms s) /\ (forall i, live s1 i <-> live s i).
Proof.
  unfold idle. intros E.
  destruct (fulfil_from 0 (sigma (s_round s) (outstanding s)) (s_proms s)) as [ps evs] eqn:Ef.
  destruct (fulfil_from_spec _ _ _ _ _ Ef) as (F & Ev).
  assert (E1 : s_proms s1 = ps /\ s_evs s1 = s_evs s ++ evs).
  { destruct evs; [discriminate|]. injection E as <-. auto. }
  destruct E1 as [Ep Ee]. clear E.
  assert (Fp : Forall2 pevol (s_proms s) (s_proms s1)).
  { rewrite Ep. clear -F. induction F; constructor; auto using pevol_idle_pevol. }
  assert (Lv : forall i, live s1 i <-> live s i).
  { intros i. unfold live. rewrite Ep. split.
    - intros (b & Eb & Nb). destruct (Forall2_nth_r _ _ _ _ _ F Eb) as (a & Ea & (_ & _ & [C|[C D]])).
      + exists a. split; auto. congruence.
      + exists a. split; auto. congruence.
    - intros (a & Ea & Na). destruct (Forall2_nth _ _ _ _ _ F Ea) as (b & Eb & (_ & _ & [C|[C D]])).
      + exists b. split; auto. congruence.
      + exists b. split; auto. congruence. }
  split; [|split; auto].
  - split.
    + exists evs. split; auto. eapply Forall_impl; [|exact Ev].
      intros e (i & pr & En & Po & ->). right.
      destruct (Forall2_nth _ _ _ _ _ Fp En) as (b & Eb & (_ & Pb & _)).
      exists i, b. rewrite Pb. repeat split; auto.
      intros _. exists pr. split; auto. congruence.
    + exists (s_proms s1), []. rewrite app_nil_r. auto.
  - symmetry. rewrite <- Ep in F. exact (Forall2_length F).
Qed.

(** ** wait *)
Section Wait.
  Variable calm : bool.
  Variable q : rpath.
  Variable oh : option sched.

  Lemma wait_loop_good cl : forall fuel (f : fut) s r s',
    GoodF calm q cl f -> wait_loop oh fuel f s = Done (r, s') ->
    wstep q s s' /\
    (calm = true -> (forall i, live s i -> AwaitsF f i) -> forall v, r = ROk v -> forall i, ~ live s' i).
  Proof.
    induction fuel as [|n IH]; intros f s r s' G E; destruct f as [r0|c]; cbn [wait_loop] in E.
    - injection E as <- <-. split; [apply wstep_refl|].
      intros _ Cov v _ i L. eapply AwaitsF_ready. apply (Cov i L).
    - destruct oh as [sigma|]; [discriminate|]. injection E as <- <-. split; [apply wstep_refl|].
      intros _ _ v Ev. discriminate.
    - injection E as <- <-. split; [apply wstep_refl|].
      intros _ Cov v _ i L. eapply AwaitsF_ready. apply (Cov i L).
    - destruct oh as [sigma|] eqn:Eo.
      + destruct (idle sigma s) as [s1|] eqn:Ei; [|discriminate].
        destruct (idle_spec q _ _ _ Ei) as (W1 & Len & Lv).
        destruct (poll (Pending c) s1) as [f1 s2] eqn:Ep.
        destruct (poll_good calm q cl _ G s1 f1 s2 Ep) as (S2 & G2 & A2).
        destruct (IH f1 s2 r s' G2 E) as (W3 & A3).
        split; [eapply wstep_trans; [exact W1|eapply wstep_trans; [apply step_wstep; exact S2|exact W3]]|].
        intros C Cov. apply (A3 C). intros i L.
        apply (A2 C i L).
        destruct (Nat.lt_ge_cases i (length (s_proms s1))) as [Lt|Ge]; [left|right; auto].
        apply Cov. apply Lv. eapply step_live_old; eauto.
      + injection E as <- <-. split; [apply wstep_refl|]. intros _ _ v Ev. discriminate.
  Qed.

  Lemma wait_good cl fuel (f : fut) s r s' :
    GoodF calm q cl f -> wait oh fuel f s = Done (r, s') ->
    wstep q s s' /\
    (calm = true -> (forall i, live s i -> AwaitsF f i) -> forall v, r = ROk v -> forall i, ~ live s' i).
  Proof.
    intros G E. destruct f as [r0|c]; unfold wait in E.
    - injection E as <- <-. split; [apply wstep_refl|].
      intros _ Cov v _ i L. eapply AwaitsF_ready. apply (Cov i L).
    - cbn [Map] in E.
      assert (Gm : GoodF calm q cl (Pending (CMap wait_fn c))).
      { constructor. eapply G_map; [apply GoodF_pending_inv; exact G|].
        intros r1 s0 R. simpl. split; auto. split; auto using step_refl. }
      destruct (poll (Pending (CMap wait_fn c)) s) as [f1 s1] eqn:Ep.
      destruct (poll_good calm q cl _ Gm s f1 s1 Ep) as (S1 & G1 & A1).
      destruct (wait_loop_good cl fuel f1 s1 r s' G1 E) as (W2 & A2).
      split; [eapply wstep_trans; [apply step_wstep; exact S1|exact W2]|].
      intros C Cov. apply (A2 C). intros i L. apply (A1 C i L).
      destruct (Nat.lt_ge_cases i (length (s_proms s))) as [Lt|Ge]; [left|right; auto].
      constructor. apply A_map. apply AwaitsF_pending_inv. apply Cov. eapply step_live_old; eauto.
  Qed.

  (** whatever the outcome (returned, stuck, out of fuel): the state reached is a [wstep] away *)
  Definition st_of_w (o : outcome (result * st)) : st :=
    match o with Done (_, s') => s' | Stuck s' => s' | OutOfFuel s' => s' end.

  Lemma wait_loop_wstep cl : forall fuel (f : fut) s,
    GoodF calm q cl f -> wstep q s (st_of_w (wait_loop oh fuel f s)).
  Proof.
    induction fuel as [|n IH]; intros f s G; destruct f as [r0|c]; cbn [wait_loop];
      try (simpl; apply wstep_refl).
    - destruct oh; simpl; apply wstep_refl.
    - destruct oh as [sigma|] eqn:Eo; [|simpl; apply wstep_refl].
      destruct (idle sigma s) as [s1|] eqn:Ei; [|simpl; apply wstep_refl].
      destruct (idle_spec q _ _ _ Ei) as (W1 & _ & _).
      destruct (poll (Pending c) s1) as [f1 s2] eqn:Ep.
      destruct (poll_good calm q cl _ G s1 f1 s2 Ep) as (S2 & G2 & _).
      eapply wstep_trans; [exact W1|]. eapply wstep_trans; [apply step_wstep; exact S2|]. apply IH. exact G2.
  Qed.

  Lemma wait_wstep cl fuel (f : fut) s :
    GoodF calm q cl f -> wstep q s (st_of_w (wait oh fuel f s)).
  Proof.
    intros G. destruct f as [r0|c]; unfold wait; [simpl; apply wstep_refl|]. cbn [Map].
    assert (Gm : GoodF calm q cl (Pending (CMap wait_fn c))).
    { constructor. eapply G_map; [apply GoodF_pending_inv; exact G|].
      intros r1 s0 R. simpl. split; auto. split; auto using step_refl. }
    destruct (poll (Pending (CMap wait_fn c)) s) as [f1 s1] eqn:Ep.
    destruct (poll_good calm q cl _ Gm s f1 s1 Ep) as (S1 & G1 & _).
    eapply wstep_trans; [apply step_wstep; exact S1|]. apply wait_loop_wstep with (cl := cl). exact G1.
  Qed.
End Wait.

(** ** The proposed drain step *)
Lemma recv_all_spec q s :
  wstep q s (recv_all s) /\ (forall i, live (recv_all s) i -> live s i).
Proof.
  assert (F : Forall2 pevol (s_proms s) (s_proms (recv_all s))).
  { simpl. induction (s_proms s) as [|pr tl IH]; simpl; constructor; auto.
    destruct (p_st pr) eqn:P; try apply pevol_refl. repeat split; simpl; auto. rewrite P. simpl. lia. }
  split.
  - split.
    + exists []. simpl. rewrite app_nil_r. auto.
    + exists (s_proms (recv_all s)), []. rewrite app_nil_r. auto.
  - intros i (b & Eb & Nb). destruct (Forall2_nth_r _ _ _ _ _ F Eb) as (a & Ea & (_ & _ & R)).
    exists a. split; auto. intros Hx. rewrite Hx in R. simpl in R.
    destruct (p_st b); simpl in R; try lia. congruence.
Qed.

Lemma all_recv_not_live s : all_recv s = true -> forall i, ~ live s i.
Proof.
  unfold all_recv. intros H i (pr & E & N). rewrite forallb_forall in H.
  specialize (H pr (nth_error_In _ _ E)). destruct (p_st pr); congruence.
Qed.

Definition st_of_d (o : outcome st) : st :=
  match o with Done s' => s' | Stuck s' => s' | OutOfFuel s' => s' end.

Lemma drain_loop_spec q oh : forall fuel s,
  wstep q s (st_of_d (drain_loop oh fuel s)) /\
  (forall s', drain_loop oh fuel s = Done s' -> oh <> None -> forall i, ~ live s' i).
Proof.
  induction fuel as [|n IH]; intros s; cbn [drain_loop];
    destruct (recv_all_spec q s) as (W0 & _);
    destruct (all_recv (recv_all s)) eqn:A.
  - split; [exact W0|]. intros s' E _. injection E as <-. apply all_recv_not_live. exact A.
  - destruct oh as [sigma|]; simpl; (split; [exact W0|]); intros s' E; try discriminate.
    intros N. congruence.
  - split; [exact W0|]. intros s' E _. injection E as <-. apply all_recv_not_live. exact A.
  - destruct oh as [sigma|] eqn:Eo.
    + destruct (idle sigma (recv_all s)) as [s2|] eqn:Ei.
      * destruct (idle_spec q _ _ _ Ei) as (W1 & _ & _).
        destruct (IH s2) as (W2 & D2).
        split; [eapply wstep_trans; [exact W0|eapply wstep_trans; eauto]|]. exact D2.
      * simpl. split; [exact W0|]. intros s' E. discriminate.
    + simpl. split; [exact W0|]. intros s' E N. congruence.
Qed.

(** one root field of a mutation: executeField, catchErrorIfNullable, wait (and the proposed drain) *)
Definition root_iter (drain : bool) (oh : option sched) (fuel : nat) (key : bytes) (fp : fplan) (s : st) :=
  drain_after drain oh fuel
    (let '(f, s1) := exec_field fp [PKey key] s in
     let '(f1, s2) := catch_if_nullable (fp_nn fp) f s1 in
     wait oh fuel f1 s2).

Lemma root_iter_wstep drain oh fuel key fp s :
  wstep [PKey key] s (st_of_w (root_iter drain oh fuel key fp s)).
Proof.
  unfold root_iter.
  destruct (exec_field fp [PKey key] s) as [f s1] eqn:E1.
  destruct (catch_if_nullable (fp_nn fp) f s1) as [f1 s2] eqn:E2.
  destruct (exec_field_good false [PKey key] fp [PKey key] s f1 s2) as (S2 & G2 & _).
  { discriminate. } { apply ext_refl. } { rewrite E1. exact E2. }
  pose proof (wait_wstep false [PKey key] oh CNoErr fuel f1 s2 G2) as W.
  assert (W2 : wstep [PKey key] s (st_of_w (wait oh fuel f1 s2)))
    by (eapply wstep_trans; [apply step_wstep; exact S2|exact W]).
  destruct (wait oh fuel f1 s2) as [[r s3]|s3|s3]; simpl in *; auto.
  destruct drain; simpl; auto.
  destruct (drain_loop_spec [PKey key] oh fuel s3) as (W3 & _).
  destruct (drain_loop oh fuel s3) as [s4|s4|s4]; simpl in *; eapply wstep_trans; eauto.
Qed.

Lemma root_iter_dead drain oh fuel key fp s v s3 :
  (drain = true /\ oh <> None) \/ calm_f fp = true ->
  root_iter drain oh fuel key fp s = Done (ROk v, s3) ->
  (forall i, ~ live s i) -> forall i, ~ live s3 i.
Proof.
  unfold root_iter. intros H E Dead.
  destruct (exec_field fp [PKey key] s) as [f s1] eqn:E1.
  destruct (catch_if_nullable (fp_nn fp) f s1) as [f1 s2] eqn:E2.
  destruct (wait oh fuel f1 s2) as [[r s3']|s3'|s3'] eqn:Ew; simpl in E; try discriminate.
  destruct drain.
  - (* with the drain step *)
    destruct (drain_loop oh fuel s3') as [s4|s4|s4] eqn:Ed; try discriminate. injection E as -> <-.
    destruct (drain_loop_spec [PKey key] oh fuel s3') as (_ & D).
    destruct H as [[_ N]|C].
    + apply (D s4 Ed N).
    + (* calm: nothing was live before the drain; it stays so *)
      destruct (exec_field_good true [PKey key] fp [PKey key] s f1 s2 (fun _ => C) (ext_refl _)) as (S2 & G2 & A2).
      { rewrite E1. exact E2. }
      destruct (wait_good true [PKey key] oh CNoErr fuel f1 s2 (ROk v) s3' G2 Ew) as (_ & A3).
      assert (D3 : forall i, ~ live s3' i).
      { apply (A3 eq_refl) with (v := v); auto. intros i L. apply (A2 eq_refl i); auto.
        destruct (Nat.lt_ge_cases i (length (s_proms s))) as [Lt|Ge]; auto.
        exfalso. apply (Dead i). eapply step_live_old; eauto. }
      destruct (drain_loop_spec [PKey key] oh fuel s3') as (W & _). rewrite Ed in W. simpl in W.
      intros i L. destruct (Nat.lt_ge_cases i (length (s_proms s3'))) as [Lt|Ge].
      * apply (D3 i). eapply wstep_live_old; eauto.
      * destruct W as (_ & (old & new & Ep & F & Nw)).
        (* the drain creates no promise *)
        clear -Ed L Ge. revert s3' Ed Ge. induction fuel as [|n IH]; intros s3' Ed Ge; cbn [drain_loop] in Ed.
        -- destruct (all_recv (recv_all s3')) eqn:A.
           ++ injection Ed as <-. apply (all_recv_not_live _ A i L).
           ++ destruct oh; try discriminate. injection Ed as <-.
              apply live_lt in L. simpl in L. rewrite map_length in L. lia.
        -- destruct (all_recv (recv_all s3')) eqn:A.
           ++ injection Ed as <-. apply (all_recv_not_live _ A i L).
           ++ destruct oh as [sigma|]; [|injection Ed as <-; apply live_lt in L; simpl in L; rewrite map_length in L; lia].
              destruct (idle sigma (recv_all s3')) as [s2'|] eqn:Ei; [|discriminate].
              destruct (idle_spec [] _ _ _ Ei) as (_ & Len & _).
              apply (IH s2' Ed). rewrite Len. simpl. rewrite map_length. exact Ge.
  - (* the code that exists *)
    injection E as -> <-. destruct H as [[X _]|C]; [discriminate|].
    destruct (exec_field_good true [PKey key] fp [PKey key] s f1 s2 (fun _ => C) (ext_refl _)) as (S2 & G2 & A2).
    { rewrite E1. exact E2. }
    destruct (wait_good true [PKey key] oh CNoErr fuel f1 s2 (ROk v) s3' G2 Ew) as (_ & A3).
    apply (A3 eq_refl) with (v := v); auto. intros i L. apply (A2 eq_refl i); auto.
    destruct (Nat.lt_ge_cases i (length (s_proms s))) as [Lt|Ge]; auto.
    exfalso. apply (Dead i). eapply step_live_old; eauto.
Qed.

(** ** The log: executable order predicate against its meaning *)
Lemma key_index_nth keys : NoDup keys -> forall j k, nth_error keys j = Some k -> key_index keys k = Some j.
Proof.
  induction 1 as [|x tl Nx Nd IH]; intros [|j] k E; simpl in *; try discriminate.
  - injection E as ->. rewrite bytes_eqb_refl. reflexivity.
  - destruct (bytes_eqb x k) eqn:B.
    + apply bytes_eqb_eq in B. subst x. exfalso. apply Nx. eapply nth_error_In; eauto.
    + rewrite (IH _ _ E). reflexivity.
Qed.

Lemma ev_path_under (k : bytes) p : ext [PKey k] p -> exists tl, slice p = PKey k :: tl.
Proof. intros [d ->]. unfold slice. rewrite rev_app_distr. simpl. eauto. Qed.

Lemma serial_from_mono strict keys log : forall c c',
  c' <= c -> serial_from strict keys c log = true -> serial_from strict keys c' log = true.
Proof.
  induction log as [|e tl IH]; intros c c' L H; simpl in *; auto.
  destruct (ev_index keys e) as [i|]; [|discriminate].
  destruct (Nat.leb c i) eqn:B1.
  - apply Nat.leb_le in B1. assert (B2 : Nat.leb c' i = true) by (apply Nat.leb_le; lia).
    rewrite B2. exact H.
  - apply andb_true_iff in H as [H1 H2]. destruct (Nat.leb c' i) eqn:B2.
    + apply Nat.leb_le in B2. apply Nat.leb_gt in B1. eapply IH; [|exact H2]. lia.
    + rewrite H1. simpl. eapply IH; eauto.
Qed.

(** a segment whose events all belong to root field [j] *)
Lemma serial_from_seg_strict keys j seg rest : forall c,
  c <= j -> Forall (fun e => ev_index keys e = Some j) seg ->
  serial_from true keys j rest = true -> serial_from true keys c (seg ++ rest) = true.
Proof.
  induction seg as [|e tl IH]; intros c L F H; simpl.
  - eapply serial_from_mono; eauto.
  - inversion F as [|? ? He Ft]; subst. rewrite He.
    assert (B : Nat.leb c j = true) by (apply Nat.leb_le; lia). rewrite B. apply IH; auto.
Qed.

(** a segment whose resolver starts belong to root field [j] and whose fulfilments belong to
    root fields up to [j] *)
Lemma serial_from_seg_weak keys j seg rest : forall c,
  c <= j ->
  Forall (fun e => exists i, ev_index keys e = Some i /\ i <= j /\ (is_fulfil e = false -> i = j)) seg ->
  serial_from false keys j rest = true -> serial_from false keys c (seg ++ rest) = true.
Proof.
  induction seg as [|e tl IH]; intros c L F H; simpl.
  - eapply serial_from_mono; eauto.
  - inversion F as [|? ? (i & He & Li & Hs) Ft]; subst. rewrite He.
    destruct (Nat.leb c i) eqn:B.
    + apply IH; auto.
    + apply Nat.leb_gt in B. simpl.
      destruct (is_fulfil e) eqn:Fe; [simpl; apply IH; auto|].
      specialize (Hs eq_refl). lia.
Qed.

Lemma serial_from_each strict keys log : forall c,
  serial_from strict keys c log = true ->
  forall e, In e log -> exists j, ev_index keys e = Some j /\ (c <= j \/ (strict = false /\ is_fulfil e = true)).
Proof.
  induction log as [|x tl IH]; intros c H e HIn; [destruct HIn|]. destruct HIn as [->|In]; simpl in H.
  - destruct (ev_index keys e) as [i|]; [|discriminate]. exists i. split; auto.
    destruct (Nat.leb c i) eqn:B; [left; apply Nat.leb_le; auto|].
    apply andb_true_iff in H as [H _]. apply andb_true_iff in H as [H1 H2].
    right. split; auto. destruct strict; auto; discriminate.
  - destruct (ev_index keys x) as [i|]; [|discriminate].
    destruct (Nat.leb c i) eqn:B.
    + apply Nat.leb_le in B. destruct (IH _ H e In) as (j & Ej & [L|R]); exists j; split; auto. left. lia.
    + apply andb_true_iff in H as [_ H]. eapply IH; eauto.
Qed.

Lemma serial_from_pairs strict keys log : forall c,
  serial_from strict keys c log = true ->
  forall l1 e1 l2 e2 l3, log = l1 ++ e1 :: l2 ++ e2 :: l3 ->
    exists i j, ev_index keys e1 = Some i /\ ev_index keys e2 = Some j /\
                (i <= j \/ (strict = false /\ is_fulfil e2 = true)).
Proof.
  intros c H l1. revert c log H. induction l1 as [|x l1 IH]; intros c log H e1 l2 e2 l3 ->; simpl in H.
  - destruct (ev_index keys e1) as [i|] eqn:E1; [|discriminate].
    assert (In2 : In e2 (l2 ++ e2 :: l3)) by (apply in_or_app; right; left; reflexivity).
    destruct (Nat.leb c i) eqn:B.
    + destruct (serial_from_each _ _ _ _ H e2 In2) as (j & Ej & D). exists i, j. auto.
    + apply Nat.leb_gt in B. apply andb_true_iff in H as [_ H].
      destruct (serial_from_each _ _ _ _ H e2 In2) as (j & Ej & [L|R]); exists i, j; split; auto; split; auto.
      left. lia.
  - destruct (ev_index keys x) as [i|]; [|discriminate].
    destruct (Nat.leb c i).
    + eapply IH; eauto.
    + apply andb_true_iff in H as [_ H]. eapply IH; eauto.
Qed.

Theorem strict_serial_sound keys log : strict_serial keys log = true -> Serial keys log.
Proof.
  intros H l1 e1 l2 e2 l3 E.
  destruct (serial_from_pairs _ _ _ _ H _ _ _ _ _ E) as (i & j & A & B & [L|[X _]]); [exists i, j; auto|discriminate].
Qed.

Theorem weak_serial_sound keys log : weak_serial keys log = true -> SerialStarts keys log.
Proof.
  intros H l1 e1 l2 e2 l3 E.
  destruct (serial_from_pairs _ _ _ _ H _ _ _ _ _ E) as (i & j & A & B & [L|[_ X]]); exists i, j; auto.
Qed.

(** and the other way round, so that the oracle rejects exactly the logs the property rejects *)
Lemma serial_from_complete keys log : forall c,
  (forall e, In e log -> exists j, ev_index keys e = Some j /\ c <= j) ->
  Serial keys log -> serial_from true keys c log = true.
Proof.
  induction log as [|x tl IH]; intros c Hc S; simpl; auto.
  destruct (Hc x (or_introl eq_refl)) as (i & Ei & Li). rewrite Ei.
  assert (B : Nat.leb c i = true) by (apply Nat.leb_le; auto). rewrite B.
  apply IH.
  - intros e In. apply in_split in In as (l2 & l3 & ->).
    destruct (S [] x l2 e l3 eq_refl) as (i' & j & A & Bj & L). rewrite Ei in A. injection A as <-. eauto.
  - intros l1 e1 l2 e2 l3 E. apply (S (x :: l1) e1 l2 e2 l3). rewrite E. reflexivity.
Qed.

Theorem strict_serial_complete keys log :
  (forall e, In e log -> ev_index keys e <> None) -> Serial keys log -> strict_serial keys log = true.
Proof.
  intros H S. apply serial_from_complete; auto.
  intros e In. destruct (ev_index keys e) as [j|] eqn:E; [|exfalso; eapply H; eauto].
  exists j. split; auto. lia.
Qed.

(** ** Side effects: a serial log means every root field sees all effects of its predecessors *)
Lemma filter_none {A} (f : A -> bool) l : (forall x, In x l -> f x = false) -> filter f l = [].
Proof.
  induction l as [|a tl IH]; intros H; simpl; auto.
  rewrite (H a (or_introl eq_refl)). apply IH. intros x In. apply H. right. exact In.
Qed.

Theorem serial_observes_predecessors keys log : Serial keys log -> ObservesPredecessors keys log.
Proof.
  intros S l1 e l2 j E Ej. subst log. unfold effects_before. rewrite filter_app, app_length. simpl.
  assert (He : earlier_than keys j e = false).
  { unfold earlier_than. rewrite Ej. apply Nat.ltb_irrefl. }
  rewrite He.
  assert (H2 : filter (earlier_than keys j) l2 = []).
  { apply filter_none. intros x In. apply in_split in In as (a & b & ->).
    destruct (S l1 e a x b eq_refl) as (i & i' & Ei & Ex & L).
    rewrite Ej in Ei. injection Ei as <-. unfold earlier_than. rewrite Ex.
    apply Nat.ltb_ge. exact L. }
  rewrite H2. simpl. lia.
Qed.

(** ** The serial loop *)
Section Serial.
  Variable fuel : nat.
  Variable root : selset.
  Let keys := map fst root.
  Hypothesis Nd : NoDup keys.

  (** every promise created so far lies beneath one of the first [j] root fields *)
  Definition proms_under (j : nat) (s : st) : Prop :=
    Forall (fun pr => exists j' k, j' < j /\ nth_error keys j' = Some k /\ ext [PKey k] (p_path pr)) (s_proms s).

  Lemma ev_index_under j k p :
    nth_error keys j = Some k -> ext [PKey k] p ->
    ev_index keys (EStart (slice p)) = Some j /\ ev_index keys (EFulfil (slice p)) = Some j.
  Proof.
    intros En X. destruct (ev_path_under k p X) as (tl & E). unfold ev_index. simpl. rewrite E.
    rewrite (key_index_nth keys Nd j k En). auto.
  Qed.

  Lemma proms_under_step j k s s' :
    nth_error keys j = Some k -> proms_under j s -> wstep [PKey k] s s' -> proms_under (S j) s'.
  Proof.
    intros En PU (_ & (old & new & Ep & F & Nw)). unfold proms_under. rewrite Ep. apply Forall_app. split.
    - unfold proms_under in PU. clear -PU F. induction F; inversion PU; subst; constructor; auto.
      destruct H as (_ & Hp & _). destruct H2 as (j' & k' & A & B & C). exists j', k'. rewrite Hp. auto.
    - eapply Forall_impl; [|exact Nw]. intros pr X. exists j, k. auto.
  Qed.

  (** the events of one root field, general plans *)
  Lemma seg_weak j k s s' evs :
    nth_error keys j = Some k -> proms_under j s -> wstep [PKey k] s s' ->
    s_evs s' = s_evs s ++ evs ->
    Forall (fun e => exists i, ev_index keys e = Some i /\ i <= j /\ (is_fulfil e = false -> i = j)) evs.
  Proof.
    intros En PU W Ee.
    pose proof (proms_under_step j k s s' En PU W) as PU'.
    destruct W as ((evs' & Ee' & F) & _). rewrite Ee in Ee'. apply app_inv_head in Ee'. subst evs'.
    eapply Forall_impl; [|exact F]. intros e [(p & -> & X)|(i & pr & Ei & -> & _)].
    - exists j. destruct (ev_index_under j k p En X) as [A _]. auto.
    - unfold proms_under in PU'. rewrite Forall_forall in PU'.
      destruct (PU' pr (nth_error_In _ _ Ei)) as (j' & k' & Lj & Ek & X).
      exists j'. destruct (ev_index_under j' k' _ Ek X) as [_ B]. split; auto. split; [lia|].
      simpl. discriminate.
  Qed.

  (** the events of one root field when no promise was live before *)
  Lemma seg_strict j k s s' evs :
    nth_error keys j = Some k -> (forall i, ~ live s i) -> wstep [PKey k] s s' ->
    s_evs s' = s_evs s ++ evs ->
    Forall (fun e => ev_index keys e = Some j) evs.
  Proof.
    intros En Dead W Ee.
    destruct W as ((evs' & Ee' & F) & G). rewrite Ee in Ee'. apply app_inv_head in Ee'. subst evs'.
    eapply Forall_impl; [|exact F]. intros e [(p & -> & X)|(i & pr & Ei & -> & L)].
    - destruct (ev_index_under j k p En X) as [A _]. auto.
    - destruct (Nat.lt_ge_cases i (length (s_proms s))) as [Lt|Ge].
      + exfalso. apply (Dead i). auto.
      + pose proof (pgrow_new _ _ _ _ _ G Ei Ge) as X.
        destruct (ev_index_under j k _ En X) as [_ B]. auto.
  Qed.

  Lemma serial_loop_cons drain oh key fp tl slots i s :
    serial_loop drain oh fuel ((key, fp) :: tl) slots i [] s =
    match root_iter drain oh fuel key fp s with
    | Done (RErr e, s3) => Done (Some e, slots, s3)
    | Done (ROk v, s3) =>
        serial_loop drain oh fuel tl (upd_nth i (fun _ => Some (key, v)) slots) (S i) [] s3
    | Stuck s' => Stuck s'
    | OutOfFuel s' => OutOfFuel s'
    end.
  Proof.
    unfold root_iter. simpl. destruct (exec_field fp [PKey key] s) as [f s1].
    destruct (catch_if_nullable (fp_nn fp) f s1) as [f1 s2]. reflexivity.
  Qed.

  Definition st_of_s (o : outcome (option err * list (option (bytes * gval)) * st)) : st :=
    match o with Done (_, _, s') => s' | Stuck s' => s' | OutOfFuel s' => s' end.

  (** the log of the serial loop, whatever its outcome: a concatenation of per-root segments.
      [strict]: every root field leaves no live promise behind — because the plan is calm, or
      because of the (proposed) drain step with an idle handler *)
  Lemma serial_loop_log (strict drain : bool) (oh : option sched) : forall l pre slots s,
    root = pre ++ l ->
    (strict = true -> (drain = true /\ oh <> None) \/ forallb (fun kf => calm_f (snd kf)) l = true) ->
    (if strict then forall i, ~ live s i else proms_under (length pre) s) ->
    exists evs,
      s_evs (st_of_s (serial_loop drain oh fuel l slots (length pre) [] s)) = s_evs s ++ evs /\
      serial_from strict keys (length pre) evs = true /\
      (strict = true -> forall slots' s',
         serial_loop drain oh fuel l slots (length pre) [] s = Done (None, slots', s') ->
         forall i, ~ live s' i).
  Proof.
    induction l as [|[key fp] tl IH]; intros pre slots s Er C Inv.
    - simpl. exists []. rewrite app_nil_r. split; auto. split; auto.
      intros -> slots' s' E. injection E as <- <-. exact Inv.
    - rewrite serial_loop_cons.
      assert (En : nth_error keys (length pre) = Some key).
      { unfold keys. rewrite Er, map_app, nth_error_app2; rewrite map_length; auto.
        rewrite Nat.sub_diag. reflexivity. }
      assert (Cx : strict = true -> (drain = true /\ oh <> None) \/ calm_f fp = true).
      { intros c. destruct (C c) as [D|C1]; auto. right. simpl in C1. apply andb_true_iff in C1 as [C1 _]. exact C1. }
      assert (Ct : strict = true -> (drain = true /\ oh <> None) \/ forallb (fun kf => calm_f (snd kf)) tl = true).
      { intros c. destruct (C c) as [D|C1]; auto. right. simpl in C1. apply andb_true_iff in C1 as [_ C2]. exact C2. }
      pose proof (root_iter_wstep drain oh fuel key fp s) as W.
      assert (SegOf : forall s3, wstep [PKey key] s s3 ->
                exists evs1, s_evs s3 = s_evs s ++ evs1 /\
                  forall rest, serial_from strict keys (length pre) rest = true ->
                               serial_from strict keys (length pre) (evs1 ++ rest) = true).
      { intros s3 W3. destruct (W3) as ((evs1 & Ee1 & _) & _). exists evs1. split; auto. intros rest Hr.
        destruct strict.
        - apply (serial_from_seg_strict keys (length pre)); auto. eapply seg_strict; eauto.
        - apply (serial_from_seg_weak keys (length pre)); auto. eapply seg_weak; eauto. }
      destruct (root_iter drain oh fuel key fp s) as [[r s3]|s3|s3] eqn:Ew; simpl in W.
      + destruct (SegOf s3 W) as (evs1 & Ee1 & Seg).
        destruct r as [v|e].
        * assert (Inv3 : if strict then forall i, ~ live s3 i else proms_under (S (length pre)) s3).
          { destruct strict.
            - eapply root_iter_dead; eauto.
            - eapply proms_under_step; eauto. }
          assert (Er' : root = (pre ++ [(key, fp)]) ++ tl) by (rewrite <- app_assoc; exact Er).
          assert (Lp : length (pre ++ [(key, fp)]) = S (length pre)) by (rewrite app_length; simpl; lia).
          rewrite <- Lp in Inv3.
          destruct (IH (pre ++ [(key, fp)]) (upd_nth (length pre) (fun _ => Some (key, v)) slots) s3 Er' Ct Inv3)
            as (evs2 & Ee2 & Ser2 & Dead2). rewrite Lp in Ee2, Ser2, Dead2.
          exists (evs1 ++ evs2). rewrite Ee2, Ee1, app_assoc. split; auto. split; auto.
          apply Seg. eapply serial_from_mono; [|exact Ser2]. lia.
        * simpl. exists evs1. split; auto. split; [|intros _ slots' s' E; discriminate].
          rewrite <- (app_nil_r evs1). apply Seg. reflexivity.
      + destruct (SegOf s3 W) as (evs1 & Ee1 & Seg). simpl. exists evs1. split; auto.
        split; [|intros _ slots' s' E; discriminate]. rewrite <- (app_nil_r evs1). apply Seg. reflexivity.
      + destruct (SegOf s3 W) as (evs1 & Ee1 & Seg). simpl. exists evs1. split; auto.
        split; [|intros _ slots' s' E; discriminate]. rewrite <- (app_nil_r evs1). apply Seg. reflexivity.
  Qed.

  (** the response keys *)
  Lemma upd_nth_app_mid {A} (a : list A) x b f : upd_nth (length a) f (a ++ x :: b) = a ++ f x :: b.
  Proof. induction a; simpl; auto. rewrite IHa. reflexivity. Qed.

  Lemma serial_loop_keys drain oh : forall l pre (done : list (bytes * gval)) slots s slots' s',
    map fst done = map fst pre ->
    slots = map Some done ++ repeat None (length l) ->
    serial_loop drain oh fuel l slots (length pre) [] s = Done (None, slots', s') ->
    exists done', slots' = map Some done' /\ map fst done' = map fst (pre ++ l).
  Proof.
    induction l as [|[key fp] tl IH]; intros pre done slots s slots' s' Hd Hs E.
    - simpl in E. injection E as <- <-. exists done. simpl in Hs. rewrite app_nil_r in Hs.
      rewrite app_nil_r. auto.
    - rewrite serial_loop_cons in E.
      destruct (root_iter drain oh fuel key fp s) as [[r s3]|s3|s3] eqn:Ew; try discriminate.
      destruct r as [v|e]; [|discriminate].
      assert (Lp : length (pre ++ [(key, fp)]) = S (length pre)) by (rewrite app_length; simpl; lia).
      rewrite <- Lp in E.
      replace (pre ++ (key, fp) :: tl) with ((pre ++ [(key, fp)]) ++ tl) by (rewrite <- app_assoc; reflexivity).
      apply (IH (pre ++ [(key, fp)]) (done ++ [(key, v)]) (upd_nth (length pre) (fun _ => Some (key, v)) slots) s3 slots' s'); [| |exact E].
      + rewrite !map_app, Hd. reflexivity.
      + rewrite Hs. simpl.
        assert (Ld : length pre = length (map (@Some (bytes * gval)) done)).
        { rewrite map_length. rewrite <- (map_length fst done), Hd, map_length. reflexivity. }
        rewrite Ld, upd_nth_app_mid, map_app, <- app_assoc. reflexivity.
  Qed.
End Serial.

(** ** Whole mutations *)
Lemma not_live_recv s : (forall i, ~ live s i) -> Forall (fun pr => p_st pr = PRecv) (s_proms s).
Proof.
  intros H. apply Forall_forall. intros pr In. apply In_nth_error in In as (i & E).
  destruct (p_st pr) eqn:P; auto; exfalso; apply (H i); exists pr; split; auto; congruence.
Qed.

Lemma run_mutation_inv drain oh fuel root r :
  run_gen drain oh Mutation fuel root = Done r ->
  exists early slots s',
    serial_loop drain oh fuel root (repeat None (length root)) 0 [] st0 = Done (early, slots, s') /\
    r_events r = s_evs s' /\ r_proms r = s_proms s' /\
    match early with
    | None => r_null r = false /\ r_root r = slots
    | Some _ => r_null r = true
    end.
Proof.
  unfold run_gen, exec_sel_serial. intros E.
  destruct (serial_loop drain oh fuel root (repeat None (length root)) 0 [] st0) as [[[early slots] s']|s'|s'];
    try discriminate.
  exists early, slots, s'. split; auto.
  destruct early as [e|]; simpl in E; injection E as <-; simpl; auto.
Qed.

(** the log of a mutation, whether or not the run returned, is the log of its serial loop *)
Lemma run_mutation_log drain oh fuel root :
  log_of (run_gen drain oh Mutation fuel root) =
  s_evs (st_of_s (serial_loop drain oh fuel root (repeat None (length root)) 0 [] st0)).
Proof.
  unfold run_gen, exec_sel_serial.
  destruct (serial_loop drain oh fuel root (repeat None (length root)) 0 [] st0) as [[[early slots] s']|s'|s'];
    try reflexivity.
  destruct early as [e|]; reflexivity.
Qed.

Lemma st0_dead : forall i, ~ live st0 i.
Proof. intros i (pr & En & _). destruct i; discriminate. Qed.

Theorem mutation_strict_serial_gen drain oh fuel root :
  NoDup (map fst root) -> (drain = true /\ oh <> None) \/ calm root = true ->
  strict_serial (map fst root) (log_of (run_gen drain oh Mutation fuel root)) = true /\
  forall r, run_gen drain oh Mutation fuel root = Done r -> r_null r = false ->
            Forall (fun pr => p_st pr = PRecv) (r_proms r).
Proof.
  intros Nd C.
  assert (C' : true = true -> (drain = true /\ oh <> None) \/ forallb (fun kf => calm_f (snd kf)) root = true).
  { intros _. destruct C as [D|C]; auto. right. unfold calm in C. rewrite calm_v_obj in C. exact C. }
  destruct (serial_loop_log fuel root Nd true drain oh root [] (repeat None (length root)) st0 eq_refl C' st0_dead)
    as (evs & Ev & Ser & Dead).
  split.
  - rewrite run_mutation_log. simpl in Ev. rewrite Ev. exact Ser.
  - intros r E Nn. destruct (run_mutation_inv _ _ _ _ _ E) as (early & slots & s' & El & _ & Ep & M).
    destruct early as [e|]; [congruence|].
    rewrite Ep. apply not_live_recv. eapply Dead; eauto.
Qed.

Theorem mutation_weak_serial oh fuel root :
  NoDup (map fst root) ->
  weak_serial (map fst root) (log_of (run oh Mutation fuel root)) = true.
Proof.
  intros Nd.
  destruct (serial_loop_log fuel root Nd false false oh root [] (repeat None (length root)) st0 eq_refl)
    as (evs & Ev & Ser & _).
  { discriminate. }
  { constructor. }
  unfold run. rewrite run_mutation_log. simpl in Ev. rewrite Ev. exact Ser.
Qed.

Lemma excl_calm root : excl_abandoned_promise root = false -> calm root = true.
Proof. unfold excl_abandoned_promise. destruct (calm root); auto; discriminate. Qed.

(** C11, strict form: when no non-null position of the plan fails, every event under an earlier
    root field precedes every event under a later one — with or without idle handler, for every
    scheduler, every fuel, and whether or not the run returns *)
Theorem mutation_serial oh fuel root :
  NoDup (map fst root) -> excl_abandoned_promise root = false ->
  Serial (map fst root) (log_of (run oh Mutation fuel root)).
Proof.
  intros Nd X. apply strict_serial_sound. apply mutation_strict_serial_gen; auto using excl_calm.
Qed.

(** ... and when a root field's wait returns no promise is left: each was fulfilled and received *)
Theorem mutation_no_promise_left oh fuel root r :
  NoDup (map fst root) -> excl_abandoned_promise root = false ->
  run oh Mutation fuel root = Done r -> r_null r = false ->
  Forall (fun pr => p_st pr = PRecv) (r_proms r).
Proof.
  intros Nd X E Nn. eapply (mutation_strict_serial_gen false); eauto using excl_calm.
Qed.

(** hence every root field sees all side effects of its predecessors *)
Theorem mutation_observes_predecessors oh fuel root :
  NoDup (map fst root) -> excl_abandoned_promise root = false ->
  ObservesPredecessors (map fst root) (log_of (run oh Mutation fuel root)).
Proof. intros Nd X. apply serial_observes_predecessors. apply mutation_serial; auto. Qed.

(** C11 for every plan: no resolver of an earlier root field starts after any event of a later
    one; the only late events are fulfilments of promises *)
Theorem mutation_serial_starts oh fuel root :
  NoDup (map fst root) ->
  SerialStarts (map fst root) (log_of (run oh Mutation fuel root)).
Proof. intros Nd. apply weak_serial_sound. apply mutation_weak_serial; auto. Qed.

(** the proposed repair is a verified one: WITH the drain step (and an idle handler) the strict
    order holds for EVERY plan, no exclusion; every promise is fulfilled and received before the
    next root field starts *)
Theorem mutation_serial_with_drain sigma fuel root :
  NoDup (map fst root) ->
  Serial (map fst root) (log_of (run_gen true (Some sigma) Mutation fuel root)) /\
  forall r, run_gen true (Some sigma) Mutation fuel root = Done r -> r_null r = false ->
            Forall (fun pr => p_st pr = PRecv) (r_proms r).
Proof.
  intros Nd.
  destruct (mutation_strict_serial_gen true (Some sigma) fuel root Nd) as (A & B).
  { left. split; auto. discriminate. }
  split; auto. apply strict_serial_sound. exact A.
Qed.

(** the response lists the root fields in document order *)
Theorem mutation_key_order oh fuel root r :
  run oh Mutation fuel root = Done r -> r_null r = false ->
  KeysInOrder (map fst root) (slot_keys (r_root r)).
Proof.
  intros E Nn. destruct (run_mutation_inv _ _ _ _ _ E) as (early & slots & s' & El & _ & _ & M).
  destruct early as [e|]; [congruence|]. destruct M as (_ & ->).
  destruct (serial_loop_keys fuel false oh root [] [] (repeat None (length root)) st0 slots s' eq_refl eq_refl El) as (done' & -> & Hk).
  unfold KeysInOrder, slot_keys. rewrite map_map. simpl in Hk. rewrite <- Hk, map_map.
  apply map_ext. intros [k v]. reflexivity.
Qed.

(** ** The rank scheduler of the harness is fair *)
Lemma fold_min_attained {A} (f : A -> nat) l : forall a,
  fold_left (fun a x => Nat.min a (f x)) l a = a \/
  exists x, In x l /\ f x = fold_left (fun a x => Nat.min a (f x)) l a.
Proof.
  induction l as [|y tl IH]; intros a; simpl; auto.
  destruct (IH (Nat.min a (f y))) as [E|(x & In & E)].
  - rewrite E. destruct (Nat.min_spec a (f y)) as [[_ ->]|[_ ->]]; auto. right. exists y. auto.
  - right. exists x. auto.
Qed.

Theorem sigma_ranks_fair ranks : fair (sigma_ranks ranks).
Proof.
  intros n out Hne. destruct out as [|[i0 t0] tl]; [congruence|]. clear Hne.
  unfold sigma_ranks.
  set (f := fun pt : nat * N => rank_of ranks (snd pt)).
  set (m := fold_left (fun a pt => Nat.min a (rank_of ranks (snd pt))) ((i0, t0) :: tl) (rank_of ranks t0)).
  assert (H : exists x, In x ((i0, t0) :: tl) /\ f x = m).
  { assert (Hm : m = fold_left (fun a x => Nat.min a (f x)) ((i0, t0) :: tl) (rank_of ranks t0)) by reflexivity.
    destruct (fold_min_attained f ((i0, t0) :: tl) (rank_of ranks t0)) as [E|(x & In & E)].
    - exists (i0, t0). split; [left; reflexivity|]. rewrite Hm, E. reflexivity.
    - exists x. split; [exact In|]. rewrite Hm. exact E. }
  destruct H as (x & In & E). exists (fst x). split.
  - apply in_map. apply filter_In. split; auto. apply Nat.eqb_eq. exact E.
  - apply in_map. exact In.
Qed.

(** ** Witnesses *)
(** mutation { a { x y } b } with x: Int! resolved by a promise that fails, y and b resolved by
    promises; the idle handler fulfils x first, then y and b together.  x's failure makes a null
    at once; y's promise is abandoned and is fulfilled while b is being executed. *)
Definition wit_abandon : selset :=
  [ ([97%N], FP None false (Some (VObj [ ([120%N], FP (Some 0%N) true None);
                                         ([121%N], FP (Some 1%N) false (Some (VLeaf 2))) ])));
    ([98%N], FP (Some 2%N) false (Some (VLeaf 3))) ].

Theorem mutation_serial_refuted_when_promise_abandoned :
  exists sigma fuel root,
    fair sigma /\ NoDup (map fst root) /\ excl_abandoned_promise root = true /\
    exists r, run (Some sigma) Mutation fuel root = Done r /\ ~ Serial (map fst root) (r_events r).
Proof.
  exists (sigma_ranks [0; 1; 1]), 4, wit_abandon.
  split; [apply sigma_ranks_fair|].
  split; [repeat constructor; simpl; intuition discriminate|].
  split; [reflexivity|].
  eexists. split; [vm_compute; reflexivity|].
  intros S.
  destruct (S [EStart [PKey [97%N]]; EStart [PKey [97%N]; PKey [120%N]]; EStart [PKey [97%N]; PKey [121%N]];
               EFulfil [PKey [97%N]; PKey [120%N]]]
              (EStart [PKey [98%N]]) [] (EFulfil [PKey [97%N]; PKey [121%N]]) [EFulfil [PKey [98%N]]] eq_refl)
    as (i & j & A & B & L).
  vm_compute in A, B. injection A as <-. injection B as <-. lia.
Qed.

(** the same two asynchronous root fields as a query and as a mutation, under the schedule that
    fulfils the second promise first: the query interleaves, the mutation does not *)
Definition wit_two : selset :=
  [ ([97%N], FP (Some 0%N) false (Some (VLeaf 1)));
    ([98%N], FP (Some 1%N) false (Some (VLeaf 2))) ].

Theorem query_parallel_witness :
  exists r, run (Some (sigma_ranks [1; 0])) Query 3 wit_two = Done r /\
            strict_serial (map fst wit_two) (r_events r) = false /\
            ~ Serial (map fst wit_two) (r_events r).
Proof.
  eexists. split; [vm_compute; reflexivity|]. split; [vm_compute; reflexivity|].
  intros S.
  destruct (S [EStart [PKey [97%N]]] (EStart [PKey [98%N]]) [EFulfil [PKey [98%N]]]
              (EFulfil [PKey [97%N]]) [] eq_refl) as (i & j & A & B & L).
  vm_compute in A, B. injection A as <-. injection B as <-. lia.
Qed.
