(** * Serial/SerialTerm.v — termination (proofs for C11, part 7): under a fair scheduler and with
    fuel at least the number of promises of the plan, every wait loop (and the proposed drain
    loop) returns: the run answers [Done]. *)
From Coq Require Import List Arith NArith ZArith Bool Lia.
From ApiFu Require Import Base.Sexp Serial.SerialPlan Serial.SerialFuture Serial.SerialModel
     Serial.SerialSpec Serial.SerialStep Serial.SerialGood Serial.SerialBuild Serial.SerialProofs
     Serial.SerialLive Serial.SerialLiveBuild.
Import ListNotations.

(** ** the idle handler makes progress *)
Lemma outstanding_from_in k ps x :
  In x (map fst (outstanding_from k ps)) ->
  exists j pr, x = k + j /\ nth_error ps j = Some pr /\ p_st pr = POut.
Proof.
  revert k. induction ps as [|pr tl IH]; intros k H; simpl in H; [contradiction|].
  destruct (p_st pr) eqn:P.
  - simpl in H. destruct H as [<-|H].
    + exists 0, pr. repeat split; auto.
    + destruct (IH _ H) as (j & pr' & -> & E & O). exists (S j), pr'. repeat split; auto. lia.
  - destruct (IH _ H) as (j & pr' & -> & E & O). exists (S j), pr'. repeat split; auto. lia.
  - destruct (IH _ H) as (j & pr' & -> & E & O). exists (S j), pr'. repeat split; auto. lia.
Qed.

Lemma outstanding_from_nonempty k ps j pr :
  nth_error ps j = Some pr -> p_st pr = POut -> outstanding_from k ps <> [].
Proof.
  revert k j. induction ps as [|x tl IH]; intros k [|j] E O; simpl in *; try discriminate.
  - injection E as ->. rewrite O. discriminate.
  - destruct (p_st x); [discriminate| |]; eapply IH; eauto.
Qed.

Lemma fulfil_from_count k chosen ps ps' evs :
  fulfil_from k chosen ps = (ps', evs) -> outc_l ps' + length evs = outc_l ps.
Proof.
  revert k ps' evs. induction ps as [|pr tl IH]; intros k ps' evs E; simpl in E.
  - injection E as <- <-. reflexivity.
  - destruct (fulfil_from (S k) chosen tl) as [tl1 evs1] eqn:E1. specialize (IH _ _ _ E1).
    destruct (p_st pr) eqn:P.
    + destruct (mem_nat k chosen); injection E as <- <-; simpl; rewrite ?P; simpl; lia.
    + injection E as <- <-. simpl. rewrite P. lia.
    + injection E as <- <-. simpl. rewrite P. lia.
Qed.

Lemma fulfil_from_hit k chosen ps j pr :
  nth_error ps j = Some pr -> p_st pr = POut -> mem_nat (k + j) chosen = true ->
  snd (fulfil_from k chosen ps) <> [].
Proof.
  revert k j. induction ps as [|x tl IH]; intros k [|j] E O M; simpl in *; try discriminate.
  - injection E as ->. destruct (fulfil_from (S k) chosen tl) as [tl1 evs1].
    rewrite O. rewrite Nat.add_0_r in M. rewrite M. simpl. discriminate.
  - assert (M' : mem_nat (S k + j) chosen = true) by (rewrite <- M; f_equal; lia).
    specialize (IH (S k) j E O M').
    destruct (fulfil_from (S k) chosen tl) as [tl1 evs1]. simpl in IH.
    destruct (p_st x); [destruct (mem_nat k chosen)|..]; simpl; auto. discriminate.
Qed.

Lemma mem_nat_in x l : In x l -> mem_nat x l = true.
Proof.
  intros H. unfold mem_nat. apply existsb_exists. exists x. split; auto. apply Nat.eqb_refl.
Qed.

Lemma out_outc s i : out s i -> 1 <= outc s.
Proof.
  intros (pr & E & O). unfold outc. revert i E. induction (s_proms s) as [|x tl IH]; intros [|i] E; simpl in *; try discriminate.
  - injection E as ->. rewrite O. lia.
  - specialize (IH _ E). lia.
Qed.

Lemma idle_progress sigma s i :
  fair sigma -> out s i ->
  exists s1, idle sigma s = Some s1 /\ outc s1 + 1 <= outc s.
Proof.
  intros Fair (pr & E & O). unfold idle.
  assert (Ne : outstanding s <> []) by (eapply outstanding_from_nonempty; eauto).
  destruct (Fair (s_round s) (outstanding s) Ne) as (id & Hc & Ho).
  apply outstanding_from_in in Ho as (j & pr' & -> & Ej & Oj). simpl in Hc.
  pose proof (fulfil_from_hit 0 (sigma (s_round s) (outstanding s)) (s_proms s) j pr' Ej Oj (mem_nat_in _ _ Hc)) as Hit.
  destruct (fulfil_from 0 (sigma (s_round s) (outstanding s)) (s_proms s)) as [ps evs] eqn:Ef.
  pose proof (fulfil_from_count _ _ _ _ _ Ef) as Cnt. simpl in Hit.
  destruct evs as [|e evs]; [congruence|]. eexists. split; [reflexivity|].
  unfold outc. simpl in *. lia.
Qed.

Section Term.
  Variable sigma : sched.
  Hypothesis Fair : fair sigma.

  (** ** wait *)
  Lemma wait_loop_term : forall fuel (f : fut) s n,
    TF n f -> (forall i, AwaitsF f i -> out s i) ->
    (forall c, f = Pending c -> exists i, Awaits c i) ->
    outc s + n <= fuel ->
    exists r s', wait_loop (Some sigma) fuel f s = Done (r, s') /\ outc s' <= outc s + n.
  Proof.
    induction fuel as [|m IH]; intros f s n Hf Ho Hn Hfuel; destruct f as [r0|c]; cbn [wait_loop].
    - exists r0, s. split; auto. lia.
    - destruct (Hn c eq_refl) as (i & Hi). pose proof (out_outc _ _ (Ho i (AF_pending _ _ Hi))). lia.
    - exists r0, s. split; auto. lia.
    - destruct (Hn c eq_refl) as (i & Hi).
      destruct (idle_progress sigma s i Fair (Ho i (AF_pending _ _ Hi))) as (s1 & Ei & Dec).
      rewrite Ei. destruct (idle_spec [] _ _ _ Ei) as (_ & _ & Lv).
      destruct (poll (Pending c) s1) as [f1 s2] eqn:Ep.
      assert (Aw : awl_f (Pending c) s1) by (intros j Hj; apply Lv; apply out_live; apply Ho; exact Hj).
      destruct (poll_live n _ Hf s1 f1 s2 Aw Ep) as [A B C D F L N].
      pose proof (pstep_outc _ _ A) as Oc. fold (outc s2) (outc s1) (created s1 s2) in Oc.
      destruct (IH f1 s2 (n - created s1 s2) C L N) as (r & s' & Ew & Le); [lia|].
      exists r, s'. split; auto. lia.
  Qed.

  Lemma wait_term fuel (f : fut) s n :
    TF n f -> (forall i, AwaitsF f i -> out s i) -> outc s + n <= fuel ->
    exists r s', wait (Some sigma) fuel f s = Done (r, s') /\ outc s' <= outc s + n.
  Proof.
    intros Hf Ho Hfuel. destruct f as [r0|c]; unfold wait.
    - exists r0, s. split; auto. lia.
    - cbn [Map].
      assert (Hm : TF n (Pending (CMap wait_fn c))).
      { constructor. apply T_map; [apply TF_pending_inv; exact Hf|]. intros r s0. reflexivity. }
      assert (Aw : awl_f (Pending (CMap wait_fn c)) s).
      { intros i H. apply out_live, Ho. apply AwaitsF_pending_inv, Awaits_map_inv in H. constructor. exact H. }
      destruct (poll (Pending (CMap wait_fn c)) s) as [f1 s1] eqn:Ep.
      destruct (poll_live n _ Hm s f1 s1 Aw Ep) as [A B C D F L N].
      pose proof (pstep_outc _ _ A) as Oc. fold (outc s1) (outc s) (created s s1) in Oc.
      destruct (wait_loop_term fuel f1 s1 (n - created s s1) C L N) as (r & s' & Ew & Le); [lia|].
      exists r, s'. split; auto. lia.
  Qed.

  (** ** the proposed drain loop *)
  Lemma outc_recv_all s : outc (recv_all s) = outc s.
  Proof.
    unfold outc. simpl. induction (s_proms s) as [|pr tl IH]; simpl; auto.
    rewrite IH. destruct (p_st pr) eqn:P; simpl; rewrite ?P; reflexivity.
  Qed.

  Lemma not_all_recv_out s : all_recv (recv_all s) = false -> exists i, out (recv_all s) i.
  Proof.
    unfold all_recv, out. simpl. induction (s_proms s) as [|pr tl IH]; simpl; [discriminate|].
    destruct (p_st pr) eqn:P; simpl; rewrite ?P; simpl.
    - intros _. exists 0. simpl. eexists. split; [reflexivity|exact P].
    - intros H. destruct (IH H) as (i & pr' & E & O). exists (S i), pr'. auto.
    - intros H. destruct (IH H) as (i & pr' & E & O). exists (S i), pr'. auto.
  Qed.

  Lemma drain_loop_term : forall fuel s,
    outc s <= fuel -> exists s', drain_loop (Some sigma) fuel s = Done s' /\ outc s' <= outc s.
  Proof.
    induction fuel as [|m IH]; intros s Hfuel; cbn [drain_loop];
      destruct (all_recv (recv_all s)) eqn:A.
    - exists (recv_all s). rewrite outc_recv_all. auto.
    - destruct (not_all_recv_out s A) as (i & Hi). pose proof (out_outc _ _ Hi). rewrite outc_recv_all in H. lia.
    - exists (recv_all s). rewrite outc_recv_all. auto.
    - destruct (not_all_recv_out s A) as (i & Hi).
      destruct (idle_progress sigma _ i Fair Hi) as (s2 & Ei & Dec). rewrite Ei.
      rewrite outc_recv_all in Dec.
      destruct (IH s2) as (s' & Ed & Le); [lia|]. exists s'. split; auto. lia.
  Qed.

  (** ** one root field, then all of them *)
  Lemma root_iter_term drain fuel key fp s :
    outc s + count_async_f fp <= fuel ->
    exists r s', root_iter drain (Some sigma) fuel key fp s = Done (r, s') /\
                 outc s' <= outc s + count_async_f fp.
  Proof.
    intros Hfuel. unfold root_iter.
    destruct (exec_field fp [PKey key] s) as [f s1] eqn:E1.
    destruct (catch_if_nullable (fp_nn fp) f s1) as [f1 s2] eqn:E2.
    destruct (root_built fp [PKey key] s f1 s2) as (((new & Ep & Fo) & Aw) & Cr & Hf).
    { rewrite E1. exact E2. }
    assert (Oc : outc s2 <= outc s + created s s2).
    { unfold outc, created. rewrite Ep, outc_l_app, app_length. pose proof (outc_l_le_length new). lia. }
    destruct (wait_term fuel f1 s2 (count_async_f fp - created s s2) Hf) as (r & s3 & Ew & Le).
    { intros i H. eapply new_out; eauto. }
    { lia. }
    rewrite Ew. simpl. destruct drain.
    - destruct (drain_loop_term fuel s3) as (s4 & Ed & Le4); [lia|]. rewrite Ed.
      exists r, s4. split; auto. lia.
    - exists r, s3. split; auto. lia.
  Qed.

  Lemma serial_loop_term drain fuel : forall l slots i s,
    outc s + cnt_fs l <= fuel ->
    exists e sl s', serial_loop drain (Some sigma) fuel l slots i [] s = Done (e, sl, s').
  Proof.
    induction l as [|[key fp] tl IH]; intros slots i s Hfuel.
    - simpl. eauto.
    - rewrite (serial_loop_cons fuel). simpl in Hfuel.
      destruct (root_iter_term drain fuel key fp s) as (r & s3 & Er & Le); [lia|]. rewrite Er.
      destruct r as [v|e]; [|eauto]. apply IH. lia.
  Qed.

  Theorem mutation_terminates drain fuel root :
    count_async root <= fuel ->
    exists r, run_gen drain (Some sigma) Mutation fuel root = Done r.
  Proof.
    intros Hfuel. unfold run_gen, exec_sel_serial.
    unfold count_async in Hfuel. rewrite count_async_v_obj in Hfuel.
    destruct (serial_loop_term drain fuel root (repeat None (length root)) 0 st0) as (e & sl & s' & El).
    { unfold outc. simpl. lia. }
    rewrite El. destruct e as [e|]; simpl; eauto.
  Qed.

  Theorem query_terminates fuel root :
    count_async root <= fuel ->
    exists r, run (Some sigma) Query fuel root = Done r.
  Proof.
    intros Hfuel. unfold run, run_gen, exec_sel.
    unfold count_async in Hfuel. rewrite count_async_v_obj in Hfuel.
    destruct (sel_body exec_field root [] st0) as [f s1] eqn:E.
    destruct (sel_body_built root [] st0 f s1) as (((new & Ep & Fo) & Aw) & Cr & Hf); auto.
    { apply Forall_forall. intros kf _. apply built_all. }
    assert (Oc : outc s1 <= created st0 s1).
    { unfold outc, created. rewrite Ep. simpl. pose proof (outc_l_le_length new). lia. }
    destruct (wait_term fuel f s1 (cnt_fs root - created st0 s1) Hf) as (r & s3 & Ew & Le).
    { intros i H. eapply new_out; eauto. }
    { lia. }
    rewrite Ew. eauto.
  Qed.
End Term.

(** C11 as a total-correctness statement: under a fair idle handler and with fuel for one idle
    round per promise, the mutation returns, its log is serial, its keys are in document order *)
Theorem mutation_serial_total sigma fuel root :
  fair sigma -> count_async root <= fuel ->
  NoDup (map fst root) -> excl_abandoned_promise root = false ->
  exists r, run (Some sigma) Mutation fuel root = Done r /\
            Serial (map fst root) (r_events r) /\
            (r_null r = false -> KeysInOrder (map fst root) (slot_keys (r_root r))).
Proof.
  intros Fair Hfuel Nd X.
  destruct (mutation_terminates sigma Fair false fuel root Hfuel) as (r & E).
  exists r. split; [exact E|]. split.
  - pose proof (mutation_serial (Some sigma) fuel root Nd X) as S. unfold run in S. rewrite E in S. exact S.
  - intros Nn. eapply mutation_key_order; eauto.
Qed.

(** without an idle handler nothing ever waits: every run returns (with the error of [wait] as
    soon as a future is not ready) *)
Lemma wait_loop_none fuel (f : fut) s : exists r s', wait_loop None fuel f s = Done (r, s').
Proof. destruct fuel, f; simpl; eauto. Qed.

Lemma wait_none fuel (f : fut) s : exists r s', wait None fuel f s = Done (r, s').
Proof.
  destruct f as [r|c]; unfold wait; [eauto|]. cbn [Map].
  destruct (poll (Pending (CMap wait_fn c)) s) as [f1 s1]. apply wait_loop_none.
Qed.

Lemma drain_loop_none fuel s : exists s', drain_loop None fuel s = Done s'.
Proof. destruct fuel; cbn [drain_loop]; destruct (all_recv (recv_all s)); eauto. Qed.

Lemma serial_loop_none drain fuel : forall l slots i s,
  exists e sl s', serial_loop drain None fuel l slots i [] s = Done (e, sl, s').
Proof.
  induction l as [|[key fp] tl IH]; intros slots i s; [simpl; eauto|].
  rewrite (serial_loop_cons fuel). unfold root_iter.
  destruct (exec_field fp [PKey key] s) as [f s1]. destruct (catch_if_nullable (fp_nn fp) f s1) as [f1 s2].
  destruct (wait_none fuel f1 s2) as (r & s3 & ->). simpl.
  destruct drain.
  - destruct (drain_loop_none fuel s3) as (s4 & ->). destruct r; eauto.
  - destruct r; eauto.
Qed.

Theorem mutation_terminates_no_handler drain fuel root :
  exists r, run_gen drain None Mutation fuel root = Done r.
Proof.
  unfold run_gen, exec_sel_serial.
  destruct (serial_loop_none drain fuel root (repeat None (length root)) 0 st0) as (e & sl & s' & ->).
  destruct e; simpl; eauto.
Qed.
