(** * Serial/SerialFuture.v — model of graphql/executor/internal/future/future.go (no proofs here).

    What matters in future.go is Go's value / pointer semantics.  A [Future] struct carries
    [result] and [poll]; it is ready iff [poll == nil].  A *poll closure* owns heap state (the
    variables it captured): that state persists however the struct holding the closure is copied.
    The struct-level cache ([poll = nil; result = r]) is written only by the pointer method [Poll],
    i.e. only in the one struct the pointer designates.

    Representation:
      - [clo]  = a poll closure together with the heap state it captured;
      - [fut]  = a Future struct: [Ready r] (poll == nil) or [Pending c] (poll = closure c).
    A combinator that captured a not-ready future BY VALUE and calls [f.poll()] directly (Map,
    MapOk, MapOkToAny, MapOkValue, Then's [fpoll]) keeps only the closure.  [Join] and [After]
    poll [&fs[i]]: the struct in the captured slice is updated, a completed element is never
    invoked again.  [Then] keeps [then]/[hasThen] on the heap and polls [then] through a pointer.

    User callbacks ([fn], [then], [New]'s poll function) are Coq functions over the caller's state
    [S] (the executor state: error list, promise channels, event log ...).

    This is the code of the repaired tree (fix-commits "MapOk, MapOkToAny and MapOkValue dropped
    the error of a future that was not ready at construction" and "After re-polled futures that
    had already completed"): the not-ready branches forward errors, After polls through
    pointers. *)
From Coq Require Import List Bool ZArith.
Import ListNotations.

(** ** Go values flowing through futures ([any], [[]any], [*OrderedMap], [struct{}]); only what the
    scheduling skeleton looks at: nil or not. *)
Inductive gval :=
| GNil                       (* nil interface *)
| GInt (z : Z)
| GStr                       (* a string (the value of __typename) *)
| GList                      (* a []any *)
| GObj                       (* a *OrderedMap *)
| GUnit.                     (* struct{}{} *)

Section Future.
  Variable S : Type.
  Variable err : Type.

  Inductive result := ROk (v : gval) | RErr (e : err).

  Inductive clo :=
  | CNew (p : S -> option result * S)                       (* future.New(poll) *)
  | CMap (fn : result -> S -> result * S) (c : clo)         (* Map, f not ready: calls f.poll() *)
  | CMapOk (fn : gval -> S -> gval * S) (c : clo)
  | CMapOkToAny (c : clo)
  | CMapOkValue (v : gval) (c : clo)
  | CThen (k : result -> S -> fut * S) (c : clo) (th : option fut)   (* fpoll; hasThen/then *)
  | CJoin (fs : list fut)                                   (* captured slice fs (results elided) *)
  | CAfter (fs : list fut)
  with fut :=
  | Ready (r : result)
  | Pending (c : clo).

  (** outcome of the loop inside Join's / After's poll function *)
  Inductive loop_out := LErr (e : err) | LAllOk | LNotYet.

  (** [f.Poll()] given the closure-invocation function [inv] *)
  Definition poll_with (inv : clo -> S -> clo * option result * S) (f : fut) (s : S) : fut * S :=
    match f with
    | Ready r => (Ready r, s)
    | Pending c0 =>
        let '(c1, r, s1) := inv c0 s in
        (match r with Some x => Ready x | None => Pending c1 end, s1)
    end.

  (** the loop of Join's and of After's poll function (future.go:226-239, 275-286):
      [f := &fs[i]; f.Poll(); if f.IsReady() { if !ok { return error } ... } else { ok = false }] *)
  Definition all_loop (inv : clo -> S -> clo * option result * S) :=
    fix go (l : list fut) (ok : bool) (s : S) {struct l} : list fut * loop_out * S :=
      match l with
      | [] => ([], if ok then LAllOk else LNotYet, s)
      | f :: tl =>
          let '(f1, s1) := poll_with inv f s in
          match f1 with
          | Ready (RErr e) => (f1 :: tl, LErr e, s1)        (* early return *)
          | Ready (ROk _) => let '(tl1, o, s2) := go tl ok s1 in (f1 :: tl1, o, s2)
          | Pending _ => let '(tl1, o, s2) := go tl false s1 in (f1 :: tl1, o, s2)
          end
      end.

  (** [invoke c s] = calling the closure [c()]: new heap state of the closure, [Some r] when it
      answered [(r, true)], the caller's state after the callbacks that ran. *)
  Fixpoint invoke (c : clo) (s : S) {struct c} : clo * option result * S :=
    match c with
    | CNew p => let '(r, s1) := p s in (CNew p, r, s1)
    | CMap fn c0 =>
        let '(c1, r, s1) := invoke c0 s in
        match r with
        | Some r0 => let '(r1, s2) := fn r0 s1 in (CMap fn c1, Some r1, s2)
        | None => (CMap fn c1, None, s1)
        end
    | CMapOk fn c0 =>
        let '(c1, r, s1) := invoke c0 s in
        match r with
        | Some (ROk v) => let '(v1, s2) := fn v s1 in (CMapOk fn c1, Some (ROk v1), s2)
        | Some (RErr e) => (CMapOk fn c1, Some (RErr e), s1)
        | None => (CMapOk fn c1, None, s1)
        end
    | CMapOkToAny c0 =>
        let '(c1, r, s1) := invoke c0 s in
        match r with
        | Some (ROk v) => (CMapOkToAny c1, Some (ROk v), s1)
        | Some (RErr e) => (CMapOkToAny c1, Some (RErr e), s1)
        | None => (CMapOkToAny c1, None, s1)
        end
    | CMapOkValue v c0 =>
        let '(c1, r, s1) := invoke c0 s in
        match r with
        | Some (ROk _) => (CMapOkValue v c1, Some (ROk v), s1)
        | Some (RErr e) => (CMapOkValue v c1, Some (RErr e), s1)
        | None => (CMapOkValue v c1, None, s1)
        end
    | CThen k c0 None =>
        (* if !hasThen { if r, ok := fpoll(); ok { then = fn(r); hasThen = true } } *)
        let '(c1, r, s1) := invoke c0 s in
        match r with
        | Some r0 =>
            let '(t, s2) := k r0 s1 in
            (* then.Poll(); return then.result, then.IsReady() *)
            match t with
            | Ready rr => (CThen k c1 (Some t), Some rr, s2)
            | Pending c2 =>
                let '(c3, r3, s3) := invoke c2 s2 in
                match r3 with
                | Some x => (CThen k c1 (Some (Ready x)), Some x, s3)
                | None => (CThen k c1 (Some (Pending c3)), None, s3)
                end
            end
        | None => (CThen k c1 None, None, s1)
        end
    | CThen k c0 (Some t) =>
        match t with
        | Ready rr => (c, Some rr, s)
        | Pending c2 =>
            let '(c3, r3, s3) := invoke c2 s in
            match r3 with
            | Some x => (CThen k c0 (Some (Ready x)), Some x, s3)
            | None => (CThen k c0 (Some (Pending c3)), None, s3)
            end
        end
    | CJoin fs =>
        let '(fs1, o, s1) := all_loop invoke fs true s in
        match o with
        | LErr e => (CJoin fs1, Some (RErr e), s1)
        | LAllOk => (CJoin fs1, Some (ROk GList), s1)
        | LNotYet => (CJoin fs1, None, s1)
        end
    | CAfter fs =>
        let '(fs1, o, s1) := all_loop invoke fs true s in
        match o with
        | LErr e => (CAfter fs1, Some (RErr e), s1)
        | LAllOk => (CAfter fs1, Some (ROk GUnit), s1)
        | LNotYet => (CAfter fs1, None, s1)
        end
    end.

  (** the pointer method [Poll]: through a pointer, so the struct caches the answer. *)
  Definition poll (f : fut) (s : S) : fut * S := poll_with invoke f s.

  (** ** The constructors (the exported functions of future.go) *)
  Definition New (p : S -> option result * S) : fut := Pending (CNew p).
  Definition Ok (v : gval) : fut := Ready (ROk v).
  Definition Err (e : err) : fut := Ready (RErr e).

  Definition Map (f : fut) (fn : result -> S -> result * S) (s : S) : fut * S :=
    match f with
    | Ready r => let '(r1, s1) := fn r s in (Ready r1, s1)
    | Pending c => (Pending (CMap fn c), s)
    end.

  Definition MapOk (f : fut) (fn : gval -> S -> gval * S) (s : S) : fut * S :=
    match f with
    | Ready (ROk v) => let '(v1, s1) := fn v s in (Ready (ROk v1), s1)
    | Ready (RErr e) => (Ready (RErr e), s)
    | Pending c => (Pending (CMapOk fn c), s)
    end.

  Definition MapOkToAny (f : fut) : fut :=
    match f with
    | Ready r => Ready r
    | Pending c => Pending (CMapOkToAny c)
    end.

  Definition MapOkValue (f : fut) (v : gval) : fut :=
    match f with
    | Ready (ROk _) => Ready (ROk v)
    | Ready (RErr e) => Ready (RErr e)
    | Pending c => Pending (CMapOkValue v c)
    end.

  Definition Then (f : fut) (k : result -> S -> fut * S) (s : S) : fut * S :=
    match f with
    | Ready r => k r s
    | Pending c => (Pending (CThen k c None), s)
    end.

  (** the loop at the head of Join / After: the first ready error wins *)
  Fixpoint all_init (l : list fut) (ok : bool) : loop_out :=
    match l with
    | [] => if ok then LAllOk else LNotYet
    | Ready (RErr e) :: _ => LErr e
    | Ready (ROk _) :: tl => all_init tl ok
    | Pending _ :: tl => all_init tl false
    end.

  Definition Join (fs : list fut) : fut :=
    match all_init fs true with
    | LErr e => Err e
    | LAllOk => Ok GList
    | LNotYet => Pending (CJoin fs)
    end.

  Definition After (fs : list fut) : fut :=
    match all_init fs true with
    | LErr e => Err e
    | LAllOk => Ok GUnit
    | LNotYet => Pending (CAfter fs)
    end.

End Future.

Arguments ROk {err}.
Arguments RErr {err}.
Arguments CNew {S err}.
Arguments CMap {S err}.
Arguments CMapOk {S err}.
Arguments CMapOkToAny {S err}.
Arguments CMapOkValue {S err}.
Arguments CThen {S err}.
Arguments CJoin {S err}.
Arguments CAfter {S err}.
Arguments Ready {S err}.
Arguments Pending {S err}.
Arguments LErr {err}.
Arguments LAllOk {err}.
Arguments LNotYet {err}.
Arguments New {S err}.
Arguments Ok {S err}.
Arguments Err {S err}.
Arguments Map {S err}.
Arguments MapOk {S err}.
Arguments MapOkToAny {S err}.
Arguments MapOkValue {S err}.
Arguments Then {S err}.
Arguments Join {S err}.
Arguments After {S err}.
Arguments invoke {S err}.
Arguments poll_with {S err}.
Arguments all_loop {S err}.
Arguments all_init {S err}.
Arguments poll {S err}.
