(** * Serial/SerialLiveBuild.v — the futures the executor builds satisfy the liveness invariant
    (proofs for C11, part 6): [complete_inner] / [exec_field] only append outstanding promises, at
    most [count_async] of the plan minus what the returned future may still create, and the
    returned future awaits only promises created by this very call. *)
From Coq Require Import List Arith NArith ZArith Bool Lia.
From ApiFu Require Import Base.Sexp Serial.SerialPlan Serial.SerialFuture Serial.SerialModel
     Serial.SerialStep Serial.SerialGood Serial.SerialBuild Serial.SerialLive.
Import ListNotations.

(** ** sizes, unfolded *)
Fixpoint cnt_vs (l : list vplan) : nat :=
  match l with [] => 0 | x :: tl => count_async_v x + cnt_vs tl end.
Fixpoint cnt_fs (l : list (bytes * fplan)) : nat :=
  match l with [] => 0 | kf :: tl => count_async_f (snd kf) + cnt_fs tl end.

Lemma count_async_v_list inn items : count_async_v (VList inn items) = cnt_vs items.
Proof. simpl. induction items as [|x tl IH]; simpl; [reflexivity|]. rewrite IH. reflexivity. Qed.
Lemma count_async_v_obj fields : count_async_v (VObj fields) = cnt_fs fields.
Proof. simpl. induction fields as [|[k f] tl IH]; simpl; [reflexivity|]. rewrite IH. reflexivity. Qed.

(** ** what a build guarantees *)
Definition built2 (n : nat) (s : st) (f : fut) (s' : st) : Prop :=
  kpost s f s' /\ created s s' <= n /\ TF (n - created s s') f.

Lemma kpost_length s f s' : kpost s f s' -> length (s_proms s) <= length (s_proms s').
Proof. intros ((new & E & _) & _). rewrite E, app_length. lia. Qed.

Lemma built2_same s f n : (forall i, ~ AwaitsF f i) -> TF n f -> built2 n s f s.
Proof.
  intros Na Hf. split; [|split].
  - split; [exists []; rewrite app_nil_r; auto|]. intros i H. exfalso. eapply Na; eauto.
  - rewrite created_refl. lia.
  - rewrite created_refl, Nat.sub_0_r. exact Hf.
Qed.

(** a wrapper that keeps the promises, keeps the potential, awaits no more than before *)
Definition wraps (f : fut) (s : st) (f' : fut) (s' : st) : Prop :=
  s_proms s' = s_proms s /\ (forall n, TF n f -> TF n f') /\ (forall i, AwaitsF f' i -> AwaitsF f i).

Lemma built2_wrap n s0 f s f' s' : built2 n s0 f s -> wraps f s f' s' -> built2 n s0 f' s'.
Proof.
  intros (((new & E & Fo) & Aw) & Cr & Hf) (Ep & Ht & Ha). split; [|split].
  - split; [exists new; rewrite Ep; auto|]. intros i H. rewrite Ep. apply Aw, Ha, H.
  - unfold created in *. rewrite Ep. exact Cr.
  - unfold created in *. rewrite Ep. apply Ht. exact Hf.
Qed.

Lemma no_await_ready r i (f : fut) : AwaitsF (Ready r) i -> AwaitsF f i.
Proof. intros H. exfalso. eapply AwaitsF_ready; eauto. Qed.

Lemma wraps_ready f s r s' : s_proms s' = s_proms s -> wraps f s (Ready r) s'.
Proof.
  intros E. split; [exact E|]. split; [intros n _; constructor|]. intros i H. eapply no_await_ready; eauto.
Qed.

Lemma wraps_refl f s : wraps f s f s.
Proof. split; [reflexivity|]. split; auto. Qed.

Lemma wraps_map fn (c : clo) s :
  (forall r s0, s_proms (snd (fn r s0)) = s_proms s0) ->
  wraps (Pending c) s (Pending (CMap fn c)) s.
Proof.
  intros Q. split; [reflexivity|]. split.
  - intros n H. constructor. apply T_map; [apply TF_pending_inv; exact H|exact Q].
  - intros i H. apply AwaitsF_pending_inv, Awaits_map_inv in H. constructor. exact H.
Qed.

Lemma wraps_catch nn (f : fut) s f' s' : catch_if_nullable nn f s = (f', s') -> wraps f s f' s'.
Proof.
  unfold catch_if_nullable. destruct nn; intros E.
  - injection E as <- <-. apply wraps_refl.
  - destruct f as [r|c]; simpl in E.
    + destruct r as [v|e]; simpl in E; injection E as <- <-; apply wraps_ready; reflexivity.
    + injection E as <- <-. apply wraps_map. intros r s0. destruct r; reflexivity.
Qed.

Lemma wraps_nn nn p (f : fut) s f' s' : nn_wrap nn p (f, s) = (f', s') -> wraps f s f' s'.
Proof.
  unfold nn_wrap. destruct nn; intros E.
  - destruct f as [r|c].
    + destruct r as [[]|]; injection E as <- <-; apply wraps_ready; reflexivity.
    + simpl in E. injection E as <- <-. apply wraps_map. intros r s0. destruct r as [[]|]; reflexivity.
  - injection E as <- <-. apply wraps_refl.
Qed.

Lemma wraps_trans f s f1 s1 f2 s2 : wraps f s f1 s1 -> wraps f1 s1 f2 s2 -> wraps f s f2 s2.
Proof.
  intros (A & B & C) (A' & B' & C'). split; [congruence|]. split; auto.
Qed.

Lemma wraps_toany (f : fut) s : wraps f s (MapOkToAny f) s.
Proof.
  destruct f as [r|c]; simpl; [apply wraps_refl|]. split; [reflexivity|]. split.
  - intros n H. constructor. apply T_toany. apply TF_pending_inv. exact H.
  - intros i H. apply AwaitsF_pending_inv, Awaits_toany_inv in H. constructor. exact H.
Qed.

Lemma wraps_okvalue (f : fut) v s : wraps f s (MapOkValue f v) s.
Proof.
  destruct f as [[v0|e]|c]; simpl; try (apply wraps_ready; reflexivity).
  split; [reflexivity|]. split.
  - intros n H. constructor. apply T_okvalue. apply TF_pending_inv. exact H.
  - intros i H. apply AwaitsF_pending_inv, Awaits_okvalue_inv in H. constructor. exact H.
Qed.

Lemma TF_join n (fs : list fut) :
  TL n fs -> TF n (Join fs) /\ (forall i, AwaitsF (Join fs) i -> AwaitsL fs i).
Proof.
  intros H. unfold Join. destruct (all_init fs true); simpl.
  - split; [constructor|]. intros i Hi. exfalso. eapply AwaitsF_ready; eauto.
  - split; [constructor|]. intros i Hi. exfalso. eapply AwaitsF_ready; eauto.
  - split; [constructor; apply T_join; exact H|].
    intros i Hi. apply AwaitsF_pending_inv, Awaits_join_inv in Hi. exact Hi.
Qed.

Lemma TF_after n (fs : list fut) :
  TL n fs -> TF n (After fs) /\ (forall i, AwaitsF (After fs) i -> AwaitsL fs i).
Proof.
  intros H. unfold After. destruct (all_init fs true); simpl.
  - split; [constructor|]. intros i Hi. exfalso. eapply AwaitsF_ready; eauto.
  - split; [constructor|]. intros i Hi. exfalso. eapply AwaitsF_ready; eauto.
  - split; [constructor; apply T_after; exact H|].
    intros i Hi. apply AwaitsF_pending_inv, Awaits_after_inv in Hi. exact Hi.
Qed.

Lemma AwaitsL_app_inv a b i : AwaitsL (a ++ b) i -> AwaitsL a i \/ AwaitsL b i.
Proof.
  induction a as [|x tl IH]; simpl; auto. intros H. apply AwaitsL_cons_inv in H as [H|H].
  - left. apply AL_here. exact H.
  - destruct (IH H); [left; apply AL_there|right]; auto.
Qed.

Lemma TL_snoc a l : TL a l -> forall b f, TF b f -> (forall i, AwaitsL l i -> ~ AwaitsF f i) ->
  TL (a + b) (l ++ [f]).
Proof.
  induction 1 as [|a1 b1 x tl Hx Ht IH Dj|n m fs Lnm Hfs IH]; intros b f Hf D; simpl.
  - replace b with (b + 0) by lia. apply TL_cons; auto; [constructor|]. intros i _. apply AwaitsL_nil.
  - replace (a1 + b1 + b) with (a1 + (b1 + b)) by lia. apply TL_cons; auto.
    + apply IH; auto. intros i H. apply D. apply AL_there. exact H.
    + intros i H1 H2. apply AwaitsL_app_inv in H2 as [H2|H2].
      * eapply Dj; eauto.
      * apply AwaitsL_cons_inv in H2 as [H2|H2]; [|eapply AwaitsL_nil; eauto].
        eapply D; [apply AL_here; exact H1|exact H2].
  - eapply TL_sub; [|apply (IH b f Hf D)]. lia.
Qed.

(** two builds in sequence *)
Lemma kpost_seq s f1 s1 s2 (new2 : list promise) :
  kpost s f1 s1 -> s_proms s2 = s_proms s1 ++ new2 -> Forall is_out new2 ->
  exists new, s_proms s2 = s_proms s ++ new /\ Forall is_out new.
Proof.
  intros ((new1 & E1 & F1) & _) E2 F2. exists (new1 ++ new2). rewrite E2, E1, app_assoc. split; auto.
  apply Forall_app; auto.
Qed.

Definition BTv (v : vplan) : Prop :=
  forall p s f s', complete_inner v p s = (f, s') -> built2 (count_async_v v) s f s'.
Definition BTf (fp : fplan) : Prop :=
  forall p s f s', exec_field fp p s = (f, s') -> built2 (count_async_f fp) s f s'.

(** the item of a list / the field of a selection set: completion or execution, then the wrappers *)
Lemma built2_item inn x p s f1 s2 :
  BTv x ->
  (let '(f, s1) := nn_wrap inn p (complete_inner x p s) in catch_if_nullable inn f s1) = (f1, s2) ->
  built2 (count_async_v x) s f1 s2.
Proof.
  intros B E. destruct (complete_inner x p s) as [f0 s0] eqn:E0.
  destruct (nn_wrap inn p (f0, s0)) as [f s1] eqn:E1.
  eapply built2_wrap; [apply (B _ _ _ _ E0)|].
  eapply wraps_trans; [eapply wraps_nn; eauto|eapply wraps_catch; eauto].
Qed.

Lemma built2_field fp p s f1 s2 :
  BTf fp ->
  (let '(f, s1) := exec_field fp p s in catch_if_nullable (fp_nn fp) f s1) = (f1, s2) ->
  built2 (count_async_f fp) s f1 s2.
Proof.
  intros B E. destruct (exec_field fp p s) as [f s1] eqn:E1.
  eapply built2_wrap; [apply (B _ _ _ _ E1)|eapply wraps_catch; eauto].
Qed.

Lemma items_built inn items :
  Forall BTv items ->
  forall p i0 s fs s',
    items_loop (fun x q0 s0 => nn_wrap inn q0 (complete_inner x q0 s0)) inn p items i0 s = (fs, s') ->
    (exists new, s_proms s' = s_proms s ++ new /\ Forall is_out new) /\
    created s s' <= cnt_vs items /\ TL (cnt_vs items - created s s') fs /\
    (forall i, AwaitsL fs i -> length (s_proms s) <= i < length (s_proms s')).
Proof.
  induction 1 as [|x tl Bx Btl IH]; intros p i0 s fs s' E; simpl in E.
  - injection E as <- <-. rewrite created_refl. simpl.
    split; [exists []; rewrite app_nil_r; auto|]. split; [lia|]. split; [constructor|].
    intros i H. exfalso. eapply AwaitsL_nil; eauto.
  - destruct (nn_wrap inn (PIdx i0 :: p) (complete_inner x (PIdx i0 :: p) s)) as [f s1] eqn:E1.
    destruct (catch_if_nullable inn f s1) as [f1 s2] eqn:E2.
    destruct (items_loop _ inn p tl (S i0) s2) as [fs2 s3] eqn:E3. injection E as <- <-.
    destruct (built2_item inn x (PIdx i0 :: p) s f1 s2 Bx) as (K1 & C1 & T1).
    { rewrite E1. exact E2. }
    destruct (IH p (S i0) s2 fs2 s3 E3) as ((new2 & Ep2 & Fo2) & C2 & T2 & A2).
    pose proof (kpost_length _ _ _ K1) as Len1.
    assert (Len2 : length (s_proms s2) <= length (s_proms s3)) by (rewrite Ep2, app_length; lia).
    assert (Cr : created s s3 = created s s2 + created s2 s3) by (unfold created; lia).
    split; [eapply kpost_seq; eauto|]. simpl. split; [rewrite Cr; lia|]. split.
    + replace (count_async_v x + cnt_vs tl - created s s3)
        with ((count_async_v x - created s s2) + (cnt_vs tl - created s2 s3)) by (rewrite Cr; lia).
      apply TL_cons; auto. intros i H1 H2. apply (proj2 K1) in H1. apply A2 in H2. lia.
    + intros i H. apply AwaitsL_cons_inv in H as [H|H].
      * apply (proj2 K1) in H. lia.
      * apply A2 in H. lia.
Qed.

Lemma sel_built fields :
  Forall (fun kf => BTf (snd kf)) fields ->
  forall p futures s early futs' s' a,
    TL a futures -> (forall i, AwaitsL futures i -> i < length (s_proms s)) ->
    sel_loop exec_field p fields futures s = (early, futs', s') ->
    (exists new, s_proms s' = s_proms s ++ new /\ Forall is_out new) /\
    created s s' <= cnt_fs fields /\ TL (a + (cnt_fs fields - created s s')) futs' /\
    (forall i, AwaitsL futs' i -> AwaitsL futures i \/ length (s_proms s) <= i < length (s_proms s')).
Proof.
  induction 1 as [|[key fp] tl Bx Btl IH]; intros p futures s early futs' s' a Ha Hlt E; simpl in E.
  - injection E as <- <- <-. rewrite created_refl. simpl.
    split; [exists []; rewrite app_nil_r; auto|]. split; [lia|]. split; [rewrite Nat.add_0_r; exact Ha|]. auto.
  - destruct (exec_field fp (PKey key :: p) s) as [f s1] eqn:E1.
    destruct (catch_if_nullable (fp_nn fp) f s1) as [f1 s2] eqn:E2. simpl in Bx.
    destruct (built2_field fp (PKey key :: p) s f1 s2 Bx) as (K1 & C1 & T1).
    { rewrite E1. exact E2. }
    pose proof (kpost_length _ _ _ K1) as Len1.
    assert (Hlt2 : forall i, AwaitsL futures i -> i < length (s_proms s2)) by (intros i H; apply Hlt in H; lia).
    destruct f1 as [[v|e]|c1].
    + (* ready: stored, next field *)
      destruct (IH p futures s2 early futs' s' a Ha Hlt2 E) as ((new2 & Ep2 & Fo2) & C2 & T2 & A2).
      assert (Len2 : length (s_proms s2) <= length (s_proms s')) by (rewrite Ep2, app_length; lia).
      assert (Cr : created s s' = created s s2 + created s2 s') by (unfold created; lia).
      split; [eapply kpost_seq; eauto|]. simpl. split; [rewrite Cr; lia|]. split.
      * eapply TL_sub; [|exact T2]. rewrite Cr. lia.
      * intros i H. destruct (A2 i H) as [H1|H1]; auto. right. lia.
    + (* ready error: executeSelections returns *)
      injection E as <- <- <-. split; [apply K1|]. simpl. split; [lia|]. split.
      * eapply TL_sub; [|exact Ha]. lia.
      * auto.
    + (* pending: MapOk(f, set) joins the futures *)
      simpl in E.
      assert (Tm : TF (count_async_f fp - created s s2) (Pending (CMapOk set_slot c1))).
      { constructor. apply T_mapok; [apply TF_pending_inv; exact T1|]. intros v0 s0. reflexivity. }
      assert (Am : forall i, AwaitsF (Pending (CMapOk set_slot c1)) i -> length (s_proms s) <= i < length (s_proms s2)).
      { intros i H. apply AwaitsF_pending_inv, Awaits_mapok_inv in H. apply (proj2 K1). constructor. exact H. }
      assert (Ha2 : TL (a + (count_async_f fp - created s s2)) (futures ++ [Pending (CMapOk set_slot c1)])).
      { apply TL_snoc; auto. intros i H1 H2. apply Hlt in H1. apply Am in H2. lia. }
      assert (Hlt3 : forall i, AwaitsL (futures ++ [Pending (CMapOk set_slot c1)]) i -> i < length (s_proms s2)).
      { intros i H. apply AwaitsL_app_inv in H as [H|H]; [apply Hlt2; exact H|].
        apply AwaitsL_cons_inv in H as [H|H]; [apply Am in H; lia|exfalso; eapply AwaitsL_nil; eauto]. }
      destruct (IH p _ s2 early futs' s' _ Ha2 Hlt3 E) as ((new2 & Ep2 & Fo2) & C2 & T2 & A2).
      assert (Len2 : length (s_proms s2) <= length (s_proms s')) by (rewrite Ep2, app_length; lia).
      assert (Cr : created s s' = created s s2 + created s2 s') by (unfold created; lia).
      split; [eapply kpost_seq; eauto|]. simpl. split; [rewrite Cr; lia|]. split.
      * eapply TL_sub; [|exact T2]. rewrite Cr. lia.
      * intros i H. destruct (A2 i H) as [H1|H1]; [|right; lia].
        apply AwaitsL_app_inv in H1 as [H1|H1]; auto.
        apply AwaitsL_cons_inv in H1 as [H1|H1]; [apply Am in H1; right; lia|exfalso; eapply AwaitsL_nil; eauto].
Qed.

Lemma sel_body_built fields p s f s' :
  Forall (fun kf => BTf (snd kf)) fields ->
  sel_body exec_field fields p s = (f, s') -> built2 (cnt_fs fields) s f s'.
Proof.
  intros B E. unfold sel_body in E.
  destruct (sel_loop exec_field p fields [] s) as [[early futures] s1] eqn:E1.
  destruct (sel_built fields B p [] s early futures s1 0 TL_nil) as ((new & Ep & Fo) & C & Tl & A); auto.
  { intros i H. exfalso. eapply AwaitsL_nil; eauto. }
  simpl in Tl.
  destruct early as [e|]; injection E as <- <-.
  - split; [|split; [exact C|constructor]]. split; [eauto|]. intros i H. exfalso. eapply AwaitsF_ready; eauto.
  - destruct (TF_after _ _ Tl) as (Ta & Aa).
    destruct (wraps_okvalue (After futures) GObj s1) as (_ & Tw & Aw).
    split; [|split; [exact C|apply Tw; exact Ta]]. split; [eauto|].
    intros i H. apply Aw, Aa, A in H. destruct H as [H|H]; [exfalso; eapply AwaitsL_nil; eauto|exact H].
Qed.

Theorem built_all : (forall v, BTv v) /\ (forall fp, BTf fp).
Proof.
  apply plan_ind2.
  - (* VNull *)
    intros p s f s' E. simpl in E. injection E as <- <-. apply built2_same; [|constructor].
    intros i H. eapply AwaitsF_ready; eauto.
  - intros z p s f s' E. simpl in E. injection E as <- <-. apply built2_same; [|constructor].
    intros i H. eapply AwaitsF_ready; eauto.
  - intros p s f s' E. simpl in E. injection E as <- <-. apply built2_same; [|constructor].
    intros i H. eapply AwaitsF_ready; eauto.
  - (* VList *)
    intros inn items IH p s f s' E. cbn [complete_inner] in E. unfold list_body in E.
    destruct (items_loop _ inn p items 0 s) as [fs s1] eqn:E1. injection E as <- <-.
    destruct (items_built inn items IH p 0 s fs s1 E1) as (K & C & Tl & A).
    rewrite count_async_v_list. destruct (TF_join _ _ Tl) as (Tj & Aj).
    destruct (wraps_toany (Join fs) s1) as (_ & Tw & Aw).
    split; [|split; [exact C|apply Tw; exact Tj]]. split; [exact K|].
    intros i H. apply A, Aj, Aw. exact H.
  - (* VObj *)
    intros fields IH p s f s' E. cbn [complete_inner] in E.
    fold (sel_body exec_field fields p s) in E.
    destruct (sel_body exec_field fields p s) as [f0 s1] eqn:E1. injection E as <- <-.
    rewrite count_async_v_obj. eapply built2_wrap; [eapply sel_body_built; eauto|apply wraps_toany].
  - (* FP _ _ None *)
    intros tag nn p s f s' E. cbn [exec_field] in E. destruct tag as [t|].
    + destruct (new_promise t p (add_ev (EStart (slice p)) s)) as [id s2] eqn:En.
      simpl in E. injection E as <- <-.
      assert (Ep : s_proms s2 = s_proms s ++ [{| p_tag := t; p_path := p; p_st := POut |}] /\ id = length (s_proms s)).
      { unfold new_promise in En. injection En as <- <-. simpl. auto. }
      destruct Ep as (Ep & ->).
      assert (Cr : created s s2 = 1) by (unfold created; rewrite Ep, app_length; simpl; lia).
      split; [|split].
      * split; [exists [{| p_tag := t; p_path := p; p_st := POut |}]; split; auto; repeat constructor|].
        intros i H. apply AwaitsF_pending_inv, Awaits_then_none_inv, Awaits_new_inv in H. subst i.
        rewrite Ep, app_length. simpl. lia.
      * rewrite Cr. simpl. lia.
      * rewrite Cr. simpl. constructor. apply T_prom.
        -- intros s0 t0 s0' Ek. simpl in Ek. injection Ek as <- <-. constructor.
        -- intros s0 t0 s0' Ek. simpl in Ek. injection Ek as <- <-. rewrite created_refl. split; [|lia].
           split; [exists []; rewrite app_nil_r; auto|]. intros i H. exfalso. eapply AwaitsF_ready; eauto.
    + injection E as <- <-. simpl. split; [|split; [unfold created; simpl; lia|constructor]].
      split; [exists []; simpl; rewrite app_nil_r; auto|]. intros i H. exfalso. eapply AwaitsF_ready; eauto.
  - (* FP _ _ (Some v) *)
    intros tag nn v IH p s f s' E. cbn [exec_field] in E.
    assert (K : forall s0 t0 s0', nn_wrap nn p (complete_inner v p s0) = (t0, s0') ->
                  built2 (count_async_v v) s0 t0 s0').
    { intros s0 t0 s0' Ek. destruct (complete_inner v p s0) as [f0 s1] eqn:E0.
      eapply built2_wrap; [apply (IH _ _ _ _ E0)|eapply wraps_nn; eauto]. }
    destruct tag as [t|].
    + destruct (new_promise t p (add_ev (EStart (slice p)) s)) as [id s2] eqn:En.
      simpl in E. injection E as <- <-.
      assert (Ep : s_proms s2 = s_proms s ++ [{| p_tag := t; p_path := p; p_st := POut |}] /\ id = length (s_proms s)).
      { unfold new_promise in En. injection En as <- <-. simpl. auto. }
      destruct Ep as (Ep & ->).
      assert (Cr : created s s2 = 1) by (unfold created; rewrite Ep, app_length; simpl; lia).
      split; [|split].
      * split; [exists [{| p_tag := t; p_path := p; p_st := POut |}]; split; auto; repeat constructor|].
        intros i H. apply AwaitsF_pending_inv, Awaits_then_none_inv, Awaits_new_inv in H. subst i.
        rewrite Ep, app_length. simpl. lia.
      * rewrite Cr. simpl. lia.
      * rewrite Cr. simpl. rewrite Nat.sub_0_r. constructor. apply T_prom.
        -- intros s0 t0 s0' Ek. simpl in Ek. apply (K _ _ _ Ek).
        -- intros s0 t0 s0' Ek. simpl in Ek. destruct (K _ _ _ Ek) as (A & B & _). auto.
    + simpl. destruct (K _ _ _ E) as (((new & Ep & Fo) & A) & C & Tt).
      split; [|split]; auto.
      split; [exists new; simpl in Ep; auto|]. exact A.
  - (* FTypename *)
    intros p s f s' E. simpl in E. injection E as <- <-. apply built2_same; [|constructor].
    intros i H. eapply AwaitsF_ready; eauto.
Qed.

Lemma root_built fp p s f1 s2 :
  (let '(f, s1) := exec_field fp p s in catch_if_nullable (fp_nn fp) f s1) = (f1, s2) ->
  built2 (count_async_f fp) s f1 s2.
Proof. apply built2_field. apply built_all. Qed.
