(** * Serial/SerialGood.v — the invariant of futures built by the executor (proofs for C11, part 2).

    [Awaits c i]: the closure [c] still waits for promise [i] (it holds the promise adapter's
    poll function for that channel somewhere it will poll).
    [Good calm q cl c]: semantic typing of a closure built for the field at response path [q]:
    every callback inside it only performs [step q] on the state; when [calm] (no non-null
    position of the plan fails) in addition its result lies in the class [cl], the elements of
    every Join / After never fail, and every promise a continuation creates is awaited by the
    future it returns.
    Main lemma [invoke_good]: invoking a good closure is a [step q], leaves a good closure, and —
    when calm — every live promise that the closure awaited or that was created during the
    call is awaited by what is left; in particular nothing is left when the closure completes. *)
From Coq Require Import List Arith NArith ZArith Bool Lia.
From ApiFu Require Import Base.Sexp Serial.SerialPlan Serial.SerialFuture Serial.SerialModel Serial.SerialStep.
Import ListNotations.

Notation fut := (SerialFuture.fut st err).
Notation clo := (SerialFuture.clo st err).
Notation result := (SerialFuture.result err).

Definition prom_res (ok : bool) : result := if ok then ROk GUnit else RErr (mkerr [] KRaw).

(** ** Awaits *)
Inductive Awaits : clo -> nat -> Prop :=
| A_new id ok : Awaits (CNew (promise_poll id ok)) id
| A_map fn c i : Awaits c i -> Awaits (CMap fn c) i
| A_mapok fn c i : Awaits c i -> Awaits (CMapOk fn c) i
| A_toany c i : Awaits c i -> Awaits (CMapOkToAny c) i
| A_okvalue v c i : Awaits c i -> Awaits (CMapOkValue v c) i
| A_then_none k c i : Awaits c i -> Awaits (CThen k c None) i
| A_then_some k c t i : AwaitsF t i -> Awaits (CThen k c (Some t)) i
| A_join fs i : AwaitsL fs i -> Awaits (CJoin fs) i
| A_after fs i : AwaitsL fs i -> Awaits (CAfter fs) i
with AwaitsF : fut -> nat -> Prop :=
| AF_pending c i : Awaits c i -> AwaitsF (Pending c) i
with AwaitsL : list fut -> nat -> Prop :=
| AL_here f fs i : AwaitsF f i -> AwaitsL (f :: fs) i
| AL_there f fs i : AwaitsL fs i -> AwaitsL (f :: fs) i.

Lemma AwaitsF_ready r i : ~ AwaitsF (Ready r) i.
Proof. intros H. inversion H. Qed.

Lemma AwaitsL_nil i : ~ AwaitsL [] i.
Proof. intros H. inversion H. Qed.

Lemma AwaitsF_pending_inv c i : AwaitsF (Pending c) i -> Awaits c i.
Proof. intros H. inversion H; auto. Qed.
Lemma Awaits_map_inv fn c i : Awaits (CMap fn c) i -> Awaits c i.
Proof. intros H. inversion H; auto. Qed.
Lemma Awaits_mapok_inv fn c i : Awaits (CMapOk fn c) i -> Awaits c i.
Proof. intros H. inversion H; auto. Qed.
Lemma Awaits_toany_inv c i : Awaits (CMapOkToAny c) i -> Awaits c i.
Proof. intros H. inversion H; auto. Qed.
Lemma Awaits_okvalue_inv v c i : Awaits (CMapOkValue v c) i -> Awaits c i.
Proof. intros H. inversion H; auto. Qed.
Lemma Awaits_then_none_inv k c i : Awaits (CThen k c None) i -> Awaits c i.
Proof. intros H. inversion H; auto. Qed.
Lemma Awaits_then_some_inv k c t i : Awaits (CThen k c (Some t)) i -> AwaitsF t i.
Proof. intros H. inversion H; auto. Qed.
Lemma Awaits_join_inv fs i : Awaits (CJoin fs) i -> AwaitsL fs i.
Proof. intros H. inversion H; auto. Qed.
Lemma Awaits_after_inv fs i : Awaits (CAfter fs) i -> AwaitsL fs i.
Proof. intros H. inversion H; auto. Qed.
Lemma AwaitsL_cons_inv f fs i : AwaitsL (f :: fs) i -> AwaitsF f i \/ AwaitsL fs i.
Proof. intros H. inversion H; auto. Qed.

Lemma AwaitsL_app_l a b i : AwaitsL a i -> AwaitsL (a ++ b) i.
Proof. induction 1; simpl; [apply AL_here | apply AL_there]; auto. Qed.

Lemma AwaitsL_app_r a b i : AwaitsL b i -> AwaitsL (a ++ b) i.
Proof. intros H. induction a; simpl; auto. apply AL_there; auto. Qed.

Lemma promise_poll_inj a oka b okb : promise_poll a oka = promise_poll b okb -> a = b.
Proof.
  intros H.
  set (pr := fun x => {| p_tag := 0%N; p_path := []; p_st := x |}).
  set (s := with_proms (repeat (pr POut) a ++ [pr PSent]) st0).
  assert (Ha : nth_error (s_proms s) a = Some (pr PSent)).
  { unfold s. simpl. rewrite nth_error_app2; rewrite repeat_length; auto. rewrite Nat.sub_diag. reflexivity. }
  assert (Ea : fst (promise_poll a oka s) <> None).
  { unfold promise_poll. rewrite Ha. simpl. discriminate. }
  rewrite H in Ea. destruct (promise_poll b okb s) as [rb sb] eqn:Epb. simpl in Ea.
  apply promise_poll_cases in Epb as [[-> _]|(prb & Enb & Pb & _)]; [congruence|].
  unfold s in Enb. simpl in Enb.
  destruct (Nat.eq_dec a b) as [|Ne]; auto. exfalso.
  assert (b < a \/ a < b) as [L|L] by lia.
  - rewrite nth_error_app1 in Enb by (rewrite repeat_length; auto).
    apply nth_error_In, repeat_spec in Enb. subst prb. discriminate.
  - assert (X : nth_error (repeat (pr POut) a ++ [pr PSent]) b = None).
    { apply nth_error_None. rewrite app_length, repeat_length. simpl. lia. }
    congruence.
Qed.

Lemma Awaits_new_inv id ok i : Awaits (CNew (promise_poll id ok)) i -> i = id.
Proof.
  intros H. inversion H as [id' ok' Hp | | | | | | | |]; subst.
  symmetry. eapply promise_poll_inj; eauto.
Qed.

(** ** result classes *)
Inductive cls := CAny | CNoErr | CNonNil.

Definition rin (calm : bool) (c : cls) (r : result) : Prop :=
  calm = true ->
  match c with
  | CAny => True
  | CNoErr => exists v, r = ROk v
  | CNonNil => exists v, r = ROk v /\ v <> GNil
  end.

Definition cle (a b : cls) : Prop :=
  match a, b with
  | _, CAny => True
  | CNonNil, _ => True
  | CNoErr, CNoErr => True
  | _, _ => False
  end.

Lemma cle_refl a : cle a a.
Proof. destruct a; simpl; auto. Qed.

Lemma rin_weaken calm a b r : cle a b -> rin calm a r -> rin calm b r.
Proof.
  intros L H C. specialize (H C). destruct a, b; simpl in *; auto; try contradiction.
  destruct H as (v & -> & _). eauto.
Qed.

Lemma rin_noerr_err calm e : calm = true -> ~ rin calm CNoErr (RErr e).
Proof. intros C H. destruct (H C) as (v & E). discriminate. Qed.

Definition res_fut (c : clo) (r : option result) : fut :=
  match r with Some x => Ready x | None => Pending c end.

Section Good.
  Variable calm : bool.
  Variable q : rpath.

  (** a callback that does not touch the promises *)
  Definition quiet (s s' : st) : Prop := step q s s' /\ s_proms s' = s_proms s.

  Inductive Good : cls -> clo -> Prop :=
  | G_prom k id ok cl :
      (forall s t s', k (prom_res ok) s = (t, s') -> GoodF cl t) ->
      (forall s t s', k (prom_res ok) s = (t, s') ->
         step q s s' /\
         (calm = true -> forall i, length (s_proms s) <= i -> live s' i -> AwaitsF t i)) ->
      Good cl (CThen k (CNew (promise_poll id ok)) None)
  | G_then_some k c t cl : GoodF cl t -> Good cl (CThen k c (Some t))
  | G_map fn c cl cl' :
      Good cl c ->
      (forall r s, rin calm cl r -> rin calm cl' (fst (fn r s)) /\ quiet s (snd (fn r s))) ->
      Good cl' (CMap fn c)
  | G_mapok fn c cl :
      Good cl c -> cle cl CNoErr ->
      (forall v s, quiet s (snd (fn v s))) ->
      Good CNoErr (CMapOk fn c)
  | G_toany c cl : Good cl c -> Good cl (CMapOkToAny c)
  | G_okvalue v c cl : Good cl c -> cle cl CNoErr -> v <> GNil -> Good CNonNil (CMapOkValue v c)
  | G_join fs : GoodL fs -> Good CNonNil (CJoin fs)
  | G_after fs : GoodL fs -> Good CNonNil (CAfter fs)
  | G_sub cl cl' c : cle cl cl' -> Good cl c -> Good cl' c
  with GoodF : cls -> fut -> Prop :=
  | GF_ready cl r : rin calm cl r -> GoodF cl (Ready r)
  | GF_pending cl c : Good cl c -> GoodF cl (Pending c)
  with GoodL : list fut -> Prop :=
  | GL_nil : GoodL []
  | GL_cons f fs : GoodF CNoErr f -> GoodL fs -> GoodL (f :: fs).

  Scheme Good_mind := Minimality for Good Sort Prop
    with GoodF_mind := Minimality for GoodF Sort Prop
    with GoodL_mind := Minimality for GoodL Sort Prop.
  Combined Scheme Good_all_ind from Good_mind, GoodF_mind, GoodL_mind.

  Lemma GoodF_sub cl cl' f : cle cl cl' -> GoodF cl f -> GoodF cl' f.
  Proof.
    intros L H. inversion H; subst; constructor.
    - eapply rin_weaken; eauto.
    - eapply G_sub; eauto.
  Qed.

  Lemma GoodL_app a b : GoodL a -> GoodL b -> GoodL (a ++ b).
  Proof. induction 1; simpl; auto. intros. constructor; auto. Qed.

  Lemma GoodF_ready_inv cl r : GoodF cl (Ready r) -> rin calm cl r.
  Proof. intros H. inversion H; auto. Qed.

  Lemma GoodF_pending_inv cl c : GoodF cl (Pending c) -> Good cl c.
  Proof. intros H. inversion H; auto. Qed.

  (** ** The three statements proved together *)
  Definition P (cl : cls) (c : clo) : Prop :=
    forall s c' r s', invoke c s = (c', r, s') ->
      step q s s' /\ GoodF cl (res_fut c' r) /\
      (calm = true -> forall i, live s' i -> (Awaits c i \/ length (s_proms s) <= i) ->
                      AwaitsF (res_fut c' r) i).

  Definition PF (cl : cls) (f : fut) : Prop :=
    forall s f' s', poll f s = (f', s') ->
      step q s s' /\ GoodF cl f' /\
      (calm = true -> forall i, live s' i -> (AwaitsF f i \/ length (s_proms s) <= i) -> AwaitsF f' i).

  Definition PL (fs : list fut) : Prop :=
    forall ok s fs' o s', all_loop invoke fs ok s = (fs', o, s') ->
      step q s s' /\ GoodL fs' /\
      (calm = true ->
         (forall e, o <> LErr e) /\
         (forall i, live s' i -> (AwaitsL fs i \/ length (s_proms s) <= i) -> AwaitsL fs' i) /\
         (o = LAllOk -> forall i, ~ AwaitsL fs' i)).

  Lemma P_PF cl c : P cl c -> PF cl (Pending c).
  Proof.
    intros H s f' s' E. unfold poll, poll_with in E.
    destruct (invoke c s) as [[c1 r] s1] eqn:Ei. injection E as <- <-.
    destruct (H _ _ _ _ Ei) as (S1 & G1 & A1). split; auto. split.
    - destruct r; exact G1.
    - intros C i L [Aw|N].
      + apply AwaitsF_pending_inv in Aw. specialize (A1 C i L (or_introl Aw)). destruct r; exact A1.
      + specialize (A1 C i L (or_intror N)). destruct r; exact A1.
  Qed.

  Lemma quiet_live s s' i : quiet s s' -> (live s' i <-> live s i).
  Proof. intros [_ E]. unfold live. rewrite E. tauto. Qed.

  Lemma all_loop_false (l : list fut) s fs' o s' :
    all_loop invoke l false s = (fs', o, s') -> o <> LAllOk.
  Proof.
    revert s fs' o s'. induction l as [|f tl IH]; intros s fs' o s' E; simpl in E.
    - injection E as <- <- <-. discriminate.
    - destruct (poll_with invoke f s) as [f1 s1]. destruct f1 as [[v|e]|c1].
      + destruct (all_loop invoke tl false s1) as [[tl1 o1] s2] eqn:E2. injection E as <- <- <-. eauto.
      + injection E as <- <- <-. discriminate.
      + destruct (all_loop invoke tl false s1) as [[tl1 o1] s2] eqn:E2. injection E as <- <- <-. eauto.
  Qed.

  Theorem good_all :
    (forall cl c, Good cl c -> P cl c) /\
    (forall cl f, GoodF cl f -> PF cl f) /\
    (forall fs, GoodL fs -> PL fs).
  Proof.
    apply Good_all_ind.
    - (* G_prom *)
      intros k id ok cl Hk IHk Hk2 s c' r s' E. cbn [invoke] in E.
      destruct (promise_poll id ok s) as [r0 s1] eqn:Ep.
      pose proof (step_promise_poll q _ _ _ _ _ Ep) as S01.
      apply promise_poll_cases in Ep as [[-> ->]|(pr & En & Pst & -> & Es1)].
      + (* nothing on the channel *)
        injection E as <- <- <-. split; [apply step_refl|]. split.
        * constructor. apply G_prom; auto.
        * intros C i L [Aw|N]; [constructor; auto|]. apply live_lt in L. lia.
      + (* received *)
        assert (Hdead : forall s2, step q s1 s2 -> ~ live s2 id).
        { intros s2 (_ & G & _) (b & Eb & Nb).
          assert (Ea : nth_error (s_proms s1) id = Some (set_pst PRecv pr)).
          { rewrite Es1. simpl. apply nth_upd_nth_same; auto. }
          destruct (pgrow_old _ _ _ _ _ G Ea) as (b' & Eb' & (_ & _ & R)).
          rewrite Eb in Eb'. injection Eb' as <-. simpl in R.
          destruct (p_st b); simpl in R; try lia. congruence. }
        assert (Len : length (s_proms s1) = length (s_proms s)).
        { rewrite Es1. simpl. apply upd_nth_length. }
        fold (prom_res ok) in E.
        destruct (k (prom_res ok) s1) as [t s2] eqn:Ek.
        destruct (Hk2 _ _ _ Ek) as (S12 & A12).
        pose proof (IHk _ _ _ Ek) as IHt.
        pose proof (Hk _ _ _ Ek) as Gt.
        destruct t as [rr|c2].
        * injection E as <- <- <-.
          split; [eapply step_trans; eauto|]. split; [exact Gt|].
          intros C i L [Aw|N].
          -- apply Awaits_then_none_inv, Awaits_new_inv in Aw. subst i.
             exfalso. eapply Hdead; eauto.
          -- exfalso. eapply AwaitsF_ready. apply (A12 C i); auto. lia.
        * destruct (invoke c2 s2) as [[c3 r3] s3] eqn:E3.
          destruct (IHt s2 (res_fut c3 r3) s3) as (S23 & G3 & A23).
          { unfold poll, poll_with. rewrite E3. destruct r3; reflexivity. }
          assert (S03 : step q s s3) by (eapply step_trans; [exact S01|eapply step_trans; eauto]).
          destruct r3 as [x|]; injection E as <- <- <-.
          -- split; auto. split; [exact G3|].
             intros C i L [Aw|N].
             ++ apply Awaits_then_none_inv, Awaits_new_inv in Aw. subst i.
                exfalso. eapply (Hdead s3); eauto. eapply step_trans; eauto.
             ++ apply (A23 C i L).
                destruct (Nat.lt_ge_cases i (length (s_proms s2))) as [Lt|Ge]; [left|right; auto].
                apply (A12 C i); [lia|]. eapply step_live_old; eauto.
          -- split; auto. split.
             ++ constructor. apply G_then_some. exact G3.
             ++ intros C i L H. constructor. apply A_then_some.
                apply (A23 C i L). destruct H as [Aw|N].
                ** apply Awaits_then_none_inv, Awaits_new_inv in Aw. subst i.
                   exfalso. eapply (Hdead s3); eauto. eapply step_trans; eauto.
                ** destruct (Nat.lt_ge_cases i (length (s_proms s2))) as [Lt|Ge]; [left|right; auto].
                   apply (A12 C i); [lia|]. eapply step_live_old; eauto.
    - (* G_then_some *)
      intros k c t cl Gt IHt s c' r s' E. cbn [invoke] in E.
      destruct t as [rr|c2].
      + injection E as <- <- <-. split; [apply step_refl|]. split; [exact Gt|].
        intros C i L [Aw|N].
        * inversion Aw; subst. exfalso. eapply AwaitsF_ready; eauto.
        * apply live_lt in L. lia.
      + destruct (invoke c2 s) as [[c3 r3] s3] eqn:E3.
        destruct (IHt s (res_fut c3 r3) s3) as (S23 & G3 & A23).
        { unfold poll, poll_with. rewrite E3. destruct r3; reflexivity. }
        destruct r3 as [x|]; injection E as <- <- <-.
        * split; auto. split; [exact G3|].
          intros C i L [Aw|N]; apply (A23 C i L); auto.
          inversion Aw; subst. auto.
        * split; auto. split; [constructor; apply G_then_some; exact G3|].
          intros C i L H. constructor. apply A_then_some. apply (A23 C i L).
          destruct H as [Aw|N]; auto. inversion Aw; subst. auto.
    - (* G_map *)
      intros fn c cl cl' Gc IHc Hfn s c' r s' E. cbn [invoke] in E.
      destruct (invoke c s) as [[c1 r0] s1] eqn:E1.
      destruct (IHc _ _ _ _ E1) as (S1 & G1 & A1).
      destruct r0 as [r0|].
      + destruct (fn r0 s1) as [r1 s2] eqn:Ef. injection E as <- <- <-.
        simpl in G1. apply GoodF_ready_inv in G1.
        destruct (Hfn r0 s1 G1) as (R1 & Q). rewrite Ef in R1, Q. simpl in R1, Q.
        split; [eapply step_trans; [exact S1|apply Q]|]. split; [constructor; exact R1|].
        intros C i L H. exfalso. apply (AwaitsF_ready r0 i). apply (A1 C i).
        * apply (quiet_live _ _ i Q). exact L.
        * destruct H as [Aw|N]; auto. inversion Aw; subst; auto.
      + injection E as <- <- <-. split; auto. split.
        * constructor. eapply G_map; eauto. apply GoodF_pending_inv in G1. exact G1.
        * intros C i L H. constructor. apply A_map.
          assert (X : AwaitsF (Pending c1) i).
          { apply (A1 C i L). destruct H as [Aw|N]; auto. inversion Aw; subst; auto. }
          inversion X; auto.
    - (* G_mapok *)
      intros fn c cl Gc IHc Lc Hfn s c' r s' E. cbn [invoke] in E.
      destruct (invoke c s) as [[c1 r0] s1] eqn:E1.
      destruct (IHc _ _ _ _ E1) as (S1 & G1 & A1).
      destruct r0 as [[v|e]|].
      + destruct (fn v s1) as [v1 s2] eqn:Ef. injection E as <- <- <-.
        pose proof (Hfn v s1) as Q. rewrite Ef in Q. simpl in Q.
        split; [eapply step_trans; [exact S1|apply Q]|]. split.
        * constructor. intros _. simpl. eauto.
        * intros C i L H. exfalso. apply (AwaitsF_ready (ROk v) i). apply (A1 C i).
          -- apply (quiet_live _ _ i Q). exact L.
          -- destruct H as [Aw|N]; auto. inversion Aw; subst; auto.
      + injection E as <- <- <-. split; auto. split.
        * constructor. simpl in G1. apply GoodF_ready_inv in G1.
          eapply rin_weaken; eauto.
        * intros C i L H. exfalso. apply (AwaitsF_ready (RErr e) i). apply (A1 C i L).
          destruct H as [Aw|N]; auto. inversion Aw; subst; auto.
      + injection E as <- <- <-. split; auto. split.
        * constructor. eapply G_mapok; eauto. apply GoodF_pending_inv in G1. exact G1.
        * intros C i L H. constructor. apply A_mapok.
          assert (X : AwaitsF (Pending c1) i).
          { apply (A1 C i L). destruct H as [Aw|N]; auto. inversion Aw; subst; auto. }
          inversion X; auto.
    - (* G_toany *)
      intros c cl Gc IHc s c' r s' E. cbn [invoke] in E.
      destruct (invoke c s) as [[c1 r0] s1] eqn:E1.
      destruct (IHc _ _ _ _ E1) as (S1 & G1 & A1).
      destruct r0 as [[v|e]|]; injection E as <- <- <-; (split; [exact S1|]); split.
      + exact G1.
      + intros C i L H. exfalso. apply (AwaitsF_ready (ROk v) i). apply (A1 C i L).
        destruct H as [Aw|N]; auto. inversion Aw; subst; auto.
      + exact G1.
      + intros C i L H. exfalso. apply (AwaitsF_ready (RErr e) i). apply (A1 C i L).
        destruct H as [Aw|N]; auto. inversion Aw; subst; auto.
      + constructor. apply G_toany. apply GoodF_pending_inv in G1. exact G1.
      + intros C i L H. constructor. apply A_toany.
        assert (X : AwaitsF (Pending c1) i).
        { apply (A1 C i L). destruct H as [Aw|N]; auto. inversion Aw; subst; auto. }
        inversion X; auto.
    - (* G_okvalue *)
      intros v c cl Gc IHc Lc Nv s c' r s' E. cbn [invoke] in E.
      destruct (invoke c s) as [[c1 r0] s1] eqn:E1.
      destruct (IHc _ _ _ _ E1) as (S1 & G1 & A1).
      destruct r0 as [[v0|e]|]; injection E as <- <- <-; (split; [exact S1|]); split.
      + constructor. intros _. simpl. eauto.
      + intros C i L H. exfalso. apply (AwaitsF_ready (ROk v0) i). apply (A1 C i L).
        destruct H as [Aw|N]; auto. inversion Aw; subst; auto.
      + constructor. simpl in G1. apply GoodF_ready_inv in G1. intros C.
        exfalso. apply (rin_noerr_err calm e C). eapply rin_weaken; eauto.
      + intros C i L H. exfalso. apply (AwaitsF_ready (RErr e) i). apply (A1 C i L).
        destruct H as [Aw|N]; auto. inversion Aw; subst; auto.
      + constructor. eapply G_okvalue; eauto. apply GoodF_pending_inv in G1. exact G1.
      + intros C i L H. constructor. apply A_okvalue.
        assert (X : AwaitsF (Pending c1) i).
        { apply (A1 C i L). destruct H as [Aw|N]; auto. inversion Aw; subst; auto. }
        inversion X; auto.
    - (* G_join *)
      intros fs Gl IHl s c' r s' E. cbn [invoke] in E.
      destruct (all_loop invoke fs true s) as [[fs1 o] s1] eqn:El.
      destruct (IHl _ _ _ _ _ El) as (S1 & G1 & A1).
      destruct o as [e| |]; injection E as <- <- <-; (split; [exact S1|]); split.
      + constructor. intros C. exfalso. destruct (A1 C) as (NE & _). eapply NE; eauto.
      + intros C. exfalso. destruct (A1 C) as (NE & _). eapply NE; eauto.
      + constructor. intros _. simpl. exists GList. split; auto. discriminate.
      + intros C i L H. exfalso. destruct (A1 C) as (_ & Aw1 & Z). apply (Z eq_refl i).
        apply (Aw1 i L). destruct H as [Aw|N]; auto. inversion Aw; subst; auto.
      + constructor. apply G_join. exact G1.
      + intros C i L H. constructor. apply A_join. destruct (A1 C) as (_ & Aw1 & _).
        apply (Aw1 i L). destruct H as [Aw|N]; auto. inversion Aw; subst; auto.
    - (* G_after *)
      intros fs Gl IHl s c' r s' E. cbn [invoke] in E.
      destruct (all_loop invoke fs true s) as [[fs1 o] s1] eqn:El.
      destruct (IHl _ _ _ _ _ El) as (S1 & G1 & A1).
      destruct o as [e| |]; injection E as <- <- <-; (split; [exact S1|]); split.
      + constructor. intros C. exfalso. destruct (A1 C) as (NE & _). eapply NE; eauto.
      + intros C. exfalso. destruct (A1 C) as (NE & _). eapply NE; eauto.
      + constructor. intros _. simpl. exists GUnit. split; auto. discriminate.
      + intros C i L H. exfalso. destruct (A1 C) as (_ & Aw1 & Z). apply (Z eq_refl i).
        apply (Aw1 i L). destruct H as [Aw|N]; auto. inversion Aw; subst; auto.
      + constructor. apply G_after. exact G1.
      + intros C i L H. constructor. apply A_after. destruct (A1 C) as (_ & Aw1 & _).
        apply (Aw1 i L). destruct H as [Aw|N]; auto. inversion Aw; subst; auto.
    - (* G_sub *)
      intros cl cl' c L Gc IHc s c' r s' E.
      destruct (IHc _ _ _ _ E) as (S1 & G1 & A1). split; auto. split; auto.
      eapply GoodF_sub; eauto.
    - (* GF_ready *)
      intros cl r R s f' s' E. unfold poll, poll_with in E. injection E as <- <-.
      split; [apply step_refl|]. split; [constructor; auto|].
      intros C i L [Aw|N]; auto. apply live_lt in L. lia.
    - (* GF_pending *)
      intros cl c Gc IHc. apply P_PF. exact IHc.
    - (* GL_nil *)
      intros ok s fs' o s' E. simpl in E. injection E as <- <- <-.
      split; [apply step_refl|]. split; [constructor|]. intros C. split; [|split].
      + destruct ok; discriminate.
      + intros i L [Aw|N]; auto. apply live_lt in L. lia.
      + intros _ i. apply AwaitsL_nil.
    - (* GL_cons *)
      intros f fs Gf IHf Gfs IHfs ok s fs' o s' E. cbn [all_loop] in E.
      destruct (poll_with invoke f s) as [f1 s1] eqn:Ep.
      destruct (IHf s f1 s1 Ep) as (S1 & G1 & A1).
      assert (Old : forall s2 i, step q s1 s2 -> live s2 i ->
                     (AwaitsL (f :: fs) i \/ length (s_proms s) <= i) ->
                     calm = true ->
                     (i < length (s_proms s1) /\ AwaitsF f1 i) \/
                     (AwaitsL fs i \/ length (s_proms s1) <= i)).
      { intros s2 i S12 L H C.
        destruct (Nat.lt_ge_cases i (length (s_proms s1))) as [Lt|Ge]; [|auto].
        assert (L1 : live s1 i) by (eapply step_live_old; eauto).
        destruct H as [Aw|N].
        - apply AwaitsL_cons_inv in Aw as [Aw|Aw]; [|auto]. left. split; auto.
        - left. split; auto. }
      destruct f1 as [[v|e]|c1].
      + destruct (all_loop invoke fs ok s1) as [[tl1 o1] s2] eqn:E2. injection E as <- <- <-.
        destruct (IHfs _ _ _ _ _ E2) as (S2 & G2 & A2).
        split; [eapply step_trans; eauto|]. split; [constructor; auto|].
        intros C. destruct (A2 C) as (NE & Aw2 & Z). split; [auto|]. split.
        * intros i L H. destruct (Old s2 i S2 L H C) as [[_ X]|X].
          -- exfalso. eapply AwaitsF_ready; eauto.
          -- apply AL_there. apply (Aw2 i L X).
        * intros Eo i Aw. apply AwaitsL_cons_inv in Aw as [Aw|Aw].
          -- eapply AwaitsF_ready; eauto.
          -- eapply Z; eauto.
      + injection E as <- <- <-. split; auto. split; [constructor; auto|].
        intros C. exfalso. apply (rin_noerr_err calm e C). apply GoodF_ready_inv in G1. exact G1.
      + destruct (all_loop invoke fs false s1) as [[tl1 o1] s2] eqn:E2. injection E as <- <- <-.
        destruct (IHfs _ _ _ _ _ E2) as (S2 & G2 & A2).
        split; [eapply step_trans; eauto|]. split; [constructor; auto|].
        intros C. destruct (A2 C) as (NE & Aw2 & Z). split; [auto|]. split.
        * intros i L H. destruct (Old s2 i S2 L H C) as [[Lt X]|X].
          -- apply AL_here. inversion X; subst.
             (* the head was not polled again: it still awaits i *) constructor; auto.
          -- apply AL_there. apply (Aw2 i L X).
        * intros Eo. exfalso. eapply all_loop_false; eauto.
  Qed.

  Lemma invoke_good cl c : Good cl c -> P cl c.
  Proof. apply good_all. Qed.
  Lemma poll_good cl f : GoodF cl f -> PF cl f.
  Proof. apply good_all. Qed.

End Good.
