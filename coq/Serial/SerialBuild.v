(** * Serial/SerialBuild.v — the futures the executor builds are good (proofs for C11, part 3).

    By induction over the plan: [complete_inner] / [exec_field] at a path extending [q] perform a
    [step q], return a [Good] future whose class is determined by the plan, and — when calm —
    every promise created meanwhile is awaited by that future. *)
From Coq Require Import List Arith NArith ZArith Bool Lia.
From ApiFu Require Import Base.Sexp Serial.SerialPlan Serial.SerialFuture Serial.SerialModel
     Serial.SerialSpec Serial.SerialStep Serial.SerialGood.
Import ListNotations.

(** ** induction over plans *)
Section PlanInd.
  Variables (Pv : vplan -> Prop) (Pf : fplan -> Prop).
  Hypothesis HNull : Pv VNull.
  Hypothesis HLeaf : forall z, Pv (VLeaf z).
  Hypothesis HBad : Pv VBad.
  Hypothesis HList : forall inn items, Forall Pv items -> Pv (VList inn items).
  Hypothesis HObj : forall fields, Forall (fun kf => Pf (snd kf)) fields -> Pv (VObj fields).
  Hypothesis HFNone : forall tag nn, Pf (FP tag nn None).
  Hypothesis HFSome : forall tag nn v, Pv v -> Pf (FP tag nn (Some v)).
  Hypothesis HFType : Pf FTypename.

  Fixpoint vplan_ind2 (v : vplan) : Pv v :=
    match v with
    | VNull => HNull
    | VLeaf z => HLeaf z
    | VBad => HBad
    | VList inn items =>
        HList inn items ((fix go (l : list vplan) : Forall Pv l :=
                            match l with
                            | [] => Forall_nil _
                            | x :: tl => Forall_cons x (vplan_ind2 x) (go tl)
                            end) items)
    | VObj fields =>
        HObj fields ((fix go (l : list (bytes * fplan)) : Forall (fun kf => Pf (snd kf)) l :=
                        match l with
                        | [] => Forall_nil _
                        | kf :: tl => Forall_cons kf (fplan_ind2 (snd kf)) (go tl)
                        end) fields)
    end
  with fplan_ind2 (f : fplan) : Pf f :=
    match f with
    | FP tag nn None => HFNone tag nn
    | FP tag nn (Some v) => HFSome tag nn v (vplan_ind2 v)
    | FTypename => HFType
    end.

  Lemma plan_ind2 : (forall v, Pv v) /\ (forall f, Pf f).
  Proof. split; [exact vplan_ind2 | exact fplan_ind2]. Qed.
End PlanInd.

(** ** calm, unfolded *)
Lemma calm_v_list inn items :
  calm_v (VList inn items) = forallb (fun x => calm_v x && (negb inn || solid x)) items.
Proof. simpl. induction items as [|x tl IH]; simpl; [reflexivity|]. rewrite IH. reflexivity. Qed.

Lemma calm_v_obj fields :
  calm_v (VObj fields) = forallb (fun kf => calm_f (snd kf)) fields.
Proof. simpl. induction fields as [|[k f] tl IH]; simpl; [reflexivity|]. rewrite IH. reflexivity. Qed.

Definition cls_v (v : vplan) : cls :=
  match v with VNull => CNoErr | VBad => CAny | _ => CNonNil end.
Definition cls_f (fp : fplan) : cls :=
  match fp with
  | FP _ true _ => CNonNil
  | FP _ false None => CAny
  | FP _ false (Some v) => cls_v v
  | FTypename => CNonNil
  end.

Lemma solid_cls v : solid v = true -> cls_v v = CNonNil.
Proof. destruct v; simpl; auto; discriminate. Qed.

Section Build.
  Variable calm : bool.
  Variable q : rpath.

  Notation Good := (Good calm q).
  Notation GoodF := (GoodF calm q).
  Notation GoodL := (GoodL calm q).

  Lemma rin_not_calm cl r : (calm = true -> False) -> rin calm cl r.
  Proof. intros H C. contradiction. Qed.

  (** ** the combinators of future.go on good futures *)
  Lemma catch_good cl (f : fut) s f' s' :
    GoodF cl f -> Map f catch_error s = (f', s') ->
    quiet q s s' /\ GoodF CNoErr f' /\ (forall i, AwaitsF f i -> AwaitsF f' i).
  Proof.
    intros G E. destruct f as [r|c]; simpl in E.
    - destruct r as [v|e]; simpl in E; injection E as <- <-.
      + split; [split; auto using step_refl|]. split; [constructor; intros _; simpl; eauto|auto].
      + split; [split; auto using step_add_err|]. split; [constructor; intros _; simpl; eauto|].
        intros i H. exfalso. eapply AwaitsF_ready; eauto.
    - injection E as <- <-. split; [split; auto using step_refl|]. split.
      + constructor. eapply G_map; [apply GoodF_pending_inv; exact G|].
        intros r s0 _. destruct r as [v|e]; simpl.
        * split; [intros _; simpl; eauto|split; auto using step_refl].
        * split; [intros _; simpl; eauto|split; auto using step_add_err].
      + intros i H. apply AwaitsF_pending_inv in H. constructor. apply A_map. exact H.
  Qed.

  Lemma catch_if_nullable_good nn cl (f : fut) s f' s' :
    GoodF cl f -> (nn = true -> cle cl CNoErr) -> catch_if_nullable nn f s = (f', s') ->
    quiet q s s' /\ GoodF CNoErr f' /\ (forall i, AwaitsF f i -> AwaitsF f' i).
  Proof.
    intros G L E. unfold catch_if_nullable in E. destruct nn.
    - injection E as <- <-. split; [split; auto using step_refl|]. split; auto.
      eapply GoodF_sub; eauto.
    - eapply catch_good; eauto.
  Qed.

  Lemma nn_wrap_good nn p cl (f : fut) s f' s' :
    GoodF cl f -> (calm = true -> nn = true -> cl = CNonNil) ->
    nn_wrap nn p (f, s) = (f', s') ->
    s' = s /\ GoodF (if nn then CNonNil else cl) f' /\ (forall i, AwaitsF f i -> AwaitsF f' i).
  Proof.
    intros G L E. unfold nn_wrap in E. destruct nn.
    - destruct f as [r|c].
      + assert (R : calm = true -> exists v, r = ROk v /\ v <> GNil).
        { intros C. apply GoodF_ready_inv in G. rewrite (L C eq_refl) in G. exact (G C). }
        destruct r as [v|e].
        * destruct v; injection E as <- <-; (split; [reflexivity|]);
            (split; [|intros i H; exfalso; eapply AwaitsF_ready; eauto]);
            apply GF_ready; intros C; destruct (R C) as (v' & Ev & Nv); injection Ev as <-;
            first [exfalso; apply Nv; reflexivity | (simpl; eexists; split; [reflexivity|exact Nv])].
        * injection E as <- <-. split; [reflexivity|]. split; [|auto].
          apply GF_ready. intros C. destruct (R C) as (v' & Ev & _). discriminate.
      + simpl in E. injection E as <- <-. split; [reflexivity|]. split.
        * constructor. eapply G_map; [apply GoodF_pending_inv; exact G|].
          intros r s0 R. split; [|split; [|]].
          -- intros C. rewrite (L C eq_refl) in R. destruct (R C) as (v & -> & Nv).
             destruct v; simpl; try (exfalso; apply Nv; reflexivity); eexists; split; eauto.
          -- destruct r as [[]|]; simpl; apply step_refl.
          -- destruct r as [[]|]; reflexivity.
        * intros i H. apply AwaitsF_pending_inv in H. constructor. apply A_map. exact H.
    - injection E as <- <-. auto.
  Qed.

  Lemma MapOkToAny_good cl (f : fut) :
    GoodF cl f -> GoodF cl (MapOkToAny f) /\ (forall i, AwaitsF f i -> AwaitsF (MapOkToAny f) i).
  Proof.
    intros G. destruct f as [r|c]; simpl; auto. split.
    - constructor. apply G_toany. apply GoodF_pending_inv. exact G.
    - intros i H. apply AwaitsF_pending_inv in H. constructor. apply A_toany. exact H.
  Qed.

  Lemma MapOkValue_good cl (f : fut) v :
    GoodF cl f -> cle cl CNoErr -> v <> GNil ->
    GoodF CNonNil (MapOkValue f v) /\ (forall i, AwaitsF f i -> AwaitsF (MapOkValue f v) i).
  Proof.
    intros G L Nv. destruct f as [[v0|e]|c]; simpl.
    - split; [apply GF_ready; intros _; simpl; exists v; split; [reflexivity|exact Nv]|]. intros i H. exfalso. eapply AwaitsF_ready; eauto.
    - split; [|auto]. apply GF_ready. intros C. exfalso. apply (rin_noerr_err calm e C).
      eapply rin_weaken; eauto. apply (GoodF_ready_inv calm q). exact G.
    - split.
      + constructor. eapply G_okvalue; eauto. apply GoodF_pending_inv. exact G.
      + intros i H. apply AwaitsF_pending_inv in H. constructor. apply A_okvalue. exact H.
  Qed.

  Lemma MapOk_set_slot_good (c : clo) s :
    Good CNoErr c ->
    MapOk (Pending c) set_slot s = (Pending (CMapOk set_slot c), s) /\
    Good CNoErr (CMapOk set_slot c).
  Proof.
    intros G. split; [reflexivity|]. eapply G_mapok; eauto; [exact I|].
    intros v s0. split; simpl; auto using step_refl.
  Qed.

  Lemma all_init_false (fs : list fut) : all_init fs false <> LAllOk.
  Proof.
    induction fs as [|f tl IH]; simpl; [discriminate|].
    destruct f as [[v|e]|c]; auto. discriminate.
  Qed.

  Lemma all_init_spec (fs : list fut) ok :
    GoodL fs ->
    (calm = true -> forall e, all_init fs ok <> LErr e) /\
    (all_init fs ok = LAllOk -> forall i, ~ AwaitsL fs i).
  Proof.
    intros G. revert ok. induction G as [|f fs Gf Gfs IH]; intros ok; simpl.
    - split; [intros _ e; destruct ok; discriminate|]. intros _ i. apply AwaitsL_nil.
    - destruct f as [[v|e]|c].
      + destruct (IH ok) as [A B]. split; auto. intros E i H.
        apply AwaitsL_cons_inv in H as [H|H]; [eapply AwaitsF_ready; eauto|eapply B; eauto].
      + split.
        * intros C e0 _. apply (rin_noerr_err calm e C). apply (GoodF_ready_inv calm q). exact Gf.
        * discriminate.
      + destruct (IH false) as [A B]. split; auto. intros E. exfalso. eapply all_init_false; eauto.
  Qed.

  Lemma Join_good (fs : list fut) :
    GoodL fs ->
    GoodF CNonNil (Join fs) /\ (calm = true -> forall i, AwaitsL fs i -> AwaitsF (Join fs) i).
  Proof.
    intros G. destruct (all_init_spec fs true G) as [A B]. unfold Join.
    destruct (all_init fs true) as [e| |] eqn:E.
    - split.
      + constructor. intros C. exfalso. eapply A; eauto.
      + intros C. exfalso. eapply A; eauto.
    - split; [constructor; intros _; simpl; exists GList; split; auto; discriminate|].
      intros _ i H. exfalso. eapply B; eauto.
    - split; [constructor; apply G_join; auto|]. intros _ i H. constructor. apply A_join. exact H.
  Qed.

  Lemma After_good (fs : list fut) :
    GoodL fs ->
    GoodF CNonNil (After fs) /\ (calm = true -> forall i, AwaitsL fs i -> AwaitsF (After fs) i).
  Proof.
    intros G. destruct (all_init_spec fs true G) as [A B]. unfold After.
    destruct (all_init fs true) as [e| |] eqn:E.
    - split.
      + constructor. intros C. exfalso. eapply A; eauto.
      + intros C. exfalso. eapply A; eauto.
    - split; [constructor; intros _; simpl; exists GUnit; split; auto; discriminate|].
      intros _ i H. exfalso. eapply B; eauto.
    - split; [constructor; apply G_after; auto|]. intros _ i H. constructor. apply A_after. exact H.
  Qed.

  (** ** what the plan-directed builders guarantee *)
  Definition built (cl : cls) (s : st) (f : fut) (s' : st) : Prop :=
    step q s s' /\ GoodF cl f /\
    (calm = true -> forall i, length (s_proms s) <= i -> live s' i -> AwaitsF f i).

  Definition Bv (v : vplan) : Prop :=
    forall p s f s', (calm = true -> calm_v v = true) -> ext q p ->
      complete_inner v p s = (f, s') -> built (cls_v v) s f s'.

  Definition Bf (fp : fplan) : Prop :=
    forall p s f s', (calm = true -> calm_f fp = true) -> ext q p ->
      exec_field fp p s = (f, s') -> built (cls_f fp) s f s'.

  Lemma no_new_live s i : length (s_proms s) <= i -> live s i -> False.
  Proof. intros L H. apply live_lt in H. lia. Qed.

  (** completeValue at a list item: inner completion, non-null wrapper, catchErrorIfNullable *)
  Lemma item_good inn x p s f1 s2 :
    Bv x -> (calm = true -> calm_v x = true /\ (inn = true -> solid x = true)) -> ext q p ->
    (let '(f, s1) := nn_wrap inn p (complete_inner x p s) in catch_if_nullable inn f s1) = (f1, s2) ->
    built CNoErr s f1 s2.
  Proof.
    intros B C X E.
    destruct (complete_inner x p s) as [f0 s0] eqn:E0.
    destruct (B p s f0 s0 (fun c => proj1 (C c)) X E0) as (S0 & G0 & A0).
    destruct (nn_wrap inn p (f0, s0)) as [f s1] eqn:E1.
    destruct (nn_wrap_good inn p _ f0 s0 f s1 G0) as (-> & G1 & A1); auto.
    { intros c Hn. apply solid_cls. apply (proj2 (C c) Hn). }
    destruct (catch_if_nullable_good inn _ f s0 f1 s2 G1) as ((S2 & P2) & G2 & A2); auto.
    { intros ->. exact I. }
    split; [eapply step_trans; eauto|]. split; auto.
    intros c i L Lv. apply A2, A1. apply (A0 c i L).
    unfold live in *. rewrite <- P2. exact Lv.
  Qed.

  Lemma items_good inn items :
    Forall Bv items ->
    forall p i0 s fs s',
      (calm = true -> forallb (fun x => calm_v x && (negb inn || solid x)) items = true) ->
      ext q p ->
      items_loop (fun x q0 s0 => nn_wrap inn q0 (complete_inner x q0 s0)) inn p items i0 s = (fs, s') ->
      step q s s' /\ GoodL fs /\
      (calm = true -> forall i, length (s_proms s) <= i -> live s' i -> AwaitsL fs i).
  Proof.
    induction 1 as [|x tl Bx Btl IH]; intros p i0 s fs s' C X E; simpl in E.
    - injection E as <- <-. split; [apply step_refl|]. split; [constructor|].
      intros _ i L Lv. exfalso. eapply no_new_live; eauto.
    - destruct (nn_wrap inn (PIdx i0 :: p) (complete_inner x (PIdx i0 :: p) s)) as [f s1] eqn:E1.
      destruct (catch_if_nullable inn f s1) as [f1 s2] eqn:E2.
      destruct (items_loop _ inn p tl (S i0) s2) as [fs2 s3] eqn:E3. injection E as <- <-.
      assert (Cx : calm = true -> calm_v x = true /\ (inn = true -> solid x = true)).
      { intros c. specialize (C c). simpl in C. apply andb_true_iff in C as [C1 _].
        apply andb_true_iff in C1 as [C1 C2]. split; auto. intros ->. exact C2. }
      assert (Ct : calm = true -> forallb (fun x => calm_v x && (negb inn || solid x)) tl = true).
      { intros c. specialize (C c). simpl in C. apply andb_true_iff in C as [_ C2]. exact C2. }
      destruct (item_good inn x (PIdx i0 :: p) s f1 s2 Bx Cx (ext_cons _ _ _ X)) as (S1 & G1 & A1).
      { rewrite E1. exact E2. }
      destruct (IH p (S i0) s2 fs2 s3 Ct X E3) as (S3 & G3 & A3).
      split; [eapply step_trans; eauto|]. split; [constructor; auto|].
      intros c i L Lv.
      destruct (Nat.lt_ge_cases i (length (s_proms s2))) as [Lt|Ge].
      + apply AL_here. apply (A1 c i L). eapply step_live_old; eauto.
      + apply AL_there. apply (A3 c i Ge Lv).
  Qed.

  (** one field of a selection set: executeField, then catchErrorIfNullable *)
  Lemma field_good fp p s f1 s2 :
    Bf fp -> (calm = true -> calm_f fp = true) -> ext q p ->
    (let '(f, s1) := exec_field fp p s in catch_if_nullable (fp_nn fp) f s1) = (f1, s2) ->
    built CNoErr s f1 s2.
  Proof.
    intros B C X E.
    destruct (exec_field fp p s) as [f s1] eqn:E1.
    destruct (B p s f s1 C X E1) as (S1 & G1 & A1).
    destruct (catch_if_nullable_good (fp_nn fp) _ f s1 f1 s2 G1) as ((S2 & P2) & G2 & A2); auto.
    { destruct fp as [t [|] r|]; simpl; intros H; try discriminate; exact I. }
    split; [eapply step_trans; eauto|]. split; auto.
    intros c i L Lv. apply A2. apply (A1 c i L). unfold live in *. rewrite <- P2. exact Lv.
  Qed.

  Lemma sel_loop_good fields :
    Forall (fun kf => Bf (snd kf)) fields ->
    forall p futures s early futs' s',
      (calm = true -> forallb (fun kf => calm_f (snd kf)) fields = true) ->
      ext q p -> GoodL futures ->
      sel_loop exec_field p fields futures s = (early, futs', s') ->
      step q s s' /\ GoodL futs' /\
      (calm = true ->
         early = None /\
         forall i, live s' i -> (AwaitsL futures i \/ length (s_proms s) <= i) -> AwaitsL futs' i).
  Proof.
    induction 1 as [|[key fp] tl Bx Btl IH]; intros p futures s early futs' s' C X GL E; simpl in E.
    - injection E as <- <- <-. split; [apply step_refl|]. split; auto.
      intros _. split; auto. intros i Lv [H|L]; auto. exfalso. eapply no_new_live; eauto.
    - destruct (exec_field fp (PKey key :: p) s) as [f s1] eqn:E1.
      destruct (catch_if_nullable (fp_nn fp) f s1) as [f1 s2] eqn:E2.
      assert (Cx : calm = true -> calm_f fp = true).
      { intros c. specialize (C c). simpl in C. apply andb_true_iff in C as [C1 _]. exact C1. }
      assert (Ct : calm = true -> forallb (fun kf => calm_f (snd kf)) tl = true).
      { intros c. specialize (C c). simpl in C. apply andb_true_iff in C as [_ C2]. exact C2. }
      simpl in Bx.
      destruct (field_good fp (PKey key :: p) s f1 s2 Bx Cx (ext_cons _ _ _ X)) as (S1 & G1 & A1).
      { rewrite E1. exact E2. }
      destruct f1 as [[v|e]|c1].
      + (* ready: stored, next field *)
        destruct (IH p futures s2 early futs' s' Ct X GL E) as (S3 & G3 & A3).
        split; [eapply step_trans; eauto|]. split; auto.
        intros c. destruct (A3 c) as (-> & A4). split; auto.
        intros i Lv H. apply (A4 i Lv). destruct H as [H|L]; auto.
        destruct (Nat.lt_ge_cases i (length (s_proms s2))) as [Lt|Ge]; auto.
        exfalso. apply (AwaitsF_ready (ROk v) i). apply (A1 c i L). eapply step_live_old; eauto.
      + (* ready error: executeSelections returns *)
        injection E as <- <- <-. split; auto. split; auto.
        intros c. exfalso. apply (rin_noerr_err calm e c). apply GoodF_ready_inv in G1. exact G1.
      + (* pending: MapOk(f, set) joins the futures *)
        apply GoodF_pending_inv in G1.
        destruct (MapOk_set_slot_good c1 s2 G1) as (Em & Gm). rewrite Em in E.
        assert (GL2 : GoodL (futures ++ [Pending (CMapOk set_slot c1)])).
        { apply GoodL_app; auto. constructor; [constructor; exact Gm|constructor]. }
        destruct (IH p _ s2 early futs' s' Ct X GL2 E) as (S3 & G3 & A3).
        split; [eapply step_trans; eauto|]. split; auto.
        intros c. destruct (A3 c) as (-> & A4). split; auto.
        intros i Lv H. apply (A4 i Lv). destruct H as [H|L].
        * left. apply AwaitsL_app_l. exact H.
        * destruct (Nat.lt_ge_cases i (length (s_proms s2))) as [Lt|Ge]; auto.
          left. apply AwaitsL_app_r. apply AL_here. constructor. apply A_mapok.
          apply AwaitsF_pending_inv. apply (A1 c i L). eapply step_live_old; eauto.
  Qed.

  Theorem build_all : (forall v, Bv v) /\ (forall fp, Bf fp).
  Proof.
    apply plan_ind2.
    - (* VNull *)
      intros p s f s' _ _ E. simpl in E. injection E as <- <-.
      split; [apply step_refl|]. split; [constructor; intros _; simpl; eauto|].
      intros _ i L Lv. exfalso. eapply no_new_live; eauto.
    - (* VLeaf *)
      intros z p s f s' _ _ E. simpl in E. injection E as <- <-.
      split; [apply step_refl|]. split; [constructor; intros _; simpl; eexists; split; eauto; discriminate|].
      intros _ i L Lv. exfalso. eapply no_new_live; eauto.
    - (* VBad *)
      intros p s f s' _ _ E. simpl in E. injection E as <- <-.
      split; [apply step_refl|]. split; [constructor; intros _; exact I|].
      intros _ i L Lv. exfalso. eapply no_new_live; eauto.
    - (* VList *)
      intros inn items IH p s f s' C X E. cbn [complete_inner] in E. unfold list_body in E.
      destruct (items_loop _ inn p items 0 s) as [fs s1] eqn:E1. injection E as <- <-.
      assert (Ci : calm = true -> forallb (fun x => calm_v x && (negb inn || solid x)) items = true).
      { intros c. rewrite <- calm_v_list. auto. }
      destruct (items_good inn items IH p 0 s fs s1 Ci X E1) as (S1 & G1 & A1).
      destruct (Join_good fs G1) as (GJ & AJ).
      destruct (MapOkToAny_good _ _ GJ) as (GM & AM).
      split; [exact S1|]. split; [exact GM|]. intros c i L Lv. apply AM. apply (AJ c). apply (A1 c i L Lv).
    - (* VObj *)
      intros fields IH p s f s' C X E. cbn [complete_inner] in E.
      fold (sel_body exec_field fields p s) in E. unfold sel_body in E.
      destruct (sel_loop exec_field p fields [] s) as [[early futures] s1] eqn:E1.
      assert (Ci : calm = true -> forallb (fun kf => calm_f (snd kf)) fields = true).
      { intros c. rewrite <- calm_v_obj. auto. }
      destruct (sel_loop_good fields IH p [] s early futures s1 Ci X (GL_nil calm q) E1) as (S1 & G1 & A1).
      destruct early as [e|]; injection E as <- <-.
      + split; auto. split.
        * constructor. intros c. destruct (A1 c) as (Ee & _). discriminate.
        * intros c. destruct (A1 c) as (Ee & _). discriminate.
      + destruct (After_good futures G1) as (GA & AA).
        destruct (MapOkValue_good _ _ GObj GA) as (GV & AV); [exact I|discriminate|].
        destruct (MapOkToAny_good _ _ GV) as (GM & AM).
        split; [exact S1|]. split; [exact GM|]. intros c i L Lv. apply AM, AV. apply (AA c).
        destruct (A1 c) as (_ & A2). apply (A2 i Lv). auto.
    - (* FP _ _ None *)
      intros tag nn p s f s' C X E. cbn [exec_field] in E.
      assert (Cn : calm = true -> nn = false).
      { intros c. specialize (C c). simpl in C. destruct nn; auto; discriminate. }
      assert (S1 : step q s (add_ev (EStart (slice p)) s)) by (apply step_add_ev; auto).
      destruct tag as [t|].
      + (* a promise that will fail *)
        destruct (new_promise t p (add_ev (EStart (slice p)) s)) as [id s2] eqn:En.
        simpl in E. injection E as <- <-.
        assert (S2 : step q (add_ev (EStart (slice p)) s) s2).
        { pose proof (step_new_promise q t p (add_ev (EStart (slice p)) s) X) as H. rewrite En in H. exact H. }
        assert (Eid : id = length (s_proms s)) by (unfold new_promise in En; injection En as <- _; reflexivity).
        assert (Len : length (s_proms s2) = S (length (s_proms s))).
        { unfold new_promise in En. injection En as _ <-. simpl. rewrite app_length. simpl. lia. }
        split; [eapply step_trans; eauto|]. split.
        * constructor. apply G_prom.
          -- intros s0 t0 s0' Ek. simpl in Ek. injection Ek as <- <-. constructor.
             intros c. rewrite (Cn c). exact I.
          -- intros s0 t0 s0' Ek. simpl in Ek. injection Ek as <- <-. split; [apply step_refl|].
             intros _ i L Lv. exfalso. eapply no_new_live; eauto.
        * intros _ i L Lv. apply live_lt in Lv. assert (i = id) by lia. subst i.
          constructor. apply A_then_none. apply A_new.
      + injection E as <- <-. split; auto. split.
        * constructor. intros c. rewrite (Cn c). exact I.
        * intros _ i L Lv. exfalso. eapply (no_new_live (add_ev (EStart (slice p)) s)); eauto.
    - (* FP _ _ (Some v) *)
      intros tag nn v IH p s f s' C X E. cbn [exec_field] in E.
      assert (Cv : calm = true -> calm_v v = true /\ (nn = true -> solid v = true)).
      { intros c. specialize (C c). simpl in C. apply andb_true_iff in C as [C1 C2]. split; auto.
        intros ->. exact C2. }
      assert (S1 : step q s (add_ev (EStart (slice p)) s)) by (apply step_add_ev; auto).
      assert (K : forall s0 t0 s0', nn_wrap nn p (complete_inner v p s0) = (t0, s0') ->
                    built (cls_f (FP tag nn (Some v))) s0 t0 s0').
      { intros s0 t0 s0' Ek. destruct (complete_inner v p s0) as [f0 s1] eqn:E0.
        destruct (IH p s0 f0 s1 (fun c => proj1 (Cv c)) X E0) as (S0 & G0 & A0).
        destruct (nn_wrap_good nn p _ f0 s1 t0 s0' G0) as (-> & G1 & A1); auto.
        { intros c Hn. apply solid_cls. apply (proj2 (Cv c) Hn). }
        split; [exact S0|]. split; [destruct nn; exact G1|]. intros c i L Lv. apply A1. apply (A0 c i L Lv). }
      destruct tag as [t|].
      + destruct (new_promise t p (add_ev (EStart (slice p)) s)) as [id s2] eqn:En.
        simpl in E. injection E as <- <-.
        assert (S2 : step q (add_ev (EStart (slice p)) s) s2).
        { pose proof (step_new_promise q t p (add_ev (EStart (slice p)) s) X) as H. rewrite En in H. exact H. }
        assert (Eid : id = length (s_proms s)) by (unfold new_promise in En; injection En as <- _; reflexivity).
        assert (Len : length (s_proms s2) = S (length (s_proms s))).
        { unfold new_promise in En. injection En as _ <-. simpl. rewrite app_length. simpl. lia. }
        split; [eapply step_trans; eauto|]. split.
        * constructor. apply G_prom.
          -- intros s0 t0 s0' Ek. simpl in Ek. apply (K s0 t0 s0' Ek).
          -- intros s0 t0 s0' Ek. simpl in Ek. destruct (K s0 t0 s0' Ek) as (A & _ & B). split; auto.
        * intros _ i L Lv. apply live_lt in Lv. assert (i = id) by lia. subst i.
          constructor. apply A_then_none. apply A_new.
      + destruct (K _ _ _ E) as (A & B & D). split; [eapply step_trans; eauto|]. split; [exact B|].
        intros c i L Lv. apply (D c i); auto.
    - (* FTypename *)
      intros p s f s' _ _ E. simpl in E. injection E as <- <-.
      split; [apply step_refl|]. split; [apply GF_ready; intros _; simpl; exists GStr; split; [reflexivity|discriminate]|].
      intros _ i L Lv. exfalso. eapply no_new_live; eauto.
  Qed.

  Lemma exec_field_good fp p s f1 s2 :
    (calm = true -> calm_f fp = true) -> ext q p ->
    (let '(f, s1) := exec_field fp p s in catch_if_nullable (fp_nn fp) f s1) = (f1, s2) ->
    built CNoErr s f1 s2.
  Proof. intros. eapply field_good; eauto. apply build_all. Qed.

  Lemma exec_sel_good fields p s f s' :
    (calm = true -> calm_v (VObj fields) = true) -> ext q p ->
    exec_sel fields p s = (f, s') -> built CNonNil s f s'.
  Proof.
    intros C X E. unfold exec_sel, sel_body in E.
    destruct (sel_loop exec_field p fields [] s) as [[early futures] s1] eqn:E1.
    assert (Ci : calm = true -> forallb (fun kf => calm_f (snd kf)) fields = true).
    { intros c. rewrite <- calm_v_obj. auto. }
    assert (IH : Forall (fun kf => Bf (snd kf)) fields).
    { apply Forall_forall. intros kf _. apply build_all. }
    destruct (sel_loop_good fields IH p [] s early futures s1 Ci X (GL_nil calm q) E1) as (S1 & G1 & A1).
    destruct early as [e|]; injection E as <- <-.
    - split; auto. split.
      + constructor. intros c. destruct (A1 c) as (Ee & _). discriminate.
      + intros c. destruct (A1 c) as (Ee & _). discriminate.
    - destruct (After_good futures G1) as (GA & AA).
      destruct (MapOkValue_good _ _ GObj GA) as (GV & AV); [exact I|discriminate|].
      split; [exact S1|]. split; [exact GV|]. intros c i L Lv. apply AV. apply (AA c).
      destruct (A1 c) as (_ & A2). apply (A2 i Lv). auto.
  Qed.
End Build.
