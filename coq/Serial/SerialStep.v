(** * Serial/SerialStep.v — how the executor state may evolve (proofs for C11, part 1).

    [step q s s']: what building or polling a future of the field at response path [q] may do to
    the state: append resolver-start events at paths extending [q], create promises at paths
    extending [q], receive from channels; never an [EFulfil] event, never an idle round.
    [wstep q s s']: what waiting for such a future may do in addition: idle rounds, which fulfil
    promises that were outstanding. *)
From Coq Require Import List NArith ZArith Bool Lia.
From ApiFu Require Import Base.Sexp Serial.SerialPlan Serial.SerialFuture Serial.SerialModel.
Import ListNotations.

(** ** paths *)
Definition ext (q p : rpath) : Prop := exists d, p = d ++ q.

Lemma ext_refl q : ext q q.
Proof. exists []. reflexivity. Qed.
Lemma ext_cons q p x : ext q p -> ext q (x :: p).
Proof. intros [d ->]. exists (x :: d). reflexivity. Qed.

(** ** promise states only move forward *)
Definition st_rank (x : pstate) : nat := match x with POut => 0 | PSent => 1 | PRecv => 2 end.
Definition pevol (a b : promise) : Prop :=
  p_tag b = p_tag a /\ p_path b = p_path a /\ st_rank (p_st a) <= st_rank (p_st b).

Lemma pevol_refl a : pevol a a.
Proof. repeat split; auto. Qed.
Lemma pevol_trans a b c : pevol a b -> pevol b c -> pevol a c.
Proof. intros (A1 & A2 & A3) (B1 & B2 & B3). repeat split; try congruence. lia. Qed.

Lemma Forall2_pevol_refl l : Forall2 pevol l l.
Proof. induction l; constructor; auto using pevol_refl. Qed.

Lemma Forall2_trans {A} (R : A -> A -> Prop) :
  (forall a b c, R a b -> R b c -> R a c) ->
  forall l1 l2 l3, Forall2 R l1 l2 -> Forall2 R l2 l3 -> Forall2 R l1 l3.
Proof.
  intros T l1 l2 l3 H. revert l3. induction H; intros l3 H3; inversion H3; subst; constructor; eauto.
Qed.

Lemma Forall2_nth {A B} (R : A -> B -> Prop) l1 l2 i a :
  Forall2 R l1 l2 -> nth_error l1 i = Some a -> exists b, nth_error l2 i = Some b /\ R a b.
Proof.
  intros H. revert i. induction H; intros [|i] E; simpl in *; try discriminate.
  - injection E as <-. eauto.
  - eauto.
Qed.

Lemma Forall2_nth_r {A B} (R : A -> B -> Prop) l1 l2 i b :
  Forall2 R l1 l2 -> nth_error l2 i = Some b -> exists a, nth_error l1 i = Some a /\ R a b.
Proof.
  intros H. revert i. induction H; intros [|i] E; simpl in *; try discriminate.
  - injection E as <-. eauto.
  - eauto.
Qed.

Lemma Forall2_length {A B} {R : A -> B -> Prop} {l1 l2} : Forall2 R l1 l2 -> length l1 = length l2.
Proof. induction 1; simpl; auto. Qed.

(** the promise list of [s'] is the one of [s], each promise possibly further along, followed by
    new promises satisfying [N] *)
Definition pgrow (N : promise -> Prop) (ps ps' : list promise) : Prop :=
  exists old new, ps' = old ++ new /\ Forall2 pevol ps old /\ Forall N new.

Lemma pgrow_refl N ps : pgrow N ps ps.
Proof. exists ps, []. rewrite app_nil_r. auto using Forall2_pevol_refl. Qed.

Lemma Forall2_app_inv_l' {A B} (R : A -> B -> Prop) l1 l2 l :
  Forall2 R (l1 ++ l2) l -> exists m1 m2, l = m1 ++ m2 /\ Forall2 R l1 m1 /\ Forall2 R l2 m2.
Proof.
  revert l. induction l1 as [|a l1 IH]; intros l H; simpl in *.
  - exists [], l. auto.
  - inversion H as [|? b ? l' Hab Ht]; subst.
    destruct (IH _ Ht) as (m1 & m2 & -> & H1 & H2).
    exists (b :: m1), m2. repeat split; auto.
Qed.

Lemma Forall2_Forall_pevol (N : promise -> Prop) l1 l2 :
  (forall a b, N a -> pevol a b -> N b) -> Forall N l1 -> Forall2 pevol l1 l2 -> Forall N l2.
Proof.
  intros C H1 H2. induction H2; inversion H1; subst; constructor; eauto.
Qed.

Lemma pgrow_trans (N : promise -> Prop) ps1 ps2 ps3 :
  (forall a b, N a -> pevol a b -> N b) ->
  pgrow N ps1 ps2 -> pgrow N ps2 ps3 -> pgrow N ps1 ps3.
Proof.
  intros C (o1 & n1 & -> & F1 & N1) (o2 & n2 & -> & F2 & N2).
  apply Forall2_app_inv_l' in F2 as (m1 & m2 & -> & G1 & G2).
  exists m1, (m2 ++ n2). rewrite app_assoc. repeat split; auto.
  - eapply Forall2_trans; eauto using pevol_trans.
  - apply Forall_app. split; auto. exact (Forall2_Forall_pevol N n1 m2 C N1 G2).
Qed.

Lemma pgrow_length N ps ps' : pgrow N ps ps' -> length ps <= length ps'.
Proof.
  intros (o & n & -> & F & _). rewrite app_length. apply Forall2_length in F. lia.
Qed.

Lemma pgrow_old N ps ps' i a :
  pgrow N ps ps' -> nth_error ps i = Some a -> exists b, nth_error ps' i = Some b /\ pevol a b.
Proof.
  intros (o & n & -> & F & _) E. destruct (Forall2_nth _ _ _ _ _ F E) as (b & Eb & R).
  exists b. split; auto. rewrite nth_error_app1; auto. apply nth_error_Some. congruence.
Qed.

Lemma pgrow_old_r N ps ps' i b :
  pgrow N ps ps' -> nth_error ps' i = Some b -> i < length ps ->
  exists a, nth_error ps i = Some a /\ pevol a b.
Proof.
  intros (o & n & -> & F & _) E L. pose proof (Forall2_length F) as Len.
  rewrite nth_error_app1 in E by lia. eapply Forall2_nth_r; eauto.
Qed.

Lemma pgrow_new N ps ps' i b :
  pgrow N ps ps' -> nth_error ps' i = Some b -> length ps <= i -> N b.
Proof.
  intros (o & n & -> & F & Nn) E L. pose proof (Forall2_length F) as Len.
  rewrite nth_error_app2 in E by lia. apply nth_error_In in E.
  rewrite Forall_forall in Nn. auto.
Qed.

Lemma pgrow_weaken (N N' : promise -> Prop) ps ps' :
  (forall a, N a -> N' a) -> pgrow N ps ps' -> pgrow N' ps ps'.
Proof.
  intros W (o & n & -> & F & Nn). exists o, n. repeat split; auto.
  eapply Forall_impl; eauto.
Qed.

(** ** live promises: created and not yet received by the executor *)
Definition live (s : st) (i : nat) : Prop :=
  exists pr, nth_error (s_proms s) i = Some pr /\ p_st pr <> PRecv.

Lemma live_lt s i : live s i -> i < length (s_proms s).
Proof. intros (pr & E & _). apply nth_error_Some. congruence. Qed.

Lemma pgrow_live_old N s s' i :
  pgrow N (s_proms s) (s_proms s') -> live s' i -> i < length (s_proms s) -> live s i.
Proof.
  intros G (b & E & Nb) L. destruct (pgrow_old_r _ _ _ _ _ G E L) as (a & Ea & (_ & _ & R)).
  exists a. split; auto. intros Hx. rewrite Hx in R. simpl in R.
  destruct (p_st b); simpl in R; try lia. congruence.
Qed.

(** ** step *)
Definition start_under (q : rpath) (e : event) : Prop := exists p, e = EStart (slice p) /\ ext q p.
Definition new_under (q : rpath) (pr : promise) : Prop := ext q (p_path pr).

Lemma new_under_pevol q a b : new_under q a -> pevol a b -> new_under q b.
Proof. unfold new_under. intros H (_ & -> & _). exact H. Qed.

Definition step (q : rpath) (s s' : st) : Prop :=
  (exists evs, s_evs s' = s_evs s ++ evs /\ Forall (start_under q) evs) /\
  pgrow (new_under q) (s_proms s) (s_proms s') /\
  s_round s' = s_round s.

Lemma step_refl q s : step q s s.
Proof.
  split; [|split]; auto using pgrow_refl. exists []. rewrite app_nil_r. auto.
Qed.

Lemma step_trans q s1 s2 s3 : step q s1 s2 -> step q s2 s3 -> step q s1 s3.
Proof.
  intros ((e1 & E1 & F1) & G1 & R1) ((e2 & E2 & F2) & G2 & R2). split; [|split].
  - exists (e1 ++ e2). rewrite E2, E1, app_assoc. split; auto. apply Forall_app; auto.
  - eapply pgrow_trans; eauto using new_under_pevol.
  - congruence.
Qed.

Lemma step_length q s s' : step q s s' -> length (s_proms s) <= length (s_proms s').
Proof. intros (_ & G & _). eapply pgrow_length; eauto. Qed.

Lemma step_live_old q s s' i : step q s s' -> live s' i -> i < length (s_proms s) -> live s i.
Proof. intros (_ & G & _). eapply pgrow_live_old; eauto. Qed.

Lemma step_add_err q e s : step q s (add_err e s).
Proof.
  split; [|split]; simpl; auto using pgrow_refl. exists []. rewrite app_nil_r. auto.
Qed.

Lemma step_add_ev q p s : ext q p -> step q s (add_ev (EStart (slice p)) s).
Proof.
  intros X. split; [|split]; simpl; auto using pgrow_refl.
  exists [EStart (slice p)]. split; auto. constructor; auto. exists p. auto.
Qed.

Lemma step_new_promise q t p s : ext q p -> step q s (snd (new_promise t p s)).
Proof.
  intros X. split; [|split]; simpl; auto.
  - exists []. rewrite app_nil_r. auto.
  - exists (s_proms s), [{| p_tag := t; p_path := p; p_st := POut |}].
    repeat split; auto using Forall2_pevol_refl.
Qed.

(** [upd_nth] facts *)
Lemma upd_nth_length {A} i (f : A -> A) l : length (upd_nth i f l) = length l.
Proof. revert i. induction l; intros [|i]; simpl; auto. Qed.

Lemma nth_upd_nth_same {A} i (f : A -> A) l a :
  nth_error l i = Some a -> nth_error (upd_nth i f l) i = Some (f a).
Proof.
  revert i. induction l; intros [|i] E; simpl in *; try discriminate; auto. congruence.
Qed.

Lemma nth_upd_nth_other {A} i j (f : A -> A) l :
  i <> j -> nth_error (upd_nth i f l) j = nth_error l j.
Proof.
  revert i j. induction l; intros [|i] [|j] N; simpl; auto; try congruence.
Qed.

Lemma Forall2_upd_nth (R : promise -> promise -> Prop) i f l :
  (forall a, R a a) -> (forall a, nth_error l i = Some a -> R a (f a)) ->
  Forall2 R l (upd_nth i f l).
Proof.
  intros Rr. assert (Rl : forall l, Forall2 R l l) by (induction l0; constructor; auto).
  revert i. induction l; intros [|i] H; simpl; constructor; auto.
Qed.

Lemma promise_poll_cases id ok s r s' :
  promise_poll id ok s = (r, s') ->
  (r = None /\ s' = s) \/
  (exists pr, nth_error (s_proms s) id = Some pr /\ p_st pr = PSent /\
              r = Some (if ok then ROk GUnit else RErr (mkerr [] KRaw)) /\
              s' = with_proms (upd_nth id (set_pst PRecv) (s_proms s)) s).
Proof.
  unfold promise_poll. destruct (nth_error (s_proms s) id) as [pr|] eqn:E.
  - destruct (p_st pr) eqn:P; intros H; injection H as <- <-; auto.
    right. exists pr. auto.
  - intros H; injection H as <- <-; auto.
Qed.

Lemma step_promise_poll q id ok s r s' : promise_poll id ok s = (r, s') -> step q s s'.
Proof.
  intros H. apply promise_poll_cases in H as [[_ ->]|(pr & E & P & _ & ->)]; auto using step_refl.
  split; [|split]; simpl; auto.
  - exists []. rewrite app_nil_r. auto.
  - exists (upd_nth id (set_pst PRecv) (s_proms s)), []. rewrite app_nil_r. repeat split; auto.
    apply Forall2_upd_nth; auto using pevol_refl.
    intros a Ea. rewrite E in Ea. injection Ea as <-. repeat split; simpl; auto.
    rewrite P. simpl. lia.
Qed.

(** ** wstep: step plus idle rounds *)
(** the event fulfils a promise of [s'] that is new or was live in [s] *)
Definition fulfil_of (s s' : st) (e : event) : Prop :=
  exists i pr, nth_error (s_proms s') i = Some pr /\ e = EFulfil (slice (p_path pr)) /\
               (i < length (s_proms s) -> live s i).

Definition wstep (q : rpath) (s s' : st) : Prop :=
  (exists evs, s_evs s' = s_evs s ++ evs /\ Forall (fun e => start_under q e \/ fulfil_of s s' e) evs) /\
  pgrow (new_under q) (s_proms s) (s_proms s').

Lemma step_wstep q s s' : step q s s' -> wstep q s s'.
Proof.
  intros ((evs & E & F) & G & _). split; auto. exists evs. split; auto.
  eapply Forall_impl; [|exact F]. auto.
Qed.

Lemma wstep_refl q s : wstep q s s.
Proof. apply step_wstep, step_refl. Qed.

Lemma wstep_live_old q s s' i : wstep q s s' -> live s' i -> i < length (s_proms s) -> live s i.
Proof. intros (_ & G). eapply pgrow_live_old; eauto. Qed.

Lemma wstep_trans q s1 s2 s3 : wstep q s1 s2 -> wstep q s2 s3 -> wstep q s1 s3.
Proof.
  intros ((e1 & E1 & F1) & G1) ((e2 & E2 & F2) & G2).
  assert (G13 : pgrow (new_under q) (s_proms s1) (s_proms s3))
    by (eapply pgrow_trans; eauto using new_under_pevol).
  split; auto.
  exists (e1 ++ e2). rewrite E2, E1, app_assoc. split; auto. apply Forall_app. split.
  - eapply Forall_impl; [|exact F1]. intros e [H|(i & pr & En & -> & L)]; auto. right.
    destruct (pgrow_old _ _ _ _ _ G2 En) as (b & Eb & (_ & Pb & _)).
    exists i, b. rewrite Pb. auto.
  - eapply Forall_impl; [|exact F2]. intros e [H|(i & pr & En & -> & L)]; auto. right.
    exists i, pr. repeat split; auto. intros Li.
    pose proof (pgrow_length _ _ _ G1).
    apply (pgrow_live_old _ s1 s2 i G1); auto. apply L. lia.
Qed.
