(** * Serial/SerialSpec.v — what C11 demands, written from the property text (GraphQL June 2018
    section 6.2.2 "Mutation": "the root fields are executed serially"; 6.3.1 "Serial execution").
    Does not mention futures or the executor: it speaks about the global resolver log (an event per
    resolver start and per promise fulfilment, keyed by response path), the root response keys
    k1..kn of the mutation in document order, and the root result map.  Executable: it is also the
    oracle run on the implementation's log in every case. *)
From Coq Require Import List NArith ZArith Bool.
From ApiFu Require Import Base.Sexp Serial.SerialPlan.
Import ListNotations.

Definition ev_path (e : event) : list pelem :=
  match e with EStart p => p | EFulfil p => p end.
Definition is_fulfil (e : event) : bool :=
  match e with EFulfil _ => true | EStart _ => false end.

(** position of a response key among the root keys *)
Fixpoint key_index (keys : list bytes) (k : bytes) : option nat :=
  match keys with
  | [] => None
  | x :: tl => if bytes_eqb x k then Some 0
               else match key_index tl k with Some i => Some (S i) | None => None end
  end.

(** the root field an event belongs to: the first component of its response path *)
Definition ev_index (keys : list bytes) (e : event) : option nat :=
  match ev_path e with
  | PKey k :: _ => key_index keys k
  | _ => None
  end.

(** ** The order the property demands.
    [Serial keys log]: every event under k_i precedes every event under k_j for i < j, i.e.
    whenever e1 occurs before e2 in the log, e1's root field is not a later one than e2's. *)
Definition Serial (keys : list bytes) (log : list event) : Prop :=
  forall l1 e1 l2 e2 l3, log = l1 ++ e1 :: l2 ++ e2 :: l3 ->
    exists i j, ev_index keys e1 = Some i /\ ev_index keys e2 = Some j /\ i <= j.

(** [SerialStarts keys log]: the same for resolver starts — the only events that may come after an
    event of a later root field are promise fulfilments. *)
Definition SerialStarts (keys : list bytes) (log : list event) : Prop :=
  forall l1 e1 l2 e2 l3, log = l1 ++ e1 :: l2 ++ e2 :: l3 ->
    exists i j, ev_index keys e1 = Some i /\ ev_index keys e2 = Some j /\
                (i <= j \/ is_fulfil e2 = true).

(** executable form: walk the log remembering the latest root field seen so far *)
Fixpoint serial_from (strict : bool) (keys : list bytes) (cur : nat) (log : list event) : bool :=
  match log with
  | [] => true
  | e :: tl =>
      match ev_index keys e with
      | None => false
      | Some i =>
          if Nat.leb cur i then serial_from strict keys i tl
          else negb strict && is_fulfil e && serial_from strict keys cur tl
      end
  end.
Definition strict_serial (keys : list bytes) (log : list event) : bool := serial_from true keys 0 log.
Definition weak_serial (keys : list bytes) (log : list event) : bool := serial_from false keys 0 log.

(** ** The response lists the root fields in document order *)
(** [slots]: the key of every item of the root result map, in the order the response lists them
    ([None] = an item that was never set) *)
Definition KeysInOrder (keys : list bytes) (slots : list (option bytes)) : Prop :=
  slots = map Some keys.
Fixpoint okeys_eqb (a : list (option bytes)) (b : list bytes) : bool :=
  match a, b with
  | [], [] => true
  | Some x :: a', y :: b' => bytes_eqb x y && okeys_eqb a' b'
  | _, _ => false
  end.
Definition keys_in_order (keys : list bytes) (slots : list (option bytes)) : bool :=
  okeys_eqb slots keys.

(** ** Abandoned promises.
    When a field whose type is non-null fails, the error travels to the enclosing nullable
    position and the futures of the siblings on the way are dropped ([After]/[Join] answer at the
    first error; executeSelections returns at the first failing ready field).  A promise beneath a
    dropped sibling is *abandoned*: the executor never receives from its channel, and the root
    field completes while it is still outstanding.  [calm] says that this cannot happen: no
    non-null position of the plan fails. *)
Definition solid (v : vplan) : bool :=
  match v with VNull | VBad => false | _ => true end.

Fixpoint calm_v (v : vplan) : bool :=
  match v with
  | VList inn items =>
      (fix go (l : list vplan) : bool :=
         match l with
         | [] => true
         | x :: tl => calm_v x && (negb inn || solid x) && go tl
         end) items
  | VObj fields =>
      (fix go (l : list (bytes * fplan)) : bool :=
         match l with
         | [] => true
         | (_, f) :: tl => calm_f f && go tl
         end) fields
  | _ => true
  end
with calm_f (f : fplan) : bool :=
  match f with
  | FP _ nn None => negb nn
  | FP _ nn (Some v) => calm_v v && (negb nn || solid v)
  | FTypename => true
  end.
Definition calm (root : selset) : bool := calm_v (VObj root).

(** the exclusion of the strict theorem (known finding "abandoned-promise") *)
Definition excl_abandoned_promise (root : selset) : bool := negb (calm root).

(** ** Schedules *)
(** a scheduler is fair when it never lets an idle round pass without fulfilling an outstanding
    promise (the obligation the documentation of ResolvePromise puts on the idle handler) *)
Definition fair (sigma : sched) : Prop :=
  forall n out, out <> [] -> exists id, In id (sigma n out) /\ In id (map fst out).

(** ** Side effects.  Every event is a side effect on the state the resolvers share (the harness
    resolvers increment a shared counter when they start and when their promise is fulfilled, and
    read it first).  [effects_before keys j log]: how many side effects of root fields earlier
    than k_j the log contains.  [ObservesPredecessors]: at the moment any event of root field k_j
    happens, the shared state already contains EVERY side effect the earlier root fields will
    ever have — the prefix of the log before the event has as many of them as the whole log. *)
Definition earlier_than (keys : list bytes) (j : nat) (e : event) : bool :=
  match ev_index keys e with Some i => Nat.ltb i j | None => false end.
Definition effects_before (keys : list bytes) (j : nat) (log : list event) : nat :=
  length (filter (earlier_than keys j) log).
Definition ObservesPredecessors (keys : list bytes) (log : list event) : Prop :=
  forall l1 e l2 j, log = l1 ++ e :: l2 -> ev_index keys e = Some j ->
    effects_before keys j l1 = effects_before keys j log.
