(** * Serial/SerialCheck.v — C11 correspondence: decode a case, apply the Spec oracle to what the
    implementation did, run the model under the case's schedule, compare.  Executable only
    (extracted / vm_compute). *)
From Coq Require Import List NArith ZArith Bool String.
From ApiFu Require Import Base.Sexp Serial.SerialPlan Serial.SerialFuture Serial.SerialModel Serial.SerialSpec.
Import ListNotations.
Open Scope string_scope.

(** ** Decoding *)
Fixpoint dec_v (s : sexp) {struct s} : option vplan :=
  match s with
  | SSym x => if String.eqb x "null" then Some VNull else if String.eqb x "bad" then Some VBad else None
  | SL (SSym t :: args) =>
      if String.eqb t "leaf" then
        match args with [SZ z] => Some (VLeaf z) | _ => None end
      else if String.eqb t "list" then
        match args with
        | nn :: items =>
            match as_bool nn,
                  (fix go (l : list sexp) : option (list vplan) :=
                     match l with
                     | [] => Some []
                     | x :: tl => match dec_v x, go tl with
                                  | Some v, Some vs => Some (v :: vs)
                                  | _, _ => None
                                  end
                     end) items with
            | Some b, Some vs => Some (VList b vs)
            | _, _ => None
            end
        | _ => None
        end
      else if String.eqb t "obj" then
        match (fix go (l : list sexp) : option (list (bytes * fplan)) :=
                 match l with
                 | [] => Some []
                 | SL [SStr k; f] :: tl => match dec_f f, go tl with
                                           | Some fp, Some fs => Some ((k, fp) :: fs)
                                           | _, _ => None
                                           end
                 | _ => None
                 end) args with
        | Some fs => Some (VObj fs)
        | None => None
        end
      else None
  | _ => None
  end
with dec_f (s : sexp) {struct s} : option fplan :=
  match s with
  | SSym x => if String.eqb x "typename" then Some FTypename else None
  | SL [SSym f; tg; nn; res] =>
      if String.eqb f "f" then
        match (if is_sym "none" tg then Some None else match as_N tg with Some n => Some (Some n) | None => None end),
              as_bool nn,
              (if is_sym "err" res then Some None else match dec_v res with Some v => Some (Some v) | None => None end) with
        | Some t, Some b, Some r => Some (FP t b r)
        | _, _, _ => None
        end
      else None
  | _ => None
  end.

Definition dec_sel (s : sexp) : option selset :=
  match s with
  | SL l => match dec_v (SL (SSym "obj" :: l)) with Some (VObj fs) => Some fs | _ => None end
  | _ => None
  end.

Definition dec_pelem (s : sexp) : option pelem :=
  match s with
  | SStr k => Some (PKey k)
  | SZ z => if Z.ltb z 0 then None else Some (PIdx (Z.to_nat z))
  | _ => None
  end.
Definition dec_path (s : sexp) : option (list pelem) := as_list_of dec_pelem s.

(** an event together with the value of the shared counter its resolver read *)
Definition dec_event (s : sexp) : option (event * nat) :=
  match untag s with
  | Some (t, [p; n]) =>
      match dec_path p, as_nat n with
      | Some pp, Some nn => if String.eqb t "start" then Some (EStart pp, nn)
                            else if String.eqb t "fulfil" then Some (EFulfil pp, nn) else None
      | _, _ => None
      end
  | _ => None
  end.

(** every side effect increments the shared counter: the values read are 0, 1, 2, ... *)
Fixpoint counter_ok (i : nat) (l : list nat) : bool :=
  match l with
  | [] => true
  | n :: tl => Nat.eqb n i && counter_ok (S i) tl
  end.

(** the kind of a root value: what the model tracks *)
Definition dec_kind (s : sexp) : option gval :=
  match s with
  | SSym x => if String.eqb x "null" then Some GNil
              else if String.eqb x "list" then Some GList
              else if String.eqb x "str" then Some GStr
              else if String.eqb x "obj" then Some GObj else None
  | SL [SSym t; SZ z] => if String.eqb t "int" then Some (GInt z) else None
  | _ => None
  end.

Definition dec_entry (s : sexp) : option (bytes * gval) :=
  match s with
  | SL [SStr k; v] => match dec_kind v with Some g => Some (k, g) | None => None end
  | _ => None
  end.

Record obs := {
  o_status : string;
  o_data : option (list (bytes * gval));   (* None = null; root entries in response order *)
  o_rounds : nat;
  o_events : list event
}.

Definition dec_data (s : sexp) : option (option (list (bytes * gval))) :=
  if is_sym "null" s then Some None
  else match as_list_of dec_entry s with Some l => Some (Some l) | None => None end.

Definition dec_obs (s : sexp) : option obs :=
  match tagged "obs" s with
  | Some l =>
      match field1 "status" l, field1 "rounds" l, field "events" l with
      | Some (SSym stt), Some r, Some evs =>
          match as_nat r, map_opt dec_event evs with
          | Some rr, Some esn =>
              let es := map fst esn in
              if negb (counter_ok 0 (map snd esn)) then None else
              if String.eqb stt "ok" then
                match field1 "data" l with
                | Some d =>
                    match dec_data d with
                    | Some dd => Some {| o_status := stt; o_data := dd; o_rounds := rr; o_events := es |}
                    | None => None
                    end
                | None => None
                end
              else Some {| o_status := stt; o_data := None; o_rounds := rr; o_events := es |}
          | _, _ => None
          end
      | _, _, _ => None
      end
  | None => None
  end.

Definition dec_mode (s : sexp) : option mode :=
  if is_sym "query" s then Some Query else if is_sym "mutation" s then Some Mutation else None.

Record tcase := { c_mode : mode; c_plan : selset; c_ranks : list nat; c_idle : bool; c_feat : list string; c_obs : obs }.

Definition dec_case (c : sexp) : option tcase :=
  match tagged "case" c with
  | Some l =>
      match field1 "mode" l, field1 "plan" l, field1 "ranks" l, field "obs" l, field1 "idle" l, field "feat" l with
      | Some m, Some p, Some r, Some o, Some ih, Some ft =>
          match dec_mode m, dec_sel p, as_list_of as_nat r, dec_obs (SL (SSym "obs" :: o)), as_bool ih, map_opt as_sym ft with
          | Some mm, Some pp, Some rr, Some oo, Some ii, Some ff =>
              Some {| c_mode := mm; c_plan := pp; c_ranks := rr; c_idle := ii; c_feat := ff; c_obs := oo |}
          | _, _, _, _, _, _ => None
          end
      | _, _, _, _, _, _ => None
      end
  | None => None
  end.

(** ** Equalities *)
Definition pelem_eqb (a b : pelem) : bool :=
  match a, b with
  | PKey x, PKey y => bytes_eqb x y
  | PIdx x, PIdx y => Nat.eqb x y
  | _, _ => false
  end.
Fixpoint path_eqb (a b : list pelem) : bool :=
  match a, b with
  | [], [] => true
  | x :: xs, y :: ys => pelem_eqb x y && path_eqb xs ys
  | _, _ => false
  end.
Definition event_eqb (a b : event) : bool :=
  match a, b with
  | EStart p, EStart q => path_eqb p q
  | EFulfil p, EFulfil q => path_eqb p q
  | _, _ => false
  end.
Fixpoint events_eqb (a b : list event) : bool :=
  match a, b with
  | [], [] => true
  | x :: xs, y :: ys => event_eqb x y && events_eqb xs ys
  | _, _ => false
  end.
Definition gval_eqb (a b : gval) : bool :=
  match a, b with
  | GNil, GNil | GList, GList | GObj, GObj | GUnit, GUnit | GStr, GStr => true
  | GInt x, GInt y => Z.eqb x y
  | _, _ => false
  end.
(** model slots against the implementation's root entries *)
Fixpoint root_eqb (m : list (option (bytes * gval))) (o : list (bytes * gval)) : bool :=
  match m, o with
  | [], [] => true
  | Some (k, v) :: m', (k', v') :: o' => bytes_eqb k k' && gval_eqb v v' && root_eqb m' o'
  | _, _ => false
  end.

Definition of_path (p : list pelem) : sexp :=
  SL (map (fun e => match e with PKey k => SStr k | PIdx i => of_nat i end) p).
Definition of_event (e : event) : sexp :=
  match e with EStart p => tag "start" [of_path p] | EFulfil p => tag "fulfil" [of_path p] end.

(** ** The oracle: what C11 demands of the implementation's output on a mutation *)
Definition oracle (c : tcase) : option sexp :=
  let o := c_obs c in
  match c_mode c with
  | Query => None          (* the property does not speak about queries *)
  | Mutation =>
      let keys := map fst (c_plan c) in
      if negb (String.eqb (o_status o) "ok") then Some (v_oracle_fail (o_status o) [])
      else if negb (strict_serial keys (o_events o)) then
        (* classify: only fulfilments of promises come late, and the plan can abandon promises *)
        if weak_serial keys (o_events o) && excl_abandoned_promise (c_plan c)
        then Some (v_oracle_fail "abandoned-promise" [])
        else Some (v_oracle_fail "serial-order" [])
      else match o_data o with
           | Some entries =>
               if keys_in_order keys (map (fun kv => Some (fst kv)) entries) then None
               else Some (v_oracle_fail "root-key-order" [])
           | None => None
           end
  end.

(** ** Evidence classes (computed from the plan, the schedule and the implementation's log) *)
Fixpoint has_async_v (v : vplan) {struct v} : bool :=
  match v with
  | VList _ items => (fix go (l : list vplan) : bool := match l with [] => false | x :: tl => has_async_v x || go tl end) items
  | VObj fs => (fix go (l : list (bytes * fplan)) : bool :=
                  match l with [] => false | (_, f) :: tl => has_async_f f || go tl end) fs
  | _ => false
  end
with has_async_f (f : fplan) {struct f} : bool :=
  match f with
  | FP (Some _) _ _ => true
  | FP None _ (Some v) => has_async_v v
  | FP None _ None => false
  | FTypename => false
  end.

Definition nested_async (f : fplan) : bool :=
  match f with FP _ _ (Some v) => has_async_v v | _ => false end.

(** some root field other than the last has a promise strictly beneath it *)
Fixpoint earlier_nested (l : selset) : bool :=
  match l with
  | [] | [_] => false
  | (_, f) :: tl => nested_async f || earlier_nested tl
  end.

Definition distinct_ranks (l : list nat) : bool :=
  match l with
  | [] => false
  | r :: tl => existsb (fun x => negb (Nat.eqb x r)) tl
  end.

Definition classes (c : tcase) : list string :=
  let root := c_plan c in
  let keys := map fst root in
  let o := c_obs c in
  (match c_mode c with Mutation => ["mutation"] | Query => ["query"] end) ++
  (if has_async_v (VObj root) then ["async"] else ["sync-only"]) ++
  (if existsb (fun kf => nested_async (snd kf)) root then ["nested-async"] else []) ++
  (if distinct_ranks (c_ranks c) then ["several-ranks"] else []) ++
  (if Nat.leb 2 (o_rounds o) then ["several-rounds"] else []) ++
  (if Nat.leb 3 (List.length root) then ["three-or-more-roots"] else []) ++
  c_feat c ++
  (if existsb (fun kf => match snd kf with FTypename => true | _ => false end) root then ["root-typename"] else []) ++
  (if c_idle c then [] else if has_async_v (VObj root) then ["no-idle-handler-with-promises"] else ["no-idle-handler"]) ++
  (if excl_abandoned_promise root then ["non-null-failure"] else ["calm"]) ++
  (match o_data o with None => ["data-null"] | Some _ => [] end) ++
  (match c_mode c with
   | Query => if strict_serial keys (o_events o) then [] else ["query-interleaves"]
   | Mutation => if earlier_nested root then ["nontrivial"] else []
   end).

(** the apifu route (apifu.Go goroutines): the order of events within a root field is decided by
    the Go scheduler; compared as multisets *)
Fixpoint remove_event (e : event) (l : list event) : option (list event) :=
  match l with
  | [] => None
  | x :: tl => if event_eqb e x then Some tl
               else match remove_event e tl with Some r => Some (x :: r) | None => None end
  end.
Fixpoint events_perm (a b : list event) : bool :=
  match a with
  | [] => match b with [] => true | _ => false end
  | e :: tl => match remove_event e b with Some b' => events_perm tl b' | None => false end
  end.
Definition is_api (c : tcase) : bool := existsb (String.eqb "apifu-go") (c_feat c).

(** ** check *)
Definition check_case (c : tcase) : sexp :=
  let root := c_plan c in
  let o := c_obs c in
  match oracle c with
  | Some v => v
  | None =>
      let fuel := S (count_async root) in
      match run (if c_idle c then Some (sigma_ranks (c_ranks c)) else None) (c_mode c) fuel root with
      | Done r =>
          if is_api c && calm root && negb (events_perm (r_events r) (o_events o))
          then v_mismatch "events-multiset" [of_list of_event (r_events r)]
          else if negb (is_api c) && negb (events_eqb (r_events r) (o_events o))
          then v_mismatch "events" [of_list of_event (r_events r)]
          else if negb (is_api c) && negb (Nat.eqb (r_rounds r) (o_rounds o)) then v_mismatch "rounds" [of_nat (r_rounds r)]
          else if negb (Bool.eqb (r_null r) (match o_data o with None => true | Some _ => false end))
               then v_mismatch "data-null" [of_bool (r_null r)]
          else if match c_mode c, o_data o with
                  | Mutation, Some entries => negb (root_eqb (r_root r) entries)
                  | _, _ => false
                  end then v_mismatch "root-entries" []
          else v_ok (classes c)
      | Stuck _ => v_mismatch "model-stuck" []
      | OutOfFuel _ => v_mismatch "model-out-of-fuel" []
      end
  end.

Definition check (c : sexp) : sexp :=
  match dec_case c with
  | Some tc => check_case tc
  | None => v_bad "decode"
  end.
