(** * Serial/SerialLive.v — liveness invariant of the futures (proofs for C11, part 5).

    [T n c]: the closure [c] can create at most [n] further promises; every callback inside it
    leaves the existing promises alone (a continuation only appends outstanding promises, all of
    them awaited by the future it returns); the elements of every Join / After await pairwise
    disjoint promises.
    Main lemma [live_all]: invoking such a closure in a state where everything it awaits is live
    (created, not yet received) only receives from sent channels and appends outstanding promises;
    the number created is covered by [n] and what is left has the remaining potential; what is
    left awaits only promises that were awaited before or are new, ALL of them outstanding (not
    yet sent), and at least one if it is still pending; live promises it does not await stay
    live. *)
From Coq Require Import List Arith NArith ZArith Bool Lia.
From ApiFu Require Import Base.Sexp Serial.SerialPlan Serial.SerialFuture Serial.SerialModel
     Serial.SerialStep Serial.SerialGood.
Import ListNotations.

(** ** promise lists under invoke / build *)
Definition evol1 (a b : promise) : Prop :=
  p_tag b = p_tag a /\ p_path b = p_path a /\
  (p_st b = p_st a \/ (p_st a = PSent /\ p_st b = PRecv)).

Definition is_out (pr : promise) : Prop := p_st pr = POut.

Definition pstep (ps ps' : list promise) : Prop :=
  exists old new, ps' = old ++ new /\ Forall2 evol1 ps old /\ Forall is_out new.

Lemma evol1_refl a : evol1 a a.
Proof. repeat split; auto. Qed.
Lemma evol1_trans a b c : evol1 a b -> evol1 b c -> evol1 a c.
Proof.
  intros (A1 & A2 & A3) (B1 & B2 & B3). repeat split; try congruence.
  destruct A3 as [A3|[A3 A4]], B3 as [B3|[B3 B4]]; try (left; congruence); try (right; split; congruence).
Qed.
Lemma Forall2_evol1_refl l : Forall2 evol1 l l.
Proof. induction l; constructor; auto using evol1_refl. Qed.

Lemma pstep_refl ps : pstep ps ps.
Proof. exists ps, []. rewrite app_nil_r. repeat split; auto using Forall2_evol1_refl. Qed.

Lemma is_out_evol1 a b : is_out a -> evol1 a b -> is_out b.
Proof. unfold is_out. intros H (_ & _ & [E|[E _]]); congruence. Qed.

Lemma pstep_trans a b c : pstep a b -> pstep b c -> pstep a c.
Proof.
  intros (o1 & n1 & -> & F1 & N1) (o2 & n2 & -> & F2 & N2).
  apply Forall2_app_inv_l' in F2 as (m1 & m2 & -> & G1 & G2).
  exists m1, (m2 ++ n2). rewrite app_assoc. repeat split; auto.
  - eapply Forall2_trans; eauto using evol1_trans.
  - apply Forall_app. split; auto. clear -N1 G2. induction G2; inversion N1; subst; constructor; eauto using is_out_evol1.
Qed.

Lemma pstep_app ps new : Forall is_out new -> pstep ps (ps ++ new).
Proof. intros H. exists ps, new. repeat split; auto using Forall2_evol1_refl. Qed.

Lemma pstep_length a b : pstep a b -> length a <= length b.
Proof. intros (o & n & -> & F & _). rewrite app_length, (Forall2_length F). lia. Qed.

Definition out (s : st) (i : nat) : Prop := exists pr, nth_error (s_proms s) i = Some pr /\ p_st pr = POut.

Lemma out_live s i : out s i -> live s i.
Proof. intros (pr & E & P). exists pr. split; auto. congruence. Qed.
Lemma out_lt s i : out s i -> i < length (s_proms s).
Proof. intros H. apply live_lt, out_live. exact H. Qed.

Lemma pstep_old a b i x :
  pstep a b -> nth_error a i = Some x -> exists y, nth_error b i = Some y /\ evol1 x y.
Proof.
  intros (o & n & -> & F & _) E. destruct (Forall2_nth _ _ _ _ _ F E) as (y & Ey & R).
  exists y. split; auto. rewrite nth_error_app1; auto. apply nth_error_Some. congruence.
Qed.

Lemma pstep_old_r a b i y :
  pstep a b -> nth_error b i = Some y -> i < length a -> exists x, nth_error a i = Some x /\ evol1 x y.
Proof.
  intros (o & n & -> & F & _) E L. pose proof (Forall2_length F) as Len.
  rewrite nth_error_app1 in E by lia. eapply Forall2_nth_r; eauto.
Qed.

Lemma pstep_new a b i y : pstep a b -> nth_error b i = Some y -> length a <= i -> is_out y.
Proof.
  intros (o & n & -> & F & Nn) E L. pose proof (Forall2_length F) as Len.
  rewrite nth_error_app2 in E by lia. apply nth_error_In in E. rewrite Forall_forall in Nn. auto.
Qed.

Lemma pstep_out s s' i : pstep (s_proms s) (s_proms s') -> out s i -> out s' i.
Proof.
  intros P (x & E & O). destruct (pstep_old _ _ _ _ P E) as (y & Ey & R).
  exists y. split; auto. eapply is_out_evol1; eauto.
Qed.

Lemma pstep_live_old s s' i :
  pstep (s_proms s) (s_proms s') -> live s' i -> i < length (s_proms s) -> live s i.
Proof.
  intros P (y & E & N) L. destruct (pstep_old_r _ _ _ _ P E L) as (x & Ex & (_ & _ & R)).
  exists x. split; auto. destruct R as [R|[R R']]; congruence.
Qed.

(** number of outstanding promises *)
Fixpoint outc_l (ps : list promise) : nat :=
  match ps with
  | [] => 0
  | pr :: tl => (match p_st pr with POut => 1 | _ => 0 end) + outc_l tl
  end.
Definition outc (s : st) : nat := outc_l (s_proms s).

Lemma outc_l_app a b : outc_l (a ++ b) = outc_l a + outc_l b.
Proof. induction a; simpl; auto. rewrite IHa. lia. Qed.
Lemma outc_l_le_length a : outc_l a <= length a.
Proof. induction a as [|x tl IH]; simpl; auto. destruct (p_st x); lia. Qed.
Lemma outc_l_evol1 a b : Forall2 evol1 a b -> outc_l b <= outc_l a.
Proof.
  induction 1 as [|x y l l' R F IH]; simpl; auto.
  destruct R as (_ & _ & [R|[R R']]); [rewrite R; lia|rewrite R, R'; lia].
Qed.
Lemma pstep_outc a b : pstep a b -> outc_l b <= outc_l a + (length b - length a).
Proof.
  intros (o & n & -> & F & N). rewrite outc_l_app, app_length, (Forall2_length F).
  pose proof (outc_l_evol1 _ _ F). pose proof (outc_l_le_length n). lia.
Qed.

(** ** the predicate *)
Definition created (s s' : st) : nat := length (s_proms s') - length (s_proms s).

(** what a continuation may do: append outstanding promises, all awaited by the future returned *)
Definition kpost (s : st) (t : fut) (s' : st) : Prop :=
  (exists new, s_proms s' = s_proms s ++ new /\ Forall is_out new) /\
  (forall i, AwaitsF t i -> length (s_proms s) <= i < length (s_proms s')).

Inductive T : nat -> clo -> Prop :=
| T_prom k id ok n :
    (forall s t s', k (prom_res ok) s = (t, s') -> TF (n - created s s') t) ->
    (forall s t s', k (prom_res ok) s = (t, s') -> kpost s t s' /\ created s s' <= n) ->
    T n (CThen k (CNew (promise_poll id ok)) None)
| T_then_some k c t n : TF n t -> T n (CThen k c (Some t))
| T_map fn c n : T n c -> (forall r s, s_proms (snd (fn r s)) = s_proms s) -> T n (CMap fn c)
| T_mapok fn c n : T n c -> (forall v s, s_proms (snd (fn v s)) = s_proms s) -> T n (CMapOk fn c)
| T_toany c n : T n c -> T n (CMapOkToAny c)
| T_okvalue v c n : T n c -> T n (CMapOkValue v c)
| T_join fs n : TL n fs -> T n (CJoin fs)
| T_after fs n : TL n fs -> T n (CAfter fs)
| T_sub n m c : n <= m -> T n c -> T m c
with TF : nat -> fut -> Prop :=
| TF_ready n r : TF n (Ready r)
| TF_pending n c : T n c -> TF n (Pending c)
with TL : nat -> list fut -> Prop :=
| TL_nil : TL 0 []
| TL_cons a b f fs :
    TF a f -> TL b fs -> (forall i, AwaitsF f i -> ~ AwaitsL fs i) -> TL (a + b) (f :: fs)
| TL_sub n m fs : n <= m -> TL n fs -> TL m fs.

Scheme T_mind := Minimality for T Sort Prop
  with TF_mind := Minimality for TF Sort Prop
  with TL_mind := Minimality for TL Sort Prop.
Combined Scheme T_all_ind from T_mind, TF_mind, TL_mind.

Lemma TF_sub n m f : n <= m -> TF n f -> TF m f.
Proof. intros L H. inversion H; subst; constructor. eapply T_sub; eauto. Qed.

Lemma TF_pending_inv n c : TF n (Pending c) -> T n c.
Proof. intros H. inversion H; auto. Qed.

(** ** the statements *)
Definition awl_c (c : clo) (s : st) : Prop := forall i, Awaits c i -> live s i.
Definition awl_f (f : fut) (s : st) : Prop := forall i, AwaitsF f i -> live s i.
Definition awl_l (fs : list fut) (s : st) : Prop := forall i, AwaitsL fs i -> live s i.

Record post (n : nat) (aw : nat -> Prop) (f' : fut) (s s' : st) : Prop := {
  po_step : pstep (s_proms s) (s_proms s');
  po_cr : created s s' <= n;
  po_T : TF (n - created s s') f';
  po_M : forall i, AwaitsF f' i -> aw i \/ length (s_proms s) <= i;
  po_F : forall i, live s i -> ~ aw i -> live s' i;
  po_L : forall i, AwaitsF f' i -> out s' i;
  po_N : forall c', f' = Pending c' -> exists i, Awaits c' i
}.

Definition PT (n : nat) (c : clo) : Prop :=
  forall s c' r s', awl_c c s -> invoke c s = (c', r, s') ->
    post n (Awaits c) (res_fut c' r) s s'.

Definition PTF (n : nat) (f : fut) : Prop :=
  forall s f' s', awl_f f s -> poll f s = (f', s') -> post n (AwaitsF f) f' s s'.

Definition all_ready (fs : list fut) : Prop := forall i, ~ AwaitsL fs i.

Definition PTL (n : nat) (fs : list fut) : Prop :=
  forall ok s fs' o s', awl_l fs s -> all_loop invoke fs ok s = (fs', o, s') ->
    pstep (s_proms s) (s_proms s') /\
    created s s' <= n /\
    TL (n - created s s') fs' /\
    (forall i, AwaitsL fs' i -> AwaitsL fs i \/ length (s_proms s) <= i) /\
    (forall i, live s i -> ~ AwaitsL fs i -> live s' i) /\
    (o = LNotYet -> forall i, AwaitsL fs' i -> out s' i) /\
    (o = LNotYet -> ok = true -> exists i, AwaitsL fs' i) /\
    (o = LAllOk -> all_ready fs').

Lemma created_refl s : created s s = 0.
Proof. unfold created. lia. Qed.

Lemma same_proms_post n aw f' s s1 s2 :
  post n aw f' s s1 -> s_proms s2 = s_proms s1 -> post n aw f' s s2.
Proof.
  intros [A B C D E F G] Ep. constructor; unfold created, live, out in *; try rewrite Ep; auto.
Qed.

Lemma post_weaken_aw n (aw aw' : nat -> Prop) f' s s' :
  (forall i, aw i -> aw' i) -> (forall i, aw' i -> aw i) -> post n aw f' s s' -> post n aw' f' s s'.
Proof.
  intros H1 H2 [A B C D E F G]. constructor; auto;
    try (intros i Hi; destruct (D i Hi); auto); try (intros i L N; apply E; auto).
Qed.

Lemma P_PTF n c : PT n c -> PTF n (Pending c).
Proof.
  intros H s f' s' Aw E. unfold poll, poll_with in E.
  destruct (invoke c s) as [[c1 r] s1] eqn:Ei. injection E as <- <-.
  assert (Aw' : awl_c c s) by (intros i Hi; apply Aw; constructor; auto).
  pose proof (H _ _ _ _ Aw' Ei) as P.
  assert (X : res_fut c1 r = match r with Some x => Ready x | None => Pending c1 end) by reflexivity.
  rewrite <- X. eapply post_weaken_aw; [| |exact P].
  - intros i Hi. constructor. exact Hi.
  - intros i Hi. apply AwaitsF_pending_inv. exact Hi.
Qed.

Lemma awaits_ready_false r i (P : Prop) : AwaitsF (Ready r) i -> P.
Proof. intros H. exfalso. eapply AwaitsF_ready; eauto. Qed.

Lemma post_ready n aw r s : post n aw (Ready r) s s.
Proof.
  constructor; rewrite ?created_refl; auto using pstep_refl; try lia.
  - constructor.
  - intros i H. eapply awaits_ready_false; eauto.
  - intros i H. eapply awaits_ready_false; eauto.
  - intros c' E. discriminate.
Qed.

(** wrap the result of an inner closure: same awaited promises, same state *)
Lemma post_wrap n (aw : nat -> Prop) c1 r s s' (wrap : clo -> clo) r' :
  post n aw (res_fut c1 r) s s' ->
  (forall c0 m, T m c0 -> T m (wrap c0)) ->
  (forall c0 i, Awaits (wrap c0) i <-> Awaits c0 i) ->
  (r = None -> r' = None) -> (r <> None -> r' <> None) ->
  post n aw (res_fut (wrap c1) r') s s'.
Proof.
  intros [A B C D E F G] HT HA Hn Hs. destruct r as [x|].
  - destruct r' as [x'|]; [|exfalso; apply Hs; auto; discriminate]. simpl in *.
    constructor; auto.
    + constructor.
    + intros i H. eapply awaits_ready_false; eauto.
    + intros i H. eapply awaits_ready_false; eauto.
    + intros c' E'. discriminate.
  - rewrite (Hn eq_refl). simpl in *. constructor; auto.
    + constructor. apply HT. apply TF_pending_inv. exact C.
    + intros i H. apply AwaitsF_pending_inv in H. apply (proj1 (HA _ _)) in H. apply D. constructor. exact H.
    + intros i H. apply AwaitsF_pending_inv in H. apply (proj1 (HA _ _)) in H. apply F. constructor. exact H.
    + intros c' E'. injection E' as <-. destruct (G c1 eq_refl) as (i & Hi). exists i. apply HA. exact Hi.
Qed.

Lemma post_sub n m aw f' s s' : n <= m -> post n aw f' s s' -> post m aw f' s s'.
Proof.
  intros L [A B C D E F G]. constructor; auto; try lia.
  eapply TF_sub; [|exact C]. lia.
Qed.

Lemma post_ready_change n aw a b s s' : post n aw (Ready a) s s' -> post n aw (Ready b) s s'.
Proof.
  intros [A B C D E F G]. constructor; auto.
  - constructor.
  - intros i H. eapply awaits_ready_false; eauto.
  - intros i H. eapply awaits_ready_false; eauto.
  - intros c' E'. discriminate.
Qed.

Lemma promise_poll_none id ok s s' :
  promise_poll id ok s = (None, s') ->
  s' = s /\ forall pr, nth_error (s_proms s) id = Some pr -> p_st pr <> PSent.
Proof.
  unfold promise_poll. destruct (nth_error (s_proms s) id) as [pr|] eqn:E.
  - destruct (p_st pr) eqn:P; intros H; try discriminate; injection H as <-; split; auto;
      intros pr0 E0; injection E0 as <-; congruence.
  - intros H. injection H as <-. split; auto. intros pr0 E0. discriminate.
Qed.

Lemma Forall2_evol1_upd id ps pr :
  nth_error ps id = Some pr -> p_st pr = PSent -> Forall2 evol1 ps (upd_nth id (set_pst PRecv) ps).
Proof.
  revert id. induction ps as [|x tl IH]; intros [|id] E P; simpl in *; try discriminate.
  - injection E as ->. constructor; auto using Forall2_evol1_refl. repeat split; simpl; auto.
  - constructor; auto using evol1_refl.
Qed.

Lemma pstep_recv id ps pr :
  nth_error ps id = Some pr -> p_st pr = PSent -> pstep ps (upd_nth id (set_pst PRecv) ps).
Proof.
  intros E P. exists (upd_nth id (set_pst PRecv) ps), []. rewrite app_nil_r.
  repeat split; auto. eapply Forall2_evol1_upd; eauto.
Qed.

Lemma live_upd_other id f s i :
  i <> id -> live s i -> live (with_proms (upd_nth id f (s_proms s)) s) i.
Proof.
  intros N (pr & E & P). exists pr. split; auto. simpl. rewrite nth_upd_nth_other; auto.
Qed.

Lemma live_app s s' new i : s_proms s' = s_proms s ++ new -> live s i -> live s' i.
Proof.
  intros Ep (pr & E & P). exists pr. split; auto. rewrite Ep, nth_error_app1; auto.
  apply nth_error_Some. congruence.
Qed.

Lemma new_out s s' new i :
  s_proms s' = s_proms s ++ new -> Forall is_out new ->
  length (s_proms s) <= i < length (s_proms s') -> out s' i.
Proof.
  intros Ep Fo [L1 L2]. rewrite Ep in L2. unfold out. rewrite Ep.
  destruct (nth_error (s_proms s ++ new) i) as [pr|] eqn:E; [|apply nth_error_None in E; lia].
  exists pr. split; auto. rewrite nth_error_app2 in E by lia. apply nth_error_In in E.
  rewrite Forall_forall in Fo. apply Fo. exact E.
Qed.

(** the [then] future of a Then closure was polled *)
Lemma post_then_some n k c0 t c3 r3 s s' :
  post n (AwaitsF t) (res_fut c3 r3) s s' ->
  post n (Awaits (CThen k c0 (Some t)))
       (res_fut (CThen k c0 (Some (res_fut c3 r3))) r3) s s'.
Proof.
  intros P.
  assert (P' : post n (Awaits (CThen k c0 (Some t))) (res_fut c3 r3) s s').
  { eapply post_weaken_aw; [| |exact P].
    - intros i H. apply A_then_some. exact H.
    - intros i H. apply Awaits_then_some_inv in H. exact H. }
  destruct r3 as [x|]; [exact P'|]. simpl in *. destruct P' as [A B C D E F G]. constructor; auto.
  - constructor. apply T_then_some. exact C.
  - intros i H. apply AwaitsF_pending_inv, Awaits_then_some_inv in H. apply D. exact H.
  - intros i H. apply AwaitsF_pending_inv, Awaits_then_some_inv in H. apply F. exact H.
  - intros c' E'. injection E' as <-. destruct (G c3 eq_refl) as (i & Hi). exists i.
    apply A_then_some. constructor. exact Hi.
Qed.

Theorem live_all :
  (forall n c, T n c -> PT n c) /\
  (forall n f, TF n f -> PTF n f) /\
  (forall n fs, TL n fs -> PTL n fs).
Proof.
  apply T_all_ind.
  - (* T_prom *)
    intros k id ok n Hk IHk Hk2 s c' r s' Aw E. cbn [invoke] in E.
    assert (Lid : live s id) by (apply Aw; apply A_then_none; apply A_new).
    destruct (promise_poll id ok s) as [r0 s1] eqn:Ep. destruct r0 as [r0|].
    + (* received *)
      apply promise_poll_cases in Ep as [[X _]|(pr & En & Pst & Er & Es1)]; [discriminate|].
      injection Er as ->. fold (prom_res ok) in E.
      assert (Len1 : length (s_proms s1) = length (s_proms s)) by (rewrite Es1; simpl; apply upd_nth_length).
      assert (P01 : pstep (s_proms s) (s_proms s1)) by (rewrite Es1; simpl; eapply pstep_recv; eauto).
      destruct (k (prom_res ok) s1) as [t s2] eqn:Ek.
      destruct (Hk2 _ _ _ Ek) as (((new & Ep2 & Fo) & Anew) & Cr12).
      pose proof (IHk _ _ _ Ek) as IHt.
      assert (P12 : pstep (s_proms s1) (s_proms s2)) by (rewrite Ep2; apply pstep_app; auto).
      assert (Fr : forall i, live s i -> ~ Awaits (CThen k (CNew (promise_poll id ok)) None) i -> live s2 i).
      { intros i L N. assert (i <> id).
        { intros ->. apply N. apply A_then_none. apply A_new. }
        eapply live_app; eauto. rewrite Es1. apply live_upd_other; auto. }
      assert (C02 : created s s2 = created s1 s2) by (unfold created; rewrite Len1; reflexivity).
      destruct t as [rr|c2].
      * injection E as <- <- <-. simpl. constructor.
        -- eapply pstep_trans; eauto.
        -- rewrite C02. exact Cr12.
        -- constructor.
        -- intros i H. eapply awaits_ready_false; eauto.
        -- exact Fr.
        -- intros i H. eapply awaits_ready_false; eauto.
        -- intros c0 E0. discriminate.
      * destruct (invoke c2 s2) as [[c3 r3] s3] eqn:E3.
        assert (Aw2 : awl_f (Pending c2) s2).
        { intros i H. apply out_live. eapply new_out; eauto. }
        destruct (IHt s2 (res_fut c3 r3) s3 Aw2) as [A B C D F L N].
        { unfold poll, poll_with. rewrite E3. destruct r3; reflexivity. }
        pose proof (pstep_length _ _ A) as Len23. pose proof (pstep_length _ _ P12) as Len12.
        assert (C03 : created s s3 = created s1 s2 + created s2 s3) by (unfold created in *; lia).
        assert (Res : post n (Awaits (CThen k (CNew (promise_poll id ok)) None))
                           (res_fut (CThen k (CNew (promise_poll id ok)) (Some (res_fut c3 r3))) r3) s s3).
        { assert (Base : post n (Awaits (CThen k (CNew (promise_poll id ok)) None)) (res_fut c3 r3) s s3).
          { constructor.
            - eapply pstep_trans; [exact P01|]. eapply pstep_trans; eauto.
            - rewrite C03. lia.
            - eapply TF_sub; [|exact C]. rewrite C03. lia.
            - intros i H. right. destruct (D i H) as [H1|H1].
              + apply Anew in H1. lia.
              + lia.
            - intros i Li Ni. apply F; [apply Fr; auto|]. intros H. apply Anew in H.
              apply live_lt in Li. lia.
            - exact L.
            - exact N. }
          destruct r3 as [x|]; [exact Base|]. simpl in *. destruct Base as [A' B' C' D' F' L' N']. constructor; auto.
          - constructor. apply T_then_some. exact C'.
          - intros i H. apply AwaitsF_pending_inv, Awaits_then_some_inv in H. apply D'. exact H.
          - intros i H. apply AwaitsF_pending_inv, Awaits_then_some_inv in H. apply L'. exact H.
          - intros c0 E0. injection E0 as <-. destruct (N' c3 eq_refl) as (i & Hi). exists i.
            apply A_then_some. constructor. exact Hi. }
        destruct r3 as [x|]; injection E as <- <- <-; exact Res.
    + (* nothing on the channel *)
      apply promise_poll_none in Ep as [-> Hst]. injection E as <- <- <-. simpl. constructor.
      * apply pstep_refl.
      * rewrite created_refl. lia.
      * rewrite created_refl, Nat.sub_0_r. constructor. apply T_prom; auto.
      * intros i H. left. apply AwaitsF_pending_inv. exact H.
      * auto.
      * intros i H. apply AwaitsF_pending_inv, Awaits_then_none_inv, Awaits_new_inv in H. subst i.
        destruct Lid as (pr & En & Np). exists pr. split; auto.
        specialize (Hst pr En). destruct (p_st pr); congruence.
      * intros c0 E0. injection E0 as <-. exists id. apply A_then_none. apply A_new.
  - (* T_then_some *)
    intros k c t n Ht IHt s c' r s' Aw E. cbn [invoke] in E. destruct t as [rr|c2].
    + injection E as <- <- <-. simpl. apply post_ready.
    + destruct (invoke c2 s) as [[c3 r3] s3] eqn:E3.
      assert (Aw2 : awl_f (Pending c2) s) by (intros i H; apply Aw; apply A_then_some; exact H).
      assert (P : post n (AwaitsF (Pending c2)) (res_fut c3 r3) s s3).
      { apply (IHt s (res_fut c3 r3) s3 Aw2). unfold poll, poll_with. rewrite E3. destruct r3; reflexivity. }
      apply (post_then_some n k c) in P.
      destruct r3 as [x|]; injection E as <- <- <-; exact P.
  - (* T_map *)
    intros fn c n Hc IHc Hfn s c' r s' Aw E. cbn [invoke] in E.
    destruct (invoke c s) as [[c1 r0] s1] eqn:E1.
    assert (Aw1 : awl_c c s) by (intros i H; apply Aw; apply A_map; exact H).
    pose proof (IHc _ _ _ _ Aw1 E1) as P.
    assert (HA : forall c0 i, Awaits (CMap fn c0) i <-> Awaits c0 i).
    { intros c0 i. split; [apply Awaits_map_inv|apply A_map]. }
    assert (P' : forall r', (r0 = None -> r' = None) -> (r0 <> None -> r' <> None) ->
                   post n (Awaits (CMap fn c)) (res_fut (CMap fn c1) r') s s1).
    { intros r' H1 H2. eapply post_weaken_aw; [| |eapply (post_wrap n (Awaits c) c1 r0 s s1 (CMap fn) r' P); auto].
      - intros i H. apply A_map. exact H.
      - intros i H. apply Awaits_map_inv in H. exact H.
      - intros c0 m H. apply T_map; auto. }
    destruct r0 as [r0|].
    + destruct (fn r0 s1) as [r1 s2] eqn:Ef. injection E as <- <- <-.
      pose proof (Hfn r0 s1) as Q. rewrite Ef in Q. simpl in Q.
      eapply same_proms_post; [|exact Q]. apply P'; intros; congruence.
    + injection E as <- <- <-. apply P'; intros; congruence.
  - (* T_mapok *)
    intros fn c n Hc IHc Hfn s c' r s' Aw E. cbn [invoke] in E.
    destruct (invoke c s) as [[c1 r0] s1] eqn:E1.
    assert (Aw1 : awl_c c s) by (intros i H; apply Aw; apply A_mapok; exact H).
    pose proof (IHc _ _ _ _ Aw1 E1) as P.
    assert (P' : forall r', (r0 = None -> r' = None) -> (r0 <> None -> r' <> None) ->
                   post n (Awaits (CMapOk fn c)) (res_fut (CMapOk fn c1) r') s s1).
    { intros r' H1 H2. eapply post_weaken_aw; [| |eapply (post_wrap n (Awaits c) c1 r0 s s1 (CMapOk fn) r' P); auto].
      - intros i H. apply A_mapok. exact H.
      - intros i H. apply Awaits_mapok_inv in H. exact H.
      - intros c0 m H. apply T_mapok; auto.
      - intros c0 i. split; [apply Awaits_mapok_inv|apply A_mapok]. }
    destruct r0 as [[v|e]|].
    + destruct (fn v s1) as [v1 s2] eqn:Ef. injection E as <- <- <-.
      pose proof (Hfn v s1) as Q. rewrite Ef in Q. simpl in Q.
      eapply same_proms_post; [|exact Q]. apply P'; intros; congruence.
    + injection E as <- <- <-. apply P'; intros; congruence.
    + injection E as <- <- <-. apply P'; intros; congruence.
  - (* T_toany *)
    intros c n Hc IHc s c' r s' Aw E. cbn [invoke] in E.
    destruct (invoke c s) as [[c1 r0] s1] eqn:E1.
    assert (Aw1 : awl_c c s) by (intros i H; apply Aw; apply A_toany; exact H).
    pose proof (IHc _ _ _ _ Aw1 E1) as P.
    assert (P' : forall r', (r0 = None -> r' = None) -> (r0 <> None -> r' <> None) ->
                   post n (Awaits (CMapOkToAny c)) (res_fut (CMapOkToAny c1) r') s s1).
    { intros r' H1 H2. eapply post_weaken_aw; [| |eapply (post_wrap n (Awaits c) c1 r0 s s1 CMapOkToAny r' P); auto].
      - intros i H. apply A_toany. exact H.
      - intros i H. apply Awaits_toany_inv in H. exact H.
      - intros c0 m H. apply T_toany; auto.
      - intros c0 i. split; [apply Awaits_toany_inv|apply A_toany]. }
    destruct r0 as [[v|e]|]; injection E as <- <- <-; apply P'; intros; congruence.
  - (* T_okvalue *)
    intros v c n Hc IHc s c' r s' Aw E. cbn [invoke] in E.
    destruct (invoke c s) as [[c1 r0] s1] eqn:E1.
    assert (Aw1 : awl_c c s) by (intros i H; apply Aw; apply A_okvalue; exact H).
    pose proof (IHc _ _ _ _ Aw1 E1) as P.
    assert (P' : forall r', (r0 = None -> r' = None) -> (r0 <> None -> r' <> None) ->
                   post n (Awaits (CMapOkValue v c)) (res_fut (CMapOkValue v c1) r') s s1).
    { intros r' H1 H2. eapply post_weaken_aw; [| |eapply (post_wrap n (Awaits c) c1 r0 s s1 (CMapOkValue v) r' P); auto].
      - intros i H. apply A_okvalue. exact H.
      - intros i H. apply Awaits_okvalue_inv in H. exact H.
      - intros c0 m H. apply T_okvalue; auto.
      - intros c0 i. split; [apply Awaits_okvalue_inv|apply A_okvalue]. }
    destruct r0 as [[v0|e]|]; injection E as <- <- <-; apply P'; intros; congruence.
  - (* T_join *)
    intros fs n Hl IHl s c' r s' Aw E. cbn [invoke] in E.
    destruct (all_loop invoke fs true s) as [[fs1 o] s1] eqn:El.
    assert (Awl : awl_l fs s) by (intros i H; apply Aw; apply A_join; exact H).
    destruct (IHl _ _ _ _ _ Awl El) as (A & B & C & D & F & L & N & R).
    assert (Rdy : forall x, post n (Awaits (CJoin fs)) (Ready x) s s1).
    { intros x. constructor; auto.
      - constructor.
      - intros i H. eapply awaits_ready_false; eauto.
      - intros i Li Ni. apply F; auto. intros H. apply Ni. apply A_join. exact H.
      - intros i H. eapply awaits_ready_false; eauto.
      - intros c0 E0. discriminate. }
    destruct o as [e| |]; injection E as <- <- <-; simpl; try apply Rdy.
    constructor; auto.
    + constructor. apply T_join. exact C.
    + intros i H. apply AwaitsF_pending_inv, Awaits_join_inv in H. destruct (D i H) as [H1|H1]; auto.
      left. apply A_join. exact H1.
    + intros i Li Ni. apply F; auto. intros H. apply Ni. apply A_join. exact H.
    + intros i H. apply AwaitsF_pending_inv, Awaits_join_inv in H. apply (L eq_refl). exact H.
    + intros c0 E0. injection E0 as <-. destruct (N eq_refl eq_refl) as (i & Hi). exists i. apply A_join. exact Hi.
  - (* T_after *)
    intros fs n Hl IHl s c' r s' Aw E. cbn [invoke] in E.
    destruct (all_loop invoke fs true s) as [[fs1 o] s1] eqn:El.
    assert (Awl : awl_l fs s) by (intros i H; apply Aw; apply A_after; exact H).
    destruct (IHl _ _ _ _ _ Awl El) as (A & B & C & D & F & L & N & R).
    assert (Rdy : forall x, post n (Awaits (CAfter fs)) (Ready x) s s1).
    { intros x. constructor; auto.
      - constructor.
      - intros i H. eapply awaits_ready_false; eauto.
      - intros i Li Ni. apply F; auto. intros H. apply Ni. apply A_after. exact H.
      - intros i H. eapply awaits_ready_false; eauto.
      - intros c0 E0. discriminate. }
    destruct o as [e| |]; injection E as <- <- <-; simpl; try apply Rdy.
    constructor; auto.
    + constructor. apply T_after. exact C.
    + intros i H. apply AwaitsF_pending_inv, Awaits_after_inv in H. destruct (D i H) as [H1|H1]; auto.
      left. apply A_after. exact H1.
    + intros i Li Ni. apply F; auto. intros H. apply Ni. apply A_after. exact H.
    + intros i H. apply AwaitsF_pending_inv, Awaits_after_inv in H. apply (L eq_refl). exact H.
    + intros c0 E0. injection E0 as <-. destruct (N eq_refl eq_refl) as (i & Hi). exists i. apply A_after. exact Hi.
  - (* T_sub *)
    intros n m c L Hc IHc s c' r s' Aw E. eapply post_sub; eauto.
  - (* TF_ready *)
    intros n r s f' s' Aw E. unfold poll, poll_with in E. injection E as <- <-. apply post_ready.
  - (* TF_pending *)
    intros n c Hc IHc. apply P_PTF. exact IHc.
  - (* TL_nil *)
    intros ok s fs' o s' Aw E. simpl in E. injection E as <- <- <-.
    rewrite created_refl. simpl.
    split; [apply pstep_refl|]. split; [lia|]. split; [constructor|].
    split; [intros i H; exfalso; eapply AwaitsL_nil; eauto|].
    split; [auto|].
    split; [intros _ i H; exfalso; eapply AwaitsL_nil; eauto|].
    split; [intros Eo Ok; subst ok; discriminate|].
    intros _ i. apply AwaitsL_nil.
  - (* TL_cons *)
    intros a b f fs Hf IHf Hfs IHfs Dj ok s fs' o s' Aw E. cbn [all_loop] in E.
    destruct (poll_with invoke f s) as [f1 s1] eqn:Ep.
    assert (Awf : awl_f f s) by (intros i H; apply Aw; apply AL_here; exact H).
    destruct (IHf s f1 s1 Awf Ep) as [A1 B1 C1 D1 F1 L1 N1].
    pose proof (pstep_length _ _ A1) as Len1.
    assert (Awt : awl_l fs s1).
    { intros i H. apply F1; [apply Aw; apply AL_there; exact H|]. intros Hf'. eapply Dj; eauto. }
    (* disjointness of the polled head and whatever the tail becomes *)
    assert (Dj1 : forall s2 tl1, pstep (s_proms s1) (s_proms s2) ->
                    (forall i, AwaitsL tl1 i -> AwaitsL fs i \/ length (s_proms s1) <= i) ->
                    forall i, AwaitsF f1 i -> ~ AwaitsL tl1 i).
    { intros s2 tl1 P12 Dt i H1 H2.
      pose proof (out_lt _ _ (L1 i H1)) as Lt1.
      destruct (Dt i H2) as [H3|H3]; [|lia].
      destruct (D1 i H1) as [H4|H4].
      - eapply Dj; eauto.
      - assert (live s i) by (apply Aw; apply AL_there; exact H3). apply live_lt in H. lia. }
    destruct f1 as [[v|e]|c1].
    + destruct (all_loop invoke fs ok s1) as [[tl1 o1] s2] eqn:E2. injection E as <- <- <-.
      destruct (IHfs _ _ _ _ _ Awt E2) as (A2 & B2 & C2 & D2 & F2 & L2 & N2 & R2).
      pose proof (pstep_length _ _ A2) as Len2.
      assert (Cr : created s s2 = created s s1 + created s1 s2) by (unfold created; lia).
      split; [eapply pstep_trans; eauto|]. split; [rewrite Cr; lia|]. split.
      { replace (a + b - created s s2) with ((a - created s s1) + (b - created s1 s2)) by (rewrite Cr; lia).
        apply TL_cons; auto. intros i H. eapply awaits_ready_false; eauto. }
      split.
      { intros i H. apply AwaitsL_cons_inv in H as [H|H]; [eapply awaits_ready_false; eauto|].
        destruct (D2 i H) as [H1|H1]; [left; apply AL_there; exact H1|right; lia]. }
      split.
      { intros i Li Ni. apply F2; [apply F1; auto|]; intros H; apply Ni; [apply AL_here|apply AL_there]; exact H. }
      split.
      { intros Eo i H. apply AwaitsL_cons_inv in H as [H|H]; [eapply awaits_ready_false; eauto|]. apply (L2 Eo i H). }
      split.
      { intros Eo Ok. destruct (N2 Eo Ok) as (i & Hi). exists i. apply AL_there. exact Hi. }
      { intros Eo i H. apply AwaitsL_cons_inv in H as [H|H]; [eapply awaits_ready_false; eauto|]. apply (R2 Eo i H). }
    + injection E as <- <- <-.
      split; auto. split; [lia|]. split.
      { replace (a + b - created s s1) with ((a - created s s1) + b) by lia.
        apply TL_cons; auto. intros i H. eapply awaits_ready_false; eauto. }
      split.
      { intros i H. apply AwaitsL_cons_inv in H as [H|H]; [eapply awaits_ready_false; eauto|].
        left. apply AL_there. exact H. }
      split.
      { intros i Li Ni. apply F1; auto. intros H; apply Ni; apply AL_here; exact H. }
      split; [discriminate|]. split; discriminate.
    + destruct (all_loop invoke fs false s1) as [[tl1 o1] s2] eqn:E2. injection E as <- <- <-.
      destruct (IHfs _ _ _ _ _ Awt E2) as (A2 & B2 & C2 & D2 & F2 & L2 & N2 & R2).
      pose proof (pstep_length _ _ A2) as Len2.
      assert (Cr : created s s2 = created s s1 + created s1 s2) by (unfold created; lia).
      split; [eapply pstep_trans; eauto|]. split; [rewrite Cr; lia|]. split.
      { replace (a + b - created s s2) with ((a - created s s1) + (b - created s1 s2)) by (rewrite Cr; lia).
        apply TL_cons; auto. eapply Dj1; eauto. }
      split.
      { intros i H. apply AwaitsL_cons_inv in H as [H|H].
        - destruct (D1 i H) as [H1|H1]; [left; apply AL_here; exact H1|right; exact H1].
        - destruct (D2 i H) as [H1|H1]; [left; apply AL_there; exact H1|right; lia]. }
      split.
      { intros i Li Ni. apply F2; [apply F1; auto|]; intros H; apply Ni; [apply AL_here|apply AL_there]; exact H. }
      split.
      { intros Eo i H. apply AwaitsL_cons_inv in H as [H|H].
        - eapply pstep_out; [exact A2|]. apply L1. exact H.
        - apply (L2 Eo i H). }
      split.
      { intros _ _. destruct (N1 c1 eq_refl) as (i & Hi). exists i. apply AL_here. constructor. exact Hi. }
      { intros Eo. exfalso. eapply all_loop_false; eauto. }
  - (* TL_sub *)
    intros n m fs Lnm Hfs IH ok s fs' o s' Aw E.
    destruct (IH _ _ _ _ _ Aw E) as (A & B & C & D & F & L & N & R).
    split; auto. split; [lia|]. split; [eapply TL_sub; [|exact C]; lia|]. auto.
Qed.

Lemma poll_live n f : TF n f -> PTF n f.
Proof. apply live_all. Qed.
