(** * Serial/SerialPlan.v — the vocabulary shared by the model and the Spec of C11 (no proofs):
    execution plan trees, response paths, the resolver event log, schedulers.

    A plan tree is what the executor sees after field collection, with schema and document
    abstracted away: a selection set is an ordered list of (response key, field plan); a field
    plan says how the resolver answers (synchronously or through a ResolvePromise, with a value or
    an error), whether the field type is non-null, and which Go value it delivers, described
    relative to the field's type (leaf / list of items / object with a nested selection set). *)
From Coq Require Import List NArith ZArith Bool.
From ApiFu Require Import Base.Sexp.
Import ListNotations.

(** ** Plan trees *)
Inductive vplan :=
| VNull                                          (* nil *)
| VLeaf (z : Z)                                  (* a value its scalar type accepts *)
| VBad                                           (* a value of the wrong Go kind for the type at this
                                                    position: completeValue answers with an error *)
| VList (item_nn : bool) (items : list vplan)    (* a slice; the item type is non-null iff item_nn *)
| VObj (fields : list (bytes * fplan))           (* an object value together with the collected
                                                    sub-selection (response key, plan) *)
with fplan :=
| FP (tag : option N)        (* Some t: the resolver returns a ResolvePromise (t is a static label the
                                scheduler may look at); None: it answers synchronously *)
     (nn : bool)             (* the field's type is non-null *)
     (res : option vplan)    (* None: resolver error / promise fulfilled with an error *)
| FTypename.                 (* the selection is __typename: no resolver is called, executeSelections
                                stores the name of the object type itself *)

Definition selset := list (bytes * fplan).

Definition fp_nn (fp : fplan) : bool := match fp with FP _ nn _ => nn | FTypename => true end.

(** ** Response paths.  Go's [*path] is a linked list whose head is the LAST component
    (executor/path.go); [Slice()] reverses it. *)
Inductive pelem := PKey (k : bytes) | PIdx (i : nat).
Definition rpath := list pelem.
Definition slice (p : rpath) : list pelem := rev p.

(** ** The global resolver log *)
Inductive event :=
| EStart (p : list pelem)       (* a resolver was invoked for the field at this response path *)
| EFulfil (p : list pelem).     (* the idle handler sent the result of this field's promise: the
                                   asynchronous resolver finished *)

(** ** The idle handler as an oracle: given the number of the idle round and the outstanding
    promises (id = creation number, static tag), the ids of the promises to fulfil now. *)
Definition sched := nat -> list (nat * N) -> list nat.
