(** * Feat/FeaturesSpec.v — C13: the reference semantics.

    "A request whose feature set lacks a feature behaves exactly as if every type, field,
     argument type and connection requiring that feature had been deleted from the schema."

    The reference is therefore the *physically reduced* schema [erase S F], asked with a feature
    set that hides nothing of it (any G ⊇ F, in particular all features):

        indistinguishable S F G p  :=  run (S, F) p  =  run (erase S F, G) p

    for every consumer program p — result and the whole trace of lookups.  The oracle of the
    correspondence check is the same statement about the real code: the response of
    (S, Features = F) equals the response of the Go schema built from the reduced description with
    all features, and no resolver of an element absent from [erase S F] was invoked. *)
From Coq Require Import List NArith Bool.
From ApiFu Require Import Base.Sexp Feat.FeaturesModel.
Import ListNotations.
Open Scope list_scope.

(** a type the request may see *)
Definition visible (S : schema) (F : features) (n : name) : bool :=
  match lookup S n with Some t => subset (type_req t) F | None => false end.

(** ** Physical deletion of everything whose requirements are not within F:
    types; fields of objects and interfaces (with their arguments); implementation links to
    deleted interfaces; memberships of deleted objects; root operation types that are deleted. *)
Definition erase_fields (F : features) (fs : list (name * field_def)) : list (name * field_def) :=
  filter (fun nf => subset (f_req (snd nf)) F) fs.

Definition erase_type (alive : name -> bool) (F : features) (t : named_type) : named_type :=
  match t with
  | NObject fs ifs r => NObject (erase_fields F fs) (filter alive ifs) r
  | NInterface fs r => NInterface (erase_fields F fs) r
  | NUnion ms r => NUnion (filter alive ms) r
  | _ => t
  end.

Definition erase_root (alive : name -> bool) (r : option name) : option name :=
  match r with Some n => if alive n then Some n else None | None => None end.

Definition erase (S : schema) (F : features) : schema :=
  let alive := visible S F in
  {| types := map (fun nt => (fst nt, erase_type alive F (snd nt)))
                  (filter (fun nt => subset (type_req (snd nt)) F) (types S));
     query := query S;
     mutation := erase_root alive (mutation S);
     subscription := erase_root alive (subscription S);
     directives := directives S |}.

(** ** The property for one consumer *)
Definition indistinguishable {A} (S : schema) (F G : features) (p : prog A) : Prop :=
  run fixed S F [] p = run fixed (erase S F) G [] p.

(** a resolver (object type, field) that exists in a schema *)
Definition has_field (S : schema) (t f : name) : bool :=
  match lookup S t with
  | Some x => match assoc f (fields_of x) with Some _ => true | None => false end
  | None => false
  end.

(** the fields whose resolvers a run invoked: GetField answers (the executor resolves exactly the
    field definitions GetField hands it) *)
Definition resolved_fields (tr : list (query_ * answer)) : list (name * name * field_def) :=
  flat_map (fun qa => match qa with
                      | (QField t f, AField (Some fd)) => [(t, f, fd)]
                      | _ => []
                      end) tr.

(** every feature mentioned anywhere in a schema: "all features" *)
Definition field_features (fs : list (name * field_def)) : features := flat_map (fun nf => f_req (snd nf)) fs.
Definition all_features (S : schema) : features :=
  flat_map (fun nt => type_req (snd nt) ++ field_features (fields_of (snd nt))) (types S).
