(** * Feat/FeaturesSpec.v — C13: the reference semantics.

    "A request whose feature set lacks a feature behaves exactly as if every type, field,
     argument type and connection requiring that feature had been deleted from the schema."

    The reference is therefore the *physically reduced* schema [erase S F], asked with a feature
    set that hides nothing of it (any G ⊇ F, in particular all features):

        indistinguishable S F G p  :=  run (S, F) p  =  run (erase S F, G) p

    for every consumer program p — result and the whole trace of lookups.  The oracle of the
    correspondence check is the same statement about the real code: the response of
    (S, Features = F) equals the response of the Go schema built from the reduced description with
    all features, and no resolver of an element absent from [erase S F] was invoked. *)
From Coq Require Import List NArith Bool.
From ApiFu Require Import Base.Sexp Feat.FeaturesModel.
Import ListNotations.
Open Scope list_scope.

(** a type the request may see *)
Definition visible (S : schema) (F : features) (n : name) : bool :=
  match lookup S n with Some t => subset (type_req t) F | None => false end.

(** ** Physical deletion of everything whose requirements are not within F:
    types; fields of objects and interfaces (with their arguments); implementation links to
    deleted interfaces; memberships of deleted objects; root operation types that are deleted. *)
Definition erase_fields (F : features) (fs : list (name * field_def)) : list (name * field_def) :=
  filter (fun nf => subset (f_req (snd nf)) F) fs.

Definition erase_type (alive : name -> bool) (F : features) (t : named_type) : named_type :=
  match t with
  | NObject fs ifs r => NObject (erase_fields F fs) (filter alive ifs) r
  | NInterface fs r => NInterface (erase_fields F fs) r
  | NUnion ms r => NUnion (filter alive ms) r
  | _ => t
  end.

Definition erase_root (alive : name -> bool) (r : option name) : option name :=
  match r with Some n => if alive n then Some n else None | None => None end.

Definition erase (S : schema) (F : features) : schema :=
  let alive := visible S F in
  {| types := map (fun nt => (fst nt, erase_type alive F (snd nt)))
                  (filter (fun nt => subset (type_req (snd nt)) F) (types S));
     query := query S;
     mutation := erase_root alive (mutation S);
     subscription := erase_root alive (subscription S);
     directives := directives S;
     additional := filter alive (additional S) |}.

(** ** Physical erasure as a developer would perform it: delete the gated elements from the
    SchemaDefinition and call schema.New again.  schema.New registers exactly the types it reaches
    from the directives, the root types and AdditionalTypes (schema/inspect.go), so a type that
    itself requires nothing but was referenced only by deleted elements is no longer registered. *)
Definition type_refs (t : named_type) : list name :=
  match t with
  | NObject fs ifs _ => flat_map (fun nf => field_handles (snd nf)) fs ++ ifs
  | NInterface fs _ => flat_map (fun nf => field_handles (snd nf)) fs
  | NInput fs _ => map (fun a => base (snd a)) fs
  | NUnion ms _ => ms
  | _ => []
  end.

Definition opt_list {A} (o : option A) : list A := match o with Some x => [x] | None => [] end.

Definition inspect_roots (S : schema) : list name :=
  flat_map (fun d => map (fun a => base (snd a)) (snd d)) (directives S) ++
  query S :: opt_list (mutation S) ++ opt_list (subscription S) ++ additional S.

Fixpoint add_new (seen : list name) (l : list name) : list name :=
  match l with
  | [] => seen
  | x :: r => if mem x seen then add_new seen r else add_new (seen ++ [x]) r
  end.

Fixpoint reach (S : schema) (fuel : nat) (seen : list name) : list name :=
  match fuel with
  | O => seen
  | Datatypes.S n =>
      reach S n (add_new seen (flat_map (fun h => match lookup S h with Some t => type_refs t | None => [] end) seen))
  end.

(** the names schema.New registers for a definition with these roots *)
Definition reachable (S : schema) : list name :=
  reach S (List.length (types S)) (add_new [] (inspect_roots S)).

(** the declarative reading of "schema.New reaches n" (schema/inspect.go): the least set of names
    that contains the roots and is closed under following the references of a registered type.
    [FeaturesReach.reachable_iff] proves that [reachable] computes exactly this set (the fuel
    [length (types S)] suffices) for every schema that schema.New accepts. *)
Inductive reaches (S : schema) : name -> Prop :=
| reaches_root n : In n (inspect_roots S) -> reaches S n
| reaches_ref h t r : reaches S h -> lookup S h = Some t -> In r (type_refs t) -> reaches S r.

Definition restrict (S : schema) (keep : list name) : schema :=
  {| types := filter (fun nt => mem (fst nt) keep) (types S);
     query := query S; mutation := mutation S; subscription := subscription S;
     directives := directives S; additional := additional S |}.

Definition erase_physical (S : schema) (F : features) : schema :=
  restrict (erase S F) (reachable (erase S F)).

(** the types that need nothing the request lacks, but that only deleted elements referred to *)
Definition orphaned (S : schema) (F : features) : list name :=
  filter (fun n => negb (mem n (reachable (erase S F)))) (map fst (types (erase S F))).

(** exclusion of the known finding [orphaned-type-stays-visible] *)
Definition excl_orphaned_type (S : schema) (F : features) : bool := negb (is_nil (orphaned S F)).

(** ** Equivalence of two views for a request with feature set F on schema S: they agree on every
    lookup that is applied to type pointers the request may hold *)
Definition view_equiv (S : schema) (F : features) (v1 v2 : query_ -> option answer) : Prop :=
  forall q, (forall h, In h (handle_args q) -> visible S F h = true) -> v1 q = v2 q.

(** ** The property for one consumer *)
Definition indistinguishable {A} (S : schema) (F G : features) (p : prog A) : Prop :=
  run fixed S F [] p = run fixed (erase S F) G [] p.

(** a resolver (object type, field) that exists in a schema *)
Definition has_field (S : schema) (t f : name) : bool :=
  match lookup S t with
  | Some x => match assoc f (fields_of x) with Some _ => true | None => false end
  | None => false
  end.

(** the fields whose resolvers a run invoked: GetField answers (the executor resolves exactly the
    field definitions GetField hands it) *)
Definition resolved_fields (tr : list (query_ * answer)) : list (name * name * field_def) :=
  flat_map (fun qa => match qa with
                      | (QField t f, AField (Some fd)) => [(t, f, fd)]
                      | _ => []
                      end) tr.

(** every feature mentioned anywhere in a schema: "all features" *)
Definition field_features (fs : list (name * field_def)) : features := flat_map (fun nf => f_req (snd nf)) fs.
Definition all_features (S : schema) : features :=
  flat_map (fun nt => type_req (snd nt) ++ field_features (fields_of (snd nt))) (types S).

(** ** Request feature-set plumbing (api.go:236-238, graphqlws.go:46-64)

    Config.Features is a function of the context, so what it answers may change over time (the
    "environment").  API.ServeGraphQL evaluates it once per HTTP request (also for a persisted query
    replayed by hash).  A WebSocket connection (both subprotocols) evaluates it once, when
    connection_init is handled; every later operation of the connection and every event of its
    subscriptions is validated and executed with THAT set, whatever the environment says by then;
    operations before connection_init are ignored.  With Config.HandleGraphQLWSInit the function is
    applied to the context the hook RETURNED for that init (the hook may put what the payload
    grants into it): the effective set is Features(context returned by the hook of the LATEST
    accepted connection_init) — [PInitWith f]: an init whose hook's context makes Features answer f. *)
Inductive pstep :=
| PEnv (now : features)        (* the environment changes *)
| PInit                        (* WebSocket: connection_init (no hook, or a hook that leaves Features alone) *)
| PInitWith (f : features)     (* WebSocket: connection_init whose hook returns a context in which Features answers f *)
| POp.                         (* an operation (HTTP request / start / subscribe) or a subscription event *)

(** the feature set each [POp] of a WebSocket connection runs with ([None]: ignored) *)
Fixpoint ws_effective (env : features) (conn : option features) (h : list pstep) : list (option features) :=
  match h with
  | [] => []
  | PEnv now :: r => ws_effective now conn r
  | PInit :: r => ws_effective env (Some env) r
  | PInitWith f :: r => ws_effective env (Some f) r
  | POp :: r => conn :: ws_effective env conn r
  end.

(** ... of a sequence of HTTP requests *)
Fixpoint http_effective (env : features) (h : list pstep) : list (option features) :=
  match h with
  | [] => []
  | PEnv now :: r => http_effective now r
  | PInit :: r => http_effective env r
  | PInitWith _ :: r => http_effective env r
  | POp :: r => Some env :: http_effective env r
  end.

(** ** The observables of the property

    "Indistinguishable" is about everything a client can see of a response.  The DIFFERENTIAL clause
    (the real code on (S, Features = F) against the real code on the physically reduced schema with
    every feature) compares all of them, the message texts byte for byte — a message that names a
    gated element (e.g. a suggestion "did you mean ..?") tells the client that the element exists.
    The MODEL clause (model against each side) predicts everything except the message texts, so a
    rewording that applies to both sides alike raises no alarm. *)
Inductive observable :=
| ObsVerdict              (* does validation accept the document *)
| ObsErrorLocations       (* where validation / execution errors point, and their paths *)
| ObsErrorMessages        (* the texts of validation and execution errors *)
| ObsData                 (* the response data, key order included *)
| ObsIntrospection        (* every introspection answer: listings, by-name lookups, descriptions *)
| ObsResolverCalls.       (* which resolvers were invoked (none of a deleted element) *)

Definition differential_observables : list observable :=
  [ObsVerdict; ObsErrorLocations; ObsErrorMessages; ObsData; ObsIntrospection; ObsResolverCalls].
Definition model_observables : list observable :=
  [ObsVerdict; ObsErrorLocations; ObsData; ObsIntrospection; ObsResolverCalls].
