(** * Feat/FeaturesProofs.v — C13: the views of (S, F) and of (erase S F, G ⊇ F) coincide on
    everything a consumer can reach, hence every consumer program computes the same on both. *)
From Coq Require Import String List NArith Bool Lia.
From ApiFu Require Import Base.Sexp Feat.FeaturesModel Feat.FeaturesSpec.
Import ListNotations.
Open Scope list_scope.

(** ** lists, names, feature sets *)
Lemma mem_In x l : mem x l = true <-> In x l.
Proof.
  unfold mem. rewrite existsb_exists. split.
  - intros [y [Hy E]]. apply bytes_eqb_eq in E. subst. exact Hy.
  - intro H. exists x. split; [exact H | apply bytes_eqb_refl].
Qed.

Lemma mem_false_In x l : mem x l = false <-> ~ In x l.
Proof.
  split.
  - intros H HI. apply mem_In in HI. congruence.
  - intro H. destruct (mem x l) eqn:E; [|reflexivity]. apply mem_In in E. contradiction.
Qed.

Lemma subset_spec a b : subset a b = true <-> (forall x, In x a -> In x b).
Proof.
  unfold subset. rewrite forallb_forall. split.
  - intros H x Hx. apply mem_In. apply H. exact Hx.
  - intros H x Hx. apply mem_In. apply H. exact Hx.
Qed.

Lemma subset_nil F : subset [] F = true.
Proof. reflexivity. Qed.

Lemma subset_refl a : subset a a = true.
Proof. apply subset_spec. auto. Qed.

Lemma subset_trans a b c : subset a b = true -> subset b c = true -> subset a c = true.
Proof. rewrite !subset_spec. auto. Qed.

Lemma subset_union a b c F :
  subset a (funion b c) = true -> subset b F = true -> subset c F = true -> subset a F = true.
Proof.
  unfold funion. rewrite !subset_spec. intros H Hb Hc x Hx.
  apply H in Hx. apply in_app_or in Hx. destruct Hx; auto.
Qed.

Lemma is_nil_true {A} (l : list A) : is_nil l = true -> l = [].
Proof. destruct l; simpl; congruence. Qed.

Lemma nodup_NoDup l : nodup l = true -> NoDup l.
Proof.
  induction l as [|x r IH]; simpl; intro H; constructor.
  - apply andb_true_iff in H as [H _]. apply negb_true_iff in H. apply mem_false_In. exact H.
  - apply andb_true_iff in H as [_ H]. auto.
Qed.

Lemma assoc_In {A} k (l : list (name * A)) v : assoc k l = Some v -> In (k, v) l.
Proof.
  induction l as [|[k' v'] r IH]; simpl; [discriminate|].
  destruct (bytes_eqb k k') eqn:E; intro H.
  - apply bytes_eqb_eq in E. inversion H; subst. left; reflexivity.
  - right; auto.
Qed.

Lemma assoc_None {A} k (l : list (name * A)) : assoc k l = None <-> ~ In k (map fst l).
Proof.
  induction l as [|[k' v'] r IH]; simpl.
  - split; auto.
  - destruct (bytes_eqb k k') eqn:E.
    + apply bytes_eqb_eq in E. subst. split; [discriminate | intro H; exfalso; apply H; left; reflexivity].
    + rewrite IH. split.
      * intros H [H1 | H1]; [subst; rewrite bytes_eqb_refl in E; discriminate | auto].
      * intros H H1. apply H. right; exact H1.
Qed.

Lemma assoc_nodup_In {A} k (l : list (name * A)) v :
  nodup (map fst l) = true -> In (k, v) l -> assoc k l = Some v.
Proof.
  induction l as [|[k' v'] r IH]; simpl; [contradiction|].
  intros H [HI | HI].
  - inversion HI; subst. rewrite bytes_eqb_refl. reflexivity.
  - apply andb_true_iff in H as [H1 H2]. apply negb_true_iff, mem_false_In in H1.
    destruct (bytes_eqb k k') eqn:E.
    + apply bytes_eqb_eq in E. subst. exfalso. apply H1. apply in_map_iff. exists (k', v). auto.
    + auto.
Qed.

Lemma assoc_filter {A} (p : name * A -> bool) k (l : list (name * A)) :
  nodup (map fst l) = true ->
  assoc k (filter p l) = match assoc k l with
                         | Some v => if p (k, v) then Some v else None
                         | None => None
                         end.
Proof.
  induction l as [|[k' v'] r IH]; simpl; [reflexivity|].
  intro H. apply andb_true_iff in H as [H1 H2]. apply negb_true_iff, mem_false_In in H1.
  destruct (bytes_eqb k k') eqn:E.
  - apply bytes_eqb_eq in E. subst k'.
    destruct (p (k, v')) eqn:P; simpl.
    + rewrite bytes_eqb_refl. reflexivity.
    + rewrite IH by exact H2. apply assoc_None in H1. rewrite H1. reflexivity.
  - destruct (p (k', v')) eqn:P; simpl; [rewrite E|]; apply IH; exact H2.
Qed.

Lemma assoc_map {A B} (g : A -> B) k (l : list (name * A)) :
  assoc k (map (fun nt => (fst nt, g (snd nt))) l) = option_map g (assoc k l).
Proof.
  induction l as [|[k' v'] r IH]; simpl; [reflexivity|].
  destruct (bytes_eqb k k'); [reflexivity | exact IH].
Qed.

Lemma filter_all {A} (p : A -> bool) l : (forall x, In x l -> p x = true) -> filter p l = l.
Proof.
  induction l as [|x r IH]; simpl; intro H; [reflexivity|].
  rewrite (H x (or_introl eq_refl)). f_equal. apply IH. intros y Hy. apply H. right; exact Hy.
Qed.

Lemma filter_filter {A} (p q : A -> bool) l : filter p (filter q l) = filter (fun x => q x && p x) l.
Proof.
  induction l as [|x r IH]; simpl; [reflexivity|].
  destruct (q x); simpl; [destruct (p x)|]; rewrite IH; reflexivity.
Qed.

Lemma filter_map {A B} (p : B -> bool) (g : A -> B) l : filter p (map g l) = map g (filter (fun x => p (g x)) l).
Proof.
  induction l as [|x r IH]; simpl; [reflexivity|].
  destruct (p (g x)); simpl; rewrite IH; reflexivity.
Qed.

Lemma mem_filter (a : name -> bool) t l : mem t (filter a l) = mem t l && a t.
Proof.
  induction l as [|x r IH]; simpl; [reflexivity|].
  destruct (a x) eqn:Ax; simpl.
  - rewrite IH. destruct (bytes_eqb t x) eqn:E; simpl; [|reflexivity].
    apply bytes_eqb_eq in E. subst. rewrite Ax. reflexivity.
  - rewrite IH. destruct (bytes_eqb t x) eqn:E; simpl; [|reflexivity].
    apply bytes_eqb_eq in E. subst. rewrite Ax. rewrite andb_false_r. reflexivity.
Qed.

Lemma map_fst_map {A B} (g : A -> B) (l : list (name * A)) :
  map fst (map (fun nt => (fst nt, g (snd nt))) l) = map fst l.
Proof. rewrite map_map. apply map_ext. reflexivity. Qed.

(** ** erase *)
Lemma type_req_erase a F t : type_req (erase_type a F t) = type_req t.
Proof. destruct t; reflexivity. Qed.

Lemma kind_of_erase a F t : kind_of (erase_type a F t) = kind_of t.
Proof. destruct t; reflexivity. Qed.

Lemma fields_of_erase a F t : fields_of (erase_type a F t) = erase_fields F (fields_of t).
Proof. destruct t; reflexivity. Qed.

Section Erase.
  Variable S : schema.
  Variables F G : features.
  Hypothesis Hnd : nodup (map fst (types S)) = true.
  Hypothesis HFG : subset F G = true.

  Local Notation alive := (visible S F).
  Local Notation E := (erase S F).

  Lemma lookup_erase n :
    lookup E n = match lookup S n with
                 | Some t => if subset (type_req t) F then Some (erase_type alive F t) else None
                 | None => None
                 end.
  Proof.
    unfold lookup, erase. simpl. rewrite assoc_map.
    rewrite (assoc_filter (fun nt => subset (type_req (snd nt)) F)) by exact Hnd.
    destruct (assoc n (types S)) as [t|]; simpl; [|reflexivity].
    destruct (subset (type_req t) F); reflexivity.
  Qed.

  Lemma visible_lookup n : visible S F n = true -> exists t, lookup S n = Some t /\ subset (type_req t) F = true.
  Proof. unfold visible. destruct (lookup S n) as [t|]; [|discriminate]. intro H. exists t. auto. Qed.

  Lemma lookup_erase_visible n t :
    lookup S n = Some t -> subset (type_req t) F = true -> lookup E n = Some (erase_type alive F t).
  Proof. intros H1 H2. rewrite lookup_erase, H1, H2. reflexivity. Qed.

  Lemma lookup_erase_invisible n : visible S F n = false -> lookup E n = None.
  Proof.
    unfold visible. rewrite lookup_erase. destruct (lookup S n) as [t|]; [|reflexivity].
    intro H. rewrite H. reflexivity.
  Qed.

  Lemma visible_erase n : visible E G n = visible S F n.
  Proof.
    unfold visible at 1. rewrite lookup_erase. unfold visible.
    destruct (lookup S n) as [t|]; [|reflexivity].
    destruct (subset (type_req t) F) eqn:V; [|reflexivity].
    rewrite type_req_erase. eapply subset_trans; eauto.
  Qed.

  Lemma req_of_erase n : visible S F n = true -> req_of E n = req_of S n.
  Proof.
    intro V. destruct (visible_lookup n V) as [t [L R]].
    unfold req_of. rewrite (lookup_erase_visible n t L R), L. apply type_req_erase.
  Qed.

  Lemma implements_erase t nt :
    alive t = true -> implements t (fst nt, erase_type alive F (snd nt)) = implements t nt.
  Proof.
    intro A. unfold implements. simpl. destruct (snd nt); simpl; try reflexivity.
    rewrite mem_filter, A, andb_true_r. reflexivity.
  Qed.

  Lemma impls_erase t :
    alive t = true ->
    impls E t = map (fun nt => (fst nt, erase_type alive F (snd nt)))
                    (filter (fun nt => subset (type_req (snd nt)) F) (impls S t)).
  Proof.
    intro A. unfold impls, erase. cbn [types]. rewrite filter_map.
    f_equal. rewrite !filter_filter. apply filter_ext. intro nt. cbv beta.
    rewrite (implements_erase t nt A). apply andb_comm.
  Qed.

  Lemma names_within_erase (l : list (name * named_type)) :
    names_within G (map (fun nt => (fst nt, erase_type alive F (snd nt)))
                        (filter (fun nt => subset (type_req (snd nt)) F) l))
    = names_within F l.
  Proof.
    unfold names_within. rewrite filter_map. rewrite map_fst_map. f_equal.
    rewrite filter_filter. apply filter_ext. intro nt. simpl. rewrite type_req_erase.
    destruct (subset (type_req (snd nt)) F) eqn:V; [|reflexivity].
    simpl. eapply subset_trans; eauto.
  Qed.
End Erase.

Arguments subset : simpl never.
Arguments mem : simpl never.
Arguments impls : simpl never.
Arguments names_within : simpl never.
Arguments ptrs_within : simpl never.
Arguments visible : simpl never.
Arguments erase : simpl never.
Arguments lookup : simpl never.
Arguments req_of : simpl never.
Arguments erase_fields : simpl never.

(** ** what [schema_ok] gives *)
Lemma type_ok_fields_nodup S x : type_ok S x = true -> nodup (map fst (fields_of x)) = true.
Proof.
  destruct x; simpl; intro H; try reflexivity.
  - apply andb_true_iff in H as [H _]. unfold fields_ok in H.
    apply andb_true_iff in H as [H _]. apply andb_true_iff in H as [H _]. exact H.
  - unfold fields_ok in H.
    apply andb_true_iff in H as [H _]. apply andb_true_iff in H as [H _]. exact H.
Qed.

Lemma type_ok_fields_ok S x :
  type_ok S x = true -> (fields_of x = [] \/ fields_ok S (type_req x) (fields_of x) = true).
Proof.
  destruct x; simpl; intro H; auto.
  - apply andb_true_iff in H as [H _]. auto.
Qed.

Lemma ref_kind_ok_lookup S p t : ref_kind_ok S p t = true -> exists x, lookup S (base t) = Some x.
Proof. unfold ref_kind_ok. destruct (lookup S (base t)) as [x|]; [eauto | discriminate]. Qed.

Section Main.
  Variable S : schema.
  Variables F G : features.
  Hypothesis Hok : schema_ok S = true.
  Hypothesis HFG : subset F G = true.
  Local Notation alive := (visible S F).
  Local Notation E := (erase S F).

  Lemma ok_parts :
    nodup (map fst (types S)) = true /\
    forallb (fun nt => type_ok S (snd nt)) (types S) = true /\
    root_ok fixed S (Some (query S)) = true /\ root_ok fixed S (mutation S) = true /\
    root_ok fixed S (subscription S) = true /\
    forallb (directive_ok fixed S) (directives S) = true /\
    forallb (fun n => match lookup S n with Some _ => true | None => false end) (additional S) = true.
  Proof.
    pose proof Hok as H. unfold schema_ok, schema_ok_gen in H.
    apply andb_true_iff in H as [H H7]. apply andb_true_iff in H as [H H6]. apply andb_true_iff in H as [H H5].
    apply andb_true_iff in H as [H H4]. apply andb_true_iff in H as [H H3].
    apply andb_true_iff in H as [H1 H2]. auto 10.
  Qed.

  Lemma ok_nodup : nodup (map fst (types S)) = true.
  Proof. apply ok_parts. Qed.

  Lemma ok_type n t : lookup S n = Some t -> type_ok S t = true.
  Proof.
    intro L. destruct ok_parts as [_ [H _]]. rewrite forallb_forall in H.
    apply (H (n, t)). apply assoc_In. exact L.
  Qed.

  Lemma In_types_lookup n t : In (n, t) (types S) -> lookup S n = Some t.
  Proof. intro H. apply assoc_nodup_In; [apply ok_nodup | exact H]. Qed.

  Lemma vis_inv n :
    alive n = true ->
    exists t, lookup S n = Some t /\ subset (type_req t) F = true /\ type_ok S t = true /\
              lookup E n = Some (erase_type alive F t).
  Proof.
    intro V. destruct (visible_lookup S F n V) as [t [L R]]. exists t.
    repeat split; auto.
    - eapply ok_type; eauto.
    - apply lookup_erase_visible; auto. apply ok_nodup.
  Qed.

  Lemma visible_intro n t : lookup S n = Some t -> subset (type_req t) F = true -> alive n = true.
  Proof. intros L R. unfold visible. rewrite L. exact R. Qed.

  Lemma root_visible r : root_ok fixed S r = true -> match r with Some n => alive n = true | None => True end.
  Proof.
    destruct r as [n|]; [|trivial]. unfold root_ok.
    destruct (lookup S n) as [[| | | fs ifs req | |]|] eqn:L; try discriminate.
    cbn [fx_roots fixed]. intro H. apply is_nil_true in H. subst.
    eapply visible_intro; eauto.
  Qed.

  (** a field that a request may see, of a type it may see, exposes only types it may see *)
  Lemma field_handles_visible t x f fd :
    lookup S t = Some x -> subset (type_req x) F = true ->
    In (f, fd) (fields_of x) -> subset (f_req fd) F = true ->
    forall h, In h (field_handles fd) -> alive h = true.
  Proof.
    intros L R HI RF h Hh.
    destruct (type_ok_fields_ok S x (ok_type t x L)) as [Hnil | Hfs]; [rewrite Hnil in HI; contradiction|].
    unfold fields_ok in Hfs. apply andb_true_iff in Hfs as [Hfs _]. apply andb_true_iff in Hfs as [_ Hfs].
    rewrite forallb_forall in Hfs. specialize (Hfs (f, fd) HI). simpl in Hfs.
    apply andb_true_iff in Hfs as [_ Hfs]. unfold field_ok in Hfs.
    apply andb_true_iff in Hfs as [Hfs Hargs]. apply andb_true_iff in Hfs as [Hk Hty].
    unfold field_handles in Hh. destruct Hh as [Hh | Hh].
    - subst h. destruct (ref_kind_ok_lookup _ _ _ Hk) as [y Ly].
      eapply visible_intro; eauto.
      unfold req_of in Hty. rewrite Ly in Hty. eapply subset_union; eauto.
    - apply in_map_iff in Hh as [a [Ha HIa]]. subst h.
      rewrite forallb_forall in Hargs. specialize (Hargs a HIa).
      apply andb_true_iff in Hargs as [Hka Hra].
      destruct (ref_kind_ok_lookup _ _ _ Hka) as [y Ly].
      eapply visible_intro; eauto.
      unfold req_of in Hra. rewrite Ly in Hra. eapply subset_union; eauto.
  Qed.

  (** members of a visible union are visible *)
  Lemma union_members_visible t ms r :
    lookup S t = Some (NUnion ms r) -> subset r F = true -> forall m, In m ms -> alive m = true.
  Proof.
    intros L R m Hm. pose proof (ok_type t _ L) as T. simpl in T.
    apply andb_true_iff in T as [_ T]. rewrite forallb_forall in T. specialize (T m Hm).
    destruct (lookup S m) as [[| | | fs ifs req | |]|] eqn:Lm; try discriminate.
    eapply visible_intro; eauto. simpl. eapply subset_trans; eauto.
  Qed.

  (** implemented interfaces are registered *)
  Lemma iface_registered t fs ifs r i :
    lookup S t = Some (NObject fs ifs r) -> In i ifs -> exists ifs' r', lookup S i = Some (NInterface ifs' r').
  Proof.
    intros L Hi. pose proof (ok_type t _ L) as T. simpl in T.
    apply andb_true_iff in T as [_ T]. rewrite forallb_forall in T. specialize (T i Hi).
    unfold satisfies in T. destruct (lookup S i) as [[| | | | ifs' r' |]|]; try discriminate. eauto.
  Qed.

  Lemma alive_req_of n : (exists x, lookup S n = Some x) -> alive n = subset (req_of S n) F.
  Proof. intros [x L]. unfold visible, req_of. rewrite L. reflexivity. Qed.

  Lemma impls_In t n x : In (n, x) (impls S t) -> lookup S n = Some x.
  Proof. unfold impls. intro H. apply filter_In in H as [H _]. apply In_types_lookup. exact H. Qed.

  Lemma names_within_visible l :
    (forall n x, In (n, x) l -> lookup S n = Some x) -> forall h, In h (names_within F l) -> alive h = true.
  Proof.
    intros Hl h Hh. unfold names_within in Hh. apply in_map_iff in Hh as [[n x] [Hn HI]]. simpl in Hn. subst h.
    apply filter_In in HI as [HI R]. simpl in R. eapply visible_intro; eauto.
  Qed.

  Lemma ptrs_within_visible l :
    (forall n, In n l -> exists x, lookup S n = Some x) -> forall h, In h (ptrs_within S F l) -> alive h = true.
  Proof.
    intros Hl h Hh. unfold ptrs_within in Hh. apply filter_In in Hh as [HI R].
    rewrite alive_req_of; auto.
  Qed.

  Lemma ptrs_within_erase l :
    (forall n, In n l -> exists x, lookup S n = Some x) ->
    ptrs_within E G (filter alive l) = ptrs_within S F l.
  Proof.
    intro Hl. unfold ptrs_within. rewrite filter_filter. apply filter_ext_in. intros n Hn.
    rewrite (alive_req_of n (Hl n Hn)).
    destruct (subset (req_of S n) F) eqn:R; [|reflexivity]. simpl.
    rewrite req_of_erase; [eapply subset_trans; eauto | apply ok_nodup |].
    rewrite (alive_req_of n (Hl n Hn)). exact R.
  Qed.

  (** *** the main lemma: on pointers the request holds, every lookup answers the same in the
      reduced schema, and hands out only types the request may see *)
  Lemma ask_erase q :
    (forall h, In h (handle_args q) -> alive h = true) ->
    ask fixed S F q = ask fixed E G q /\
    (forall h, In h (handles_of q (ask fixed S F q)) -> alive h = true).
  Proof.
    intro Hh. pose proof ok_nodup as Hnd.
    destruct q as [r | n | n | t | t f | t | t | o t | | n | t incl | t | t | t incl | t | | dn].
    - (* QRoot *)
      destruct ok_parts as [_ [_ [Rq [Rm [Rs _]]]]].
      destruct r; simpl.
      + split; [reflexivity|]. intros h [Hq | []]. subst h. apply (root_visible _ Rq).
      + pose proof (root_visible _ Rm) as V. unfold erase; simpl.
        destruct (mutation S) as [m|]; simpl.
        * rewrite V. split; [reflexivity|]. intros h [Hq | []]. subst h. exact V.
        * split; [reflexivity | intros h []].
      + pose proof (root_visible _ Rs) as V. unfold erase; simpl.
        destruct (subscription S) as [m|]; simpl.
        * rewrite V. split; [reflexivity|]. intros h [Hq | []]. subst h. exact V.
        * split; [reflexivity | intros h []].
    - (* QNamedV *)
      simpl. rewrite (lookup_erase S F Hnd n).
      destruct (lookup S n) as [x|] eqn:L.
      + destruct (subset (type_req x) F) eqn:R.
        * rewrite type_req_erase, (subset_trans _ _ _ R HFG). split; [reflexivity|].
          intros h [Hq | []]. subst h. eapply visible_intro; eauto.
        * split; [reflexivity|]. destruct (mem n meta_names); intros h [].
      + split; [reflexivity|]. destruct (mem n meta_names); intros h [].
    - (* QNamedE *)
      assert (V : alive n = true) by (apply Hh; left; reflexivity).
      destruct (vis_inv n V) as [x [L [R [T LE]]]].
      simpl. rewrite L, LE. split; [reflexivity|]. intros h [Hq | []]. subst h. exact V.
    - (* QKind *)
      assert (V : alive t = true) by (apply Hh; left; reflexivity).
      destruct (vis_inv t V) as [x [L [R [T LE]]]].
      simpl. rewrite L, LE. simpl. rewrite kind_of_erase. split; [reflexivity | intros h []].
    - (* QField *)
      assert (V : alive t = true) by (apply Hh; left; reflexivity).
      destruct (vis_inv t V) as [x [L [R [T LE]]]].
      simpl. rewrite L, LE, fields_of_erase. unfold erase_fields.
      rewrite assoc_filter by (apply (type_ok_fields_nodup S); exact T).
      destruct (assoc f (fields_of x)) as [fd|] eqn:A; simpl; [|split; [reflexivity | intros h []]].
      destruct (subset (f_req fd) F) eqn:RF.
      + rewrite (subset_trans _ _ _ RF HFG). split; [reflexivity|].
        simpl. eapply field_handles_visible; eauto. apply assoc_In; exact A.
      + split; [reflexivity | intros h []].
    - (* QPossibleV *)
      assert (V : alive t = true) by (apply Hh; left; reflexivity).
      destruct (vis_inv t V) as [x [L [R [T LE]]]].
      simpl. rewrite L, LE. destruct x as [| | | fs ifs r | fs r | ms r]; simpl;
        try solve [split; [reflexivity | intros h []]].
      + split; [reflexivity|]. intros h [Hq | []]. subst h. exact V.
      + rewrite (impls_erase S F t V), names_within_erase by assumption. split; [reflexivity|].
        apply names_within_visible. apply impls_In.
      + pose proof (union_members_visible t ms r L R) as M.
        rewrite (filter_all _ ms M). split; [reflexivity | exact M].
    - (* QImpls *)
      assert (V : alive t = true) by (apply Hh; left; reflexivity).
      destruct (vis_inv t V) as [x [L [R [T LE]]]].
      simpl. rewrite L, LE. destruct x as [| | | fs ifs r | fs r | ms r]; simpl;
        try solve [split; [reflexivity | intros h []]].
      + rewrite (impls_erase S F t V), names_within_erase by assumption. split; [reflexivity|].
        apply names_within_visible. apply impls_In.
      + pose proof (union_members_visible t ms r L R) as M.
        rewrite (filter_all _ ms M). split; [reflexivity | exact M].
    - (* QApplies *)
      assert (Vo : alive o = true) by (apply Hh; left; reflexivity).
      assert (Vt : alive t = true) by (apply Hh; right; left; reflexivity).
      destruct (vis_inv t Vt) as [x [L [R [T LE]]]].
      destruct (vis_inv o Vo) as [y [Lo [Ro [To LEo]]]].
      simpl. rewrite L, LE. destruct x as [| | | fs ifs r | fs r | ms r]; simpl;
        try solve [split; [reflexivity | intros h []]].
      + rewrite Lo, LEo. destruct y; simpl; try solve [split; [reflexivity | intros h []]].
        rewrite mem_filter, Vt, andb_true_r. split; [reflexivity | intros h []].
      + rewrite mem_filter, Vo, andb_true_r. split; [reflexivity | intros h []].
    - (* QIntroTypes *)
      simpl. unfold erase. cbn [types]. rewrite names_within_erase by assumption.
      split; [reflexivity|]. apply names_within_visible. intros n x. apply In_types_lookup.
    - (* QIntroType *)
      simpl. rewrite (lookup_erase S F Hnd n).
      destruct (lookup S n) as [x|] eqn:L; [|split; [reflexivity | intros h []]].
      destruct (subset (type_req x) F) eqn:R.
      + rewrite type_req_erase, (subset_trans _ _ _ R HFG). split; [reflexivity|].
        intros h [Hq | []]. subst h. eapply visible_intro; eauto.
      + split; [reflexivity | intros h []].
    - (* QIntroFields *)
      assert (V : alive t = true) by (apply Hh; left; reflexivity).
      destruct (vis_inv t V) as [x [L [R [T LE]]]].
      simpl. rewrite L, LE.
      assert (K : forall fs, (forall nf, In nf fs -> In nf (fields_of x)) ->
                filter (fun nf => (negb (f_dep (snd nf)) || incl) && subset (f_req (snd nf)) F) fs
                = filter (fun nf => (negb (f_dep (snd nf)) || incl) && subset (f_req (snd nf)) G) (erase_fields F fs)
                /\ forall h, In h (flat_map (fun nf => field_handles (snd nf))
                     (filter (fun nf => (negb (f_dep (snd nf)) || incl) && subset (f_req (snd nf)) F) fs)) -> alive h = true).
      { intros fs Hfs. split.
        - unfold erase_fields. rewrite filter_filter. apply filter_ext. intros nf.
          destruct (subset (f_req (snd nf)) F) eqn:RF; simpl.
          + rewrite (subset_trans _ _ _ RF HFG). reflexivity.
          + apply andb_false_r.
        - intros h Hin. apply in_flat_map in Hin as [[f fd] [HI Hhh]].
          apply filter_In in HI as [HI C]. apply andb_true_iff in C as [_ RF]. simpl in *.
          eapply field_handles_visible; eauto. }
      destruct x as [| | | fs ifs r | fs r | ms r]; simpl; try solve [split; [reflexivity | intros h []]].
      + destruct (K fs) as [K1 K2]; [auto|]. split; [rewrite K1; reflexivity | exact K2].
      + destruct (K fs) as [K1 K2]; [auto|]. split; [rewrite K1; reflexivity | exact K2].
    - (* QIntroInterfaces *)
      assert (V : alive t = true) by (apply Hh; left; reflexivity).
      destruct (vis_inv t V) as [x [L [R [T LE]]]].
      simpl. rewrite L, LE. destruct x as [| | | fs ifs r | fs r | ms r]; simpl;
        try solve [split; [reflexivity | intros h []]].
      assert (C : forall n, In n ifs -> exists x, lookup S n = Some x).
      { intros n Hn. destruct (iface_registered _ _ _ _ _ L Hn) as [a [b Ln]]. eauto. }
      rewrite (ptrs_within_erase ifs C). split; [reflexivity | apply ptrs_within_visible; exact C].
    - (* QIntroPossible *)
      assert (V : alive t = true) by (apply Hh; left; reflexivity).
      destruct (vis_inv t V) as [x [L [R [T LE]]]].
      simpl. rewrite L, LE. destruct x as [| | | fs ifs r | fs r | ms r]; simpl;
        try solve [split; [reflexivity | intros h []]].
      + rewrite (impls_erase S F t V), names_within_erase by assumption. split; [reflexivity|].
        apply names_within_visible. apply impls_In.
      + assert (C : forall n, In n ms -> exists x, lookup S n = Some x).
        { intros n Hn. pose proof (union_members_visible t ms r L R n Hn) as Vn.
          destruct (vis_inv n Vn) as [y [Ly _]]. eauto. }
        rewrite (ptrs_within_erase ms C). split; [reflexivity | apply ptrs_within_visible; exact C].
    - (* QEnumValues *)
      assert (V : alive t = true) by (apply Hh; left; reflexivity).
      destruct (vis_inv t V) as [x [L [R [T LE]]]].
      simpl. rewrite L, LE. destruct x; simpl; split; try reflexivity; intros h [].
    - (* QInputFields *)
      assert (V : alive t = true) by (apply Hh; left; reflexivity).
      destruct (vis_inv t V) as [x [L [R [T LE]]]].
      simpl. rewrite L, LE. destruct x as [| | fs r | | |]; simpl; try solve [split; [reflexivity | intros h []]].
      split; [reflexivity|]. intros h Hin. apply in_map_iff in Hin as [a [Ha HIa]]. subst h.
      pose proof T as T'. simpl in T'. apply andb_true_iff in T' as [_ T'].
      rewrite forallb_forall in T'. specialize (T' a HIa). apply andb_true_iff in T' as [Hk Hr].
      destruct (ref_kind_ok_lookup _ _ _ Hk) as [y Ly]. eapply visible_intro; eauto.
      unfold req_of in Hr. rewrite Ly in Hr. simpl in R. eapply subset_trans; eauto.
    - (* QDirectives *)
      simpl. split; [reflexivity|]. intros h Hin.
      apply in_flat_map in Hin as [d [Hd Hin]]. apply in_map_iff in Hin as [a [Ha HIa]]. subst h.
      destruct ok_parts as [_ [_ [_ [_ [_ [D _]]]]]]. rewrite forallb_forall in D. specialize (D d Hd).
      unfold directive_ok in D. apply andb_true_iff in D as [_ D]. rewrite forallb_forall in D.
      specialize (D a HIa). apply andb_true_iff in D as [Hk Hr]. cbn [fx_dirs fixed] in Hr.
      destruct (ref_kind_ok_lookup _ _ _ Hk) as [y Ly]. eapply visible_intro; eauto.
      unfold req_of in Hr. rewrite Ly in Hr. apply is_nil_true in Hr. rewrite Hr. apply subset_nil.
    - (* QDirective *)
      simpl. split; [reflexivity|]. intros h Hin.
      destruct (assoc dn (directives S)) as [args|] eqn:A; [|destruct Hin].
      simpl in Hin. rewrite app_nil_r in Hin. apply in_map_iff in Hin as [a [Ha HIa]]. subst h.
      destruct ok_parts as [_ [_ [_ [_ [_ [D _]]]]]]. rewrite forallb_forall in D.
      specialize (D (dn, args) (assoc_In _ _ _ A)).
      unfold directive_ok in D. apply andb_true_iff in D as [_ D]. rewrite forallb_forall in D.
      specialize (D a HIa). apply andb_true_iff in D as [Hk Hr]. cbn [fx_dirs fixed] in Hr.
      destruct (ref_kind_ok_lookup _ _ _ Hk) as [y Ly]. eapply visible_intro; eauto.
      unfold req_of in Hr. rewrite Ly in Hr. apply is_nil_true in Hr. rewrite Hr. apply subset_nil.
  Qed.
End Main.

(** ** consumers *)
Lemma run_Ask {A} fx S F known q (k : answer -> prog A) :
  run fx S F known (Ask q k) =
  if forallb (fun h => mem h known) (handle_args q) then
    ((q, ask fx S F q) :: fst (run fx S F (handles_of q (ask fx S F q) ++ known) (k (ask fx S F q))),
     snd (run fx S F (handles_of q (ask fx S F q) ++ known) (k (ask fx S F q))))
  else ([], Forged).
Proof.
  simpl. destruct (forallb (fun h => mem h known) (handle_args q)); [|reflexivity].
  destruct (run fx S F (handles_of q (ask fx S F q) ++ known) (k (ask fx S F q))). reflexivity.
Qed.

Section Run.
  Variable S : schema.
  Variables F G : features.
  Hypothesis Hok : schema_ok S = true.
  Hypothesis HFG : subset F G = true.
  Local Notation alive := (visible S F).
  Local Notation E := (erase S F).

  Lemma known_step q known :
    (forall h, mem h known = true -> alive h = true) ->
    forallb (fun h => mem h known) (handle_args q) = true ->
    ask fixed S F q = ask fixed E G q /\
    (forall h, mem h (handles_of q (ask fixed S F q) ++ known) = true -> alive h = true).
  Proof.
    intros Hk C. rewrite forallb_forall in C.
    destruct (ask_erase S F G Hok HFG q) as [Eq Cl].
    { intros h Hh. apply Hk. apply C. exact Hh. }
    split; [exact Eq|]. intros h Hm. apply mem_In in Hm. apply in_app_or in Hm as [Hm | Hm].
    - apply Cl. exact Hm.
    - apply Hk. apply mem_In. exact Hm.
  Qed.

  (** result and trace of every consumer program coincide *)
  Lemma run_erase {A} (p : prog A) : forall known,
    (forall h, mem h known = true -> alive h = true) ->
    run fixed S F known p = run fixed E G known p.
  Proof.
    induction p as [a | q k IH]; intros known Hk; [reflexivity|].
    rewrite !run_Ask.
    destruct (forallb (fun h => mem h known) (handle_args q)) eqn:C; [|reflexivity].
    destruct (known_step q known Hk C) as [Eq Cl].
    rewrite <- Eq. rewrite (IH (ask fixed S F q) _ Cl). reflexivity.
  Qed.

  (** every field definition GetField handed out during a run exists, unchanged, in the reduced
      schema: no resolver of a deleted element can have been invoked *)
  Lemma run_resolved_exist {A} (p : prog A) : forall known,
    (forall h, mem h known = true -> alive h = true) ->
    forall t f fd, In (t, f, fd) (resolved_fields (fst (run fixed S F known p))) ->
    exists x, lookup E t = Some x /\ assoc f (fields_of x) = Some fd.
  Proof.
    induction p as [a | q k IH]; intros known Hk t f fd Hin; [contradiction|].
    rewrite run_Ask in Hin.
    destruct (forallb (fun h => mem h known) (handle_args q)) eqn:C; [|contradiction].
    destruct (known_step q known Hk C) as [Eq Cl].
    cbn [fst] in Hin. unfold resolved_fields in Hin. cbn [flat_map] in Hin.
    apply in_app_or in Hin as [Hin | Hin].
    - destruct q; try contradiction.
      destruct (ask fixed S F (QField t0 f0)) as [| | | [fd0|] | | | | |] eqn:HA; try contradiction.
      destruct Hin as [Hin | []]. inversion Hin; subst t0 f0 fd0. clear Hin.
      rewrite forallb_forall in C.
      assert (V : alive t = true) by (apply Hk, C; left; reflexivity).
      destruct (vis_inv S F Hok t V) as [x [L [R [T LE]]]].
      exists (erase_type alive F x). split; [exact LE|].
      simpl in HA. rewrite L in HA. rewrite fields_of_erase. unfold erase_fields.
      rewrite assoc_filter by (apply (type_ok_fields_nodup S); exact T).
      destruct (assoc f (fields_of x)) as [fd'|]; [|discriminate]. simpl.
      destruct (subset (f_req fd') F) eqn:RF; inversion HA; subst. reflexivity.
    - eapply IH; eauto.
  Qed.
End Run.

(** ** the theorems in the form Properties/C13.v states them *)
Theorem view_erase_eq S F G q :
  schema_ok S = true -> subset F G = true ->
  (forall h, In h (handle_args q) -> visible S F h = true) ->
  ask fixed S F q = ask fixed (erase S F) G q.
Proof. intros Hok HFG Hh. apply (ask_erase S F G Hok HFG q Hh). Qed.

Theorem view_validator_erase_eq S F G :
  schema_ok S = true -> subset F G = true ->
  view_equiv S F (view_validator fixed S F) (view_validator fixed (erase S F) G).
Proof.
  intros Hok HFG q Hh. unfold view_validator. destruct (in_view_validator q); [|reflexivity].
  f_equal. apply view_erase_eq; auto.
Qed.

Theorem view_executor_erase_eq S F G :
  schema_ok S = true -> subset F G = true ->
  view_equiv S F (view_executor fixed S F) (view_executor fixed (erase S F) G).
Proof.
  intros Hok HFG q Hh. unfold view_executor. destruct (in_view_executor q); [|reflexivity].
  f_equal. apply view_erase_eq; auto.
Qed.

Theorem view_introspection_erase_eq S F G :
  schema_ok S = true -> subset F G = true ->
  view_equiv S F (view_introspection fixed S F) (view_introspection fixed (erase S F) G).
Proof.
  intros Hok HFG q Hh. unfold view_introspection. destruct (in_view_introspection q); [|reflexivity].
  f_equal. apply view_erase_eq; auto.
Qed.

Theorem view_closed S F q :
  schema_ok S = true ->
  (forall h, In h (handle_args q) -> visible S F h = true) ->
  forall h, In h (handles_of q (ask fixed S F q)) -> visible S F h = true.
Proof. intros Hok Hh. apply (ask_erase S F F Hok (subset_refl F) q Hh). Qed.

Theorem noninterference {A} (p : prog A) S F G :
  schema_ok S = true -> subset F G = true -> indistinguishable S F G p.
Proof.
  intros Hok HFG. unfold indistinguishable. apply run_erase; auto.
  intros h Hm. discriminate.
Qed.

Lemma subset_app_l F X : subset F (F ++ X) = true.
Proof. apply subset_spec. intros x Hx. apply in_or_app. left; exact Hx. Qed.

Theorem noninterference_all_features {A} (p : prog A) S F :
  schema_ok S = true -> indistinguishable S F (F ++ all_features S) p.
Proof. intro Hok. apply noninterference; [exact Hok | apply subset_app_l]. Qed.

Theorem gated_never_called {A} (p : prog A) S F t f fd :
  schema_ok S = true ->
  In (t, f, fd) (resolved_fields (fst (run fixed S F [] p))) ->
  exists x, lookup (erase S F) t = Some x /\ assoc f (fields_of x) = Some fd.
Proof.
  intros Hok Hin. eapply (run_resolved_exist S F F Hok (subset_refl F) p []); eauto.
  intros h Hm. discriminate.
Qed.

(** ** the reduced schema is one schema.New accepts *)
Lemma nodup_filter {A} (p : name * A -> bool) (l : list (name * A)) :
  nodup (map fst l) = true -> nodup (map fst (filter p l)) = true.
Proof.
  induction l as [|[k v] r IH]; simpl; [reflexivity|].
  intro H. apply andb_true_iff in H as [H1 H2].
  destruct (p (k, v)); simpl; [|auto].
  rewrite IH by exact H2. rewrite andb_true_r.
  apply negb_true_iff. apply negb_true_iff in H1. apply mem_false_In. apply mem_false_In in H1.
  intro HI. apply H1. apply in_map_iff in HI as [x [Hx HI]]. apply filter_In in HI as [HI _].
  apply in_map_iff. exists x. auto.
Qed.

Lemma nodup_filter_names (a : name -> bool) l : nodup l = true -> nodup (filter a l) = true.
Proof.
  induction l as [|x r IH]; simpl; [reflexivity|].
  intro H. apply andb_true_iff in H as [H1 H2].
  destruct (a x); simpl; [|auto].
  rewrite IH by exact H2. rewrite andb_true_r. rewrite mem_filter.
  apply negb_true_iff in H1. rewrite H1. reflexivity.
Qed.

Lemma forallb_filter_imp {A} (p q q' : A -> bool) l :
  (forall x, In x l -> p x = true -> q x = true -> q' x = true) ->
  forallb q l = true -> forallb q' (filter p l) = true.
Proof.
  intros H Hq. rewrite forallb_forall in Hq. apply forallb_forall. intros x Hx.
  apply filter_In in Hx as [Hx Px]. apply H; auto.
Qed.

Section EraseOk.
  Variable S : schema.
  Variable F : features.
  Hypothesis Hok : schema_ok S = true.
  Local Notation alive := (visible S F).
  Local Notation E := (erase S F).

  Lemma ref_visible p t R :
    ref_kind_ok S p t = true -> subset (req_of S (base t)) R = true -> subset R F = true ->
    alive (base t) = true.
  Proof.
    intros K H HR. destruct (ref_kind_ok_lookup _ _ _ K) as [y Ly].
    eapply visible_intro; eauto. unfold req_of in H. rewrite Ly in H. eapply subset_trans; eauto.
  Qed.

  Lemma ref_kind_ok_erase p t : ref_kind_ok S p t = true -> alive (base t) = true -> ref_kind_ok E p t = true.
  Proof.
    intros K V. destruct (vis_inv S F Hok _ V) as [x [L [R [T LE]]]].
    unfold ref_kind_ok in *. rewrite L in K. rewrite LE, kind_of_erase. exact K.
  Qed.

  Lemma req_of_E n : alive n = true -> req_of E n = req_of S n.
  Proof. apply req_of_erase. apply ok_nodup; exact Hok. Qed.

  Lemma subset_union_F a b : subset a F = true -> subset b F = true -> subset (funion a b) F = true.
  Proof.
    unfold funion. rewrite !subset_spec. intros Ha Hb x Hx. apply in_app_or in Hx as [Hx | Hx]; auto.
  Qed.

  Lemma field_ok_erase req fd :
    subset req F = true -> subset (f_req fd) F = true -> field_ok S req fd = true -> field_ok E req fd = true.
  Proof.
    intros HR HF H. unfold field_ok in *.
    pose proof (subset_union_F _ _ HF HR) as HU.
    apply andb_true_iff in H as [H Hargs]. apply andb_true_iff in H as [Hk Hty].
    pose proof (ref_visible _ _ _ Hk Hty HU) as V.
    rewrite (ref_kind_ok_erase _ _ Hk V), (req_of_E _ V), Hty. simpl.
    rewrite forallb_forall in Hargs. apply forallb_forall. intros a Ha. specialize (Hargs a Ha).
    apply andb_true_iff in Hargs as [Hka Hra].
    pose proof (ref_visible _ _ _ Hka Hra HU) as Va.
    rewrite (ref_kind_ok_erase _ _ Hka Va), (req_of_E _ Va), Hra. reflexivity.
  Qed.

  Lemma fields_ok_erase req fs :
    subset req F = true -> fields_ok S req fs = true -> fields_ok E req (erase_fields F fs) = true.
  Proof.
    intros HR H. unfold fields_ok in *. unfold erase_fields.
    apply andb_true_iff in H as [H Hex]. apply andb_true_iff in H as [Hnd Hall].
    rewrite (nodup_filter _ fs Hnd). simpl. apply andb_true_iff. split.
    - eapply forallb_filter_imp; [|exact Hall]. intros nf _ P Q. simpl in *.
      apply andb_true_iff in Q as [Q1 Q2]. rewrite Q1. simpl. apply field_ok_erase; auto.
    - apply existsb_exists in Hex as [nf [HI Hs]]. apply existsb_exists. exists nf. split; [|exact Hs].
      apply filter_In. split; [exact HI|]. eapply subset_trans; eauto.
  Qed.

  Lemma named_subtype_erase x y :
    named_subtype S x y = true -> alive x = true -> alive y = true -> named_subtype E x y = true.
  Proof.
    intros H Vx Vy. unfold named_subtype in *.
    destruct (bytes_eqb x y); [reflexivity|]. simpl in *.
    destruct (vis_inv S F Hok _ Vx) as [tx [Lx [_ [_ LEx]]]].
    destruct (vis_inv S F Hok _ Vy) as [ty [Ly [_ [_ LEy]]]].
    rewrite Lx, Ly in H. rewrite LEx, LEy.
    destruct tx; try discriminate; destruct ty; simpl in *; try discriminate;
      rewrite mem_filter; rewrite ?Vx, ?Vy, H; reflexivity.
  Qed.

  Lemma subtype_erase a : forall b,
    subtype S a b = true -> alive (base a) = true -> alive (base b) = true -> subtype E a b = true.
  Proof.
    induction a as [x | x IH | x IH]; intros b H Va Vb.
    - destruct b; simpl in *; try discriminate. apply named_subtype_erase; auto.
    - destruct b as [y | y | y]; simpl in *; try discriminate.
      apply orb_true_iff in H as [H | H]; [rewrite H; reflexivity|].
      rewrite (IH y H Va Vb). apply orb_true_r.
    - destruct b as [y | y | y]; simpl in *.
      + apply (IH (StNamed y) H Va Vb).
      + apply (IH (StList y) H Va Vb).
      + apply orb_true_iff in H as [H | H]; [rewrite H; reflexivity|].
        rewrite (IH y H Va Vb). apply orb_true_r.
  Qed.

  Lemma satisfies_erase t fs ifs r i :
    lookup S t = Some (NObject fs ifs r) -> subset r F = true ->
    alive i = true -> satisfies S fs i = true -> satisfies E (erase_fields F fs) i = true.
  Proof.
    intros L R Vi H. unfold satisfies in *.
    destruct (vis_inv S F Hok _ Vi) as [ti [Li [Ri [Ti LEi]]]]. rewrite Li in H. rewrite LEi.
    destruct ti as [| | | | ifields r' |]; try discriminate. simpl.
    pose proof (type_ok_fields_nodup S _ (ok_type S Hok _ _ L)) as Hnd. simpl in Hnd.
    unfold erase_fields at 1. eapply forallb_filter_imp; [|exact H].
    intros [n ifd] HI P Q. simpl in *.
    unfold erase_fields. rewrite assoc_filter by exact Hnd.
    destruct (assoc n fs) as [fd|] eqn:A; [|discriminate].
    apply andb_true_iff in Q as [Q Q4]. apply andb_true_iff in Q as [Q Q3].
    apply andb_true_iff in Q as [Q1 Q2].
    assert (RF : subset (f_req fd) F = true) by (eapply subset_trans; eauto).
    simpl. rewrite RF, Q2, Q3, Q4. rewrite !andb_true_r.
    apply subtype_erase; auto.
    - apply (field_handles_visible S F Hok t _ n fd L R (assoc_In _ _ _ A) RF). left; reflexivity.
    - apply (field_handles_visible S F Hok i _ n ifd Li Ri HI P). left; reflexivity.
  Qed.

  Lemma type_ok_erase n x :
    lookup S n = Some x -> subset (type_req x) F = true -> type_ok E (erase_type alive F x) = true.
  Proof.
    intros L R. pose proof (ok_type S Hok n x L) as T.
    destruct x as [r | vals r | fs r | fs ifs r | fs r | ms r]; simpl in *.
    - reflexivity.
    - exact T.
    - apply andb_true_iff in T as [T1 T2]. rewrite T1. simpl.
      rewrite forallb_forall in T2. apply forallb_forall. intros a Ha. specialize (T2 a Ha).
      apply andb_true_iff in T2 as [Hk Hr].
      pose proof (ref_visible _ _ _ Hk Hr R) as V.
      rewrite (ref_kind_ok_erase _ _ Hk V), (req_of_E _ V), Hr. reflexivity.
    - apply andb_true_iff in T as [T1 T2]. rewrite (fields_ok_erase r fs R T1). simpl.
      rewrite forallb_forall in T2. apply forallb_forall. intros i Hi.
      apply filter_In in Hi as [Hi Vi]. eapply satisfies_erase; eauto.
    - apply fields_ok_erase; auto.
    - pose proof (union_members_visible S F Hok n ms r L R) as M.
      rewrite (filter_all _ ms M).
      apply andb_true_iff in T as [T T3]. rewrite T. simpl.
      rewrite forallb_forall in T3. apply forallb_forall. intros m Hm. specialize (T3 m Hm).
      destruct (vis_inv S F Hok _ (M m Hm)) as [tm [Lm [_ [_ LEm]]]]. rewrite Lm in T3. rewrite LEm.
      destruct tm; try discriminate. simpl. exact T3.
  Qed.

  Lemma root_ok_erase r : root_ok fixed S r = true -> root_ok fixed E (erase_root alive r) = true.
  Proof.
    intro H. pose proof (root_visible S F r H) as V.
    destruct r as [n|]; simpl; [|reflexivity]. rewrite V. simpl.
    destruct (vis_inv S F Hok _ V) as [x [L [_ [_ LE]]]]. simpl in H. rewrite L in H. rewrite LE.
    destruct x; try discriminate. simpl. exact H.
  Qed.

  Theorem erase_schema_ok : schema_ok E = true.
  Proof.
    destruct (ok_parts S Hok) as [P1 [P2 [P3 [P4 [P5 [P6 P7]]]]]].
    unfold schema_ok, schema_ok_gen. repeat (apply andb_true_iff; split).
    - unfold erase. cbn [types]. rewrite map_fst_map. apply nodup_filter. exact P1.
    - unfold erase at 2. cbn [types]. apply forallb_forall. intros [n x'] HI. simpl.
      apply in_map_iff in HI as [[n0 x] [Heq HI]]. simpl in Heq. inversion Heq; subst n0 x'. clear Heq.
      apply filter_In in HI as [HI R]. simpl in R.
      apply (type_ok_erase n x (In_types_lookup S Hok n x HI) R).
    - apply (root_ok_erase (Some (query S))) in P3. simpl in P3.
      pose proof (root_visible S F _ (proj1 (proj2 (proj2 (ok_parts S Hok))))) as V. simpl in V.
      rewrite V in P3. exact P3.
    - apply (root_ok_erase _ P4).
    - apply (root_ok_erase _ P5).
    - unfold erase at 2. cbn [directives]. rewrite forallb_forall in P6. apply forallb_forall. intros d Hd.
      specialize (P6 d Hd). unfold directive_ok in *. apply andb_true_iff in P6 as [D1 D2]. rewrite D1. simpl.
      rewrite forallb_forall in D2. apply forallb_forall. intros a Ha. specialize (D2 a Ha).
      apply andb_true_iff in D2 as [Hk Hr]. cbn [fx_dirs fixed] in *.
      assert (V : alive (base (snd a)) = true).
      { apply is_nil_true in Hr. eapply (ref_visible _ _ [] Hk); [rewrite Hr|]; reflexivity. }
      rewrite (ref_kind_ok_erase _ _ Hk V), (req_of_E _ V), Hr. reflexivity.
    - unfold erase at 2. cbn [additional]. apply forallb_forall. intros n Hn.
      apply filter_In in Hn as [_ V]. destruct (vis_inv S F Hok _ V) as [x [_ [_ [_ LE]]]].
      rewrite LE. reflexivity.
  Qed.
End EraseOk.

(** ** with every feature enabled nothing is deleted *)
Lemma map_id_in {A} (g : A -> A) l : (forall x, In x l -> g x = x) -> map g l = l.
Proof. intro H. rewrite <- (map_id l) at 2. apply map_ext_in. exact H. Qed.

Theorem erase_all S G : schema_ok S = true -> subset (all_features S) G = true -> erase S G = S.
Proof.
  intros Hok HG. rewrite subset_spec in HG.
  assert (TR : forall n x, In (n, x) (types S) -> subset (type_req x) G = true).
  { intros n x HI. apply subset_spec. intros f Hf. apply HG. unfold all_features.
    apply in_flat_map. exists (n, x). split; [exact HI|]. apply in_or_app. left; exact Hf. }
  assert (FR : forall n x f fd, In (n, x) (types S) -> In (f, fd) (fields_of x) -> subset (f_req fd) G = true).
  { intros n x f fd HI HF. apply subset_spec. intros g Hg. apply HG. unfold all_features.
    apply in_flat_map. exists (n, x). split; [exact HI|]. apply in_or_app. right.
    unfold field_features. apply in_flat_map. exists (f, fd). auto. }
  assert (AL : forall n x, lookup S n = Some x -> visible S G n = true).
  { intros n x L. eapply visible_intro; eauto. eapply TR. apply assoc_In. exact L. }
  destruct (ok_parts S Hok) as [P1 [P2 [P3 [P4 [P5 [P6 P7]]]]]].
  unfold erase. destruct S as [ts q m sub ds adds]. simpl in *. f_equal.
  - rewrite filter_all by (intros [n x] HI; simpl; eapply TR; eauto).
    apply map_id_in. intros [n x] HI. simpl. f_equal.
    pose proof (In_types_lookup _ Hok n x HI) as L.
    destruct x as [r | vals r | fs r | fs ifs r | fs r | ms r]; simpl; try reflexivity.
    + f_equal.
      * apply filter_all. intros [f fd] HF. simpl. eapply (FR n _ f fd HI). exact HF.
      * apply filter_all. intros i Hi.
        destruct (iface_registered _ Hok _ _ _ _ _ L Hi) as [a [b Li]]. eapply AL; eauto.
    + f_equal. apply filter_all. intros [f fd] HF. simpl. eapply (FR n _ f fd HI). exact HF.
    + f_equal. apply filter_all. intros mm Hm.
      pose proof (ok_type _ Hok _ _ L) as T. simpl in T. apply andb_true_iff in T as [_ T].
      rewrite forallb_forall in T. specialize (T mm Hm).
      destruct (lookup {| types := ts; query := q; mutation := m; subscription := sub; directives := ds; additional := adds |} mm) eqn:Lm;
        [|discriminate]. eapply AL; eauto.
  - destruct m as [mn|]; simpl; [|reflexivity]. rewrite (root_visible _ G _ P4). reflexivity.
  - destruct sub as [sn|]; simpl; [|reflexivity]. rewrite (root_visible _ G _ P5). reflexivity.
  - apply filter_all. intros n Hn. rewrite forallb_forall in P7. specialize (P7 n Hn).
    destruct (lookup {| types := ts; query := q; mutation := m; subscription := sub; directives := ds; additional := adds |} n) eqn:Ln;
      [|discriminate]. eapply AL; eauto.
Qed.

(** ** physical erasure (unreachable types unregistered) coincides with [erase] unless a type
    that needs nothing the request lacks was referenced only by deleted elements *)
Lemma filter_nil {A} (p : A -> bool) l : filter p l = [] -> forall x, In x l -> p x = false.
Proof.
  induction l as [|y r IH]; simpl; intros H x Hx; [contradiction|].
  destruct (p y) eqn:P; [discriminate|]. destruct Hx as [Hx | Hx]; [subst; exact P | auto].
Qed.

Lemma erase_physical_no_orphans S F : excl_orphaned_type S F = false -> erase_physical S F = erase S F.
Proof.
  unfold excl_orphaned_type, orphaned. intro H. apply negb_false_iff, is_nil_true in H.
  pose proof (filter_nil _ _ H) as K.
  unfold erase_physical, restrict. rewrite filter_all.
  - destruct (erase S F); reflexivity.
  - intros nt Hnt. specialize (K (fst nt) (in_map fst _ _ Hnt)). apply negb_false_iff in K. exact K.
Qed.

Theorem noninterference_physical {A} (p : prog A) S F G :
  schema_ok S = true -> subset F G = true -> excl_orphaned_type S F = false ->
  run fixed S F [] p = run fixed (erase_physical S F) G [] p.
Proof.
  intros Hok HFG Hex. rewrite (erase_physical_no_orphans S F Hex). apply noninterference; auto.
Qed.

(** ** witnesses: the pinned code violates the property at each repaired place *)
Open Scope string_scope.
Open Scope list_scope.
Definition nm (s : String.string) : name := bytes_of_string s.
Definition wfield (ty ret : String.string) : field_def :=
  {| f_type := StNamed (nm ty); f_args := []; f_req := []; f_dep := false; f_ret := nm ret |}.
Definition fa : name := nm "fa".

(** interfaces I and J share only the implementation G, which needs feature fa; A also implements
    the gated interface GI; the resolver of Query.i returns an object of type G *)
Definition W : schema :=
  {| types := [
       (nm "Int", NScalar []);
       (nm "I", NInterface [(nm "x", wfield "Int" "")] []);
       (nm "J", NInterface [(nm "y", wfield "Int" "")] []);
       (nm "GI", NInterface [(nm "x", wfield "Int" "")] [fa]);
       (nm "G", NObject [(nm "x", wfield "Int" ""); (nm "y", wfield "Int" "")] [nm "I"; nm "J"] [fa]);
       (nm "A", NObject [(nm "x", wfield "Int" "")] [nm "I"; nm "GI"] []);
       (nm "B", NObject [(nm "y", wfield "Int" "")] [nm "J"] []);
       (nm "Query", NObject [(nm "i", wfield "I" "G"); (nm "j", wfield "J" "B")] [] [])];
     query := nm "Query"; mutation := None; subscription := None; directives := [];
     additional := [nm "G"; nm "A"; nm "B"] |}.

(** a gated Mutation root type *)
Definition W_root : schema :=
  {| types := [
       (nm "Int", NScalar []);
       (nm "Mutation", NObject [(nm "m", wfield "Int" "")] [] [fa]);
       (nm "Query", NObject [(nm "ping", wfield "Int" "")] [] [])];
     query := nm "Query"; mutation := Some (nm "Mutation"); subscription := None; directives := [];
     additional := [] |}.

(** a directive argument of a gated enum type *)
Definition W_dir : schema :=
  {| types := [
       (nm "Int", NScalar []);
       (nm "E", NEnum [(nm "V", false)] [fa]);
       (nm "Query", NObject [(nm "ping", wfield "Int" "")] [] [])];
     query := nm "Query"; mutation := None; subscription := None;
     directives := [(nm "d", [(nm "e", StNamed (nm "E"))])]; additional := [] |}.

Lemma intro_refuted_before_fix :
  schema_ok W = true /\ subset [] [fa] = true /\
  visible W [] (nm "A") = true /\ visible W [] (nm "I") = true /\
  ask pinned_intro W [] (QIntroType (nm "G")) <> ask pinned_intro (erase W []) [fa] (QIntroType (nm "G")) /\
  ask pinned_intro W [] (QIntroInterfaces (nm "A")) <> ask pinned_intro (erase W []) [fa] (QIntroInterfaces (nm "A")) /\
  ask pinned_intro W [] (QIntroPossible (nm "I")) <> ask pinned_intro (erase W []) [fa] (QIntroPossible (nm "I")).
Proof. vm_compute. repeat split; try reflexivity; intro H; discriminate H. Qed.

Definition spread_chain : list cnode := [CField (nm "i"); CFrag (nm "J"); CField (nm "y")].

Lemma spread_refuted_before_fix :
  schema_ok W = true /\
  snd (run pinned_spread W [] [] (chain_validate spread_chain)) = Done [] /\
  snd (run pinned_spread (erase W []) [fa] [] (chain_validate spread_chain)) = Done [1%nat].
Proof. vm_compute. repeat split; reflexivity. Qed.

Definition resolve_chain : list cnode := [CField (nm "i"); CField (nm "x")].

Lemma resolve_refuted_before_fix :
  schema_ok W = true /\
  (exists fd, In (nm "G", nm "x", fd) (resolved_fields (fst (run pinned_resolve W [] [] (chain_prog resolve_chain))))) /\
  has_field (erase W []) (nm "G") (nm "x") = false /\
  snd (run pinned_resolve W [] [] (chain_prog resolve_chain)) <>
  snd (run pinned_resolve (erase W []) [fa] [] (chain_prog resolve_chain)).
Proof.
  split; [vm_compute; reflexivity|]. split.
  - exists (wfield "Int" ""). vm_compute. auto 10.
  - split; [vm_compute; reflexivity|]. vm_compute. intro H. discriminate H.
Qed.

Lemma roots_refuted_before_fix :
  schema_ok_gen pinned_roots W_root = true /\
  ask pinned_roots W_root [] (QRoot RMutation) <> ask pinned_roots (erase W_root []) [fa] (QRoot RMutation) /\
  schema_ok W_root = false.
Proof. vm_compute. repeat split; try reflexivity; intro H; discriminate H. Qed.

Lemma dirs_refuted_before_fix :
  schema_ok_gen pinned_dirs W_dir = true /\
  In (nm "E") (handles_of QDirectives (ask pinned_dirs W_dir [] QDirectives)) /\
  visible W_dir [] (nm "E") = false /\
  schema_ok W_dir = false.
Proof. vm_compute. repeat split; try reflexivity. left; reflexivity. Qed.

(** the executor's by-name lookup is feature-blind in the code that exists: the premise of
    [view_erase_eq] that its name was already resolved (by the validator) cannot be dropped *)
Lemma exec_lookup_blind :
  schema_ok W = true /\
  ask fixed W [] (QNamedE (nm "G")) <> ask fixed (erase W []) [fa] (QNamedE (nm "G")) /\
  ask fixed W [] (QNamedV (nm "G")) = ask fixed (erase W []) [fa] (QNamedV (nm "G")).
Proof. vm_compute. repeat split; try reflexivity; intro H; discriminate H. Qed.

(** known finding [orphaned-type-stays-visible]: T needs no feature, but only the gated field
    Query.g refers to it; a request without fa still finds T by name and in the type listing,
    while the schema built from the reduced definition does not register T at all *)
Definition W_orphan : schema :=
  {| types := [
       (nm "Int", NScalar []);
       (nm "T", NObject [(nm "n", wfield "Int" "")] [] []);
       (nm "Query", NObject [(nm "ping", wfield "Int" "");
                             (nm "g", {| f_type := StNamed (nm "T"); f_args := []; f_req := [fa]; f_dep := false; f_ret := nm "T" |})] [] [])];
     query := nm "Query"; mutation := None; subscription := None; directives := []; additional := [] |}.

Lemma orphan_refuted :
  schema_ok W_orphan = true /\ excl_orphaned_type W_orphan [] = true /\
  map fst (types (erase W_orphan [])) = [nm "Int"; nm "T"; nm "Query"] /\
  map fst (types (erase_physical W_orphan [])) = [nm "Int"; nm "Query"] /\
  ask fixed W_orphan [] QIntroTypes <> ask fixed (erase_physical W_orphan []) [fa] QIntroTypes /\
  ask fixed W_orphan [] (QIntroType (nm "T")) <> ask fixed (erase_physical W_orphan []) [fa] (QIntroType (nm "T")) /\
  ask fixed W_orphan [] (QNamedV (nm "T")) <> ask fixed (erase_physical W_orphan []) [fa] (QNamedV (nm "T")).
Proof. vm_compute. repeat split; try reflexivity; intro H; discriminate H. Qed.

(** ** the transcribed chain consumers are disciplined: they never present a pointer they were not
    handed (so the instances of [noninterference] for them are not the trivial [Forged = Forged]) *)
Section Discipline.
  Variable fx : fixes.
  Variable S : schema.
  Variable F : features.

  Definition incl_known (a b : list name) : Prop := forall h, mem h a = true -> mem h b = true.

  (** weakest precondition over [run]: the program never forges and ends in a state satisfying Q *)
  Fixpoint wp {A} (known : list name) (p : prog A) (Q : A -> list name -> Prop) : Prop :=
    match p with
    | Ret a => Q a known
    | Ask q k =>
        forallb (fun h => mem h known) (handle_args q) = true /\
        wp (handles_of q (ask fx S F q) ++ known) (k (ask fx S F q)) Q
    end.

  Lemma wp_mono {A} (p : prog A) : forall known (Q Q' : A -> list name -> Prop),
    (forall a kn, Q a kn -> Q' a kn) -> wp known p Q -> wp known p Q'.
  Proof.
    induction p as [a | q k IH]; intros known Q Q' HQ H; simpl in *; [auto|].
    destruct H as [H1 H2]. split; [exact H1|]. eapply IH; eauto.
  Qed.

  Lemma wp_bind {A B} (p : prog A) (f : A -> prog B) : forall known (Q : B -> list name -> Prop),
    wp known p (fun a kn => wp kn (f a) Q) -> wp known (bind p f) Q.
  Proof.
    induction p as [a | q k IH]; intros known Q H; simpl in *; [exact H|].
    destruct H as [H1 H2]. split; [exact H1|]. apply IH. exact H2.
  Qed.

  Lemma wp_run {A} (p : prog A) : forall known Q, wp known p Q -> exists a, snd (run fx S F known p) = Done a.
  Proof.
    induction p as [a | q k IH]; intros known Q H; simpl in *; [eauto|].
    destruct H as [H1 H2]. rewrite H1.
    destruct (IH _ _ _ H2) as [a Ha].
    destruct (run fx S F (handles_of q (ask fx S F q) ++ known) (k (ask fx S F q))) as [tr r].
    simpl in *. eauto.
  Qed.

  Lemma mem_app_r h a b : mem h b = true -> mem h (a ++ b) = true.
  Proof. intro H. apply mem_In. apply in_or_app. right. apply mem_In. exact H. Qed.
  Lemma mem_app_l h a b : mem h a = true -> mem h (a ++ b) = true.
  Proof. intro H. apply mem_In. apply in_or_app. left. apply mem_In. exact H. Qed.
  Lemma mem_head h l : mem h (h :: l) = true.
  Proof. apply mem_In. left; reflexivity. Qed.

  Lemma incl_known_refl a : incl_known a a.
  Proof. intros h H; exact H. Qed.
  Lemma incl_known_app a b : incl_known b (a ++ b).
  Proof. intros h H. apply mem_app_r. exact H. Qed.
  Lemma incl_known_trans a b c : incl_known a b -> incl_known b c -> incl_known a c.
  Proof. intros H1 H2 h H. auto. Qed.

  Fixpoint frags (c : list cnode) : list name :=
    match c with
    | [] => []
    | CFrag t :: r => t :: frags r
    | _ :: r => frags r
    end.

  Definition parent_known (parent : option name) (known : list name) : Prop :=
    match parent with Some p => mem p known = true | None => True end.

  (** the validator: never forges; afterwards the known set has only grown and, if it reported no
      error, every type condition of the chain has been resolved to a held pointer *)
  Lemma cval_wp c : forall depth parent known,
    parent_known parent known ->
    wp known (cval depth parent c)
       (fun errs kn => incl_known known kn /\ (errs = [] -> forall t, In t (frags c) -> mem t kn = true)).
  Proof.
    induction c as [|n rest IH]; intros depth parent known HP.
    - simpl. split; [apply incl_known_refl | intros _ t []].
    - (* a continuation pattern used several times: run the rest, then add (or not) an error here *)
      assert (K : forall parent' kn (flag : bool) (extra : list name),
                 incl_known known kn -> parent_known parent' kn ->
                 (forall t, In t extra -> mem t kn = true) ->
                 wp kn (bind (cval (Datatypes.S depth) parent' rest) (fun es => Ret (if flag then depth :: es else es)))
                    (fun errs kn' => incl_known known kn' /\
                                     (errs = [] -> forall t, In t (extra ++ frags rest) -> mem t kn' = true))).
      { intros parent' kn flag extra Hi Hp He. apply wp_bind.
        eapply wp_mono; [|apply (IH (Datatypes.S depth) parent' kn Hp)].
        intros es kn' [Hi' Hf]. simpl. split; [eapply incl_known_trans; eauto|].
        intros Hnil t Ht. destruct flag; [discriminate|]. apply in_app_or in Ht as [Ht | Ht]; auto. }
      assert (K0 : forall parent' kn,
                 incl_known known kn -> parent_known parent' kn ->
                 wp kn (cval (Datatypes.S depth) parent' rest)
                    (fun errs kn' => incl_known known kn' /\ (errs = [] -> forall t, In t (frags rest) -> mem t kn' = true))).
      { intros parent' kn Hi Hp. eapply wp_mono; [|apply (IH (Datatypes.S depth) parent' kn Hp)].
        intros es kn' [Hi' Hf]. split; [eapply incl_known_trans; eauto | exact Hf]. }
      destruct n as [f | t |].
      + (* CField *)
        cbn [cval frags].
        assert (U : forall kn, incl_known known kn ->
                   wp kn (bind (cval (Datatypes.S depth) None rest) (fun es => Ret (if is_nil rest then es else depth :: es)))
                      (fun errs kn' => incl_known known kn' /\ (errs = [] -> forall t, In t (frags rest) -> mem t kn' = true))).
        { intros kn Hi. pose proof (K None kn (negb (is_nil rest)) [] Hi I (fun t H => match H with end)) as H.
          destruct (is_nil rest); exact H. }
        destruct parent as [p|]; [|apply U; apply incl_known_refl].
        simpl in HP. cbn [wp handle_args forallb]. rewrite HP. split; [reflexivity|].
        set (kn1 := handles_of (QKind p) (ask fx S F (QKind p)) ++ known).
        assert (Hi1 : incl_known known kn1) by apply incl_known_app.
        destruct (ask fx S F (QKind p)) as [| | [[| | | | |]|] | | | | | |]; try (apply U; exact Hi1).
        * (* object *)
          cbn [wp handle_args forallb]. rewrite (Hi1 p HP). split; [reflexivity|].
          set (kn2 := handles_of (QField p f) (ask fx S F (QField p f)) ++ kn1).
          assert (Hi2 : incl_known known kn2) by (eapply incl_known_trans; [exact Hi1 | apply incl_known_app]).
          destruct (ask fx S F (QField p f)) as [| | | [fd|] | | | | |] eqn:AF;
            try (apply (K None kn2 true [] Hi2 I (fun t H => match H with end))).
          cbn [wp handle_args forallb].
          assert (Hb : mem (base (f_type fd)) kn2 = true).
          { unfold kn2. apply mem_app_l. simpl. unfold field_handles. apply mem_head. }
          rewrite Hb. split; [reflexivity|].
          set (kn3 := handles_of (QKind (base (f_type fd))) (ask fx S F (QKind (base (f_type fd)))) ++ kn2).
          apply (K (Some (base (f_type fd))) kn3 _ []).
          -- eapply incl_known_trans; [exact Hi2 | apply incl_known_app].
          -- simpl. unfold kn3. apply mem_app_r. exact Hb.
          -- intros t [].
        * (* interface *)
          cbn [wp handle_args forallb]. rewrite (Hi1 p HP). split; [reflexivity|].
          set (kn2 := handles_of (QField p f) (ask fx S F (QField p f)) ++ kn1).
          assert (Hi2 : incl_known known kn2) by (eapply incl_known_trans; [exact Hi1 | apply incl_known_app]).
          destruct (ask fx S F (QField p f)) as [| | | [fd|] | | | | |] eqn:AF;
            try (apply (K None kn2 true [] Hi2 I (fun t H => match H with end))).
          cbn [wp handle_args forallb].
          assert (Hb : mem (base (f_type fd)) kn2 = true).
          { unfold kn2. apply mem_app_l. simpl. unfold field_handles. apply mem_head. }
          rewrite Hb. split; [reflexivity|].
          set (kn3 := handles_of (QKind (base (f_type fd))) (ask fx S F (QKind (base (f_type fd)))) ++ kn2).
          apply (K (Some (base (f_type fd))) kn3 _ []).
          -- eapply incl_known_trans; [exact Hi2 | apply incl_known_app].
          -- simpl. unfold kn3. apply mem_app_r. exact Hb.
          -- intros t [].
        * (* union *)
          apply (K None kn1 true [] Hi1 I (fun t H => match H with end)).
      + (* CFrag *)
        cbn [cval frags wp handle_args forallb]. split; [reflexivity|].
        set (kn1 := handles_of (QNamedV t) (ask fx S F (QNamedV t)) ++ known).
        assert (Hi1 : incl_known known kn1) by apply incl_known_app.
        assert (Kerr : wp kn1 (bind (cval (Datatypes.S depth) None rest) (fun es => Ret (depth :: es)))
                          (fun errs kn' => incl_known known kn' /\
                                           (errs = [] -> forall t0, In t0 (t :: frags rest) -> mem t0 kn' = true))).
        { apply wp_bind. eapply wp_mono; [|apply (IH (Datatypes.S depth) None kn1 I)].
          intros es kn' [Hi' _]. simpl. split; [eapply incl_known_trans; eauto | discriminate]. }
        destruct (ask fx S F (QNamedV t)) as [[h|] | | | | | | | |] eqn:AN; try exact Kerr.
        assert (Hh : h = t).
        { simpl in AN. destruct (lookup S t) as [x|]; [destruct (subset (type_req x) F)|];
            try (destruct (mem t meta_names); discriminate); inversion AN; reflexivity. }
        subst h.
        assert (Ht1 : mem t kn1 = true) by (unfold kn1; apply mem_app_l; simpl; apply mem_head).
        cbn [wp handle_args forallb]. rewrite Ht1. split; [reflexivity|].
        set (kn2 := handles_of (QKind t) (ask fx S F (QKind t)) ++ kn1).
        assert (Hi2 : incl_known known kn2) by (eapply incl_known_trans; [exact Hi1 | apply incl_known_app]).
        assert (Ht2 : mem t kn2 = true) by (unfold kn2; apply mem_app_r; exact Ht1).
        (* every continuation from here keeps t known *)
        assert (Kt : forall kn (flag : bool), incl_known kn2 kn ->
                   wp kn (bind (cval (Datatypes.S depth) (Some t) rest) (fun es => Ret (if flag then depth :: es else es)))
                      (fun errs kn' => incl_known known kn' /\
                                       (errs = [] -> forall t0, In t0 (t :: frags rest) -> mem t0 kn' = true))).
        { intros kn flag Hk.
          apply (K (Some t) kn flag [t]).
          - eapply incl_known_trans; eauto.
          - simpl. apply Hk. exact Ht2.
          - intros t0 [E | []]. subst t0. apply Hk. exact Ht2. }
        assert (Kt0 : forall kn, incl_known kn2 kn ->
                   wp kn (cval (Datatypes.S depth) (Some t) rest)
                      (fun errs kn' => incl_known known kn' /\
                                       (errs = [] -> forall t0, In t0 (t :: frags rest) -> mem t0 kn' = true))).
        { intros kn Hk. eapply wp_mono; [|apply (IH (Datatypes.S depth) (Some t) kn)].
          - intros es kn' [Hi' Hf]. split; [eapply incl_known_trans; [|exact Hi']; eapply incl_known_trans; eauto|].
            intros Hnil t0 [E | Ht0]; [subst t0; apply Hi', Hk; exact Ht2 | auto].
          - simpl. apply Hk. exact Ht2. }
        destruct (ask fx S F (QKind t)) as [| | k | | | | | |];
          try (eapply wp_mono; [|apply (IH (Datatypes.S depth) None kn2 I)];
               intros es kn' [Hi' Hf]; split; [eapply incl_known_trans; eauto|];
               intros Hnil t0 [E | Ht0]; [subst t0; apply Hi'; exact Ht2 | auto]).
        destruct (is_composite k).
        * destruct parent as [p|]; [|apply Kt0; apply incl_known_refl].
          simpl in HP. cbn [wp handle_args forallb]. rewrite Ht2. split; [reflexivity|].
          set (kn3 := handles_of (QPossibleV t) (ask fx S F (QPossibleV t)) ++ kn2).
          assert (Hp3 : mem p kn3 = true) by (unfold kn3; apply mem_app_r; apply Hi2; exact HP).
          rewrite Hp3. split; [reflexivity|].
          set (kn4 := handles_of (QPossibleV p) (ask fx S F (QPossibleV p)) ++ kn3).
          assert (Hk4 : incl_known kn2 kn4).
          { eapply incl_known_trans; [|apply incl_known_app]. apply incl_known_app. }
          match goal with
          | |- wp _ (bind _ (fun es => Ret (if ?c then es else depth :: es))) _ =>
              pose proof (Kt kn4 (negb c) Hk4) as HK; destruct c; exact HK
          end.
        * apply (Kt kn2 true). apply incl_known_refl.
      + (* CTypename *)
        cbn [cval frags]. apply K0; [apply incl_known_refl | exact I].
  Qed.

  (** the executor on an object type it holds, over a chain whose type conditions are all held *)
  Lemma cexec_wp c : forall obj log known,
    mem obj known = true -> (forall t, In t (frags c) -> mem t known = true) ->
    wp known (cexec obj c log) (fun _ _ => True).
  Proof.
    induction c as [|n rest IH]; intros obj log known Ho Hf; [exact I|].
    destruct n as [f | t |]; [| |exact I].
    - (* CField *)
      cbn [cexec wp handle_args forallb]. rewrite Ho. split; [reflexivity|].
      set (kn1 := handles_of (QField obj f) (ask fx S F (QField obj f)) ++ known).
      assert (Hi1 : incl_known known kn1) by apply incl_known_app.
      destruct (ask fx S F (QField obj f)) as [| | | [fd|] | | | | |]; try exact I.
      cbn [wp handle_args forallb].
      assert (Hb : mem (base (f_type fd)) kn1 = true).
      { unfold kn1. apply mem_app_l. simpl. unfold field_handles. apply mem_head. }
      rewrite Hb. split; [reflexivity|].
      set (kn2 := handles_of (QKind (base (f_type fd))) (ask fx S F (QKind (base (f_type fd)))) ++ kn1).
      assert (Hi2 : incl_known known kn2) by (eapply incl_known_trans; [exact Hi1 | apply incl_known_app]).
      assert (Hf2 : forall t, In t (frags rest) -> mem t kn2 = true) by (intros t Ht; apply Hi2, Hf; exact Ht).
      assert (Hb2 : mem (base (f_type fd)) kn2 = true) by (unfold kn2; apply mem_app_r; exact Hb).
      destruct (ask fx S F (QKind (base (f_type fd)))) as [| | [[| | | | |]|] | | | | | |]; try exact I.
      + apply IH; auto.
      + cbn [wp handle_args forallb]. rewrite Hb2. split; [reflexivity|].
        set (kn3 := handles_of (QImpls (base (f_type fd))) (ask fx S F (QImpls (base (f_type fd)))) ++ kn2).
        destruct (ask fx S F (QImpls (base (f_type fd)))) as [| | | | [cands|] | | | |] eqn:AI; try exact I.
        destruct (mem (f_ret fd) cands) eqn:M; [|exact I].
        apply IH.
        * unfold kn3. apply mem_app_l. simpl. exact M.
        * intros t Ht. unfold kn3. apply mem_app_r. auto.
      + cbn [wp handle_args forallb]. rewrite Hb2. split; [reflexivity|].
        set (kn3 := handles_of (QImpls (base (f_type fd))) (ask fx S F (QImpls (base (f_type fd)))) ++ kn2).
        destruct (ask fx S F (QImpls (base (f_type fd)))) as [| | | | [cands|] | | | |] eqn:AI; try exact I.
        destruct (mem (f_ret fd) cands) eqn:M; [|exact I].
        apply IH.
        * unfold kn3. apply mem_app_l. simpl. exact M.
        * intros t Ht. unfold kn3. apply mem_app_r. auto.
    - (* CFrag *)
      cbn [cexec wp handle_args forallb].
      assert (Ht : mem t known = true) by (apply Hf; left; reflexivity).
      rewrite Ht. split; [reflexivity|].
      set (kn1 := handles_of (QNamedE t) (ask fx S F (QNamedE t)) ++ known).
      assert (Hi1 : incl_known known kn1) by apply incl_known_app.
      destruct (ask fx S F (QNamedE t)) as [[h|] | | | | | | | |] eqn:AN; try exact I.
      assert (Hh : h = t).
      { simpl in AN. destruct (lookup S t) as [x|]; [|destruct (mem t meta_names); discriminate].
        inversion AN; reflexivity. }
      subst h.
      cbn [wp handle_args forallb]. rewrite (Hi1 obj Ho), (Hi1 t Ht). split; [reflexivity|].
      destruct (ask fx S F (QApplies obj t)) as [| | | | | | | [|] |]; try exact I.
      apply IH.
      + apply mem_app_r. apply Hi1. exact Ho.
      + intros t0 Ht0. apply mem_app_r. apply Hi1. apply Hf. right; exact Ht0.
  Qed.

  Theorem chain_prog_disciplined c : exists r, snd (run fx S F [] (chain_prog c)) = Done r.
  Proof.
    apply (wp_run _ [] (fun _ _ => True)).
    unfold chain_prog. cbn [wp handle_args forallb]. split; [reflexivity|].
    set (kn0 := handles_of (QRoot RQuery) (ask fx S F (QRoot RQuery)) ++ []).
    simpl in kn0. cbn [ask]. cbv beta iota.
    apply wp_bind.
    eapply wp_mono; [|apply (cval_wp c 0 (Some (query S)) kn0)].
    - intros errs kn [Hi Hfr]. destruct (is_nil errs) eqn:N; [|exact I].
      apply is_nil_true in N. apply wp_bind. eapply wp_mono; [|apply (cexec_wp c (query S) [] kn)].
      + intros a kn' _. exact I.
      + apply Hi. unfold kn0. apply mem_head.
      + apply Hfr. exact N.
    - simpl. unfold kn0. apply mem_head.
  Qed.

  Theorem chain_validate_disciplined c : exists r, snd (run fx S F [] (chain_validate c)) = Done r.
  Proof.
    apply (wp_run _ [] (fun _ _ => True)).
    unfold chain_validate. cbn [wp handle_args forallb]. split; [reflexivity|].
    cbn [ask]. cbv beta iota.
    eapply wp_mono; [|apply (cval_wp c 0 (Some (query S)))].
    - intros; exact I.
    - simpl. apply mem_head.
  Qed.
End Discipline.

(** ** the view with fewer features is the erasure of the view with more: enabling features makes
    exactly the elements appear whose requirements have become satisfied *)
Section EraseErase.
  Variable S : schema.
  Variables F F' : features.
  Hypothesis Hnd : nodup (map fst (types S)) = true.
  Hypothesis HFF : subset F F' = true.

  Lemma visible_erase_smaller n : visible (erase S F') F n = visible S F n.
  Proof.
    unfold visible at 1. rewrite (lookup_erase S F' Hnd). unfold visible.
    destruct (lookup S n) as [x|]; [|reflexivity].
    destruct (subset (type_req x) F') eqn:V'.
    - rewrite type_req_erase. reflexivity.
    - destruct (subset (type_req x) F) eqn:V; [|reflexivity].
      rewrite (subset_trans _ _ _ V HFF) in V'. discriminate.
  Qed.

  Lemma visible_smaller n : visible S F n = true -> visible S F' n = true.
  Proof.
    unfold visible. destruct (lookup S n) as [x|]; [|discriminate]. intro V. eapply subset_trans; eauto.
  Qed.

  Lemma filter_smaller {A} (p p' : A -> bool) l :
    (forall x, p x = true -> p' x = true) -> filter p (filter p' l) = filter p l.
  Proof.
    intro H. rewrite filter_filter. apply filter_ext. intro x.
    destruct (p x) eqn:P; [rewrite (H x P); reflexivity | apply andb_false_r].
  Qed.

  Lemma erase_fields_smaller fs : erase_fields F (erase_fields F' fs) = erase_fields F fs.
  Proof.
    unfold erase_fields. apply filter_smaller. intros nf V. eapply subset_trans; eauto.
  Qed.

  Lemma names_smaller l :
    filter (visible (erase S F') F) (filter (visible S F') l) = filter (visible S F) l.
  Proof.
    rewrite (filter_ext _ _ visible_erase_smaller). apply filter_smaller. apply visible_smaller.
  Qed.

  Lemma erase_type_smaller x :
    erase_type (visible (erase S F') F) F (erase_type (visible S F') F' x) = erase_type (visible S F) F x.
  Proof.
    destruct x; simpl; try reflexivity.
    - rewrite erase_fields_smaller, names_smaller. reflexivity.
    - rewrite erase_fields_smaller. reflexivity.
    - rewrite names_smaller. reflexivity.
  Qed.

  Lemma erase_root_smaller r :
    erase_root (visible (erase S F') F) (erase_root (visible S F') r) = erase_root (visible S F) r.
  Proof.
    destruct r as [n|]; simpl; [|reflexivity].
    destruct (visible S F' n) eqn:V'; simpl.
    - rewrite visible_erase_smaller. reflexivity.
    - destruct (visible S F n) eqn:V; [|reflexivity]. rewrite (visible_smaller n V) in V'. discriminate.
  Qed.

  Theorem erase_erase : erase (erase S F') F = erase S F.
  Proof.
    set (E' := erase S F').
    unfold erase. f_equal.
    - replace (types E') with (map (fun nt => (fst nt, erase_type (visible S F') F' (snd nt)))
                                   (filter (fun nt => subset (type_req (snd nt)) F') (types S))) by reflexivity.
      rewrite filter_map. rewrite map_map. cbn [fst snd].
      rewrite (filter_ext _ (fun nt => subset (type_req (snd nt)) F))
        by (intro nt; rewrite type_req_erase; reflexivity).
      rewrite filter_smaller by (intros nt V; eapply subset_trans; eauto).
      apply map_ext. intro nt. unfold E'. rewrite erase_type_smaller. reflexivity.
    - replace (mutation E') with (erase_root (visible S F') (mutation S)) by reflexivity.
      unfold E'. apply erase_root_smaller.
    - replace (subscription E') with (erase_root (visible S F') (subscription S)) by reflexivity.
      unfold E'. apply erase_root_smaller.
    - replace (additional E') with (filter (visible S F') (additional S)) by reflexivity.
      unfold E'. apply names_smaller.
  Qed.
End EraseErase.
