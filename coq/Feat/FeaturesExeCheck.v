(** * Feat/FeaturesExeCheck.v — C13: the tie of the bridge to C01's executor model.

    [C13_C01_run_request_eq] speaks about C01's [ArgModel.run_request] on the F-view of a schema.
    C01's own correspondence check runs without feature sets, so that the real executor with
    Request.Features = F behaves as C01's model on [view S F] is checked HERE: every valid
    selection-set document of a case is also run through [ArgModel.run_request] on the F-view of the
    case's schema (side a) and on the all-features view of the erased schema (side b), with the
    resolver-outcome tree of the harness's resolvers, and the shape of the response data and the
    number of errors are compared with what the real graphql.Execute answered.
    Executable only (extracted / vm_compute); no proofs. *)
From Coq Require Import List NArith ZArith Bool String.
From ApiFu Require Import Base.Sexp Feat.FeaturesModel Feat.FeaturesSpec Feat.FeaturesDocModel Feat.FeaturesExe.
From ApiFu Require Val.Values ExeA.ArgData ExeA.ArgModel.
Import ListNotations.
Open Scope list_scope.

Definition bn (s : string) : name := bytes_of_string s.

(** how the harness's schemas look to C01: the five built-in scalars by name, every other scalar
    with the identity result coercion of a string, an enum value's Go value is its name *)
Definition exe_leaf (n : name) (t : named_type) : ArgData.named_type :=
  match t with
  | NEnum vals _ => ArgData.NEnum (map (fun v => (fst v, ArgData.GString (fst v))) vals)
  | _ => ArgData.NScalar (if bytes_eqb n (bn "Int") then ArgData.KInt
                          else if bytes_eqb n (bn "Float") then ArgData.KFloat
                          else if bytes_eqb n (bn "Boolean") then ArgData.KBoolean
                          else if bytes_eqb n (bn "ID") then ArgData.KID
                          else ArgData.KString)
  end.
(** selection-set documents carry no arguments and no variables: nothing is coerced *)
Definition exe_inp (_ : name) (_ : named_type) : option Values.tdef := None.
Definition exe_adefs (_ _ : name) (_ : list (name * sty)) : ArgData.argdefs := [].
Definition exe_view (S : schema) (F : features) : ArgData.schema := view exe_leaf exe_inp exe_adefs [] S F.

(** ** the harness's resolvers as a resolver-outcome tree (harness/cmd/c13/build.go [value]):
    Int 7, Float 1.5, Boolean true, any other scalar "s", an enum its first value, a composite
    type an object tagged with the field's [f_ret]; one-element lists per list wrapper.  The
    resolvers belong to (object type, field): a value whose static type is an object type is
    resolved through that type, a value of an abstract type through the type its tag names. *)
Definition leaf_value (S : schema) (bname : name) : ArgData.gval :=
  match lookup S bname with
  | Some (NEnum ((v, _) :: _) _) => ArgData.GString v
  | Some (NEnum [] _) => ArgData.GString (bn "none")
  | _ =>
      if bytes_eqb bname (bn "Int") then ArgData.GInt ArgData.IInt 7
      else if bytes_eqb bname (bn "Float") then ArgData.GF64 (ArgData.Fin 3 (-1))
      else if bytes_eqb bname (bn "Boolean") then ArgData.GBool true
      else ArgData.GString (bn "s")
  end.

Fixpoint wrap_outcome (t : sty) (o : ArgData.outcome) : ArgData.outcome :=
  match t with
  | StNamed _ => o
  | StNonNull t' => wrap_outcome t' o
  | StList t' => ArgData.OList [wrap_outcome t' o]
  end.

(** the outcomes of the resolvers of object type [tn], for the field names the document uses *)
Fixpoint obj_fields (S : schema) (names : list name) (depth : nat) (tn : name) : list (name * ArgData.outcome) :=
  match depth with
  | O => []
  | Datatypes.S d =>
      match lookup S tn with
      | Some (NObject fs _ _) =>
          flat_map (fun nf =>
                      if mem (fst nf) names then
                        let fd := snd nf in
                        let b := base (f_type fd) in
                        let inner :=
                          match option_map kind_of (lookup S b) with
                          | Some KObject => ArgData.OObj (f_ret fd) (obj_fields S names d b)
                          | Some KInterface | Some KUnion => ArgData.OObj (f_ret fd) (obj_fields S names d (f_ret fd))
                          | _ => ArgData.OLeaf (leaf_value S b)
                          end in
                        [(fst nf, wrap_outcome (f_type fd) inner)]
                      else []) fs
      | _ => []
      end
  end.

(** ** the document in C01's vocabulary: a node's position is (its line, 1) *)
Definition pos_of (id : nat) : ArgData.pos := {| ArgData.line := N.of_nat id; ArgData.col := 1%N |}.

Fixpoint to_exe_sel (s : sel) : ArgData.selection :=
  match s with
  | SField id key f sub => ArgData.SField (Some key) f (pos_of id) [] (to_exe_sels sub)
  | STypename id key => ArgData.SField (Some key) (bn "__typename") (pos_of id) [] []
  | SInline id tc sub => ArgData.SInline tc (pos_of id) [] (to_exe_sels sub)
  | SSpread id fr => ArgData.SSpread fr (pos_of id) []
  end
with to_exe_sels (l : sels) : list ArgData.selection :=
  match l with SNil => [] | SCons s r => to_exe_sel s :: to_exe_sels r end.

Definition to_exe_request (d : sdoc) : ArgData.request_doc :=
  {| ArgData.r_ops := [ {| ArgData.o_name := None; ArgData.o_kind := ArgData.OpQuery; ArgData.o_pos := pos_of 1;
                           ArgData.o_sels := to_exe_sels (d_sels d); ArgData.o_vardefs := [] |} ];
     ArgData.r_frags := map (fun f => {| ArgData.fr_name := fr_name f; ArgData.fr_cond := fr_tc f;
                                         ArgData.fr_sels := to_exe_sels (fr_sels f) |}) (d_frags d);
     ArgData.r_args := [] |}.

Fixpoint sel_fnames (s : sel) : list name :=
  match s with
  | SField _ _ f sub => f :: sels_fnames sub
  | STypename _ _ => []
  | SInline _ _ sub => sels_fnames sub
  | SSpread _ _ => []
  end
with sels_fnames (l : sels) : list name :=
  match l with SNil => [] | SCons s r => sel_fnames s ++ sels_fnames r end.
Definition doc_fnames (d : sdoc) : list name :=
  sels_fnames (d_sels d) ++ flat_map (fun f => sels_fnames (fr_sels f)) (d_frags d).

Fixpoint sel_tkeys (s : sel) : list name :=
  match s with
  | SField _ _ _ sub => sels_tkeys sub
  | STypename _ k => [k]
  | SInline _ _ sub => sels_tkeys sub
  | SSpread _ _ => []
  end
with sels_tkeys (l : sels) : list name :=
  match l with SNil => [] | SCons s r => sel_tkeys s ++ sels_tkeys r end.
Definition doc_tkeys (d : sdoc) : list name :=
  sels_tkeys (d_sels d) ++ flat_map (fun f => sels_tkeys (fr_sels f)) (d_frags d).

(** the shape of a response value, as the harness abstracts the real one ([treeSexp]) *)
Fixpoint enc_json (tkeys : list name) (key : name) (j : ArgData.json) : sexp :=
  match j with
  | ArgData.JNull => SSym "null"
  | ArgData.JStr s => if mem key tkeys then tag "typename" [SStr s] else SSym "leaf"
  | ArgData.JArr xs => tag "list" (map (enc_json tkeys key) xs)
  | ArgData.JObj kvs =>
      tag "obj" ((fix go (l : list (ArgData.name * ArgData.json)) : list sexp :=
                    match l with [] => [] | (k, x) :: r => SL [SStr k; enc_json tkeys k x] :: go r end) kvs)
  | _ => SSym "leaf"
  end.

(** the nesting height of the document (least n with [fitsb]): how deep resolver outcomes are needed *)
Fixpoint first_fit (frs : list fragdef) (l : sels) (n budget : nat) : nat :=
  match budget with
  | O => n
  | Datatypes.S b => if fitsb frs n l then n else first_fit frs l (Datatypes.S n) b
  end.
Definition doc_height (d : sdoc) : nat := first_fit (d_frags d) (d_sels d) 0 (sdoc_fuel d).

(** (tree, number of errors) according to C01's model on the F-view; [None]: panic / out of fuel *)
Definition exe_model_sdoc (S : schema) (F : features) (d : sdoc) : option (sexp * nat) :=
  let fuel := (2 * sdoc_fuel d)%nat in
  let W := ArgData.OObj (query S) (obj_fields S (doc_fnames d) (Datatypes.S (doc_height d)) (query S)) in
  match ArgModel.run_request ArgModel.fixed (exe_view S F) (to_exe_request d) [] [] fuel W with
  | ArgModel.Done (Some data) errs => Some (tag "tree" [enc_json (doc_tkeys d) [] data], List.length errs)
  | ArgModel.Done None errs => Some (tag "tree" [SSym "null"], List.length errs)
  | _ => None
  end.
