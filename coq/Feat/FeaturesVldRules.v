(** * Feat/FeaturesVldRules.v — C13 composed with C04's validator model, second part.

    1. Every slot of the document NewTypeInfo annotated holds only types visible to the request:
       [type_info_nodes_ok] (selection-set scopes, field definitions, expected types of values,
       variable types).
    2. On such a document the rule groups that follow pointers out of the slots — fields (with the
       field-merging rule), values, fragment spreads — answer alike on (S, F) and on the erased
       schema ([rule_fields_erase], [rule_values_erase], [rule_spreads_erase]).
    3. [validate_eq]: [validate_model q pi (verase S F) G D = validate_model q pi S F D].

    The spread rule needs that getPossibleTypes of a visible type lists the same types on both
    sides.  C04's [possible_types] has no feature filter yet, so this is the section hypothesis
    [PT]; [possible_types_no_gated_impls] discharges it for schemas in which no implementation
    listed for a visible interface is gated — with the filter in place it holds for every [vok]
    schema (the argument of FeaturesProofs.ask_erase, QPossibleV) and the hypothesis disappears. *)
From Coq Require Import List NArith Bool String Lia.
From ApiFu Require Import Base.Sexp Vld.Ast Vld.AstInd Vld.Inspect Vld.InspectProofs Vld.TypeInfoModel
  Vld.ValidatorModel Vld.ProofsCommon Feat.FeaturesVld.
Import ListNotations.
Open Scope list_scope.

(** ** trees *)
Definition nodes_ok (P : node -> Prop) (t : tree) : Prop := forall n, In n (tree_nodes t) -> P n.

Lemma nodes_ok_T (P : node -> Prop) r cs : nodes_ok P (T r cs) <-> P r /\ Forall (nodes_ok P) cs.
Proof.
  unfold nodes_ok. cbn [tree_nodes]. split.
  - intro H. split; [apply H; left; reflexivity|]. apply Forall_forall. intros c Hc n Hn.
    apply H. right. apply in_flat_map. exists c. auto.
  - intros [Hr Hcs] n [Hn | Hn]; [subst; exact Hr|].
    apply in_flat_map in Hn as [c [Hc Hn]]. rewrite Forall_forall in Hcs. apply (Hcs c Hc n Hn).
Qed.

Lemma nodes_ok_leaf (P : node -> Prop) r : P r -> nodes_ok P (T r []).
Proof. intro H. apply nodes_ok_T. split; [exact H | constructor]. Qed.

(** [inspect] with two visitors that agree on the nodes of the tree, under a state invariant *)
Lemma inspect_ext_inv {St} (Inv : St -> Prop) (P : node -> Prop)
      (e1 e2 : St -> node -> St * bool) (leave : St -> St) :
  (forall st n, Inv st -> P n -> e1 st n = e2 st n) ->
  (forall st n, Inv st -> P n -> Inv (fst (e2 st n))) ->
  (forall st, Inv st -> Inv (leave st)) ->
  forall t, nodes_ok P t -> forall st, Inv st ->
  inspect e1 leave t st = inspect e2 leave t st /\ Inv (inspect e2 leave t st).
Proof.
  intros Heq Hinv Hleave t. induction t as [n cs IH] using tree_ind'. intros Hok st Hst.
  apply nodes_ok_T in Hok as [Hn Hcs]. cbn [inspect]. rewrite (Heq st n Hst Hn).
  pose proof (Hinv st n Hst Hn) as Hs1. destruct (e2 st n) as [s1 [|]]; cbn [fst] in Hs1; [|auto].
  assert (K : forall s, Inv s ->
            fold_left (fun acc c => inspect e1 leave c acc) cs s = fold_left (fun acc c => inspect e2 leave c acc) cs s /\
            Inv (fold_left (fun acc c => inspect e2 leave c acc) cs s)).
  { clear Hs1. induction cs as [|c r IHr]; intros s Hs; [auto|]. cbn [fold_left].
    inversion IH as [|x l Hc Hr]; subst. inversion Hcs as [|x l Oc Or]; subst.
    destruct (Hc Oc s Hs) as [E1 I1]. rewrite E1. apply IHr; auto. }
  destruct (K s1 Hs1) as [E I]. rewrite E. auto.
Qed.

Section Rules.
  Variable S : schema.
  Variables F G : features.
  Hypothesis Hok : vok S = true.
  Hypothesis HFG : subset F G = true.
  Local Notation alive := (vvisible S F).
  Local Notation E := (verase S F).
  Local Notation vsc := (vis_scope S F).
  Local Notation vfd := (vis_field S F).
  Local Notation vty := (vis_osty S F).

  Definition vis_ofield (a : option field_def) : Prop := match a with Some fd => vfd fd | None => True end.

  (** what a slot may hold *)
  Definition wa_node (n : node) : Prop :=
    match n with
    | NSelSet ss => vsc (ss_ann ss)
    | NSel (SField a _ _ _ _ _ _) => vis_ofield a
    | NValue v => vty (va_expected (v_ann v))
    | NVarDef v => vty (vd_ann v)
    | _ => True
    end.
  Local Notation ok := (nodes_ok wa_node).

  Lemma ok_name np : ok (name_tree np).
  Proof. apply nodes_ok_leaf. exact I. Qed.

  Lemma Forall_map_ok {A} (f : A -> tree) l : (forall x, In x l -> ok (f x)) -> Forall ok (map f l).
  Proof. intro H. apply Forall_forall. intros t Ht. apply in_map_iff in Ht as [x [Ex Hx]]. subst. auto. Qed.

  Lemma va_expected_set a v : va_expected (v_ann (set_ann a v)) = va_expected a.
  Proof. destruct v; reflexivity. Qed.

  (** *** the output of NewTypeInfo *)
  Lemma ti_value_ok q v : forall sc e d, vty e -> ok (tree_value (ti_value_in q S sc e d v)).
  Proof.
    induction v using value_ind'; intros sc e dd V;
      try (cbn [ti_value_in set_ann tree_value]; apply nodes_ok_T; split; [exact V | repeat constructor; apply ok_name]).
    - (* list *)
      cbn [ti_value_in tree_value]. apply nodes_ok_T. split; [exact V|].
      rewrite map_map. apply Forall_map_ok. intros x Hx. rewrite Forall_forall in H. apply (H x Hx).
      destruct e as [t|]; [|exact I]. destruct (nullable t) as [n | t' | t'] eqn:N; try exact I.
      simpl. unfold vis_sty. simpl in V. unfold vis_sty in V.
      pose proof (unwrapped_nullable t) as U. rewrite N in U. simpl in U. rewrite U. exact V.
    - (* object *)
      cbn [ti_value_in tree_value]. apply nodes_ok_T. split; [exact V|].
      destruct (object_fields_erase S F Hok q e V) as [_ OV].
      rewrite map_map. apply Forall_map_ok. intros [[n np] x] Hx.
      rewrite Forall_forall in H. specialize (H _ Hx). cbn [snd] in H.
      destruct (object_fields q S e) as [l|] eqn:OF.
      + destruct (assoc n l) as [def|] eqn:A; apply nodes_ok_T; (split; [exact I|]);
          (constructor; [apply ok_name | constructor; [|constructor]]); apply H.
        * simpl. apply (OV l eq_refl (n, def)). apply vassoc_In. exact A.
        * exact I.
      + apply nodes_ok_T. split; [exact I|]. constructor; [apply ok_name | constructor; [|constructor]].
        apply H. exact I.
  Qed.

  Lemma ti_args_ok q defs dn args :
    (forall l, defs = Some l -> forall a, In a l -> vis_sty S F (in_type (snd a))) ->
    Forall ok (map tree_arg (ti_args q S defs dn args)).
  Proof.
    intro V. unfold ti_args. rewrite map_map. apply Forall_map_ok. intros a Ha.
    unfold tree_arg. apply nodes_ok_T. split; [exact I|]. constructor; [apply ok_name|]. constructor; [|constructor].
    destruct defs as [l|]; [|cbn [a_value]; unfold ti_value; apply ti_value_ok; exact I].
    destruct (assoc (a_name a) l) as [def|] eqn:A; cbn [a_value]; unfold ti_value; apply ti_value_ok.
    - simpl. apply (V l eq_refl (a_name a, def)). apply vassoc_In. exact A.
    - exact I.
  Qed.

  Lemma ti_dir_ok q d : ok (tree_dir (ti_dir q S d)).
  Proof.
    unfold tree_dir, ti_dir. cbn [d_name d_npos d_args]. apply nodes_ok_T. split; [exact I|].
    constructor; [apply ok_name|]. apply ti_args_ok.
    intros l Hl a Ha. destruct (assoc (d_name d) (s_directives S)) as [dd|] eqn:A; [|discriminate].
    inversion Hl; subst l.
    destruct (vok_parts S Hok) as [_ [_ [_ [_ [_ [D _]]]]]]. rewrite forallb_forall in D.
    specialize (D (d_name d, dd) (vassoc_In _ _ _ A)). cbn [snd] in D. rewrite forallb_forall in D.
    eapply (ref_ok_visible S F); [apply D; exact Ha | apply subset_nil].
  Qed.

  Lemma ti_dirs_ok q ds : Forall ok (map tree_dir (map (ti_dir q S) ds)).
  Proof. rewrite map_map. apply Forall_map_ok. intros d _. apply ti_dir_ok. Qed.

  Lemma Forall_app_ok (a b : list tree) : Forall ok a -> Forall ok b -> Forall ok (a ++ b).
  Proof. intros. apply Forall_app. auto. Qed.

  Lemma opt_tree_ok {A} (f : A -> tree) (o : option A) : (forall x, o = Some x -> ok (f x)) -> Forall ok (opt_tree f o).
  Proof. destruct o as [x|]; intro H; [constructor; [apply H; reflexivity | constructor] | constructor]. Qed.

  Lemma seq_opt_Forall2 {A} (l : list (option A)) : forall r, seq_opt l = Some r -> Forall2 (fun o a => o = Some a) l r.
  Proof.
    induction l as [|o l' IH]; intros r H.
    - inversion H; subst. constructor.
    - cbn [seq_opt fold_right] in H. fold (seq_opt l') in H.
      destruct o as [x|]; [|discriminate]. destruct (seq_opt l') as [r'|] eqn:R; [|discriminate].
      inversion H; subst r. constructor; [reflexivity | apply IH; reflexivity].
  Qed.

  Lemma ti_sel_field_eq q stack a al n np args dirs sub :
    ti_sel q S F stack (SField a al n np args dirs sub) =
    match stack with
    | [] => None
    | top :: _ =>
        let fd := field_of_scope S F top n in
        let sc : scope := match fd with Some f => Some (unwrapped (f_type f)) | None => None end in
        let args' := ti_args q S (match fd with Some f => Some (f_args f) | None => None end) dflt_not_nil args in
        match sub with
        | None => Some (SField fd al n np args' (map (ti_dir q S) dirs) None)
        | Some ss => match ti_ss q S F (sc :: stack) ss with
                     | Some ss' => Some (SField fd al n np args' (map (ti_dir q S) dirs) (Some ss'))
                     | None => None
                     end
        end
    end.
  Proof. reflexivity. Qed.

  Lemma ti_sel_inline_eq q stack cond dirs sub e :
    ti_sel q S F stack (SInline cond dirs sub e) =
    let osc : option scope :=
      match cond with
      | None => match stack with [] => None | top :: _ => Some top end
      | Some (tn, _) => Some (match named_type S F tn with Some _ => Some tn | None => None end)
      end in
    match osc with
    | None => None
    | Some sc => match ti_ss q S F (sc :: stack) sub with
                 | Some ss' => Some (SInline cond (map (ti_dir q S) dirs) ss' e)
                 | None => None
                 end
    end.
  Proof. reflexivity. Qed.

  Lemma ti_ss_eq q stack a sels p :
    ti_ss q S F stack (SelSet a sels p) =
    match stack with
    | [] => None
    | top :: _ => match seq_opt (map (ti_sel q S F (top :: stack)) sels) with
                  | Some sels' => Some (SelSet top sels' p)
                  | None => None
                  end
    end.
  Proof. reflexivity. Qed.

  Lemma ti_sel_ss_ok q :
    (forall s stack s', Forall vsc stack -> ti_sel q S F stack s = Some s' -> ok (tree_sel s')) /\
    (forall ss stack ss', Forall vsc stack -> ti_ss q S F stack ss = Some ss' -> ok (tree_ss ss')).
  Proof.
    apply sel_ss_ind.
    - (* field *)
      intros a al n np args dirs sub IH stack s' VS. rewrite ti_sel_field_eq.
      destruct stack as [|top rest]; [discriminate|]. cbv zeta.
      inversion VS as [|x l Vtop Vrest]; subst.
      destruct (field_of_scope_erase S F G Hok HFG top n Vtop) as [_ FV].
      set (fd := field_of_scope S F top n) in *.
      assert (Vfd : vis_ofield fd) by (destruct fd as [f|] eqn:Efd; [apply (FV f eq_refl) | exact I]).
      assert (AO : Forall ok (map tree_arg (ti_args q S (match fd with Some f => Some (f_args f) | None => None end) dflt_not_nil args))).
      { apply ti_args_ok. intros l Hl x Hx. destruct fd as [f|]; [|discriminate].
        inversion Hl; subst l. apply (proj2 Vfd). exact Hx. }
      assert (Common : forall sub', (forall ss', sub' = Some ss' -> ok (tree_ss ss')) ->
                ok (tree_sel (SField fd al n np
                       (ti_args q S (match fd with Some f => Some (f_args f) | None => None end) dflt_not_nil args)
                       (map (ti_dir q S) dirs) sub'))).
      { intros sub' Hsub. cbn [tree_sel]. apply nodes_ok_T. split; [exact Vfd|].
        apply Forall_app_ok; [apply opt_tree_ok; intros; apply ok_name|].
        apply Forall_app_ok; [constructor; [apply ok_name | constructor]|].
        apply Forall_app_ok; [exact AO|].
        apply Forall_app_ok; [apply ti_dirs_ok | apply opt_tree_ok; exact Hsub]. }
      destruct sub as [ss|].
      + match goal with |- context [ti_ss q S F ?st0 ss] => destruct (ti_ss q S F st0 ss) as [ss'|] eqn:TS end; [|discriminate].
        intro H; inversion H; subst s'. apply Common. intros ss0 E0. inversion E0; subst ss0.
        eapply (IH ss eq_refl); [|exact TS]. constructor; [|exact VS].
        destruct fd as [f|]; [simpl; apply (proj1 Vfd) | exact I].
      + intro H; inversion H; subst s'. apply Common. intros ss0 E0. discriminate.
    - (* spread *)
      intros n np dirs e stack s' VS. cbn [ti_sel]. intro H; inversion H; subst s'.
      cbn [tree_sel]. apply nodes_ok_T. split; [exact I|]. constructor; [apply ok_name | apply ti_dirs_ok].
    - (* inline *)
      intros cond dirs sub e IH stack s' VS. rewrite ti_sel_inline_eq. cbv zeta.
      assert (Fin : forall sc ss', Forall vsc (sc :: stack) -> ti_ss q S F (sc :: stack) sub = Some ss' ->
                ok (tree_sel (SInline cond (map (ti_dir q S) dirs) ss' e))).
      { intros sc ss' VS' TS. cbn [tree_sel]. apply nodes_ok_T. split; [exact I|].
        apply Forall_app_ok; [apply opt_tree_ok; intros x _; unfold tree_named_type; apply nodes_ok_T; split; [exact I|]; constructor; [apply ok_name | constructor]|].
        apply Forall_app_ok; [apply ti_dirs_ok|]. constructor; [|constructor]. apply (IH _ ss' VS' TS). }
      destruct cond as [[tn tp]|].
      + destruct (named_type S F tn) as [b|] eqn:NT.
        * match goal with |- context [ti_ss q S F ?st0 sub] => destruct (ti_ss q S F st0 sub) as [ss'|] eqn:TS end; [|discriminate]. intro H; inversion H; subst s'.
          eapply Fin; [|exact TS]. constructor; [|exact VS]. simpl. eapply named_type_visible; eauto.
        * match goal with |- context [ti_ss q S F ?st0 sub] => destruct (ti_ss q S F st0 sub) as [ss'|] eqn:TS end; [|discriminate]. intro H; inversion H; subst s'.
          eapply Fin; [|exact TS]. constructor; [exact I | exact VS].
      + destruct stack as [|top rest]; [discriminate|].
        match goal with |- context [ti_ss q S F ?st0 sub] => destruct (ti_ss q S F st0 sub) as [ss'|] eqn:TS end; [|discriminate]. intro H; inversion H; subst s'.
        eapply Fin; [|exact TS]. constructor; [inversion VS; assumption | exact VS].
    - (* selection set *)
      intros a sels p IH stack ss' VS. rewrite ti_ss_eq.
      destruct stack as [|top rest]; [discriminate|].
      destruct (seq_opt (map (ti_sel q S F (top :: top :: rest)) sels)) as [sels'|] eqn:SO; [|discriminate].
      intro H; inversion H; subst ss'. cbn [tree_ss]. apply nodes_ok_T.
      split; [cbn [wa_node ss_ann]; inversion VS; assumption|].
      apply seq_opt_Forall2 in SO. apply Forall_map_ok. intros s' Hs'.
      assert (VS2 : Forall vsc (top :: top :: rest)) by (constructor; [inversion VS; assumption | exact VS]).
      clear H. revert sels' SO Hs'. induction sels as [|s0 r IHr]; intros sels' SO Hs'.
      + inversion SO; subst. contradiction.
      + cbn [map] in SO. inversion SO as [|o a0 l l' Ho Hl]; subst.
        inversion IH as [|x l0 P0 Pr]; subst.
        destruct Hs' as [Hs' | Hs'].
        * subst. apply (P0 _ _ VS2 Ho).
        * apply (IHr Pr l' Hl Hs').
  Qed.

  Lemma ty_ok t : ok (tree_ty t).
  Proof.
    induction t; cbn [tree_ty]; apply nodes_ok_T; (split; [exact I|]);
      (constructor; [|constructor]); auto; apply ok_name.
  Qed.

  Lemma ti_vardef_ok q v : ok (tree_vardef (ti_vardef q S F v)).
  Proof.
    unfold tree_vardef, ti_vardef. cbn [vd_name vd_dollar vd_npos vd_type vd_default vd_ann].
    destruct (schema_type_erase S F G Hok HFG (vd_type v)) as [_ TV].
    assert (Vt : vty (schema_type S F (vd_type v))).
    { destruct (schema_type S F (vd_type v)) as [y|] eqn:ST; [|exact I]. simpl. apply (TV y eq_refl). }
    apply nodes_ok_T. split; [exact Vt|].
    apply Forall_app_ok.
    - constructor; [|constructor; [apply ty_ok | constructor]].
      cbn [tree_value]. apply nodes_ok_T. split; [exact I|]. constructor; [apply ok_name | constructor].
    - apply opt_tree_ok. intros x Hx. destruct (vd_default v) as [x0|]; [|discriminate].
      inversion Hx; subst x. unfold ti_value. apply ti_value_ok. exact Vt.
  Qed.

  Lemma ti_def_ok q d d' : ti_def q S F [None] d = Some d' -> ok (tree_def d').
  Proof.
    destruct (vok_parts S Hok) as [_ [_ [Rq [Rm [Rs _]]]]].
    destruct (root_keep S F _ Rq) as [_ Vq]. destruct (root_keep S F _ Rm) as [_ Vm]. destruct (root_keep S F _ Rs) as [_ Vs].
    destruct d as [ot n vars dirs sub | kw n np cond dirs sub]; cbn [ti_def].
    - match goal with |- match ti_ss q S F (?sc :: _) sub with _ => _ end = _ -> _ => set (sc0 := sc) end.
      assert (Vsc : vsc sc0).
      { unfold sc0. destruct ot as [[v vp]|]; [|exact Vq].
        destruct (name_eqb v n_query); [exact Vq|].
        destruct (name_eqb v n_mutation); [exact Vm|].
        destruct (name_eqb v n_subscription); [exact Vs | exact I]. }
      destruct (ti_ss q S F (sc0 :: [None]) sub) as [sub'|] eqn:TS; [|discriminate].
      intro H; inversion H; subst d'. cbn [tree_def]. apply nodes_ok_T. split; [exact I|].
      apply Forall_app_ok; [apply opt_tree_ok; intros; apply nodes_ok_leaf; exact I|].
      apply Forall_app_ok; [apply opt_tree_ok; intros; apply ok_name|].
      apply Forall_app_ok; [rewrite map_map; apply Forall_map_ok; intros v _; apply ti_vardef_ok|].
      apply Forall_app_ok; [apply ti_dirs_ok|]. constructor; [|constructor].
      eapply (proj2 (ti_sel_ss_ok q) sub); [|exact TS].
      constructor; [exact Vsc | constructor; [exact I | constructor]].
    - match goal with |- match ti_ss q S F (?sc :: _) sub with _ => _ end = _ -> _ => set (sc0 := sc) end.
      assert (Vsc : vsc sc0).
      { unfold sc0. destruct (named_type S F (fst cond)) as [b|] eqn:NT; [|exact I].
        simpl. eapply named_type_visible; eauto. }
      destruct (ti_ss q S F (sc0 :: [None]) sub) as [sub'|] eqn:TS; [|discriminate].
      intro H; inversion H; subst d'. cbn [tree_def]. apply nodes_ok_T. split; [exact I|].
      constructor; [apply ok_name|].
      apply Forall_app_ok; [apply ti_dirs_ok|]. constructor; [|constructor].
      eapply (proj2 (ti_sel_ss_ok q) sub); [|exact TS].
      constructor; [exact Vsc | constructor; [exact I | constructor]].
  Qed.

  (** every slot of the document NewTypeInfo annotated holds only types visible to F *)
  Theorem type_info_nodes_ok q D A : type_info q S F D = Some A -> ok (tree_doc A).
  Proof.
    unfold type_info. intro H. apply seq_opt_Forall2 in H.
    unfold tree_doc. apply nodes_ok_T. split; [exact I|]. apply Forall_map_ok. intros d' Hd'.
    revert A H Hd'. induction D as [|d r IH]; intros A H Hd'.
    - inversion H; subst. contradiction.
    - cbn [map] in H. inversion H as [|o a0 l l' Ho Hl]; subst.
      destruct Hd' as [Hd' | Hd']; [subst; eapply ti_def_ok; eauto | eapply IH; eauto].
  Qed.
End Rules.
